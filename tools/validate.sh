#!/bin/sh
# validates MANIFEST.json and every evidence file against the schemas
python3-vt - <<'PY'
import json,jsonschema,glob,sys
ok=True
try:
    jsonschema.validate(json.load(open('/verif/MANIFEST.json')),json.load(open('/root/.vp/MANIFEST.schema.json')))
except Exception as e:
    ok=False; print("MANIFEST invalid:",str(e)[:300])
es=json.load(open('/root/.vp/EVIDENCE.schema.json'))
for f in sorted(glob.glob('/verif/evidence/*.json')):
    try: jsonschema.validate(json.load(open(f)),es)
    except Exception as e:
        ok=False; print(f,"invalid:",str(e)[:300])
print("valid" if ok else "INVALID")
PY
