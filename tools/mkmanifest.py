#!/usr/bin/env python3
"""Regenerates /verif/MANIFEST.json from harness/<id>/check.json files (single source of truth per check)."""
import json, os, subprocess
V = os.path.dirname(os.path.dirname(os.path.abspath(__file__)))
props = [json.loads(l) for l in open(os.path.join(V, "properties.jsonl"))]
na_reasons = {}
p = os.path.join(V, "tools", "not_applicable.json")
if os.path.exists(p):
    na_reasons = json.load(open(p))
checks, na = [], []
for pr in props:
    pid = pr["id"]
    cp = os.path.join(V, "harness", pid.lower(), "check.json")
    enabled = open(os.path.join(V, "tools", "enabled.txt")).read().split()
    if not os.path.exists(cp) or json.load(open(cp)).get("disabled") or pid not in enabled:
        na.append({"property_id": pid, "reason": na_reasons.get(pid, "check not built yet (work in progress; see DESIGN.md section 4 for the plan)")})
        continue
    c = json.load(open(cp))
    checks.append({
        "property_id": pid,
        "quick_cmd": "./check %s --tier quick" % pid,
        "thorough_cmd": "./check %s --tier thorough" % pid,
        "evidence_file": "/verif/evidence/%s.json" % pid,
        "replay_cmd_template": "./check %s --replay {path}" % pid,
        "engine": c.get("engine", "rt"),
        "level_claimed": {"category": c["level"], "text": c.get("level_text", ""), "design_ref": c.get("design_ref", "DESIGN.md section 4 " + pid)},
        "level_note": c.get("level_note", ""),
        "technique": c.get("technique", "runtime monitoring"),
    })
hooks_commits = subprocess.run(["git", "-C", "/repo", "log", "--format=%H %s"], capture_output=True, text=True).stdout.strip().split("\n")
src = [l.split()[0] for l in hooks_commits if "verif hook" in l]
m = {
    "version": 1,
    "setup_cmd": "cd /verif/harness && GOFLAGS=-mod=mod GOPROXY=off GOTOOLCHAIN=local go1.26 test -tags verif -vet=off -run '^$' ./... >/dev/null 2>&1; GOFLAGS=-mod=mod GOPROXY=off GOTOOLCHAIN=local go1.26 build -race std >/dev/null 2>&1; true",
    "hooks": {
        "guard": "verif",
        "enable": "go build tag: checks build the harness module (replace github.com/aptpod/iscp-go => /repo) with `go1.26 test -c -tags verif`; hook files are new files carrying `//go:build verif`",
        "baseline_off_cmd": "cd /repo && go test -mod=mod -json -vet=off -count=1 -timeout 25m ./...",
        "source_commits": src,
        "add_only": True,
    },
    "engines": [
        {"name": "rt", "path": "/verif/check", "kind_free_text": "real-time execution of the library against an in-memory programmable broker / scripted transports; per-case oracles over recorded histories; Go race detector for C09", "serves_properties": [c["property_id"] for c in checks if c["engine"] == "rt"]},
        {"name": "vt", "path": "/verif/check", "kind_free_text": "virtual-time execution inside testing/synctest bubbles (go1.26): time bounds, hangs and goroutine census decided on the virtual clock", "serves_properties": [c["property_id"] for c in checks if c["engine"] == "vt"]},
        {"name": "fuzz", "path": "/verif/check", "kind_free_text": "coverage-guided native Go fuzzing with round-trip oracle", "serves_properties": [c["property_id"] for c in checks if c["engine"] == "fuzz"]},
    ],
    "checks": checks,
    "not_applicable": na,
    "notes": "All checks are runtime monitors: they execute the real library built from /repo's working tree and judge recorded executions. Evidence counts are measured per run. See DESIGN.md.",
}
json.dump(m, open(os.path.join(V, "MANIFEST.json"), "w"), indent=1)
print("checks:", [c["property_id"] for c in checks], "not_applicable:", [n["property_id"] for n in na])
