#!/bin/sh
# Soak: run every enabled check (quick tier by default) at many seeds and print only what is not silent.
# usage: tools/soak.sh [first_seed] [last_seed] [tier]
cd "$(dirname "$0")/.."
a=${1:-1}; b=${2:-10}; tier=${3:-quick}
for s in $(seq $a $b); do
  for p in $(cat tools/enabled.txt); do
    out=$(VERIF_SEED=$s ./check $p --tier $tier 2>&1); rc=$?
    if [ $rc -ne 0 ]; then echo "=== seed=$s $p rc=$rc"; echo "$out" | tail -6; fi
  done
  echo "seed $s done $(date +%H:%M:%S)"
done
