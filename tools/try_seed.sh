#!/bin/bash
# Confirms a seeded change and runs the checks against it (never touches /repo's working tree).
# usage: tools/try_seed.sh <PROPERTY> <dir-with-patch.diff> [extra checks...]
# Steps: scratch worktree of /repo HEAD -> apply patch -> build -> existing test suite -> our check(s) with
# VERIF_REPO_DIR -> remove the worktree. Prints a summary line per step.
set -u
P=$1; D=$2; shift 2; EXTRA="$@"
export GOFLAGS=-mod=mod GOPROXY=off
WT=$(mktemp -d /tmp/try-seed-XXXX); rmdir $WT
git -C /repo worktree add -f $WT HEAD -q || exit 2
trap 'git -C /repo worktree remove --force $WT >/dev/null 2>&1; rm -rf $WT' EXIT
if ! git -C $WT apply --whitespace=nowarn "$D/patch.diff" 2>/tmp/try-apply.err; then
  if ! (cd $WT && patch -p1 --no-backup-if-mismatch < "$D/patch.diff" >/tmp/try-apply.err 2>&1); then echo "APPLY: FAILED $(head -3 /tmp/try-apply.err)"; exit 3; fi
fi
echo "APPLY: ok ($(git -C $WT diff --stat | tail -1))"
(cd $WT && go build ./... && go build -tags verif ./... ) >/tmp/try-build.log 2>&1 || { echo "BUILD: FAILED"; tail -5 /tmp/try-build.log; exit 4; }
echo "BUILD: ok"
if [ -z "${SKIP_SUITE:-}" ]; then
  fails=""
  for i in 1 2 3; do
    out=$(cd $WT && go test -vet=off -count=1 -timeout 20m ./... 2>&1 | grep -E "^(FAIL|--- FAIL|panic)" | head -8)
    if [ -z "$out" ]; then fails=""; break; else fails="$out"; fi
  done
  if [ -z "$fails" ]; then echo "SUITE: pass"; else echo "SUITE: FAILS (twice): $fails"; fi
fi
for c in $P $EXTRA; do
  out=$(cd /verif && VERIF_REPO_DIR=$WT VERIF_SCRATCH=/tmp ./check $c 2>&1); rc=$?
  echo "CHECK $c: exit $rc :: $(echo "$out" | grep -c '^VIOLATION') violation line(s) :: $(echo "$out" | grep -m2 -o 'key=[^ ]*' | tr '\n' ' ') :: $(echo "$out" | tail -1)"
done
