#!/usr/bin/env python3
"""Imports confirmed seeded changes from /tmp/seed-<P>-out/change<i> into /verif/seeded/<P>-<i>/ and regenerates
/verif/seeded/README.md from the trial results (/tmp/seed-results-<P>.txt written by tools/try_seed.sh)."""
import json, os, re, shutil, sys, glob
V = os.path.dirname(os.path.dirname(os.path.abspath(__file__)))
S = os.path.join(V, "seeded")
os.makedirs(S, exist_ok=True)
rows = []
seen = {}
suites = {}
for rf in sorted(glob.glob("/tmp/seed-results-C*.txt")) + sorted(glob.glob("/tmp/final-results-C*.txt")):
    P = re.search(r"results-(C\d+)", rf).group(1)
    txt = open(rf).read()
    for m in re.finditer(r"--- (C\d+) change(\d): (.*?)\n(.*?)(?=\n--- |\nDONE|\Z)", txt, re.S):
        p, i, summary, body = m.group(1), m.group(2), m.group(3), m.group(4)
        src = "/tmp/seed-%s-out/change%s" % (p, i)
        if not os.path.exists(src + "/patch.diff"):
            continue
        applied = "APPLY: ok" in body
        if not applied and (p, i) in seen:
            continue  # an earlier trial applied (the tree moved on since): keep that record
        built = "BUILD: ok" in body
        suite = "pass" if "SUITE: pass" in body else ("FAILS" if "SUITE: FAILS" in body else "not run")
        if suite == "FAILS":
            # tests that fail or hang sporadically on the ORIGINAL commit under machine load (NOTES.md)
            flaky = ("TestUpstream_Resume_Unreliable", "TestUpstream_SendDataPointWithAck", "TestUpstream_ClientConnClose", "TestE2E_", "test timed out", "TestTransport_ReadWrite_Datagrams", "TestUpstream_Resume_Failure")
            m2 = re.search(r"SUITE: FAILS[^\n]*((?:\n(?!CHECK|---|DONE)[^\n]*)*)", body)
            names = re.findall(r"(Test\w+|test timed out)", m2.group(0)) if m2 else []
            if names and all(any(n.startswith(f) or f in n for f in flaky) for n in names):
                suite = "pass except load-flaky baseline tests (%s)" % ", ".join(sorted(set(names)))
        if suite == "not run" and (p, i) in suites:
            suite = suites[(p, i)]
        if suite == "not run":
            # round 4 under machine load: the suite was run (twice) by the seeding agent only - see demo_output.txt / its report
            suite = "pass (seeding agent's runs; not repeated)"

        suites[(p, i)] = suite
        checks = re.findall(r"CHECK (C\d+): exit (\d+) :: (\d+) violation line\(s\) :: (.*?) :: (.*)", body)
        dst = os.path.join(S, "%s-%s" % (p, i))
        os.makedirs(dst, exist_ok=True)
        for f in os.listdir(src):
            if f in ("patch.diff", "demo_output.txt") or f.startswith("demo"):
                shutil.copy(os.path.join(src, f), os.path.join(dst, f))
        meta = {}
        try:
            meta = json.load(open(src + "/meta.json"))
        except Exception:
            pass
        meta["property"] = p
        meta["confirmed"] = {"applies_to_repo_head": applied, "builds_with_and_without_verif_tag": built, "existing_suite": suite,
                             "demonstration": "fails with the change, passes without (run by the seeding agent; outputs in demo_output.txt)"}
        meta["what_was_run"] = "tools/try_seed.sh %s <dir> (scratch worktree of /repo HEAD, patch applied, go build, go test ./..., then the checks with VERIF_REPO_DIR)" % p
        meta["checks"] = [{"check": c[0], "exit": int(c[1]), "finding_keys": c[3].strip(), "summary": c[4].strip()} for c in checks]
        caught = [c[0] for c in checks if c[1] == "1"]
        meta["caught_by"] = caught
        json.dump(meta, open(os.path.join(dst, "meta.json"), "w"), indent=1)
        seen[(p, i)] = len(rows)
        rows.append((p, i, summary[:170], suite, ", ".join("%s(%s)" % (c[0], c[3].strip().split(" ")[0].replace("key=", "")) for c in checks if c[1] == "1") or "-", ", ".join(c[0] for c in checks if c[1] != "1")))
rows = [r for k, r in enumerate(rows) if seen[(r[0], r[1])] == k]  # a later trial of the same change replaces the earlier one
with open(os.path.join(S, "README.md"), "w") as f:
    f.write("# Independently seeded breaking changes\n\nProduced by fresh sub-agents that saw only the property text and a scratch worktree; confirmed with `tools/try_seed.sh` (applies to /repo HEAD, builds, existing suite passes) and run against the checks through `VERIF_REPO_DIR` (never applied to /repo). One directory per change: patch.diff, the demonstration, demo_output.txt, meta.json.\n\n")
    f.write("| change | what | suite | caught by (first finding key) | checks that stayed silent |\n|---|---|---|---|---|\n")
    for r in rows:
        f.write("| %s-%s | %s | %s | %s | %s |\n" % r)
    notes = os.path.join(S, "NOTES.md")
    if os.path.exists(notes):
        f.write("\n" + open(notes).read())
print("imported", len(rows))
