#!/bin/sh
# Runs every enabled check (or $PROPS) once in the thorough tier and prints one summary line per check.
cd "$(dirname "$0")/.."
for p in ${PROPS:-$(cat tools/enabled.txt)}; do
  t0=$(date +%s)
  out=$(VERIF_SEED=${1:-1} ./check $p --tier thorough 2>&1); rc=$?
  echo "$p rc=$rc $(( $(date +%s) - t0 ))s :: $(echo "$out" | tail -1)"
  if [ $rc -ne 0 ]; then echo "$out" | tail -8; fi
done
