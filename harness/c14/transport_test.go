package c14

import (
	"bytes"
	"context"
	"crypto/ecdsa"
	"crypto/elliptic"
	crand "crypto/rand"
	"crypto/tls"
	"crypto/x509"
	"crypto/x509/pkix"
	"encoding/binary"
	"fmt"
	"math/big"
	"net"
	"net/http"
	"sort"
	"strings"
	"sync"
	"testing"
	"time"

	"github.com/aptpod/iscp-go/transport"
	"github.com/aptpod/iscp-go/transport/compress"
	iquic "github.com/aptpod/iscp-go/transport/quic"
	iwt "github.com/aptpod/iscp-go/transport/webtransport"
	quicgo "github.com/quic-go/quic-go"
	"github.com/quic-go/quic-go/http3"
	webtransgo "github.com/quic-go/webtransport-go"

	"verif/harness/vrun"
)

// ---------------------------------------------------------------------------------------------------
// loopback pairs
// ---------------------------------------------------------------------------------------------------

var (
	certOnce sync.Once
	srvTLS   *tls.Config
	cliTLS   *tls.Config
)

func tlsConfigs() (*tls.Config, *tls.Config) {
	certOnce.Do(func() {
		key, err := ecdsa.GenerateKey(elliptic.P256(), crand.Reader)
		if err != nil {
			panic(err)
		}
		tmpl := &x509.Certificate{
			SerialNumber: big.NewInt(1), Subject: pkix.Name{CommonName: "localhost"},
			NotBefore: time.Now().Add(-time.Hour), NotAfter: time.Now().Add(240 * time.Hour),
			KeyUsage: x509.KeyUsageDigitalSignature | x509.KeyUsageCertSign, ExtKeyUsage: []x509.ExtKeyUsage{x509.ExtKeyUsageServerAuth},
			BasicConstraintsValid: true, IsCA: true,
			DNSNames: []string{"localhost"}, IPAddresses: []net.IP{net.ParseIP("127.0.0.1")},
		}
		der, err := x509.CreateCertificate(crand.Reader, tmpl, tmpl, &key.PublicKey, key)
		if err != nil {
			panic(err)
		}
		cert, _ := x509.ParseCertificate(der)
		pool := x509.NewCertPool()
		pool.AddCert(cert)
		srvTLS = &tls.Config{Certificates: []tls.Certificate{{Certificate: [][]byte{der}, PrivateKey: key}}}
		cliTLS = &tls.Config{RootCAs: pool, ServerName: "localhost"}
	})
	return srvTLS.Clone(), cliTLS.Clone()
}

// pair is one loopback connection: the library transport under observation on the receiving end, and on the
// sending end both a library transport (libSend: the real segmenter in the real Write path) and the raw datagram
// primitive of the same connection (rawSend: a peer that does not follow the segment format).
type pair struct {
	kind    string
	recv    func() ([]byte, error) // unreliable Read of the receiving library transport
	libSend func([]byte) error     // unreliable Write of the sending library transport
	rawSend func([]byte) error     // SendDatagram of the sending end's connection
	close   func()
}

func newQuicPair(comp bool) (*pair, error) {
	st, ct := tlsConfigs()
	st.NextProtos, ct.NextProtos = []string{"iscp"}, []string{"iscp"}
	qc := &quicgo.Config{EnableDatagrams: true, MaxIdleTimeout: 5 * time.Minute}
	lis, err := quicgo.ListenAddr("127.0.0.1:0", st, qc)
	if err != nil {
		return nil, err
	}
	ctx, cancel := context.WithTimeout(context.Background(), 30*time.Second)
	defer cancel()
	type acc struct {
		c   quicgo.Connection
		err error
	}
	ch := make(chan acc, 1)
	go func() {
		c, err := lis.Accept(ctx)
		ch <- acc{c, err}
	}()
	cc, err := quicgo.DialAddr(ctx, lis.Addr().String(), ct, qc)
	if err != nil {
		lis.Close()
		return nil, err
	}
	a := <-ch
	if a.err != nil {
		lis.Close()
		return nil, a.err
	}
	cfg := compress.Config{Enable: comp, Level: 6}
	// compression is only in effect when the negotiated parameters name a level (as a dialled connection's do)
	var qnp iquic.NegotiationParams
	if comp {
		qnp = iquic.NegotiationParams{NegotiationParams: transport.DialConfig{CompressConfig: cfg}.NegotiationParams()}
	}
	rt, err := iquic.New(iquic.Config{Connection: a.c, CompressConfig: cfg, NegotiationParams: qnp})
	if err != nil {
		lis.Close()
		return nil, err
	}
	stp, err := iquic.New(iquic.Config{Connection: cc, CompressConfig: cfg, NegotiationParams: qnp})
	if err != nil {
		lis.Close()
		return nil, err
	}
	ru, _ := rt.AsUnreliable()
	su, _ := stp.AsUnreliable()
	return &pair{kind: "quic", recv: ru.Read, libSend: su.Write, rawSend: cc.SendDatagram,
		close: func() { stp.Close(); rt.Close(); lis.Close() }}, nil
}

func newWebTransportPair(comp bool) (*pair, error) {
	st, ct := tlsConfigs()
	st.NextProtos = []string{http3.NextProtoH3}
	ct.NextProtos = []string{http3.NextProtoH3}
	pc, err := net.ListenPacket("udp", "127.0.0.1:0")
	if err != nil {
		return nil, err
	}
	qc := &quicgo.Config{EnableDatagrams: true, MaxIdleTimeout: 5 * time.Minute}
	sv := &webtransgo.Server{CheckOrigin: func(*http.Request) bool { return true },
		H3: http3.Server{TLSConfig: st, QUICConfig: qc}}
	type acc struct {
		s   *webtransgo.Session
		err error
	}
	ch := make(chan acc, 1)
	done := make(chan struct{})
	mux := http.NewServeMux()
	mux.HandleFunc("/c14", func(w http.ResponseWriter, r *http.Request) {
		s, err := sv.Upgrade(w, r)
		ch <- acc{s, err}
		if err == nil {
			<-done
		}
	})
	sv.H3.Handler = mux
	go sv.Serve(pc)
	d := &webtransgo.Dialer{TLSClientConfig: ct, QUICConfig: qc}
	ctx, cancel := context.WithTimeout(context.Background(), 30*time.Second)
	defer cancel()
	_, cs, err := d.Dial(ctx, fmt.Sprintf("https://%s/c14", pc.LocalAddr().String()), nil)
	closeAll := func() { close(done); sv.Close(); d.Close(); pc.Close() }
	if err != nil {
		closeAll()
		return nil, err
	}
	var a acc
	select {
	case a = <-ch:
	case <-ctx.Done():
		closeAll()
		return nil, ctx.Err()
	}
	if a.err != nil {
		closeAll()
		return nil, a.err
	}
	cfg := compress.Config{Enable: comp, Level: 6}
	var wnp iwt.NegotiationParams
	if comp {
		wnp = iwt.NegotiationParams{NegotiationParams: transport.DialConfig{CompressConfig: cfg}.NegotiationParams()}
	}
	rt, err := iwt.New(iwt.Config{Connection: a.s, CompressConfig: cfg, NegotiationParams: wnp})
	if err != nil {
		closeAll()
		return nil, err
	}
	stp, err := iwt.New(iwt.Config{Connection: cs, CompressConfig: cfg, NegotiationParams: wnp})
	if err != nil {
		closeAll()
		return nil, err
	}
	ru, _ := rt.AsUnreliable()
	su, _ := stp.AsUnreliable()
	return &pair{kind: "webtransport", recv: ru.Read, libSend: su.Write, rawSend: cs.SendDatagram,
		close: func() { stp.Close(); rt.Close(); closeAll() }}, nil
}

// ---------------------------------------------------------------------------------------------------
// monitor: reader goroutine + multiset oracle
// ---------------------------------------------------------------------------------------------------

type delivery struct {
	msg []byte
	err error
}

// startReader pumps the receiving library transport's unreliable Read into a channel until it fails.
func startReader(p *pair) <-chan delivery {
	ch := make(chan delivery, 4096)
	go func() {
		defer close(ch)
		for {
			m, err := p.recv()
			if err != nil {
				ch <- delivery{err: err}
				return
			}
			ch <- delivery{msg: m}
		}
	}()
	return ch
}

type ledger struct {
	sent      map[string]int // message bytes -> times sent
	sentSegs  map[string]int
	delivered map[string]int
	order     []string
}

func newLedger() *ledger {
	return &ledger{sent: map[string]int{}, sentSegs: map[string]int{}, delivered: map[string]int{}}
}

func segsFor(l int) int {
	if l <= realPayload {
		return 1
	}
	return l/realPayload + 1
}

// judge: every delivered message equals one sent message, at most as often as it was sent.
func (l *ledger) judge(kind string, ctx map[string]any) *vrun.Result {
	for k, n := range l.delivered {
		s, ok := l.sent[k]
		if !ok {
			w := map[string]any{}
			for a, b := range ctx {
				w[a] = b
			}
			w["delivered"] = hx([]byte(k))
			w["delivered_len"] = len(k)
			// explain: is it a prefix / mixture of sent messages?
			for sk := range l.sent {
				if len(sk) > len(k) && len(k) > 0 && strings.HasPrefix(sk, k) {
					w["is_prefix_of_a_sent_message_of_len"] = len(sk)
				}
			}
			v := vrun.Violation("the unreliable Read delivered bytes that equal no sent message (partial or mixed message)", "transport-"+kind+":delivered-not-sent", w)
			return &v
		}
		if n > s {
			w := map[string]any{}
			for a, b := range ctx {
				w[a] = b
			}
			w["message"], w["sent_times"], w["delivered_times"] = hx([]byte(k)), s, n
			v := vrun.Violation("a message was delivered more often than it was sent", "transport-"+kind+":delivered-more-than-once", w)
			return &v
		}
	}
	return nil
}

// uniqueMsg builds a message of exactly n bytes that is unique within the process as far as n allows.
var uniq struct {
	sync.Mutex
	n uint64
}

func uniqueMsg(r interface{ Read([]byte) (int, error) }, n int) []byte {
	b := make([]byte, n)
	r.Read(b)
	uniq.Lock()
	uniq.n++
	id := uniq.n
	uniq.Unlock()
	var tag [8]byte
	binary.BigEndian.PutUint64(tag[:], id)
	// spread the tag over head and tail so that every segment boundary region differs between messages
	copy(b, tag[:])
	if n > 16 {
		copy(b[n-8:], tag[:])
	}
	return b
}

const (
	watchdog     = 40 * time.Second // wall clock; firing => inconclusive, never a verdict
	markerPrefix = "C14-END-MARKER-"
)

// drainUntilMarker sends end markers through the library sender until one is delivered (datagrams on loopback arrive
// in order, so everything sent before the marker has either been delivered or lost by then), collecting deliveries.
// returns "" on success, else why it stopped: "read-error:<err>" or "watchdog".
func drainUntilMarker(p *pair, ch <-chan delivery, l *ledger, caseTag string) string {
	deadline := time.After(watchdog)
	tick := time.NewTicker(15 * time.Millisecond)
	defer tick.Stop()
	i := 0
	send := func() {
		m := []byte(fmt.Sprintf("%s%s-%d", markerPrefix, caseTag, i))
		i++
		l.sent[string(m)]++
		_ = p.libSend(m)
	}
	send()
	for {
		select {
		case d, ok := <-ch:
			if !ok {
				return "read-error:closed"
			}
			if d.err != nil {
				return "read-error:" + d.err.Error()
			}
			l.delivered[string(d.msg)]++
			if bytes.HasPrefix(d.msg, []byte(markerPrefix+caseTag+"-")) {
				// collect what is already queued behind it without waiting
				for {
					select {
					case d2, ok := <-ch:
						if !ok || d2.err != nil {
							return ""
						}
						l.delivered[string(d2.msg)]++
					default:
						return ""
					}
				}
			}
		case <-tick.C:
			send()
		case <-deadline:
			return "watchdog"
		}
	}
}

// settleBeforeVerdict: a failed Read is a violation either way, but it can also be the first symptom of the process
// dying (the library's datagram goroutine closes the read channel in a deferred call and THEN re-panics). Waiting here
// does not decide anything; it only lets a dying process die while the case is still open, so that the finding is
// reported under the stable key crash:<function> instead of racing between two keys.
func settleBeforeVerdict() { time.Sleep(3 * time.Second) }

func isTimeoutText(s string) bool {
	s = strings.ToLower(s)
	return strings.Contains(s, "timeout") || strings.Contains(s, "no recent network activity")
}

// ---------------------------------------------------------------------------------------------------
// (1) good messages through the library sender
// ---------------------------------------------------------------------------------------------------

func goodSizes(r interface{ Intn(int) int }, n int) ([]int, []string) {
	P := realPayload
	var sizes []int
	var cls []string
	for i := 0; i < n; i++ {
		k := 2 + r.Intn(30)
		switch r.Intn(14) {
		case 0:
			sizes, cls = append(sizes, 0), append(cls, "0")
		case 1:
			sizes, cls = append(sizes, 1), append(cls, "1")
		case 2:
			sizes, cls = append(sizes, P-1), append(cls, "P-1")
		case 3:
			sizes, cls = append(sizes, P), append(cls, "P")
		case 4:
			sizes, cls = append(sizes, P+1), append(cls, "P+1")
		case 5:
			sizes, cls = append(sizes, 2*P), append(cls, "2P")
		case 6, 7:
			sizes, cls = append(sizes, k*P), append(cls, "kP")
		case 8:
			sizes, cls = append(sizes, k*P-1), append(cls, "kP-1")
		case 9:
			sizes, cls = append(sizes, k*P+1), append(cls, "kP+1")
		case 10:
			sizes, cls = append(sizes, 100*P+r.Intn(150*P)), append(cls, "100P..250P")
		default:
			sizes, cls = append(sizes, r.Intn(20*P)), append(cls, "random<20P")
		}
	}
	return sizes, cls
}

func runGood(c *vrun.Case, mk func(bool) (*pair, error), kind string) vrun.Result {
	r := c.Rng
	comp := c.Index%3 == 2
	p, err := mk(comp)
	if err != nil {
		return vrun.Inconcl("cannot build the loopback pair: " + err.Error())
	}
	defer p.close()
	ch := startReader(p)
	l := newLedger()
	n := 10 + r.Intn(40)
	sizes, cls := goodSizes(r, n)
	concurrent := c.Index%2 == 1 // two writers => segments of different messages interleave on the wire
	var sentBytes, sentSegs, writeErrs int64
	var mu sync.Mutex
	var firstWriteErr string
	msgs := make([][]byte, n)
	for i, s := range sizes {
		msgs[i] = uniqueMsg(r, s)
		l.sent[string(msgs[i])]++
		sentBytes += int64(s)
		sentSegs += int64(segsFor(s))
	}
	sendAll := func(from, step int) {
		for i := from; i < n; i += step {
			if err := p.libSend(msgs[i]); err != nil {
				mu.Lock()
				writeErrs++
				if firstWriteErr == "" {
					firstWriteErr = err.Error()
				}
				mu.Unlock()
			}
		}
	}
	ok, _ := vrun.Watchdog(watchdog, func() {
		if concurrent {
			var wg sync.WaitGroup
			writers := 3
			if comp {
				writers = 8 // the compressor is shared state between the writers of one transport
			}
			for w := 0; w < writers; w++ {
				wg.Add(1)
				go func(w int) { defer wg.Done(); sendAll(w, writers) }(w)
			}
			wg.Wait()
		} else {
			sendAll(0, 1)
		}
	})
	if !ok {
		return vrun.Inconcl("watchdog: the library's unreliable Write did not return within " + watchdog.String())
	}
	why := drainUntilMarker(p, ch, l, fmt.Sprint(c.Seed))
	ctx := map[string]any{"transport": kind, "compression": comp, "messages": n, "concurrent_writers": concurrent}
	if v := l.judge(kind, ctx); v != nil {
		return *v
	}
	if why != "" {
		return vrun.Inconcl(fmt.Sprintf("%s: no end marker delivered (%s), %d of %d messages delivered and all of them exact; first write error: %q", kind, why, len(l.delivered), n, firstWriteErr))
	}
	var deliveredMulti, delivered, deliveredBytes int64
	maxSegs := 0
	for k, cnt := range l.delivered {
		if strings.HasPrefix(k, markerPrefix) {
			continue
		}
		delivered += int64(cnt)
		deliveredBytes += int64(len(k) * cnt)
		if segsFor(len(k)) >= 2 {
			deliveredMulti += int64(cnt)
		}
		if segsFor(len(k)) > maxSegs {
			maxSegs = segsFor(len(k))
		}
	}
	sort.Strings(cls)
	res := vrun.Hold(fmt.Sprintf("%s comp=%v conc=%v n=%d seed=%d", kind, comp, concurrent, n, c.Seed), deliveredMulti > 0)
	res.Desc = map[string]any{"transport": kind, "compression": comp, "concurrent_writers": concurrent, "sizes": sizes}
	res.Stat(kind+":messages_sent", int64(n))
	res.Stat(kind+":messages_delivered_exact", delivered)
	res.Stat(kind+":multi_segment_messages_delivered_exact", deliveredMulti)
	res.Stat(kind+":messages_lost_on_loopback(allowed)", int64(n)-delivered)
	res.Stat(kind+":bytes_sent", sentBytes)
	res.Stat(kind+":bytes_delivered", deliveredBytes)
	res.Stat(kind+":segments_sent", sentSegs)
	res.Stat(kind+":write_errors", writeErrs)
	res.AddSet(kind+":length_class", cls...)
	res.AddSet(kind+":compression", fmt.Sprint(comp))
	res.AddSet(kind+":largest_delivered_message_segments", fmt.Sprint(maxSegs))
	if firstWriteErr != "" {
		res.AddSet(kind+":write_error", firstWriteErr)
	}
	return res
}

const ruleGood = "Case = a fresh loopback connection with datagrams enabled, the library transport on both ends (compression on for every third case), 10..49 messages with lengths from " +
	"{0,1,P-1,P,P+1,2P,kP,kP-1,kP+1 (k<=31),100P..250P,random} written through the sending transport's unreliable Write (by three concurrent writers in every second case), end markers until one is delivered. " +
	"Judged: the multiset of messages returned by the receiving transport's unreliable Read is contained in the multiset of messages written (each delivered message is byte-identical to one sent message, at most once); " +
	"loss on the UDP loopback is allowed. Non-trivial: at least one message of >= 2 segments was delivered; distinct: (compression, writers, seed). A watchdog (40 s wall clock) or a failed Read => inconclusive."

var assumeTransport = []string{
	"loss on the loopback path (quic-go drops DATAGRAM frames when its 128-frame receive queue is full) is allowed; only 'delivered => equals one sent message, at most once' is judged",
	"wall-clock watchdogs only ever produce 'inconclusive'",
}

func TestC14QuicGood(t *testing.T) {
	e := vrun.LoadEnv()
	meta := vrun.Meta{Property: "C14", Workload: "TestC14QuicGood", Total: e.Pick(60, 1000), Rule: "QUIC. " + ruleGood, Assumptions: assumeTransport}
	vrun.Loop(t, meta, 4, func(c *vrun.Case) vrun.Result { return runGood(c, newQuicPair, "quic") })
}

func TestC14WebTransportGood(t *testing.T) {
	e := vrun.LoadEnv()
	meta := vrun.Meta{Property: "C14", Workload: "TestC14WebTransportGood", Total: e.Pick(40, 600), Rule: "WebTransport. " + ruleGood, Assumptions: assumeTransport}
	vrun.Loop(t, meta, 4, func(c *vrun.Case) vrun.Result { return runGood(c, newWebTransportPair, "webtransport") })
}

// ---------------------------------------------------------------------------------------------------
// (2) a raw peer sends malformed datagrams (header present) between good messages
// ---------------------------------------------------------------------------------------------------

func runBadMix(c *vrun.Case, mk func(bool) (*pair, error), kind string) vrun.Result {
	r := c.Rng
	p, err := mk(false)
	if err != nil {
		return vrun.Inconcl("cannot build the loopback pair: " + err.Error())
	}
	defer p.close()
	ch := startReader(p)
	l := newLedger()
	n := 8 + r.Intn(20)
	var bad, badIdx, rawComplete, rawErrs, writeErrs int64
	classes := map[string]bool{}
	ok, _ := vrun.Watchdog(watchdog, func() {
		for i := 0; i < n; i++ {
			// a few bad datagrams from the raw peer
			for j := r.Intn(6); j > 0; j-- {
				var d []byte
				seq := 0x80000000 | uint32(r.Intn(1<<20))
				switch r.Intn(4) {
				case 0, 1:
					mx := uint16(r.Intn(6))
					if r.Intn(4) == 0 {
						mx = uint16(r.Intn(0xffff))
					}
					idx := mx + 1 + uint16(r.Intn(int(0xffff-mx)))
					d = hdr(seq, mx, idx, randBytes(r, r.Intn(200)))
					classes["index-beyond-count"] = true
					badIdx++
				case 2: // well-formed header, a fragment of a message whose other segments never come
					mx := uint16(1 + r.Intn(5))
					d = hdr(seq, mx, uint16(r.Intn(int(mx)+1)), randBytes(r, r.Intn(200)))
					classes["orphan-fragment"] = true
				case 3: // random bytes >= 8, only the top bit of the sequence number forced
					d = randBytes(r, 8+r.Intn(300))
					d[0] |= 0x80
					classes["random-bytes"] = true
					if binary.BigEndian.Uint16(d[4:6]) == 0 && binary.BigEndian.Uint16(d[6:8]) == 0 {
						l.sent[string(d[8:])]++ // by the format this IS a complete one-segment message
						rawComplete++
					}
				}
				bad++
				if err := p.rawSend(d); err != nil {
					rawErrs++
				}
			}
			sz, _ := goodSizes(r, 1)
			if sz[0] > 40*realPayload {
				sz[0] = 40 * realPayload
			}
			m := uniqueMsg(r, sz[0])
			l.sent[string(m)]++
			if err := p.libSend(m); err != nil {
				writeErrs++
			}
		}
	})
	if !ok {
		return vrun.Inconcl("watchdog while sending")
	}
	why := drainUntilMarker(p, ch, l, fmt.Sprint(c.Seed))
	ctx := map[string]any{"transport": kind, "bad_datagrams": bad}
	if v := l.judge(kind, ctx); v != nil {
		v.FindingKey += ":with-malformed-datagrams"
		return *v
	}
	if strings.HasPrefix(why, "read-error:") && !isTimeoutText(why) {
		settleBeforeVerdict()
		return vrun.Violation("after malformed datagrams the receiving transport's unreliable Read fails instead of the datagrams being discarded: "+why,
			"transport-"+kind+":malformed:read-fails", map[string]any{"transport": kind, "read": why, "bad_datagrams_sent": bad})
	}
	if why != "" {
		return vrun.Inconcl(kind + ": no end marker delivered (" + why + ")")
	}
	var delivered int64
	for k, cnt := range l.delivered {
		if !strings.HasPrefix(k, markerPrefix) {
			delivered += int64(cnt)
		}
	}
	var cl []string
	for k := range classes {
		cl = append(cl, k)
	}
	sort.Strings(cl)
	res := vrun.Hold(fmt.Sprintf("%s badmix seed=%d", kind, c.Seed), badIdx > 0 && delivered > 0)
	res.Desc = map[string]any{"transport": kind, "good_messages": n, "bad_datagrams": bad, "classes": cl}
	res.Stat(kind+":malformed_datagrams_sent_by_raw_peer", bad)
	res.Stat(kind+":index_beyond_count_datagrams_sent", badIdx)
	res.Stat(kind+":good_messages_sent", int64(n))
	res.Stat(kind+":good_messages_delivered_exact_amid_malformed", delivered)
	res.Stat(kind+":raw_send_errors", rawErrs)
	res.AddSet(kind+":bad_class", cl...)
	return res
}

const ruleBadMix = "Case = fresh loopback connection (no compression); between 8..27 good messages written through the library sender, the raw datagram primitive of the same connection sends 0..5 bad datagrams each: " +
	"index beyond the announced count, orphan fragments, random bytes of 8..307 bytes (sequence numbers >= 2^31 so that they never share a number with a library message). Judged: process alive (a dead child is reported by the runner), " +
	"the unreliable Read does not fail, and delivered messages are contained in the sent multiset (a random datagram with maxIdx=0,idx=0 counts as a sent one-segment message). Non-trivial: at least one index-beyond-count datagram " +
	"was sent and at least one good message was delivered afterwards (the end marker is one); distinct: seed."

func TestC14QuicMalformed(t *testing.T) {
	e := vrun.LoadEnv()
	meta := vrun.Meta{Property: "C14", Workload: "TestC14QuicMalformed", Total: e.Pick(40, 800), Rule: "QUIC. " + ruleBadMix, Assumptions: assumeTransport}
	vrun.Loop(t, meta, 4, func(c *vrun.Case) vrun.Result { return runBadMix(c, newQuicPair, "quic") })
}

func TestC14WebTransportMalformed(t *testing.T) {
	e := vrun.LoadEnv()
	meta := vrun.Meta{Property: "C14", Workload: "TestC14WebTransportMalformed", Total: e.Pick(24, 400), Rule: "WebTransport. " + ruleBadMix, Assumptions: assumeTransport}
	vrun.Loop(t, meta, 4, func(c *vrun.Case) vrun.Result { return runBadMix(c, newWebTransportPair, "webtransport") })
}

// ---------------------------------------------------------------------------------------------------
// (3) a raw peer sends a datagram shorter than the header: the receiving process must stay alive.
// Own workloads: the unchanged library is expected to die here (the runner reports the dead child as crash:<function>).
// ---------------------------------------------------------------------------------------------------

func runShort(c *vrun.Case, mk func(bool) (*pair, error), kind string) vrun.Result {
	n := c.Index % 8 // datagram length 0..7
	content := []string{"zero", "random", "ff"}[(c.Index/8)%3]
	p, err := mk(false)
	if err != nil {
		return vrun.Inconcl("cannot build the loopback pair: " + err.Error())
	}
	defer p.close()
	ch := startReader(p)
	l := newLedger()
	// phase 1: the path works (a good multi-segment message arrives)
	if why := drainUntilMarker(p, ch, l, fmt.Sprintf("%d-pre", c.Seed)); why != "" {
		return vrun.Inconcl(kind + ": path not working before the short datagram: " + why)
	}
	var d []byte
	switch content {
	case "zero":
		d = make([]byte, n)
	case "ff":
		d = bytes.Repeat([]byte{0xff}, n)
	default:
		d = randBytes(c.Rng, n)
	}
	if err := p.rawSend(d); err != nil {
		return vrun.Inconcl(fmt.Sprintf("%s: the raw peer could not send a %d-byte datagram: %v", kind, n, err))
	}
	// phase 2: good messages keep arriving (the process must still be here to see it)
	big := uniqueMsg(c.Rng, 3*realPayload+17)
	l.sent[string(big)]++
	_ = p.libSend(big)
	why := drainUntilMarker(p, ch, l, fmt.Sprintf("%d-post", c.Seed))
	ctx := map[string]any{"transport": kind, "short_datagram": hx(d), "len": n}
	if v := l.judge(kind, ctx); v != nil {
		v.FindingKey += ":after-short-datagram"
		return *v
	}
	if strings.HasPrefix(why, "read-error:") && !isTimeoutText(why) {
		settleBeforeVerdict()
		return vrun.Violation("after a datagram shorter than the header the receiving transport's unreliable Read fails instead of the datagram being discarded: "+why,
			"transport-"+kind+":short-datagram:read-fails", map[string]any{"transport": kind, "len": n, "read": why})
	}
	if why != "" {
		return vrun.Inconcl(kind + ": no end marker delivered after the short datagram (" + why + ")")
	}
	res := vrun.Hold(fmt.Sprintf("%s short len=%d %s", kind, n, content), true)
	res.Desc = ctx
	res.Stat(kind+":short_datagrams_survived", 1)
	res.AddSet(kind+":short_length_survived", fmt.Sprint(n))
	return res
}

const ruleShort = "Case = (datagram length 0..7, content zero/random/0xff). Fresh loopback connection; after a good message has been delivered the raw datagram primitive sends one datagram shorter than the 8-byte header; " +
	"then a 4-segment message and end markers are written through the library sender. Judged: the process is still alive (the runner reports a dead child as crash:<function>), the unreliable Read does not fail, " +
	"a good message is delivered afterwards and everything delivered equals a sent message. Cases run sequentially (a crash is attributed to the running case). Non-trivial: every completed case; distinct: (length, content)."

func TestC14QuicShortDatagram(t *testing.T) {
	e := vrun.LoadEnv()
	meta := vrun.Meta{Property: "C14", Workload: "TestC14QuicShortDatagram", Total: e.Pick(8, 12), Exhaustive: true, Rule: "QUIC. " + ruleShort, Assumptions: assumeTransport}
	vrun.Loop(t, meta, 1, func(c *vrun.Case) vrun.Result { return runShort(c, newQuicPair, "quic") })
}

func TestC14WebTransportShortDatagram(t *testing.T) {
	e := vrun.LoadEnv()
	meta := vrun.Meta{Property: "C14", Workload: "TestC14WebTransportShortDatagram", Total: e.Pick(8, 12), Exhaustive: true, Rule: "WebTransport. " + ruleShort, Assumptions: assumeTransport}
	vrun.Loop(t, meta, 1, func(c *vrun.Case) vrun.Result { return runShort(c, newWebTransportPair, "webtransport") })
}

// ---------------------------------------------------------------------------------------------------------------------
// Slow segments: a peer whose segments of one message arrive seconds apart (congested path). A transport built from the
// default configuration keeps an incomplete message for its default expiry (10 s), so gaps of 1-3 s must not cost it.

const ruleSlow = "Case = gap between the first and the remaining segments of a hand-segmented 3-segment message (1.3 s / 2.6 s, i.e. across one / two sweeps of the 1 s expiry sweeper) x order (in order / last segment first). " +
	"Fresh loopback connection whose transports are built from the default configuration (no expiry configured); the raw datagram primitive sends the segments with the gap, then end markers go through the library sender. " +
	"Judged: the message is handed up exactly once, intact. Non-trivial: every completed case; distinct: (gap, order)."

func runSlowSegments(c *vrun.Case, mk func(bool) (*pair, error), kind string) vrun.Result {
	gap := []time.Duration{1300 * time.Millisecond, 2600 * time.Millisecond}[c.Index%2]
	lastFirst := (c.Index/2)%2 == 1
	p, err := mk(false)
	if err != nil {
		return vrun.Inconcl("cannot build the loopback pair: " + err.Error())
	}
	defer p.close()
	ch := startReader(p)
	l := newLedger()
	if why := drainUntilMarker(p, ch, l, fmt.Sprintf("%d-pre", c.Seed)); why != "" {
		return vrun.Inconcl(kind + ": path not working before the slow message: " + why)
	}
	ctx := map[string]any{"transport": kind, "gap": gap.String(), "last_segment_first": lastFirst}
	// a datagram may be lost even on loopback: the slow message is tried up to three times (fresh content and sequence
	// number each time); it counts as lost by the receiver only if none of the three is handed up
	delivered, attempts := false, 0
	for attempts < 3 && !delivered {
		attempts++
		parts := [][]byte{uniqueMsg(c.Rng, 300), uniqueMsg(c.Rng, 300), uniqueMsg(c.Rng, 120)}
		whole := append(append(append([]byte(nil), parts[0]...), parts[1]...), parts[2]...)
		l.sent[string(whole)]++
		seq := 0x80000000 | uint32(c.Rng.Intn(1<<20))
		order := []int{0, 1, 2}
		if lastFirst {
			order = []int{2, 0, 1}
		}
		for k, idx := range order {
			if err := p.rawSend(hdr(seq, 2, uint16(idx), parts[idx])); err != nil {
				return vrun.Inconcl(fmt.Sprintf("%s: the raw peer could not send segment %d: %v", kind, idx, err))
			}
			if k == 0 {
				time.Sleep(gap)
			}
		}
		why := drainUntilMarker(p, ch, l, fmt.Sprintf("%d-post-%d", c.Seed, attempts))
		if v := l.judge(kind, ctx); v != nil {
			v.FindingKey += ":slow-segments"
			return *v
		}
		if why != "" {
			return vrun.Inconcl(kind + ": no end marker delivered after the slow message (" + why + ")")
		}
		delivered = l.delivered[string(whole)] == 1
	}
	if !delivered {
		ctx["attempts"] = attempts
		return vrun.Violation("a message whose segments arrived seconds apart - well within the default expiry - was never handed up although later messages were", "transport-"+kind+":slow-message-forgotten", ctx)
	}
	res := vrun.Hold(fmt.Sprintf("%s slow gap=%v lastFirst=%v", kind, gap, lastFirst), true)
	res.Desc = ctx
	res.Stat(kind+":slow_messages_reassembled", 1)
	res.Stat(kind+":slow_message_attempts", int64(attempts))
	return res
}

func TestC14QuicSlowSegments(t *testing.T) {
	e := vrun.LoadEnv()
	meta := vrun.Meta{Property: "C14", Workload: "TestC14QuicSlowSegments", Total: e.Pick(4, 40), Rule: "QUIC. " + ruleSlow, Assumptions: assumeTransport}
	vrun.Loop(t, meta, 4, func(c *vrun.Case) vrun.Result { return runSlowSegments(c, newQuicPair, "quic") })
}

func TestC14WebTransportSlowSegments(t *testing.T) {
	e := vrun.LoadEnv()
	meta := vrun.Meta{Property: "C14", Workload: "TestC14WebTransportSlowSegments", Total: e.Pick(4, 40), Rule: "WebTransport. " + ruleSlow, Assumptions: assumeTransport}
	vrun.Loop(t, meta, 4, func(c *vrun.Case) vrun.Result { return runSlowSegments(c, newWebTransportPair, "webtransport") })
}
