// Package c14 decides property C14 ("Datagram messages are reassembled exactly or not at all") by running
// the library's real segmenter (internal/segment.SendTo), the real reassembly buffer
// (internal/segment.ReadBuffers) and the real QUIC / WebTransport transports.
//
// segment_test.go: segment-level workloads (sender composed with receiver, no network).
// transport_test.go: loopback QUIC / WebTransport workloads.
package c14

import (
	"bytes"
	"encoding/binary"
	"fmt"
	"hash/fnv"
	"math/rand"
	"sort"
	"strings"
	"sync"
	"testing"
	"time"

	vh "github.com/aptpod/iscp-go/verifhooks"

	"verif/harness/vrun"
)

const realPayload = 1188 // maxDatagramFrameSize(1196) - 8, internal/segment/package.go

// ---------------------------------------------------------------------------------------------------
// shared helpers
// ---------------------------------------------------------------------------------------------------

// capture is the segment.Sender the harness hands to SendTo: it records every datagram.
type capture struct {
	dgrams [][]byte
	failAt int // <0: never fail
}

func (c *capture) SendDatagram(b []byte) error {
	if c.failAt >= 0 && len(c.dgrams) == c.failAt {
		return fmt.Errorf("capture: injected send failure")
	}
	cp := make([]byte, len(b))
	copy(cp, b)
	c.dgrams = append(c.dgrams, cp)
	return nil
}

type message struct {
	seq  uint32
	data []byte
	segs [][]byte
}

// split runs the library's SendTo into a capturing sender.
func split(seq uint32, data []byte) (message, error) {
	cp := &capture{failAt: -1}
	_, err := vh.SegmentSendTo(cp, seq, data)
	return message{seq: seq, data: data, segs: cp.dgrams}, err
}

func newBuffers(expiry time.Duration) *vh.SegmentReadBuffers {
	return &vh.SegmentReadBuffers{ReadBuffer: map[uint32]*vh.SegmentReadBuffer{}, ReadBufferExpiry: expiry}
}

// recvSafe calls Receive and converts a panic into a value (the statement demands "without crashing").
func recvSafe(rb *vh.SegmentReadBuffers, bs []byte) (m []byte, ok bool, err error, pan any) {
	defer func() {
		if r := recover(); r != nil {
			pan = r
			// the library's deferred Unlock has run (defer t.Unlock()), nothing to repair here
		}
	}()
	m, ok, err = rb.Receive(bs)
	return
}

func held(rb *vh.SegmentReadBuffers) map[uint32]bool {
	rb.Lock()
	defer rb.Unlock()
	r := map[uint32]bool{}
	for k := range rb.ReadBuffer {
		r[k] = true
	}
	return r
}

type item struct {
	M int `json:"msg"` // message index
	S int `json:"seg"` // segment index
}

func hx(b []byte) string {
	if len(b) > 48 {
		return fmt.Sprintf("%x...(%d bytes)", b[:48], len(b))
	}
	return fmt.Sprintf("%x", b)
}

func hash64(b []byte) uint64 {
	h := fnv.New64a()
	h.Write(b)
	return h.Sum64()
}

// feedJudge feeds an arrival order of well-formed, non-duplicated segments into rb and judges every
// Receive result against the model "a message is handed up, byte-exact, by exactly the call that brings its last missing
// segment, and by no other call". got counts segments received so far per message (updated in place).
// It returns a violation or nil. receives/handed are counters for the evidence.
type feedStats struct{ receives, handed, handedBytes int64 }

func feedJudge(rb *vh.SegmentReadBuffers, msgs []message, order []item, got []int, st *feedStats, ctx func() map[string]any) *vrun.Result {
	for step, it := range order {
		seg := msgs[it.M].segs[it.S]
		m, ok, err, pan := recvSafe(rb, seg)
		st.receives++
		if pan != nil {
			w := ctx()
			w["step"], w["segment"], w["panic"] = step, hx(seg), fmt.Sprint(pan)
			v := vrun.Violation("Receive panics on a well-formed segment", "reassembly:panic-on-wellformed-segment", w)
			return &v
		}
		got[it.M]++
		complete := got[it.M] == len(msgs[it.M].segs)
		if ok {
			st.handed++
			st.handedBytes += int64(len(m))
		}
		switch {
		case ok && !complete:
			w := ctx()
			w["step"], w["order"] = step, order[:step+1]
			w["handed_up"], w["segments_received_of_that_message"], w["segments_total"] = hx(m), got[it.M], len(msgs[it.M].segs)
			kind := "partial-or-mixed"
			for _, o := range msgs {
				if bytes.Equal(o.data, m) && len(o.data) > 0 {
					kind = "original-but-early"
				}
			}
			v := vrun.Violation("a message is handed up while one of its segments is still missing", "reassembly:handed-up-with-segment-missing:"+kind, w)
			return &v
		case !ok && complete:
			w := ctx()
			w["step"], w["order"], w["err"] = step, order[:step+1], fmt.Sprint(err)
			v := vrun.Violation("all segments of a message are in and nothing is handed up", "reassembly:complete-not-handed-up", w)
			return &v
		case ok && complete && !bytes.Equal(m, msgs[it.M].data):
			w := ctx()
			w["step"], w["order"] = step, order[:step+1]
			w["handed_up"], w["original"] = hx(m), hx(msgs[it.M].data)
			v := vrun.Violation("the bytes handed up differ from the original message", "reassembly:bytes-differ", w)
			return &v
		}
	}
	return nil
}

// nextPerm advances p to the next permutation in lexicographic order; false after the last one.
func nextPerm(p []int) bool {
	i := len(p) - 2
	for i >= 0 && p[i] >= p[i+1] {
		i--
	}
	if i < 0 {
		return false
	}
	j := len(p) - 1
	for p[j] <= p[i] {
		j--
	}
	p[i], p[j] = p[j], p[i]
	for l, r := i+1, len(p)-1; l < r; l, r = l+1, r-1 {
		p[l], p[r] = p[r], p[l]
	}
	return true
}

func fact(n int) int64 {
	r := int64(1)
	for i := 2; i <= n; i++ {
		r *= int64(i)
	}
	return r
}

// orderedSubsets(n) = number of ordered arrangements of subsets of n items = sum_k n!/(n-k)!.
func orderedSubsets(n int) int64 {
	var s int64
	for k := 0; k <= n; k++ {
		s += fact(n) / fact(n-k)
	}
	return s
}

// lenForSegments returns a message length that the library splits into n segments for payload size P.
// variant 0: smallest such length ((n-1)*P, an exact multiple of the payload size for n >= 3; for n == 2 it is P+1
// because a message of exactly P bytes travels in one segment), variant 1: largest (n*P-1, or P for n == 1),
// variant 2: in between.
func lenForSegments(n, P, variant int) int {
	lo, hi := (n-1)*P, n*P-1
	if n == 1 {
		lo, hi = 0, P
	}
	if n == 2 {
		lo = P + 1
	}
	if hi < lo {
		hi = lo
	}
	switch variant {
	case 0:
		return lo
	case 1:
		return hi
	default:
		return (lo + hi + 1) / 2
	}
}

func randBytes(r *rand.Rand, n int) []byte {
	b := make([]byte, n)
	r.Read(b)
	return b
}

// compositions returns all ordered tuples of m positive integers with sum <= maxSum and each part <= maxPart.
func compositions(m, maxSum, maxPart int) [][]int {
	var res [][]int
	var rec func(cur []int, sum int)
	rec = func(cur []int, sum int) {
		if len(cur) == m {
			res = append(res, append([]int(nil), cur...))
			return
		}
		for k := 1; k <= maxPart && sum+k+(m-len(cur)-1) <= maxSum; k++ {
			rec(append(cur, k), sum+k)
		}
	}
	rec(nil, 0)
	return res
}

var seqBases = []uint32{0, 1, 0x7fffffff, 0xfffffffe, 0xffffffff, 0x00010000, 0xfffffffd}

// ---------------------------------------------------------------------------------------------------
// exhaustive core
// ---------------------------------------------------------------------------------------------------

type exCase struct {
	lens    []int
	seqBase uint32
	stride  uint32 // distance between the sequence numbers of the in-flight messages
	variant string
}

var strides = []uint32{1, 1, 0x10000, 0x01000000, 0x7fffffff}

// exhaustiveCases builds the case list: (a) every single message length that yields 1..6 segments,
// (b) every ordered tuple of 2 and 3 segment counts (each 1..6) with at most maxTotal segments in flight,
// in three length variants (smallest = exact multiple of the payload, largest, middle) plus one mixed variant.
func exhaustiveCases(P, maxTotal int, allSingles bool, topVariants []int) []exCase {
	var cs []exCase
	if allSingles {
		for l := 0; l <= 6*P-1; l++ {
			cs = append(cs, exCase{lens: []int{l}, seqBase: seqBases[l%len(seqBases)], variant: "single"})
		}
	} else {
		for n := 1; n <= 6; n++ {
			for v := 0; v < 3; v++ {
				cs = append(cs, exCase{lens: []int{lenForSegments(n, P, v)}, seqBase: seqBases[(n+v)%len(seqBases)], variant: "single"})
			}
			if n >= 2 {
				cs = append(cs, exCase{lens: []int{lenForSegments(n, P, 0) + 1}, seqBase: seqBases[n%len(seqBases)], variant: "single"})
			}
		}
	}
	k := 0
	for m := 2; m <= 3; m++ {
		for _, comp := range compositions(m, maxTotal, 6) {
			sum := 0
			for _, n := range comp {
				sum += n
			}
			for v := 0; v < 4; v++ {
				if sum == maxTotal && !containsInt(topVariants, v) {
					continue // the most expensive layer (T segments in flight) runs the listed length variants only
				}
				lens := make([]int, m)
				for i, n := range comp {
					vv := v
					if v == 3 {
						vv = (i + k) % 3
					}
					lens[i] = lenForSegments(n, P, vv)
				}
				cs = append(cs, exCase{lens: lens, seqBase: seqBases[k%len(seqBases)], stride: strides[(k/len(seqBases))%len(strides)], variant: []string{"min", "max", "mid", "mixed"}[v]})
				k++
			}
		}
	}
	return cs
}

func containsInt(xs []int, x int) bool {
	for _, y := range xs {
		if y == x {
			return true
		}
	}
	return false
}

// runExhaustive enumerates EVERY permutation of the union of all segments of the case's messages, feeds each one
// to a fresh ReadBuffers and judges every single Receive call. Every ordered arrangement of every proper subset
// (= every loss pattern in every arrival order and every interleaving) is a prefix of one of these permutations
// and Receive is judged at every prefix, so the loss clause ("nothing is handed up while a segment is missing") is
// decided for all of them as well.
func runExhaustive(c *vrun.Case, ec exCase, P int) vrun.Result {
	msgs := make([]message, len(ec.lens))
	total := 0
	var segCounts []string
	for i, l := range ec.lens {
		data := randBytes(c.Rng, l)
		m, err := split(ec.seqBase+uint32(i)*ec.stride, data)
		if err != nil {
			return vrun.Violation("SendTo refuses a message far below the segment limit", "sender:refuses-small-message", map[string]any{"len": l, "payload_size": P, "err": err.Error()})
		}
		msgs[i] = m
		total += len(m.segs)
		segCounts = append(segCounts, fmt.Sprint(len(m.segs)))
	}
	var items []item
	for i, m := range msgs {
		for s := range m.segs {
			items = append(items, item{i, s})
		}
	}
	sums := make([]uint64, 0, total)
	for _, it := range items {
		sums = append(sums, hash64(msgs[it.M].segs[it.S]))
	}
	perm := make([]int, total)
	for i := range perm {
		perm[i] = i
	}
	order := make([]item, total)
	got := make([]int, len(msgs))
	var st feedStats
	var perms int64
	desc := map[string]any{"payload_size": P, "lens": ec.lens, "segments": segCounts, "seq_base": ec.seqBase, "seq_stride": ec.stride, "variant": ec.variant}
	for {
		for i, p := range perm {
			order[i] = items[p]
		}
		for i := range got {
			got[i] = 0
		}
		rb := newBuffers(10 * time.Second)
		before := st.handed
		if v := feedJudge(rb, msgs, order, got, &st, func() map[string]any {
			return map[string]any{"payload_size": P, "lens": ec.lens, "seq_base": ec.seqBase, "seq_stride": ec.stride}
		}); v != nil {
			return *v
		}
		if st.handed-before != int64(len(msgs)) {
			return vrun.Violation("number of messages handed up differs from the number of messages sent", "reassembly:handed-count", desc)
		}
		perms++
		if !nextPerm(perm) {
			break
		}
	}
	for i, it := range items {
		if hash64(msgs[it.M].segs[it.S]) != sums[i] {
			return vrun.Violation("Receive modified a datagram it was given", "reassembly:input-modified", desc)
		}
	}
	res := vrun.Hold(fmt.Sprintf("P=%d lens=%v seq=%d+%d", P, ec.lens, ec.seqBase, ec.stride), total >= 1 && perms == fact(total))
	res.Desc = desc
	res.Stat("permutations_run", perms)
	res.Stat("arrival_orders_with_loss_judged(prefixes)", orderedSubsets(total))
	res.Stat("receive_calls_judged", st.receives)
	res.Stat("messages_handed_up_exact", st.handed)
	res.Stat("bytes_handed_up", st.handedBytes)
	res.AddSet("segments_in_flight", fmt.Sprint(total))
	res.AddSet("messages_in_flight", fmt.Sprint(len(msgs)))
	res.AddSet("segment_count_tuple", strings.Join(segCounts, "+"))
	res.AddSet("payload_size", fmt.Sprint(P))
	for _, l := range ec.lens {
		res.AddSet("message_length", fmt.Sprint(l))
		if l > 0 && l%P == 0 {
			res.AddSet("exact_multiple_length", fmt.Sprint(l))
		}
	}
	for i := range msgs {
		res.AddSet("sequence_number", fmt.Sprint(msgs[i].seq))
	}
	return res
}

// the enumeration is CPU bound and the cases are independent (the payload size is set once per process)
const exhaustivePar = 14

const ruleExhaustive = "Case = a tuple of 1..3 message lengths (every length yielding 1..6 segments for single messages; every ordered tuple of " +
	"segment counts 1..6 with at most T segments in flight, in the variants smallest/exact-multiple, largest, middle, mixed) and a sequence-number base " +
	"(0, 1, 2^31-1, 2^32-3..2^32-1 so that tuples straddle the wrap) with a stride between the in-flight sequence numbers from {1, 2^16, 2^24, 2^31-1}. The library's SendTo produces the segments; ALL permutations of the union of the " +
	"segments are fed to fresh ReadBuffers and every Receive call is judged (handed up iff last missing segment, byte-exact). Every loss subset in every " +
	"order is a prefix of a permutation and is judged at that prefix. Non-trivial: all T! permutations were run; distinct: (payload size, lengths, seq base)."

var assumeCommon = []string{
	"'handed up' = Receive returns ok=true; an error return counts as 'nothing handed up'",
	"each datagram is passed to Receive in its own slice that the caller never reuses (as quic-go's ReceiveDatagram does); buffer reuse by the caller is not exercised",
	"duplicated segments are outside the statement's quantifier: generated only to see that nothing panics, delivery not judged",
}

func TestC14ExhaustiveSmall(t *testing.T) {
	e := vrun.LoadEnv()
	const P = 4
	restore := vh.SegmentSetMaxPayloadSize(P) // once for the whole process, before any case runs
	defer restore()
	cases := exhaustiveCases(P, e.Pick(9, 10), true, []int{0, 1, 2, 3})
	meta := vrun.Meta{Property: "C14", Workload: "TestC14ExhaustiveSmall", Total: len(cases), Exhaustive: true,
		Rule:        "payload size 4 bytes, T=" + fmt.Sprint(e.Pick(9, 10)) + ". " + ruleExhaustive,
		Assumptions: assumeCommon}
	vrun.Loop(t, meta, exhaustivePar, func(c *vrun.Case) vrun.Result {
		if vh.SegmentMaxPayloadSize() != P {
			return vrun.Inconcl("payload size override not in force")
		}
		return runExhaustive(c, cases[c.Index], P)
	})
}

func TestC14ExhaustiveReal(t *testing.T) {
	e := vrun.LoadEnv()
	P := vh.SegmentMaxPayloadSize()
	cases := exhaustiveCases(P, e.Pick(8, 9), false, []int{0, 3})
	meta := vrun.Meta{Property: "C14", Workload: "TestC14ExhaustiveReal", Total: len(cases), Exhaustive: true,
		Rule:        "the library's real payload size (1188 bytes), T=" + fmt.Sprint(e.Pick(8, 9)) + " (tuples with exactly T segments in flight: variants exact-multiple and mixed only); single messages: smallest, smallest+1, middle, largest length for each of 1..6 segments. " + ruleExhaustive,
		Assumptions: assumeCommon}
	vrun.Loop(t, meta, exhaustivePar, func(c *vrun.Case) vrun.Result {
		if P != realPayload {
			return vrun.Violation("the segment payload size is not 1196-8", "sender:payload-size-changed", map[string]any{"payload_size": P})
		}
		return runExhaustive(c, cases[c.Index], P)
	})
}

// ---------------------------------------------------------------------------------------------------
// sampled part: big messages, boundary lengths, wrap-around, many messages in flight, random loss
// ---------------------------------------------------------------------------------------------------

func TestC14Sampled(t *testing.T) {
	e := vrun.LoadEnv()
	total := e.Pick(1000, 10000)
	payloadSizes := []int{1, 2, 3, 4, 5, 7, 8, 16, 64, 255, realPayload}
	meta := vrun.Meta{Property: "C14", Workload: "TestC14Sampled", Total: total,
		Rule: "Case = payload size from {1,2,3,4,5,7,8,16,64,255,1188(real)} (cases run sequentially because the override is a package variable), 1..5 messages with lengths from the classes " +
			"{0,1,P-1,P,P+1,k*P-1,k*P,k*P+1 for random k, 65535*P-1 and 65534*P (both 65535 segments; exactly 65536 segments is TestC14SegmentLimit), random}, sequence numbers around 2^32-1 -> 0 or random, " +
			"arrival order from {in order, reversed, shuffled, round-robin interleave, message-by-message reversed} and loss from {none, first, last, one random, random 10%, random 50%, a whole message}. " +
			"Every Receive call is judged as in the exhaustive workload. Non-trivial: at least one message of >= 2 segments was completed and handed up exactly, or a lossy multi-segment message was withheld to the end; " +
			"distinct: (payload size, length classes, order, loss).",
		Assumptions: assumeCommon}
	vrun.Loop(t, meta, 1, func(c *vrun.Case) vrun.Result {
		r := c.Rng
		P := payloadSizes[c.Index%len(payloadSizes)]
		if P != realPayload {
			restore := vh.SegmentSetMaxPayloadSize(P)
			defer restore()
		}
		if vh.SegmentMaxPayloadSize() != P {
			return vrun.Inconcl("payload size override not in force")
		}
		nm := 1 + r.Intn(5)
		big := c.Index%7 == 3 // one message at the segment limit
		wrap := r.Intn(3) == 0
		seq := r.Uint32()
		if wrap {
			seq = 0xffffffff - uint32(r.Intn(nm+1)) + 1 // nm messages straddle 2^32-1 -> 0 (or start exactly at 0)
		}
		stride := uint32(1)
		if !wrap {
			stride = []uint32{1, 1, 0x100, 0x10000, 0x01000000, 0x33333333}[r.Intn(6)]
		}
		maxK := 40
		if P == realPayload {
			maxK = 12
		}
		var classes []string
		msgs := make([]message, nm)
		budget := 1 << 22 // bytes per case
		for i := range msgs {
			var l int
			var cl string
			k := 2 + r.Intn(maxK)
			switch pick := r.Intn(12); {
			case big && i == 0 && P <= 64:
				// 65535 segments (maxIdx 65534). Messages of exactly 65536 segments live in TestC14SegmentLimit.
				if r.Intn(2) == 0 || P == 1 {
					l, cl = 65535*P-1, "limit:65535P-1"
				} else {
					l, cl = 65534*P, "limit:65534P"
				}
			case pick == 0:
				l, cl = 0, "0"
			case pick == 1:
				l, cl = 1, "1"
			case pick == 2:
				l, cl = P-1, "P-1"
			case pick == 3:
				l, cl = P, "P"
			case pick == 4:
				l, cl = P+1, "P+1"
			case pick == 5 || pick == 6:
				l, cl = k*P, "kP"
			case pick == 7:
				l, cl = k*P-1, "kP-1"
			case pick == 8:
				l, cl = k*P+1, "kP+1"
			case pick == 9:
				l, cl = 2*P, "2P"
			default:
				l, cl = r.Intn(maxK*P+1), "random"
			}
			if l > budget && !strings.HasPrefix(cl, "limit") {
				l = budget
			}
			classes = append(classes, cl)
			m, err := split(seq+uint32(i)*stride, randBytes(r, l))
			if err != nil {
				return vrun.Violation("SendTo refuses a message within the segment limit", "sender:refuses-message-within-limit", map[string]any{"len": l, "payload_size": P, "err": err.Error()})
			}
			msgs[i] = m
		}
		// arrival order
		var order []item
		orderKind := []string{"in-order", "reversed", "shuffled", "round-robin", "per-message-reversed"}[r.Intn(5)]
		switch orderKind {
		case "in-order", "reversed", "shuffled":
			for i, m := range msgs {
				for s := range m.segs {
					order = append(order, item{i, s})
				}
			}
			if orderKind == "reversed" {
				for l, rr := 0, len(order)-1; l < rr; l, rr = l+1, rr-1 {
					order[l], order[rr] = order[rr], order[l]
				}
			}
			if orderKind == "shuffled" {
				r.Shuffle(len(order), func(a, b int) { order[a], order[b] = order[b], order[a] })
			}
		case "round-robin":
			for s := 0; ; s++ {
				any := false
				for i, m := range msgs {
					if s < len(m.segs) {
						order = append(order, item{i, s})
						any = true
					}
				}
				if !any {
					break
				}
			}
		case "per-message-reversed":
			for i, m := range msgs {
				for s := len(m.segs) - 1; s >= 0; s-- {
					order = append(order, item{i, s})
				}
			}
		}
		// loss
		lossKind := []string{"none", "none", "first", "last", "one-random", "random-10%", "random-50%", "whole-message"}[r.Intn(8)]
		victim := r.Intn(nm)
		lost := map[item]bool{}
		switch lossKind {
		case "first":
			lost[item{victim, 0}] = true
		case "last":
			lost[item{victim, len(msgs[victim].segs) - 1}] = true
		case "one-random":
			lost[item{victim, r.Intn(len(msgs[victim].segs))}] = true
		case "random-10%", "random-50%":
			p := 0.1
			if lossKind == "random-50%" {
				p = 0.5
			}
			for _, it := range order {
				if r.Float64() < p {
					lost[it] = true
				}
			}
		case "whole-message":
			for s := range msgs[victim].segs {
				lost[item{victim, s}] = true
			}
		}
		kept := order[:0:0]
		for _, it := range order {
			if !lost[it] {
				kept = append(kept, it)
			}
		}
		rb := newBuffers(10 * time.Second)
		got := make([]int, nm)
		var st feedStats
		desc := map[string]any{"payload_size": P, "classes": classes, "seq_first": seq, "seq_stride": stride, "order": orderKind, "loss": lossKind, "segments_sent": len(order), "segments_lost": len(lost)}
		if v := feedJudge(rb, msgs, kept, got, &st, func() map[string]any {
			w := map[string]any{}
			for k, v := range desc {
				w[k] = v
			}
			var ls []int
			for _, m := range msgs {
				ls = append(ls, len(m.data))
			}
			w["lens"] = ls
			return w
		}); v != nil {
			if len(kept) > 64 { // keep witnesses small
				if w, ok := v.Witness.(map[string]any); ok {
					delete(w, "order")
				}
			}
			return *v
		}
		multiDone, multiWithheld, maxSegs := 0, 0, 0
		for i, m := range msgs {
			if len(m.segs) > maxSegs {
				maxSegs = len(m.segs)
			}
			if len(m.segs) >= 2 {
				if got[i] == len(m.segs) {
					multiDone++
				} else if got[i] > 0 {
					multiWithheld++
				}
			}
		}
		sort.Strings(classes)
		res := vrun.Hold(fmt.Sprintf("P=%d %s %s %s wrap=%v", P, strings.Join(classes, ","), orderKind, lossKind, wrap), multiDone+multiWithheld > 0)
		res.Desc = desc
		res.Stat("receive_calls_judged", st.receives)
		res.Stat("messages_handed_up_exact", st.handed)
		res.Stat("bytes_handed_up", st.handedBytes)
		res.Stat("multi_segment_messages_completed", int64(multiDone))
		res.Stat("incomplete_messages_withheld", int64(multiWithheld))
		res.Stat("segments_lost", int64(len(lost)))
		res.AddSet("payload_size", fmt.Sprint(P))
		res.AddSet("order", orderKind)
		res.AddSet("loss", lossKind)
		res.AddSet("length_class", classes...)
		res.AddSet("messages_in_flight", fmt.Sprint(nm))
		if maxSegs == 65535 {
			res.AddSet("65535_segment_message", fmt.Sprintf("P=%d", P))
		}
		if wrap {
			res.AddSet("wrap_first_seq", fmt.Sprint(seq))
		}
		return res
	})
}

// ---------------------------------------------------------------------------------------------------
// oversize
// ---------------------------------------------------------------------------------------------------

func fillCheap(data []byte, seed int64) {
	x := uint32(seed)
	for i := 0; i+4 <= len(data); i += 4 {
		x = x*1664525 + 1013904223
		binary.LittleEndian.PutUint32(data[i:], x)
	}
}

func TestC14Oversize(t *testing.T) {
	e := vrun.LoadEnv()
	type oc struct {
		P    int
		name string
		len  func(P int) int
		must string // "refuse", "accept", "either"
	}
	var cases []oc
	for _, P := range []int{1, 2, 3, 4, 8, 16} {
		cases = append(cases,
			oc{P, "65534P", func(P int) int { return 65534 * P }, "accept"},
			oc{P, "65535P-1", func(P int) int { return 65535*P - 1 }, "accept"},
			oc{P, "65536P", func(P int) int { return 65536 * P }, "either"},
			oc{P, "65536P+1", func(P int) int { return 65536*P + 1 }, "refuse"},
			oc{P, "65537P-1", func(P int) int { return 65537*P - 1 }, "refuse"},
			oc{P, "65537P", func(P int) int { return 65537 * P }, "refuse"},
			oc{P, "65537P+1", func(P int) int { return 65537*P + 1 }, "refuse"},
			oc{P, "131072P", func(P int) int { return 131072 * P }, "refuse"},
			oc{P, "131073P+1", func(P int) int { return 131073*P + 1 }, "refuse"},
			oc{P, "200000P", func(P int) int { return 200000 * P }, "refuse"},
		)
	}
	// the real payload size: 65536*1188 = 77.9 MB
	cases = append(cases,
		oc{realPayload, "65536P+1", func(P int) int { return 65536*P + 1 }, "refuse"},
		oc{realPayload, "65537P", func(P int) int { return 65537 * P }, "refuse"},
		oc{realPayload, "65536P", func(P int) int { return 65536 * P }, "either"},
	)
	if e.Thorough() {
		cases = append(cases,
			oc{realPayload, "65535P-1", func(P int) int { return 65535*P - 1 }, "accept"},
			oc{realPayload, "131073P+1", func(P int) int { return 131073*P + 1 }, "refuse"},
		)
	}
	meta := vrun.Meta{Property: "C14", Workload: "TestC14Oversize", Total: len(cases), Exhaustive: true,
		Rule: "Case = (payload size P from {1,2,3,4,8,16,1188}, boundary length). Lengths needing more than 65536 segments under ANY split (len > 65536*P) must be refused by SendTo with an error; " +
			"lengths that the library splits into at most 65535 segments must be accepted and reassemble exactly (fed in reverse order); len = 65536*P is not judged for accept/refuse, " +
			"only for consistency (accepted => reassembles exactly; refused => whatever was sent never yields a message). Messages of exactly 65536 segments: see TestC14SegmentLimit. Non-trivial: every case; distinct: (P, length).",
		Assumptions: append([]string{
			"'refused at the sender' is read as: SendTo returns an error and whatever datagrams it emitted before the error never produce a message at a receiver (the number emitted is recorded, not judged)",
			"len = 65536*P (65536 segments under an ideal split, 65537 under the library's split which appends an empty tail segment to exact multiples) is not judged for accept/refuse",
		}, assumeCommon...)}
	vrun.Loop(t, meta, 1, func(c *vrun.Case) vrun.Result {
		oc := cases[c.Index]
		if oc.P != realPayload {
			restore := vh.SegmentSetMaxPayloadSize(oc.P)
			defer restore()
		}
		if vh.SegmentMaxPayloadSize() != oc.P {
			return vrun.Inconcl("payload size override not in force")
		}
		l := oc.len(oc.P)
		data := make([]byte, l)
		fillCheap(data, c.Seed)
		seq := uint32(c.Seed)
		m, err := split(seq, data)
		w := map[string]any{"payload_size": oc.P, "len": l, "class": oc.name, "datagrams_emitted": len(m.segs), "err": fmt.Sprint(err)}
		if err == nil && oc.must == "refuse" {
			return vrun.Violation("a message needing more than 65536 segments is accepted by SendTo", "oversize:accepted-by-SendTo", w)
		}
		if err != nil && oc.must == "accept" {
			return vrun.Violation("a message within the 65535-segment limit is refused by SendTo", "oversize:refuses-message-within-limit", w)
		}
		rb := newBuffers(10 * time.Second)
		var st feedStats
		res := vrun.Hold(fmt.Sprintf("P=%d %s", oc.P, oc.name), true)
		if err != nil {
			// refused: nothing that was emitted may ever yield a message
			for i := len(m.segs) - 1; i >= 0; i-- {
				got, ok, _, pan := recvSafe(rb, m.segs[i])
				if pan != nil || ok {
					w["handed_up"], w["panic"] = hx(got), fmt.Sprint(pan)
					return vrun.Violation("datagrams emitted for a refused message produce a message (or a panic) at the receiver", "oversize:refused-but-delivered", w)
				}
			}
			res.Stat("refused", 1)
			res.Stat("datagrams_emitted_before_refusal", int64(len(m.segs)))
			res.AddSet("refused_class", fmt.Sprintf("P=%d:%s", oc.P, oc.name))
		} else {
			order := make([]item, len(m.segs))
			for i := range order {
				order[i] = item{0, len(m.segs) - 1 - i}
			}
			got := []int{0}
			if v := feedJudge(rb, []message{m}, order, got, &st, func() map[string]any { return w }); v != nil {
				if ww, ok := v.Witness.(map[string]any); ok {
					delete(ww, "order")
				}
				return *v
			}
			res.Stat("accepted", 1)
			res.Stat("receive_calls_judged", st.receives)
			res.Stat("bytes_handed_up", st.handedBytes)
			res.AddSet("accepted_class", fmt.Sprintf("P=%d:%s(%d segments)", oc.P, oc.name, len(m.segs)))
		}
		res.Desc = w
		return res
	})
}

// TestC14SegmentLimit: messages that the library's SendTo splits into exactly 65536 segments (maxIdx = 65535, the
// largest value the 16-bit header field can carry): 65535*P <= len <= 65536*P-1. len = 65535*P is "the 65535-segment
// limit" of the statement's quantifier (an exact multiple of the payload). Whatever SendTo accepts must reassemble.
// Own workload: the unchanged library fails here.
func TestC14SegmentLimit(t *testing.T) {
	e := vrun.LoadEnv()
	type lc struct {
		P     int
		name  string
		l     int
		order string
	}
	var cases []lc
	ps := []int{1, 2, 3, 4, 8, 16}
	for _, P := range ps {
		seen := map[int]bool{}
		for _, x := range []struct {
			n string
			l int
		}{{"65535P", 65535 * P}, {"65535P+1", 65535*P + 1}, {"65536P-1", 65536*P - 1}} {
			if x.l >= 65536*P || seen[x.l] {
				continue
			}
			seen[x.l] = true
			for _, o := range []string{"in-order", "reversed", "shuffled"} {
				cases = append(cases, lc{P, x.n, x.l, o})
			}
		}
	}
	cases = append(cases, lc{realPayload, "65535P", 65535 * realPayload, "in-order"})
	if e.Thorough() {
		cases = append(cases, lc{realPayload, "65536P-1", 65536*realPayload - 1, "reversed"}, lc{realPayload, "65535P+1", 65535*realPayload + 1, "shuffled"})
	}
	meta := vrun.Meta{Property: "C14", Workload: "TestC14SegmentLimit", Total: len(cases), Exhaustive: true,
		Rule: "Case = (payload size P from {1,2,3,4,8,16,1188}, length from {65535*P, 65535*P+1, 65536*P-1} = exactly 65536 segments under the library's split, arrival in order / reversed / shuffled, no loss). " +
			"Judged: if SendTo accepts the message (no error) the receiver must hand up exactly the original bytes with the last segment and nothing before; if SendTo refuses it nothing may be delivered. " +
			"Non-trivial: every case; distinct: (P, length, order).",
		Assumptions: append([]string{
			"a message of 65535*P bytes is within the statement's '65535-segment limit'; for 65535*P < len < 65536*P the statement leaves open whether the message is oversized, so only consistency is judged: accepted => reassembled, refused => nothing delivered",
		}, assumeCommon...)}
	vrun.Loop(t, meta, 1, func(c *vrun.Case) vrun.Result {
		lc := cases[c.Index]
		if lc.P != realPayload {
			restore := vh.SegmentSetMaxPayloadSize(lc.P)
			defer restore()
		}
		if vh.SegmentMaxPayloadSize() != lc.P {
			return vrun.Inconcl("payload size override not in force")
		}
		data := make([]byte, lc.l)
		fillCheap(data, c.Seed)
		m, err := split(uint32(c.Seed), data)
		w := map[string]any{"payload_size": lc.P, "len": lc.l, "class": lc.name, "order": lc.order, "datagrams_emitted": len(m.segs), "SendTo_err": fmt.Sprint(err)}
		rb := newBuffers(10 * time.Second)
		res := vrun.Hold(fmt.Sprintf("P=%d %s %s", lc.P, lc.name, lc.order), true)
		res.Desc = w
		if err != nil {
			if lc.name == "65535P" {
				return vrun.Violation("a message of exactly 65535 payloads (the 65535-segment limit) is refused by SendTo", "limit:65535P-refused", w)
			}
			for _, sg := range m.segs {
				if _, ok, _, pan := recvSafe(rb, sg); ok || pan != nil {
					return vrun.Violation("datagrams emitted for a refused message produce a message (or a panic) at the receiver", "limit:refused-but-delivered", w)
				}
			}
			res.Stat("refused_at_sender", 1)
			return res
		}
		order := make([]item, len(m.segs))
		for i := range order {
			order[i] = item{0, i}
		}
		switch lc.order {
		case "reversed":
			for l, r := 0, len(order)-1; l < r; l, r = l+1, r-1 {
				order[l], order[r] = order[r], order[l]
			}
		case "shuffled":
			c.Rng.Shuffle(len(order), func(a, b int) { order[a], order[b] = order[b], order[a] })
		}
		var st feedStats
		got := []int{0}
		if v := feedJudge(rb, []message{m}, order, got, &st, func() map[string]any { return w }); v != nil {
			if ww, ok := v.Witness.(map[string]any); ok {
				delete(ww, "order")
				ww["order"] = lc.order
				ww["buffers_held_at_the_end"] = len(held(rb))
			}
			v.Clause = "a message that SendTo accepts and splits into exactly 65536 segments (maxIdx 65535): " + v.Clause
			v.FindingKey = "limit:65536-segments-accepted-by-SendTo/" + v.FindingKey
			return *v
		}
		res.Stat("accepted_and_reassembled", 1)
		res.Stat("receive_calls_judged", st.receives)
		res.Stat("bytes_handed_up", st.handedBytes)
		return res
	})
}

// ---------------------------------------------------------------------------------------------------
// expiry (injected clock)
// ---------------------------------------------------------------------------------------------------

type fakeClock struct {
	mu  sync.Mutex
	now time.Time
}

func (f *fakeClock) Now() time.Time {
	f.mu.Lock()
	defer f.mu.Unlock()
	return f.now
}
func (f *fakeClock) Advance(d time.Duration) {
	f.mu.Lock()
	f.now = f.now.Add(d)
	f.mu.Unlock()
}

func TestC14Expiry(t *testing.T) {
	e := vrun.LoadEnv()
	const P = 4
	restoreP := vh.SegmentSetMaxPayloadSize(P)
	defer restoreP()
	clk := &fakeClock{now: time.Unix(1_700_000_000, 0)}
	restoreT := vh.SegmentSetTimeNow(clk.Now)
	defer restoreT()
	// cases: tuples of segment counts, 1..2 messages, at most maxTotal segments
	maxTotal := e.Pick(6, 7)
	var tuples [][]int
	for n := 2; n <= 6; n++ {
		tuples = append(tuples, []int{n})
	}
	for _, cp := range compositions(2, maxTotal, 6) {
		tuples = append(tuples, cp)
	}
	expiries := []time.Duration{time.Millisecond, time.Second, 10 * time.Second, time.Hour}
	total := len(tuples) * len(expiries)
	meta := vrun.Meta{Property: "C14", Workload: "TestC14Expiry", Total: total, Exhaustive: true,
		Rule: "Payload 4 bytes, injected clock, sequential. Case = (tuple of 1..2 segment counts with at most " + fmt.Sprint(maxTotal) + " segments, expiry E from {1ms,1s,10s,1h}). For EVERY permutation of the " +
			"union of segments and EVERY cut 1 <= k < total two runs: (a) retain run: feed the first k segments while the clock moves E/4, move it to 3E/4 after the FIRST segment, call RemoveExpired, feed the rest: " +
			"every message must still be handed up exactly; (b) forget run: feed the first k segments, advance the clock to 1.5E after the LAST fed segment, call RemoveExpired, check that the buffer map no longer " +
			"holds any incomplete message and feed the remaining segments: whatever is handed up afterwards must equal an original message. Non-trivial: both runs done for every permutation and cut; distinct: (tuple, E).",
		Assumptions: append([]string{
			"'forgotten after the expiry time': judged as 'must be gone' only once more than the expiry has passed since the LAST segment of the message arrived, and 'must still be there' only while less than the expiry has passed since its FIRST segment (the statement does not say from which segment the time runs)",
			"'forgotten' is observed on the exported ReadBuffers.ReadBuffer map after RemoveExpired; segments arriving after the forgetting are only required not to produce a non-original message",
		}, assumeCommon...)}
	vrun.Loop(t, meta, 1, func(c *vrun.Case) vrun.Result {
		tp := tuples[c.Index/len(expiries)]
		E := expiries[c.Index%len(expiries)]
		msgs := make([]message, len(tp))
		base := seqBases[c.Index%len(seqBases)]
		var items []item
		for i, n := range tp {
			m, err := split(base+uint32(i), randBytes(c.Rng, lenForSegments(n, P, c.Index%3)))
			if err != nil || len(m.segs) != n {
				return vrun.Inconcl(fmt.Sprintf("unexpected split: %v segs=%d want %d", err, len(m.segs), n))
			}
			msgs[i] = m
			for s := 0; s < n; s++ {
				items = append(items, item{i, s})
			}
		}
		total := len(items)
		perm := make([]int, total)
		for i := range perm {
			perm[i] = i
		}
		order := make([]item, total)
		var st feedStats
		var retainRuns, forgetRuns, lateOriginal, forgotten int64
		desc := map[string]any{"segment_counts": tp, "expiry": E.String(), "seq_base": base}
		ctx := func() map[string]any {
			return map[string]any{"segment_counts": tp, "expiry": E.String(), "seq_base": base}
		}
		for {
			for i, p := range perm {
				order[i] = items[p]
			}
			for k := 1; k < total; k++ {
				// ---- retain run: RemoveExpired before the expiry must not lose anything
				{
					rb := newBuffers(E)
					got := make([]int, len(msgs))
					if v := feedJudge(rb, msgs, order[:1], got, &st, ctx); v != nil {
						return *v
					}
					clk.Advance(E / 4)
					if v := feedJudge(rb, msgs, order[1:k], got, &st, ctx); v != nil {
						return *v
					}
					clk.Advance(E / 2) // 3E/4 after the first segment
					rb.RemoveExpired()
					if v := feedJudge(rb, msgs, order[k:], got, &st, ctx); v != nil {
						w, _ := v.Witness.(map[string]any)
						if w != nil {
							w["note"] = "RemoveExpired was called 3/4 of the expiry after the first segment"
							w["cut"] = k
						}
						v.FindingKey = "expiry:forgotten-before-expiry/" + v.FindingKey
						return *v
					}
					retainRuns++
				}
				// ---- forget run
				{
					rb := newBuffers(E)
					got := make([]int, len(msgs))
					if v := feedJudge(rb, msgs, order[:k], got, &st, ctx); v != nil {
						return *v
					}
					incomplete := map[uint32]bool{}
					for i, m := range msgs {
						if got[i] > 0 && got[i] < len(m.segs) {
							incomplete[m.seq] = true
						}
					}
					clk.Advance(E + E/2 + time.Nanosecond)
					rb.RemoveExpired()
					for s := range held(rb) {
						if incomplete[s] {
							w := ctx()
							w["order"], w["cut"], w["still_held_seq"] = order, k, s
							return vrun.Violation("an incomplete message is still buffered after more than the expiry time and RemoveExpired", "expiry:incomplete-not-forgotten", w)
						}
					}
					forgotten += int64(len(incomplete))
					// late remainder: nothing but originals may come out
					for _, it := range order[k:] {
						m, ok, _, pan := recvSafe(rb, msgs[it.M].segs[it.S])
						st.receives++
						if pan != nil {
							w := ctx()
							w["panic"] = fmt.Sprint(pan)
							return vrun.Violation("Receive panics on a late segment", "expiry:panic-on-late-segment", w)
						}
						if ok {
							if !bytes.Equal(m, msgs[it.M].data) {
								w := ctx()
								w["order"], w["cut"], w["handed_up"], w["original"] = order, k, hx(m), hx(msgs[it.M].data)
								return vrun.Violation("segments arriving after the forgetting produce a message that is not an original", "expiry:late-segments-yield-non-original", w)
							}
							if incomplete[msgs[it.M].seq] {
								lateOriginal++
							}
						}
					}
					forgetRuns++
				}
			}
			if !nextPerm(perm) {
				break
			}
		}
		res := vrun.Hold(fmt.Sprintf("%v E=%s", tp, E), retainRuns > 0 && forgetRuns == retainRuns)
		res.Desc = desc
		res.Stat("retain_runs(RemoveExpired before expiry, then completed exactly)", retainRuns)
		res.Stat("forget_runs(RemoveExpired after expiry)", forgetRuns)
		res.Stat("incomplete_messages_seen_forgotten", forgotten)
		res.Stat("forgotten_messages_completed_by_late_segments(not judged)", lateOriginal)
		res.Stat("receive_calls_judged", st.receives)
		res.AddSet("expiry", E.String())
		res.AddSet("segment_count_tuple", fmt.Sprint(tp))
		return res
	})
}

// ---------------------------------------------------------------------------------------------------
// malformed datagrams
// ---------------------------------------------------------------------------------------------------

func hdr(seq uint32, maxIdx, idx uint16, payload []byte) []byte {
	b := make([]byte, 8, 8+len(payload))
	binary.BigEndian.PutUint32(b[:4], seq)
	binary.BigEndian.PutUint16(b[4:6], maxIdx)
	binary.BigEndian.PutUint16(b[6:8], idx)
	return append(b, payload...)
}

// TestC14MalformedShort: datagrams shorter than the 8-byte header, lengths 0..7, against an empty buffer and
// against a buffer with messages in flight. Own workload: the library is expected to fail here.
func TestC14MalformedShort(t *testing.T) {
	type sc struct {
		n        int
		inflight bool
		content  string
	}
	var cases []sc
	for n := 0; n <= 7; n++ {
		for _, inf := range []bool{false, true} {
			for _, ct := range []string{"zero", "ff", "prefix-of-good-segment", "random"} {
				cases = append(cases, sc{n, inf, ct})
			}
		}
	}
	meta := vrun.Meta{Property: "C14", Workload: "TestC14MalformedShort", Total: len(cases), Exhaustive: true,
		Rule: "Case = (datagram length 0..7, buffer empty / two messages half received, content zero/0xff/prefix of a genuine segment/random). Receive is called under recover; a panic is a violation " +
			"('discarded without crashing'); the datagram must not be handed up; the in-flight messages must afterwards complete byte-exact. Non-trivial: every case; distinct: (length, in-flight, content).",
		Assumptions: assumeCommon}
	vrun.Loop(t, meta, 0, func(c *vrun.Case) vrun.Result {
		s := cases[c.Index]
		rb := newBuffers(10 * time.Second)
		m1, _ := split(7, randBytes(c.Rng, 3*realPayload+5))
		m2, _ := split(8, randBytes(c.Rng, 2*realPayload+1))
		msgs := []message{m1, m2}
		got := []int{0, 0}
		var st feedStats
		ctx := func() map[string]any { return map[string]any{"len": s.n, "inflight": s.inflight, "content": s.content} }
		if s.inflight {
			if v := feedJudge(rb, msgs, []item{{0, 0}, {1, 1}, {0, 2}}, got, &st, ctx); v != nil {
				return *v
			}
		}
		var d []byte
		switch s.content {
		case "zero":
			d = make([]byte, s.n)
		case "ff":
			d = bytes.Repeat([]byte{0xff}, s.n)
		case "prefix-of-good-segment":
			d = append([]byte(nil), m1.segs[1][:s.n]...)
		default:
			d = randBytes(c.Rng, s.n)
		}
		m, ok, _, pan := recvSafe(rb, d)
		if pan != nil {
			w := ctx()
			w["datagram"], w["panic"] = hx(d), fmt.Sprint(pan)
			return vrun.Violation("Receive panics on a datagram shorter than the 8-byte header instead of discarding it", "malformed:short-datagram:Receive-panics", w)
		}
		if ok {
			w := ctx()
			w["datagram"], w["handed_up"] = hx(d), hx(m)
			return vrun.Violation("a datagram shorter than the header is handed up as a message", "malformed:short-datagram:handed-up", w)
		}
		// the in-flight (or fresh) messages must be unaffected
		rest := []item{{0, 1}, {0, 3}, {1, 0}, {1, 2}}
		if !s.inflight {
			rest = []item{{0, 3}, {1, 2}, {0, 1}, {1, 0}, {0, 0}, {1, 1}, {0, 2}}
		}
		if v := feedJudge(rb, msgs, rest, got, &st, ctx); v != nil {
			v.FindingKey = "malformed:short-datagram:disturbs-other-messages/" + v.FindingKey
			return *v
		}
		res := vrun.Hold(fmt.Sprintf("len=%d inflight=%v %s", s.n, s.inflight, s.content), true)
		res.Desc = ctx()
		res.Stat("short_datagrams_discarded", 1)
		res.Stat("messages_handed_up_exact", st.handed)
		res.AddSet("short_length", fmt.Sprint(s.n))
		return res
	})
}

// TestC14Malformed: malformed and garbage datagrams whose sequence numbers are NOT shared with a genuine message
// in flight, mixed into the arrival of genuine messages; plus duplicates (not judged).
func TestC14Malformed(t *testing.T) {
	e := vrun.LoadEnv()
	total := e.Pick(1500, 20000)
	meta := vrun.Meta{Property: "C14", Workload: "TestC14Malformed", Total: total,
		Rule: "Case = 1..3 genuine messages (real payload size, 1..6 segments, seq below 2^31) whose shuffled segments are interleaved with 1..40 bad datagrams using sequence numbers >= 2^31: " +
			"'index beyond the announced count' (idx > maxIdx, all combinations of small/boundary values), 'count changing between segments of one sequence number', random bytes of length 8..64 (random header fields, own garbage sequence number), " +
			"(class dup, not judged for delivery) duplicated genuine segments at the end, and 40 datagrams of arbitrary bytes (8..1407 bytes, half of them with small header fields) on a buffer of their own (no panic). Judged: no Receive call panics; a datagram whose index exceeds its own announced count is never handed up; " +
			"every genuine message is handed up byte-exact by exactly the call that brings its last segment. Non-trivial: at least one bad datagram was given to Receive while a genuine multi-segment message was half received, and that message completed exactly; " +
			"distinct: (bad classes, genuine segment counts).",
		Assumptions: append([]string{
			"what a receiver should do with several individually well-formed datagrams that announce different counts for one sequence number is not stated; only 'no panic' is judged for them",
		}, assumeCommon...)}
	vrun.Loop(t, meta, 0, func(c *vrun.Case) vrun.Result {
		r := c.Rng
		nm := 1 + r.Intn(3)
		msgs := make([]message, nm)
		var order []item
		var counts []string
		for i := range msgs {
			n := 1 + r.Intn(6)
			m, err := split(uint32(r.Intn(1<<20))*4+uint32(i), randBytes(r, lenForSegments(n, realPayload, r.Intn(3))))
			if err != nil {
				return vrun.Inconcl("split: " + err.Error())
			}
			msgs[i] = m
			counts = append(counts, fmt.Sprint(len(m.segs)))
			for s := range m.segs {
				order = append(order, item{i, s})
			}
		}
		r.Shuffle(len(order), func(a, b int) { order[a], order[b] = order[b], order[a] })
		// bad datagrams
		type bad struct {
			d     []byte
			class string
			judge bool // idx > own maxIdx: must never be handed up
		}
		var bads []bad
		nb := 1 + r.Intn(40)
		edge := []uint16{0, 1, 2, 3, 5, 6, 7, 255, 256, 0x7fff, 0x8000, 0xfffe, 0xffff}
		// sequence numbers of the bad datagrams: >= 2^31 (never a genuine one); every index-beyond-count datagram and every
		// random datagram gets a number of its own (bit 8.. = running counter), the count-changing groups share one per group.
		// (A bad datagram that shares its number with other datagrams is TestC14MalformedSameSeq's subject.)
		gn := uint32(0)
		gseq := func() uint32 {
			gn++
			return 0x80000000 | uint32(r.Intn(2))<<30 | gn<<8 | uint32(r.Intn(256))
		}
		for len(bads) < nb {
			switch r.Intn(4) {
			case 0, 1: // index beyond announced count
				mx := edge[r.Intn(len(edge))]
				if mx == 0xffff {
					continue
				}
				idx := mx + 1 + uint16(r.Intn(int(0xffff-mx)))
				if r.Intn(2) == 0 {
					idx = mx + 1
				}
				bads = append(bads, bad{hdr(gseq(), mx, idx, randBytes(r, r.Intn(40))), "index-beyond-count", true})
			case 2: // count changing for one garbage sequence number
				s := gseq()
				k := 2 + r.Intn(4)
				for j := 0; j < k; j++ {
					mx := edge[r.Intn(8)]
					idx := uint16(r.Intn(int(mx) + 1))
					bads = append(bads, bad{hdr(s, mx, idx, randBytes(r, r.Intn(20))), "count-changing", false})
				}
			case 3: // random bytes, only the top bit of the sequence number forced
				d := randBytes(r, 8+r.Intn(57))
				binary.BigEndian.PutUint32(d[:4], gseq())
				mx, idx := binary.BigEndian.Uint16(d[4:6]), binary.BigEndian.Uint16(d[6:8])
				bads = append(bads, bad{d, "random-bytes", idx > mx})
			}
		}
		// interleave: positions of bad datagrams in the genuine order
		type ev struct {
			bad *bad
			it  item
		}
		evs := make([]ev, 0, len(order)+len(bads))
		for _, it := range order {
			evs = append(evs, ev{it: it})
		}
		for i := range bads {
			p := r.Intn(len(evs) + 1)
			evs = append(evs, ev{})
			copy(evs[p+1:], evs[p:])
			evs[p] = ev{bad: &bads[i]}
		}
		rb := newBuffers(10 * time.Second)
		got := make([]int, nm)
		var st feedStats
		classes := map[string]bool{}
		var badWhileHalf, badHandedUnjudged int64
		ctx := func() map[string]any {
			return map[string]any{"genuine_segment_counts": counts}
		}
		for _, e := range evs {
			if e.bad == nil {
				if v := feedJudge(rb, msgs, []item{e.it}, got, &st, ctx); v != nil {
					w, _ := v.Witness.(map[string]any)
					if w != nil {
						var seen []string
						for _, b := range bads {
							seen = append(seen, b.class+":"+hx(b.d))
						}
						w["bad_datagrams_in_case"] = seen
					}
					v.FindingKey = "malformed:disturbs-genuine-message/" + v.FindingKey
					return *v
				}
				continue
			}
			classes[e.bad.class] = true
			for i, m := range msgs {
				if got[i] > 0 && got[i] < len(m.segs) {
					badWhileHalf++
					break
				}
			}
			m, ok, _, pan := recvSafe(rb, e.bad.d)
			if pan != nil {
				return vrun.Violation("Receive panics on a malformed datagram", "malformed:"+e.bad.class+":Receive-panics", map[string]any{"datagram": hx(e.bad.d), "panic": fmt.Sprint(pan)})
			}
			if ok && e.bad.judge {
				return vrun.Violation("a datagram whose index is beyond its announced count is handed up", "malformed:index-beyond-count:handed-up", map[string]any{"datagram": hx(e.bad.d), "handed_up": hx(m)})
			}
			if ok {
				badHandedUnjudged++
			}
		}
		// duplicates: no panic only
		var dupHanded int64
		for i := 0; i < 6; i++ {
			it := order[r.Intn(len(order))]
			_, ok, _, pan := recvSafe(rb, msgs[it.M].segs[it.S])
			if pan != nil {
				return vrun.Violation("Receive panics on a duplicated segment", "malformed:duplicate:Receive-panics", map[string]any{"panic": fmt.Sprint(pan)})
			}
			if ok {
				dupHanded++
			}
		}
		// arbitrary bytes with nothing forced, on a buffer of their own: only "no panic" can be judged
		rb2 := newBuffers(10 * time.Second)
		const nRandom = 40
		for i := 0; i < nRandom; i++ {
			n := 8 + r.Intn(24)
			if r.Intn(4) == 0 {
				n = 8 + r.Intn(1400)
			}
			d := randBytes(r, n)
			if r.Intn(2) == 0 { // small header fields so that buffers get reused and completed
				d[0], d[1], d[2], d[3], d[4], d[6] = 0, 0, 0, byte(r.Intn(3)), 0, 0
				d[5], d[7] = byte(r.Intn(4)), byte(r.Intn(4))
			}
			if _, _, _, pan := recvSafe(rb2, d); pan != nil {
				return vrun.Violation("Receive panics on arbitrary datagram bytes", "malformed:random-bytes:Receive-panics", map[string]any{"datagram": hx(d), "panic": fmt.Sprint(pan)})
			}
		}
		rb2.RemoveExpired()
		var cl []string
		for k := range classes {
			cl = append(cl, k)
		}
		sort.Strings(cl)
		multi := false
		for _, m := range msgs {
			if len(m.segs) >= 2 {
				multi = true
			}
		}
		res := vrun.Hold(fmt.Sprintf("%s|%s", strings.Join(cl, ","), strings.Join(counts, "+")), badWhileHalf > 0 && multi)
		res.Desc = map[string]any{"genuine_segment_counts": counts, "bad_datagrams": len(bads), "classes": cl}
		res.Stat("bad_datagrams_given_to_Receive", int64(len(bads)))
		res.Stat("bad_datagrams_while_a_message_was_half_received", badWhileHalf)
		res.Stat("genuine_messages_handed_up_exact", st.handed)
		res.Stat("handed_up_from_garbage_sequence_numbers(not judged)", badHandedUnjudged)
		res.Stat("duplicates_fed(no panic)", 6)
		res.Stat("arbitrary_byte_datagrams_fed(no panic)", nRandom)
		res.Stat("handed_up_on_duplicate(not judged)", dupHanded)
		res.AddSet("bad_class", cl...)
		return res
	})
}

// TestC14MalformedSameSeq: a datagram whose index exceeds its own announced count and which carries the sequence
// number of a genuine message. It must be discarded, i.e. the genuine message must still be handed up exactly when
// its last segment arrives, and never earlier / partially. Own workload (kept apart from the other malformed inputs).
func TestC14MalformedSameSeq(t *testing.T) {
	type sc struct {
		n      int    // genuine segments
		mx     uint16 // announced by the bad datagram
		idx    uint16 // > mx
		pos    int    // the bad datagram arrives after pos genuine segments
		shuffl bool
	}
	var cases []sc
	for n := 1; n <= 6; n++ {
		for _, mx := range []uint16{0, 1, 2, 4, 5, 9, 0xfffe} {
			for _, d := range []uint16{1, 2, 5} {
				idx := mx + d
				if idx <= mx { // overflow
					idx = 0xffff
				}
				if idx <= mx {
					continue
				}
				for pos := 0; pos <= n; pos++ {
					cases = append(cases, sc{n, mx, idx, pos, false}, sc{n, mx, idx, pos, true})
				}
			}
		}
	}
	meta := vrun.Meta{Property: "C14", Workload: "TestC14MalformedSameSeq", Total: len(cases), Exhaustive: true,
		Rule: "Case = (genuine message of n=1..6 segments at the real payload size, one bad datagram with the SAME sequence number announcing maxIdx in {0,1,2,4,5,9,65534} and carrying idx=maxIdx+{1,2,5}, " +
			"position 0..n of the bad datagram within the genuine arrival, genuine order in sequence or shuffled). Judged: no panic; the bad datagram itself is not handed up; the genuine message is handed up byte-exact by " +
			"exactly the call that brings its last segment and by no earlier call. Non-trivial: every case; distinct: (n, maxIdx, idx, position, order).",
		Assumptions: append([]string{
			"'discarded' for an index-beyond-count datagram is judged through the statement's other clauses: with the datagram thrown away the genuine message of that sequence number must still be handed up exactly once complete and never partially",
		}, assumeCommon...)}
	vrun.Loop(t, meta, 0, func(c *vrun.Case) vrun.Result {
		s := cases[c.Index]
		r := c.Rng
		seq := []uint32{0, 5, 0xffffffff, 0x12345678}[c.Index%4]
		m, err := split(seq, randBytes(r, lenForSegments(s.n, realPayload, c.Index%3)))
		if err != nil || len(m.segs) != s.n {
			return vrun.Inconcl("split")
		}
		order := make([]item, s.n)
		for i := range order {
			order[i] = item{0, i}
		}
		if s.shuffl {
			r.Shuffle(len(order), func(a, b int) { order[a], order[b] = order[b], order[a] })
		}
		badD := hdr(seq, s.mx, s.idx, randBytes(r, 16))
		rb := newBuffers(10 * time.Second)
		got := []int{0}
		var st feedStats
		where := "before-first-segment"
		if s.pos > 0 {
			where = "mid-message"
		}
		rel := "count-equal"
		if int(s.mx)+1 < s.n {
			rel = "announces-fewer"
		} else if int(s.mx)+1 > s.n {
			rel = "announces-more"
		}
		inRange := "idx-outside-genuine-range"
		if int(s.idx) < s.n {
			inRange = "idx-inside-genuine-range"
		}
		ctx := func() map[string]any {
			return map[string]any{"genuine_segments": s.n, "seq": seq, "bad_datagram": hx(badD), "bad_maxIdx": s.mx, "bad_idx": s.idx, "bad_arrives_after_n_genuine": s.pos, "genuine_order": order}
		}
		key := func(v *vrun.Result) vrun.Result {
			v.Clause = "an index-beyond-count datagram is not discarded (" + rel + ", " + inRange + "): " + v.Clause
			v.FindingKey = "malformed:index-beyond-count:same-seq:" + where
			return *v
		}
		if v := feedJudge(rb, []message{m}, order[:s.pos], got, &st, ctx); v != nil {
			return *v
		}
		if s.pos < s.n {
			mm, ok, _, pan := recvSafe(rb, badD)
			if pan != nil {
				w := ctx()
				w["panic"] = fmt.Sprint(pan)
				return vrun.Violation("Receive panics on an index-beyond-count datagram", "malformed:index-beyond-count:same-seq:Receive-panics", w)
			}
			if ok {
				w := ctx()
				w["handed_up"] = hx(mm)
				v := vrun.Violation("a message is handed up by the call that delivers the malformed datagram", "handed-up-by-bad-datagram", w)
				return key(&v)
			}
		} else {
			// pos == n: the message is already complete and handed up; the bad datagram arrives afterwards (stale)
			_, ok, _, pan := recvSafe(rb, badD)
			if pan != nil || ok {
				w := ctx()
				w["panic"] = fmt.Sprint(pan)
				return vrun.Violation("a stale index-beyond-count datagram is handed up or panics", "malformed:index-beyond-count:same-seq:stale", w)
			}
		}
		if v := feedJudge(rb, []message{m}, order[s.pos:], got, &st, ctx); v != nil {
			return key(v)
		}
		res := vrun.Hold(fmt.Sprintf("n=%d mx=%d idx=%d pos=%d sh=%v", s.n, s.mx, s.idx, s.pos, s.shuffl), true)
		res.Desc = ctx()
		res.Stat("genuine_messages_handed_up_exact", st.handed)
		res.Stat("bad_datagrams_given_to_Receive", 1)
		res.AddSet("scenario", where+":"+rel+":"+inRange)
		return res
	})
}
