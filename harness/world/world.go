// Package world wires one scenario: logical clock, memnet network, programmable broker, and an iscp.Conn
// connected to them through the library's custom-dialer registry (verif hook VerifRegisterDialer).
package world

import (
	"fmt"
	"sync"
	"sync/atomic"

	"github.com/aptpod/iscp-go/iscp"
	"github.com/aptpod/iscp-go/transport"

	"verif/harness/broker"
	"verif/harness/memnet"
)

const Transport iscp.TransportName = "memnet"

var (
	registry sync.Map // address -> *memnet.Net
	seq      atomic.Int64
)

func init() {
	iscp.VerifRegisterDialer(Transport, func() transport.Dialer {
		return transport.DialerFunc(func(cfg transport.DialConfig) (transport.Transport, error) {
			v, ok := registry.Load(cfg.Address)
			if !ok {
				return nil, fmt.Errorf("world: no network registered for %q: %w", cfg.Address, memnet.ErrDial)
			}
			return v.(*memnet.Net).Dialer().Dial(cfg)
		})
	})
}

type World struct {
	Clock *memnet.Clock
	Net   *memnet.Net
	B     *broker.Broker
	Addr  string
}

// New creates a world and starts its broker.
func New() *World {
	clk := &memnet.Clock{}
	n := memnet.New(clk)
	w := &World{Clock: clk, Net: n, B: broker.New(n), Addr: fmt.Sprintf("world-%d", seq.Add(1))}
	registry.Store(w.Addr, n)
	return w
}

// Start starts the broker (call after setting policies and hooks).
func (w *World) Start() { w.B.Start() }

// Connect opens an iscp connection to the world's broker.
func (w *World) Connect(opts ...iscp.ConnOption) (*iscp.Conn, error) {
	return iscp.Connect(w.Addr, Transport, opts...)
}

// Close stops the broker and fails every link.
func (w *World) Close() {
	w.B.Stop()
	registry.Delete(w.Addr)
}
