// C10 - Close is final: documented errors, silence on the wire, no goroutine left behind (virtual time).
package c10

import (
	"context"
	"errors"
	"fmt"
	"math/rand"
	"sort"
	"strings"
	"sync"
	"sync/atomic"
	"testing"
	"testing/synctest"
	"time"

	iscperrors "github.com/aptpod/iscp-go/errors"
	"github.com/aptpod/iscp-go/iscp"
	"github.com/aptpod/iscp-go/message"

	"verif/harness/broker"
	"verif/harness/memnet"
	"verif/harness/reconlib"
	"verif/harness/vrun"
	"verif/harness/world"
)

type scenario struct {
	Ups           int      `json:"upstreams"`
	Downs         int      `json:"downstreams"`
	Writes        int      `json:"writes_before_close"`
	Buffered      int      `json:"chunks_buffered_unread"`
	BufferedCalls int      `json:"calls_buffered_unread"`
	Pending       []string `json:"pending_calls_at_close"`
	Order         string   `json:"close_order"`
	Outage        string   `json:"outage"`
	Closers       int      `json:"concurrent_conn_closers"`
	SlowWrites    bool     `json:"slow_transport_writes,omitempty"`
	LastWrite     bool     `json:"write_in_flight_at_conn_close,omitempty"`
	OutagePending []string `json:"calls_started_during_the_outage,omitempty"`
	CallBurst     int      `json:"incoming_calls_sent_just_before_close,omitempty"`
	SlowLog       string   `json:"slow_logger_at,omitempty"`
	SlowLogMs     int      `json:"slow_logger_ms,omitempty"`
}

var outagePendingKinds = []string{"WriteDataPoints", "Flush", "OpenUpstream", "OpenDownstream", "SendBaseTime", "SendCall"}

var pendingKinds = []string{"ReadDataPoints", "ReadMetadata", "ReceiveCall", "ReceiveReplyCall", "SendCallAndWaitReplayCall", "OpenUpstream", "SendBaseTime"}

func gen(r *rand.Rand) scenario {
	s := scenario{Ups: r.Intn(3), Downs: r.Intn(3), Writes: r.Intn(6), Buffered: []int{0, 0, 3}[r.Intn(3)], BufferedCalls: []int{0, 0, 2}[r.Intn(3)]}
	for _, k := range pendingKinds {
		if r.Intn(4) == 0 {
			s.Pending = append(s.Pending, k)
		}
	}
	s.Order = []string{"streams-then-conn", "conn-only", "conn-only", "stream-close-twice-then-conn"}[r.Intn(4)]
	s.Outage = []string{"none", "none", "none", "link-dead-undetected", "redial-refused", "redial-connect-response-withheld", "resume-response-withheld"}[r.Intn(7)]
	s.Closers = []int{1, 1, 2, 4}[r.Intn(4)]
	s.SlowWrites = false // virtual delays inside transport.Write stall a bubble as soon as another goroutine waits for a lock the writer holds (mutex waits are not durably blocking): the slow-write schedule runs in real time, see TestC10DisconnectLast
	s.LastWrite = r.Intn(2) == 0
	if r.Intn(3) == 0 {
		s.CallBurst = 10 + r.Intn(30) // more than the 8-slot hand-over queues of the wire connection hold
	}
	if s.Outage != "none" && s.Outage != "link-dead-undetected" {
		for _, k := range outagePendingKinds {
			if r.Intn(3) == 0 {
				s.OutagePending = append(s.OutagePending, k)
			}
		}
	}
	if s.Outage != "none" && r.Intn(3) == 0 {
		// the application's logger blocks at one step of the reconnect / resume procedure: Close arrives in the middle of it
		s.SlowLog = reconlib.SlowLogSites[r.Intn(len(reconlib.SlowLogSites))]
		s.SlowLogMs = []int{300, 2500, 10000}[r.Intn(3)]
	}
	return s
}

func TestC10CloseIsFinal(t *testing.T) {
	e := vrun.LoadEnv()
	meta := vrun.Meta{Property: "C10", Workload: "TestC10CloseIsFinal", Total: e.Pick(300, 80000),
		Rule: "virtual time: generated prefix history (0-2 upstreams with writes, 0-2 downstreams with unread chunks buffered, unread incoming calls, a drawn subset of {ReadDataPoints, ReadMetadata, ReceiveCall, ReceiveReplyCall, SendCallAndWaitReplayCall, OpenUpstream, SendBaseTime} pending at the moment of closing), then Close in one of the orders {streams then conn, conn only with streams left open, stream Close twice then conn} from 1-4 goroutines at once, optionally during an outage {dead link not yet detected, redial refused, redial whose ConnectResponse is withheld, resume response withheld}, in a third of those with an application logger that blocks 0.3-10 s at one step of the reconnect / resume procedure. Oracle: (a) after Close returned every public method of the closed object returns within 1 virtual second (context deadline 10 s), does not panic, does not succeed, and its error is errors.Is ErrConnectionClosed or ErrStreamClosed (hence ErrISCP); (b) after the client's Disconnect the broker sees nothing but Ping/Pong from it and no new dial happens; (c) closed notifications at most once per object; (d) after the broker side is closed too and 5 virtual minutes have passed, no goroutine created by the library is alive in the bubble. non-trivial = at least one stream or pending call existed at close; distinct = scenario tuple",
		Assumptions: []string{"repeating Close itself is judged only for not panicking, not blocking and not notifying again (its error value is not judged)",
			"'promptly' is judged as: returns within 1 s of virtual time although its context would allow 10 s",
			"calls on a stream that was left open when the CONNECTION was closed are judged one virtual second after Conn.Close returned (the stream is cancelled asynchronously by a watcher)"}}
	vrun.Loop(t, meta, 0, func(c *vrun.Case) vrun.Result {
		s := gen(c.Rng)
		var res vrun.Result
		ok, dump := vrun.Watchdog(90*time.Second, func() {
			func() {
				defer func() {
					if r := recover(); r != nil {
						if res.Verdict == "" {
							res = vrun.Inconcl(fmt.Sprint("bubble aborted: ", r))
						} else if res.Note == "" {
							res.Note = fmt.Sprint("bubble end: ", r)
						}
					}
				}()
				synctest.Test(c.T, func(t *testing.T) { res = run(s) })
			}()
		})
		if !ok {
			res = vrun.Inconcl("real-time watchdog fired (bubble stalled)")
			for _, g := range vrun.ParseStacks(dump) {
				if strings.Contains(g.Text, vrun.LibPrefix) && (strings.Contains(g.Header, "sync.Mutex.Lock") || strings.Contains(g.Header, "sync.RWMutex")) {
					res = vrun.Violation("Close (or a call after it) is parked on a mutex forever", "close-blocks-on-mutex:"+g.InnermostLib()+":"+s.Outage, map[string]any{"goroutine": g.Text})
					break
				}
			}
			if res.Verdict == vrun.Inconclusive {
				res.Witness = map[string]any{"dump_head": dump[:min(len(dump), 4000)]}
			}
		}
		res.Desc = s
		return res
	})
}

type afterCall struct {
	Name    string `json:"name"`
	Obj     string `json:"object"`
	Outcome string `json:"outcome"`
}

func sentinel(err error) bool {
	return (errors.Is(err, iscperrors.ErrConnectionClosed) || errors.Is(err, iscperrors.ErrStreamClosed)) && errors.Is(err, iscperrors.ErrISCP)
}

// after runs one post-close call: context allows 10 s, the call has 1 s (virtual) to return.
func after(obj, name string, f func(ctx context.Context) error) (afterCall, *vrun.Result) {
	ctx, cancel := context.WithTimeout(context.Background(), 10*time.Second)
	defer cancel()
	done := make(chan error, 1)
	go func() {
		defer func() {
			if p := recover(); p != nil {
				done <- fmt.Errorf("PANIC: %v", p)
			}
		}()
		done <- f(ctx)
	}()
	ac := afterCall{Name: name, Obj: obj}
	select {
	case err := <-done:
		switch {
		case err == nil:
			ac.Outcome = "succeeded"
			v := vrun.Violation(fmt.Sprintf("%s succeeded after %s.Close had returned", name, obj), "after-close-succeeds:"+name+":"+obj, map[string]any{"call": ac})
			return ac, &v
		case strings.HasPrefix(err.Error(), "PANIC"):
			ac.Outcome = err.Error()
			v := vrun.Violation(fmt.Sprintf("%s panicked after %s.Close had returned", name, obj), "after-close-panics:"+name+":"+obj, map[string]any{"call": ac})
			return ac, &v
		case !sentinel(err):
			ac.Outcome = "error: " + err.Error()
			v := vrun.Violation(fmt.Sprintf("%s after %s.Close returned an error that is not one of the documented sentinels", name, obj), "after-close-wrong-error:"+name+":"+obj, map[string]any{"call": ac})
			return ac, &v
		}
		ac.Outcome = "sentinel error"
		return ac, nil
	case <-time.After(time.Second):
		ac.Outcome = "still blocked after 1 s (virtual)"
		v := vrun.Violation(fmt.Sprintf("%s blocks after %s.Close had returned (no prompt failure)", name, obj), "after-close-blocks:"+name+":"+obj, map[string]any{"call": ac})
		return ac, &v
	}
}

func run(s scenario) vrun.Result {
	w := world.New()
	var holdConnect, holdResume, holdReplies atomic.Bool
	var heldMu sync.Mutex
	var heldConnects []func() // connect requests whose response is withheld until after Close
	holdReplies.Store(true)
	w.B.OnMsg = func(lc *broker.LinkCtx, m message.Message, unrel bool) bool {
		switch t := m.(type) {
		case *message.ConnectRequest:
			if lc.L.ID > 1 && holdConnect.Load() {
				heldMu.Lock()
				heldConnects = append(heldConnects, func() { lc.Default(m, unrel) })
				heldMu.Unlock()
				return true
			}
		case *message.UpstreamResumeRequest, *message.DownstreamResumeRequest:
			if holdResume.Load() {
				return true
			}
		case *message.UpstreamCall:
			if t.Name == "pending" {
				lc.Send(&message.UpstreamCallAck{CallID: t.CallID, ResultCode: message.ResultCodeSucceeded, ResultString: "OK"})
				return true // the reply never comes
			}
		case *message.UpstreamOpenRequest:
			if t.SessionID == "pending" {
				return true
			}
		case *message.UpstreamMetadata:
			if bt, ok := t.Metadata.(*message.BaseTime); ok && bt.Name == "pending" {
				return true
			}
		}
		return false
	}
	if s.SlowWrites {
		// every client write takes 3 ms before it reaches the wire; the Disconnect write returns 10 ms after it did
		w.Net.WriteDelay = func(class string) (pre, post time.Duration) {
			if class == "Disconnect" {
				return 0, 10 * time.Millisecond
			}
			return 3 * time.Millisecond, 0
		}
	}
	w.Start()
	var disc atomic.Int64
	copts := []iscp.ConnOption{iscp.WithConnPingInterval(time.Second), iscp.WithConnPingTimeout(time.Second),
		iscp.WithConnDisconnectedEventHandler(iscp.DisconnectedEventHandlerFunc(func(*iscp.DisconnectedEvent) { disc.Add(1) }))}
	if s.SlowLog != "" {
		copts = append(copts, iscp.WithConnLogger(reconlib.NewSlowLogger(s.SlowLog, time.Duration(s.SlowLogMs)*time.Millisecond)))
	}
	conn, err := w.Connect(copts...)
	if err != nil {
		w.Close()
		return vrun.Inconcl("connect: " + err.Error())
	}
	bg := context.Background()
	var upClosed, downClosed [4]atomic.Int64
	var ups []*iscp.Upstream
	var downs []*iscp.Downstream
	id := &message.DataID{Name: "d", Type: "t"}
	for i := 0; i < s.Ups; i++ {
		i := i
		ctx, c := context.WithTimeout(bg, 5*time.Second)
		up, err := conn.OpenUpstream(ctx, fmt.Sprintf("s%d", i), iscp.WithUpstreamQoS([]message.QoS{message.QoSReliable, message.QoSUnreliable}[i%2]), iscp.WithUpstreamFlushPolicyImmediately(),
			iscp.WithUpstreamCloseTimeout(2*time.Second), iscp.WithUpstreamClosedEventHandler(iscp.UpstreamClosedEventHandlerFunc(func(*iscp.UpstreamClosedEvent) { upClosed[i].Add(1) })))
		c()
		if err != nil {
			continue
		}
		ups = append(ups, up)
		for k := 0; k < s.Writes; k++ {
			ctx, c := context.WithTimeout(bg, time.Second)
			up.WriteDataPoints(ctx, id, &message.DataPoint{ElapsedTime: time.Duration(k), Payload: []byte("x")})
			c()
		}
	}
	for i := 0; i < s.Downs; i++ {
		i := i
		ctx, c := context.WithTimeout(bg, 5*time.Second)
		d, err := conn.OpenDownstream(ctx, []*message.DownstreamFilter{{SourceNodeID: "src", DataFilters: []*message.DataFilter{{Name: "#", Type: "#"}}}}, iscp.WithDownstreamQoS(message.QoSReliable),
			iscp.WithDownstreamClosedEventHandler(iscp.DownstreamClosedEventHandlerFunc(func(*iscp.DownstreamClosedEvent) { downClosed[i].Add(1) })))
		c()
		if err != nil {
			continue
		}
		downs = append(downs, d)
	}
	lc := w.B.CurrentLink()
	for _, ds := range w.B.Downs() {
		for k := 0; k < s.Buffered; k++ {
			lc.Send(&message.DownstreamChunk{StreamIDAlias: ds.Alias, UpstreamOrAlias: &message.UpstreamInfo{SessionID: "u", SourceNodeID: "src", StreamID: broker.StreamIDFor("x", "u", 0)},
				StreamChunk: &message.StreamChunk{SequenceNumber: uint32(k + 1), DataPointGroups: []*message.DataPointGroup{{DataIDOrAlias: id, DataPoints: []*message.DataPoint{{ElapsedTime: 1, Payload: []byte("b")}}}}}})
		}
	}
	for k := 0; k < s.BufferedCalls; k++ {
		lc.Send(&message.DownstreamCall{CallID: fmt.Sprintf("in%d", k), SourceNodeID: "src", Name: "n", Type: "t", Payload: []byte("c")})
		lc.Send(&message.DownstreamCall{CallID: fmt.Sprintf("rp%d", k), RequestCallID: "nobody", SourceNodeID: "src", Name: "n", Type: "t", Payload: []byte("c")})
	}
	time.Sleep(50 * time.Millisecond)
	synctest.Wait()

	// pending calls (each has a 30 s context; they must end before the census, which comes minutes later)
	var pwg sync.WaitGroup
	pctx, pcancel := context.WithTimeout(bg, 30*time.Second)
	defer pcancel()
	var pendMu sync.Mutex
	pendingReturned := map[string]bool{}
	pendNamed := func(name string, f func()) {
		pendMu.Lock()
		pendingReturned[name] = false
		pendMu.Unlock()
		pwg.Add(1)
		go func() {
			defer pwg.Done()
			defer func() {
				recover()
				pendMu.Lock()
				pendingReturned[name] = true
				pendMu.Unlock()
			}()
			f()
		}()
	}
	for _, k := range s.Pending {
		switch k {
		case "ReadDataPoints":
			if len(downs) > 0 && s.Buffered == 0 {
				d := downs[0]
				pendNamed(k, func() { d.ReadDataPoints(pctx) })
			}
		case "ReadMetadata":
			if len(downs) > 0 {
				d := downs[0]
				pendNamed(k, func() { d.ReadMetadata(pctx) })
			}
		case "ReceiveCall":
			if s.BufferedCalls == 0 {
				pendNamed(k, func() { conn.ReceiveCall(pctx) })
			}
		case "ReceiveReplyCall":
			if s.BufferedCalls == 0 {
				pendNamed(k, func() { conn.ReceiveReplyCall(pctx) })
			}
		case "SendCallAndWaitReplayCall":
			pendNamed(k, func() {
				conn.SendCallAndWaitReplayCall(pctx, &iscp.UpstreamCall{DestinationNodeID: "n", Name: "pending", Type: "t", Payload: []byte("p")})
			})
		case "OpenUpstream":
			pendNamed(k, func() { conn.OpenUpstream(pctx, "pending") })
		case "SendBaseTime":
			pendNamed(k, func() { conn.SendBaseTime(pctx, &message.BaseTime{Name: "pending", BaseTime: time.Unix(1, 0).UTC()}) })
		}
	}
	time.Sleep(10 * time.Millisecond)
	synctest.Wait()

	// outage
	switch s.Outage {
	case "link-dead-undetected":
		w.Net.Current().Fail(memnet.Blackhole)
	case "redial-refused":
		w.Net.FailNextDials(1000000)
		w.Net.Current().Fail(memnet.Sever)
		time.Sleep(3 * time.Second)
	case "redial-connect-response-withheld":
		holdConnect.Store(true)
		w.Net.Current().Fail(memnet.Sever)
		time.Sleep(3 * time.Second)
	case "resume-response-withheld":
		holdResume.Store(true)
		w.Net.Current().Fail(memnet.Sever)
		time.Sleep(3 * time.Second)
	}
	synctest.Wait()

	// calls started while the outage lasts (a reconnect in progress / a half-finished resume): they wait for the
	// connection or, on a stream, for the flush loop that is stopped while the stream resumes
	for _, k := range s.OutagePending {
		switch k {
		case "WriteDataPoints":
			if len(ups) > 0 {
				up := ups[0]
				pendNamed("outage:"+k, func() {
					up.WriteDataPoints(pctx, id, &message.DataPoint{ElapsedTime: 77, Payload: []byte("during-outage")})
				})
			}
		case "Flush":
			if len(ups) > 0 {
				up := ups[len(ups)-1]
				pendNamed("outage:"+k, func() { up.Flush(pctx) })
			}
		case "OpenUpstream":
			pendNamed("outage:"+k, func() { conn.OpenUpstream(pctx, "during-outage") })
		case "OpenDownstream":
			pendNamed("outage:"+k, func() {
				conn.OpenDownstream(pctx, []*message.DownstreamFilter{{SourceNodeID: "src", DataFilters: []*message.DataFilter{{Name: "#", Type: "#"}}}})
			})
		case "SendBaseTime":
			pendNamed("outage:"+k, func() {
				conn.SendBaseTime(pctx, &message.BaseTime{Name: "during-outage", BaseTime: time.Unix(1, 0).UTC()})
			})
		case "SendCall":
			pendNamed("outage:"+k, func() {
				conn.SendCall(pctx, &iscp.UpstreamCall{DestinationNodeID: "n", Name: "during-outage", Type: "t"})
			})
		}
	}
	if len(s.OutagePending) > 0 {
		time.Sleep(10 * time.Millisecond)
		synctest.Wait()
	}

	var calls []afterCall
	fail := func(v *vrun.Result) vrun.Result {
		v.Witness = map[string]any{"detail": v.Witness, "calls_so_far": calls}
		pcancel()
		// best effort teardown so that the bubble can end
		cctx, c := context.WithTimeout(bg, 5*time.Second)
		go conn.Close(cctx)
		time.Sleep(6 * time.Second)
		c()
		w.Close()
		return *v
	}
	closeWithin := func(obj string, d time.Duration, f func(ctx context.Context) error) *vrun.Result {
		ctx, c := context.WithTimeout(bg, d)
		defer c()
		done := make(chan string, 1)
		go func() {
			defer func() {
				if p := recover(); p != nil {
					done <- fmt.Sprint("PANIC: ", p)
				}
			}()
			f(ctx)
			done <- ""
		}()
		select {
		case r := <-done:
			if r != "" {
				v := vrun.Violation(obj+".Close panicked", "close-panics:"+obj+":"+s.Outage, map[string]any{"panic": r})
				return &v
			}
			return nil
		case <-time.After(d + time.Millisecond):
			v := vrun.Violation(obj+".Close did not return by its context deadline", "close-blocks:"+obj+":"+s.Outage, map[string]any{"deadline": d.String()})
			return &v
		}
	}
	// stream closes
	if s.Order != "conn-only" {
		for i, up := range ups {
			up := up
			if v := closeWithin("Upstream", 5*time.Second, func(ctx context.Context) error { return up.Close(ctx) }); v != nil {
				return fail(v)
			}
			if s.Order == "stream-close-twice-then-conn" {
				if v := closeWithin("Upstream(second Close)", 5*time.Second, func(ctx context.Context) error { return up.Close(ctx) }); v != nil {
					return fail(v)
				}
			}
			for _, pc := range []struct {
				n string
				f func(ctx context.Context) error
			}{
				{"WriteDataPoints", func(ctx context.Context) error {
					return up.WriteDataPoints(ctx, id, &message.DataPoint{ElapsedTime: 99, Payload: []byte("late")})
				}},
				{"Flush", func(ctx context.Context) error { return up.Flush(ctx) }},
			} {
				ac, v := after("Upstream", pc.n, pc.f)
				calls = append(calls, ac)
				if v != nil {
					return fail(v)
				}
			}
			_ = i
		}
		for _, d := range downs {
			d := d
			if v := closeWithin("Downstream", 5*time.Second, d.Close); v != nil {
				return fail(v)
			}
			if s.Order == "stream-close-twice-then-conn" {
				if v := closeWithin("Downstream(second Close)", 5*time.Second, d.Close); v != nil {
					return fail(v)
				}
			}
			for _, pc := range []struct {
				n string
				f func(ctx context.Context) error
			}{
				{"ReadDataPoints", func(ctx context.Context) error { _, err := d.ReadDataPoints(ctx); return err }},
				{"ReadMetadata", func(ctx context.Context) error { _, err := d.ReadMetadata(ctx); return err }},
			} {
				ac, v := after("Downstream", pc.n, pc.f)
				calls = append(calls, ac)
				if v != nil {
					return fail(v)
				}
			}
		}
	}
	// a write whose chunk is on its way into the transport when the connection is closed
	if s.LastWrite && s.Order == "conn-only" {
		for _, up := range ups {
			ctx, c := context.WithTimeout(bg, time.Second)
			up.WriteDataPoints(ctx, id, &message.DataPoint{ElapsedTime: 88, Payload: []byte("in-flight-at-close")})
			c()
		}
	}
	// a burst of end-to-end calls from the peer that is still in the transport when Close stops the call dispatcher
	if s.CallBurst > 0 {
		if blc := w.B.CurrentLink(); blc != nil {
			for k := 0; k < s.CallBurst; k++ {
				blc.Send(&message.DownstreamCall{CallID: fmt.Sprintf("burst%d", k), SourceNodeID: "src", Name: "n", Type: "t", Payload: []byte("c")})
				if k%2 == 0 {
					blc.Send(&message.DownstreamCall{CallID: fmt.Sprintf("burst-reply%d", k), RequestCallID: "nobody", SourceNodeID: "src", Name: "n", Type: "t", Payload: []byte("c")})
				}
			}
		}
	}
	// connection close, possibly from several goroutines at once
	dialsBefore := w.Net.Dials()
	var cwg sync.WaitGroup
	var closeViol atomic.Pointer[vrun.Result]
	for i := 0; i < s.Closers; i++ {
		cwg.Add(1)
		go func() {
			defer cwg.Done()
			if v := closeWithin("Conn", 5*time.Second, conn.Close); v != nil {
				closeViol.CompareAndSwap(nil, v)
			}
		}()
	}
	cwg.Wait()
	if v := closeViol.Load(); v != nil {
		return fail(v)
	}
	closeReturned := time.Now()
	discAtClose := disc.Load()
	// (a) post-close call matrix on the connection and on the streams that were left open
	connCalls := []struct {
		n string
		f func(ctx context.Context) error
	}{
		{"OpenUpstream", func(ctx context.Context) error { _, err := conn.OpenUpstream(ctx, "late"); return err }},
		{"OpenDownstream", func(ctx context.Context) error {
			_, err := conn.OpenDownstream(ctx, []*message.DownstreamFilter{{SourceNodeID: "src", DataFilters: []*message.DataFilter{{Name: "#", Type: "#"}}}})
			return err
		}},
		{"SendBaseTime", func(ctx context.Context) error {
			return conn.SendBaseTime(ctx, &message.BaseTime{Name: "late", BaseTime: time.Unix(1, 0).UTC()})
		}},
		{"SendCall", func(ctx context.Context) error {
			_, err := conn.SendCall(ctx, &iscp.UpstreamCall{DestinationNodeID: "n", Name: "late", Type: "t"})
			return err
		}},
		{"SendReplyCall", func(ctx context.Context) error {
			_, err := conn.SendReplyCall(ctx, &iscp.UpstreamReplyCall{RequestCallID: "r", DestinationNodeID: "n", Name: "late", Type: "t"})
			return err
		}},
		{"SendCallAndWaitReplayCall", func(ctx context.Context) error {
			_, err := conn.SendCallAndWaitReplayCall(ctx, &iscp.UpstreamCall{DestinationNodeID: "n", Name: "late", Type: "t"})
			return err
		}},
		{"ReceiveCall", func(ctx context.Context) error { _, err := conn.ReceiveCall(ctx); return err }},
		{"ReceiveReplyCall", func(ctx context.Context) error { _, err := conn.ReceiveReplyCall(ctx); return err }},
	}
	for _, pc := range connCalls {
		ac, v := after("Conn", pc.n, pc.f)
		calls = append(calls, ac)
		if v != nil {
			return fail(v)
		}
	}
	if s.Order == "conn-only" {
		// streams left open are cancelled by watcher goroutines when the connection closes: give them a moment
		time.Sleep(time.Second)
		synctest.Wait()
		for _, up := range ups {
			up := up
			for _, pc := range []struct {
				n string
				f func(ctx context.Context) error
			}{
				{"WriteDataPoints", func(ctx context.Context) error {
					return up.WriteDataPoints(ctx, id, &message.DataPoint{ElapsedTime: 99, Payload: []byte("late")})
				}},
				{"Flush", func(ctx context.Context) error { return up.Flush(ctx) }},
			} {
				ac, v := after("Conn(stream left open)", pc.n, pc.f)
				calls = append(calls, ac)
				if v != nil {
					return fail(v)
				}
			}
			if v := closeWithin("Upstream(after Conn.Close)", 5*time.Second, func(ctx context.Context) error { return up.Close(ctx) }); v != nil {
				return fail(v)
			}
		}
		for _, d := range downs {
			d := d
			for _, pc := range []struct {
				n string
				f func(ctx context.Context) error
			}{
				{"ReadDataPoints", func(ctx context.Context) error { _, err := d.ReadDataPoints(ctx); return err }},
				{"ReadMetadata", func(ctx context.Context) error { _, err := d.ReadMetadata(ctx); return err }},
			} {
				ac, v := after("Conn(stream left open)", pc.n, pc.f)
				calls = append(calls, ac)
				if v != nil {
					return fail(v)
				}
			}
			if v := closeWithin("Downstream(after Conn.Close)", 5*time.Second, d.Close); v != nil {
				return fail(v)
			}
		}
	}
	if v := closeWithin("Conn(second Close)", 5*time.Second, conn.Close); v != nil {
		return fail(v)
	}
	// calls that were pending when the connection was closed must not stay blocked on the closed object: two virtual
	// seconds after Close returned (their own contexts would allow 30 s) every one of them has returned
	time.Sleep(2 * time.Second)
	synctest.Wait()
	pendMu.Lock()
	var stillBlocked []string
	for name, ret := range pendingReturned {
		if !ret {
			stillBlocked = append(stillBlocked, name)
		}
	}
	pendMu.Unlock()
	if len(stillBlocked) > 0 {
		sort.Strings(stillBlocked)
		v := vrun.Violation("a call that was pending when the connection was closed is still blocked 2 virtual seconds after Close returned", "pending-call-blocked-after-close:"+strings.SplitN(stillBlocked[0], "#", 2)[0]+":"+s.Outage, map[string]any{"still_blocked": stillBlocked})
		return fail(&v)
	}
	// let pending calls end, timers expire; then the peer side goes away too
	pcancel()
	pwg.Wait()
	holdConnect.Store(false)
	holdResume.Store(false)
	// the broker now answers the connect requests it sat on: a dial that was under way when Close arrived completes
	// AFTER Close - the client must give that connection up at once
	heldMu.Lock()
	hc := heldConnects
	heldConnects = nil
	heldMu.Unlock()
	for _, f := range hc {
		f()
	}
	time.Sleep(30 * time.Second)
	synctest.Wait()
	dialsAfter := w.Net.Dials()
	ledger := w.B.Ledger()
	// "never reconnects": 30 virtual seconds after Close returned the client holds no transport open any more - also
	// not one whose dial was under way when Close arrived
	for _, l := range w.Net.Links() {
		select {
		case <-l.ClosedCh():
		default:
			return vrun.Violation("a transport of the closed connection is still open on the client side 30 virtual seconds after Close returned", "transport-left-open-after-close:"+s.Outage,
				map[string]any{"link": l.ID, "links": len(w.Net.Links()), "calls": calls})
		}
	}
	w.Close()
	time.Sleep(5 * time.Minute)
	synctest.Wait()
	// (b) silence after Disconnect
	discSeen := map[int]bool{}
	for _, e := range ledger {
		if e.Dir != memnet.C2S {
			continue
		}
		if _, ok := e.Msg.(*message.Disconnect); ok {
			discSeen[e.Link] = true
			continue
		}
		if discSeen[e.Link] {
			switch e.Msg.(type) {
			case *message.Ping, *message.Pong:
			default:
				return vrun.Violation("the client sent a message other than Ping/Pong after its Disconnect", "message-after-disconnect:"+e.Class, map[string]any{"class": e.Class, "link": e.Link, "calls": calls})
			}
		}
	}
	for _, dt := range w.Net.DialTimes() {
		// a dial at the very instant Close returns may belong to a reconnect that was already under way
		if dt.After(closeReturned) {
			return vrun.Violation("the client dialled again after Close had returned", "redial-after-close", map[string]any{"dials_before": dialsBefore, "dials_after": dialsAfter, "after_close_by": dt.Sub(closeReturned).String()})
		}
	}
	_ = closeReturned
	// (c) notifications at most once
	for i := range ups {
		if n := upClosed[i].Load(); n > 1 {
			return vrun.Violation("an upstream's closed notification fired more than once", "upstream-closed-twice", map[string]any{"times": n})
		}
	}
	for i := range downs {
		if n := downClosed[i].Load(); n > 1 {
			return vrun.Violation("a downstream's closed notification fired more than once", "downstream-closed-twice", map[string]any{"times": n})
		}
	}
	if n := disc.Load() - discAtClose; n > 1 {
		return vrun.Violation("the disconnected notification fired more than once after Close", "disconnected-notified-twice-after-close", map[string]any{"times": n})
	}
	// (d) census
	left := vrun.BubbleCensus()
	if len(left) > 0 {
		var sites []string
		for _, g := range left {
			sites = append(sites, g.InnermostLib()+" <- "+strings.TrimPrefix(g.CreatedBy, vrun.LibPrefix))
		}
		sort.Strings(sites)
		key := sites[0]
		return vrun.Violation("library goroutines survive although the connection is closed, the peer is gone and 5 virtual minutes have passed", "goroutine-leak:"+key,
			map[string]any{"goroutines": sites, "first": left[0].Text, "count": len(left)})
	}
	r := vrun.Hold(fmt.Sprintf("%d|%d|%d|%d|%d|%v|%s|%s|%d|%v|%v|%v|%s%d|b%d", s.Ups, s.Downs, s.Writes, s.Buffered, s.BufferedCalls, s.Pending, s.Order, s.Outage, s.Closers, s.SlowWrites, s.LastWrite, s.OutagePending, s.SlowLog, s.SlowLogMs, s.CallBurst), len(ups)+len(downs)+len(s.Pending) > 0)
	r.Stat("post_close_calls_judged", int64(len(calls)))
	r.Stat("streams_open_at_conn_close", int64(len(ups)+len(downs)))
	r.AddSet("outages", s.Outage)
	r.AddSet("orders", s.Order)
	return r
}

// TestC10DisconnectLast runs in REAL time: client writes are stretched inside the transport (2 ms before a message
// reaches the wire; the Disconnect write returns 10 ms after the Disconnect reached the wire), writers and acks keep
// going while the connection is closed. Nothing but Ping/Pong may follow the Disconnect on the wire.
func TestC10DisconnectLast(t *testing.T) {
	e := vrun.LoadEnv()
	meta := vrun.Meta{Property: "C10", Workload: "TestC10DisconnectLast", Total: e.Pick(120, 6000),
		Rule:        "real time, slow transport writes (every client write takes 2 ms to reach the wire, the Disconnect write returns 10 ms after it did): 1-3 upstreams with the immediate flush policy written by one goroutine each without pause, 0-1 downstream consuming chunks with a 1 ms ack flush interval, metadata and calls from further goroutines; Conn.Close is called 0-8 ms after the start while all of them are running. Oracle on the broker's receive ledger: after the client's Disconnect on a link only Ping/Pong arrive. non-trivial = a Disconnect and at least one stream/request message before it were received; distinct = scenario tuple x number of messages before the Disconnect",
		Assumptions: []string{"a transport write may take arbitrarily long: the delays create no schedule a real transport could not produce"}}
	vrun.Loop(t, meta, 0, func(c *vrun.Case) vrun.Result {
		var res vrun.Result
		ok, dump := vrun.Watchdog(90*time.Second, func() { res = runDisconnectLast(c) })
		if !ok {
			r := vrun.WatchdogVerdict("the case never finished")
			if r.Verdict == vrun.Inconclusive {
				r.Witness = map[string]any{"dump_head": dump[:min(len(dump), 4000)]}
			}
			return r
		}
		return res
	})
}

func runDisconnectLast(c *vrun.Case) vrun.Result {
	r := c.Rng
	nUps, nDowns, closeAfter := 1+r.Intn(3), r.Intn(2), time.Duration(r.Intn(8000))*time.Microsecond
	others := r.Intn(2) == 0
	desc := map[string]any{"upstreams": nUps, "downstreams": nDowns, "close_after_us": closeAfter.Microseconds(), "metadata_and_call_goroutines": others}
	w := world.New()
	defer w.Close()
	w.Net.WriteDelay = func(class string) (pre, post time.Duration) {
		if class == "Disconnect" {
			return 0, 10 * time.Millisecond
		}
		return 2 * time.Millisecond, 0
	}
	w.Start()
	conn, err := w.Connect(iscp.WithConnPingInterval(time.Hour))
	if err != nil {
		return vrun.Inconcl("connect: " + err.Error())
	}
	bg := context.Background()
	id := &message.DataID{Name: "d", Type: "t"}
	var ups []*iscp.Upstream
	for i := 0; i < nUps; i++ {
		ctx, cn := context.WithTimeout(bg, 10*time.Second)
		up, err := conn.OpenUpstream(ctx, fmt.Sprintf("s%d", i), iscp.WithUpstreamQoS([]message.QoS{message.QoSReliable, message.QoSUnreliable, message.QoSPartial}[i%3]), iscp.WithUpstreamFlushPolicyImmediately(), iscp.WithUpstreamCloseTimeout(time.Second))
		cn()
		if err != nil {
			conn.Close(bg)
			return vrun.Inconcl("open upstream: " + err.Error())
		}
		ups = append(ups, up)
	}
	var downs []*iscp.Downstream
	for i := 0; i < nDowns; i++ {
		ctx, cn := context.WithTimeout(bg, 10*time.Second)
		d, err := conn.OpenDownstream(ctx, []*message.DownstreamFilter{{SourceNodeID: "src", DataFilters: []*message.DataFilter{{Name: "#", Type: "#"}}}}, iscp.WithDownstreamQoS(message.QoSReliable), iscp.WithDownstreamAckFlushInterval(time.Millisecond))
		cn()
		if err != nil {
			conn.Close(bg)
			return vrun.Inconcl("open downstream: " + err.Error())
		}
		downs = append(downs, d)
	}
	stop := make(chan struct{})
	var wg sync.WaitGroup
	spawn := func(f func(ctx context.Context)) {
		wg.Add(1)
		go func() {
			defer wg.Done()
			defer func() { recover() }()
			for {
				select {
				case <-stop:
					return
				default:
				}
				ctx, cn := context.WithTimeout(bg, 200*time.Millisecond)
				f(ctx)
				cn()
			}
		}()
	}
	for _, up := range ups {
		up := up
		k := 0
		spawn(func(ctx context.Context) {
			k++
			if up.WriteDataPoints(ctx, id, &message.DataPoint{ElapsedTime: time.Duration(k), Payload: []byte("x")}) != nil {
				time.Sleep(200 * time.Microsecond)
			}
		})
	}
	if lc := w.B.CurrentLink(); lc != nil {
		for _, ds := range w.B.Downs() {
			for k := 0; k < 40; k++ {
				lc.Send(&message.DownstreamChunk{StreamIDAlias: ds.Alias, UpstreamOrAlias: &message.UpstreamInfo{SessionID: "u", SourceNodeID: "src", StreamID: broker.StreamIDFor("x", "u", 0)},
					StreamChunk: &message.StreamChunk{SequenceNumber: uint32(k + 1), DataPointGroups: []*message.DataPointGroup{{DataIDOrAlias: id, DataPoints: []*message.DataPoint{{ElapsedTime: 1, Payload: []byte("b")}}}}}})
			}
		}
	}
	for _, d := range downs {
		d := d
		spawn(func(ctx context.Context) {
			if _, err := d.ReadDataPoints(ctx); err != nil {
				time.Sleep(200 * time.Microsecond)
			}
		})
	}
	if others {
		spawn(func(ctx context.Context) {
			if conn.SendBaseTime(ctx, &message.BaseTime{Name: "b", BaseTime: time.Unix(1, 0).UTC()}) != nil {
				time.Sleep(200 * time.Microsecond)
			}
		})
		spawn(func(ctx context.Context) {
			if _, err := conn.SendCall(ctx, &iscp.UpstreamCall{DestinationNodeID: "n", Name: "c", Type: "t"}); err != nil {
				time.Sleep(200 * time.Microsecond)
			}
		})
	}
	time.Sleep(closeAfter)
	cctx, cn := context.WithTimeout(bg, 20*time.Second)
	closeErr := conn.Close(cctx)
	cn()
	time.Sleep(5 * time.Millisecond)
	close(stop)
	wg.Wait()
	time.Sleep(5 * time.Millisecond)
	_ = closeErr
	before, disc := 0, false
	for _, en := range w.B.Ledger() {
		if en.Dir != memnet.C2S {
			continue
		}
		if _, ok := en.Msg.(*message.Disconnect); ok {
			disc = true
			continue
		}
		switch en.Msg.(type) {
		case *message.Ping, *message.Pong, *message.ConnectRequest:
			continue
		}
		if disc {
			v := vrun.Violation("the client sent a message other than Ping/Pong after its Disconnect", "message-after-disconnect:"+en.Class, map[string]any{"class": en.Class, "messages_before_disconnect": before})
			v.Desc = desc
			return v
		}
		before++
	}
	res := vrun.Hold(fmt.Sprintf("%d|%d|%v|%d", nUps, nDowns, others, before), disc && before > 0)
	res.Desc = desc
	res.Stat("messages_before_disconnect", int64(before))
	if disc {
		res.Stat("cases_with_disconnect_received", 1)
	}
	return res
}

// TestC10AfterFaults: the goroutine clause after real fault histories - the reconnect / resume scenario engine of C05
// (faults at message boundaries in four modes, redial delays and errors, cut and refused resumes, links that die right
// after a resume, a blocking logger), then every stream and the connection are closed, the broker goes away, five virtual
// minutes pass: no goroutine created by the library is left in the bubble.
func TestC10AfterFaults(t *testing.T) {
	e := vrun.LoadEnv()
	meta := vrun.Meta{Property: "C10", Workload: "TestC10AfterFaults", Total: e.Pick(150, 20000),
		Rule:        "virtual time, the C05 scenario engine: 0-2 upstreams and 0-2 downstreams of all QoS with traffic, 1-3 transport failures at message boundaries (4 modes) with redial delays / dial errors / resume conflicts / a failure in the retry's connect handshake / a cut or refused resume / a link that dies right after a resume, optionally a blocking logger or a transport whose Close reports an error; afterwards all streams and the connection are closed, the broker side is closed, 5 virtual minutes pass. Oracle: no goroutine created by library code is alive in the bubble. non-trivial = at least one fault fired; distinct = scenario signature",
		Assumptions: []string{"only goroutines created by library functions count; the census is taken inside the bubble of the case"}}
	classesC2S := []string{"UpstreamChunk", "DownstreamChunkAck", "Ping"}
	classesS2C := []string{"UpstreamChunkAck", "DownstreamChunk", "DownstreamChunkAckComplete", "Pong"}
	vrun.Loop(t, meta, 0, func(c *vrun.Case) vrun.Result {
		r := c.Rng
		s := reconlib.Scenario{PingMs: []int{200, 500}[r.Intn(2)], Storage: "payload", WritesB: 2, DuringWrites: 2, AckHoldMod: []int{0, 2, 3}[r.Intn(3)], Census: true}
		nu, nd := r.Intn(3), r.Intn(3)
		if nu+nd == 0 {
			nu = 1
		}
		for i := 0; i < nu; i++ {
			s.Ups = append(s.Ups, reconlib.UpSpec{QoS: []string{"reliable", "unreliable", "partial"}[r.Intn(3)], Flush: []string{"immediate", "size64"}[r.Intn(2)], Writes: 8})
		}
		for i := 0; i < nd; i++ {
			s.Downs = append(s.Downs, reconlib.DownSpec{QoS: []string{"reliable", "unreliable", "partial"}[r.Intn(3)]})
		}
		for _, k := range []string{"open-up", "open-down", "metadata", "call", "call-wait"} {
			if r.Intn(4) == 0 {
				s.OutageCalls = append(s.OutageCalls, k)
			}
		}
		for i := []int{1, 1, 2, 3}[r.Intn(4)]; i > 0; i-- {
			f := reconlib.Fault{}
			dir, class := memnet.C2S, classesC2S[r.Intn(len(classesC2S))]
			if r.Intn(2) == 0 {
				dir, class = memnet.S2C, classesS2C[r.Intn(len(classesS2C))]
			}
			if nu == 0 && strings.HasPrefix(class, "Upstream") || nd == 0 && strings.HasPrefix(class, "Downstream") {
				class = map[memnet.Dir]string{memnet.C2S: "Ping", memnet.S2C: "Pong"}[dir]
			}
			f.Trigger = memnet.Trigger{Dir: dir, Class: class, Ordinal: 1 + r.Intn(4), After: r.Intn(2) == 0, Mode: []memnet.Mode{memnet.Sever, memnet.WFail, memnet.REOF, memnet.Blackhole}[r.Intn(4)]}
			switch r.Intn(5) {
			case 1:
				f.DialDelayMs = 3000
			case 2:
				f.DialErrors = 1 + r.Intn(3)
			}
			if r.Intn(5) == 0 {
				f.ResumeConflicts = 1 + 2*r.Intn(2)
			}
			switch r.Intn(8) {
			case 0:
				f.NextLink = []memnet.Trigger{{Dir: memnet.C2S, Class: "ConnectRequest", Ordinal: 1, After: r.Intn(2) == 0, Mode: memnet.Sever}}
			case 1:
				f.NextLink = []memnet.Trigger{{Dir: memnet.S2C, Class: "ConnectResponse", Ordinal: 1, Mode: memnet.Sever}}
			case 2:
				if nu > 0 {
					f.CutResumeOf = 1 + r.Intn(nu)
				}
			case 3:
				if nu > 0 {
					f.RefuseResumeOf = 1 + r.Intn(nu)
				}
			case 4:
				cl := "UpstreamResumeResponse"
				if nu == 0 {
					cl = "DownstreamResumeResponse"
				}
				f.NextLink = []memnet.Trigger{{Dir: memnet.S2C, Class: cl, Ordinal: 1, After: true, Mode: []memnet.Mode{memnet.Sever, memnet.REOF}[r.Intn(2)]}}
			}
			s.Faults = append(s.Faults, f)
		}
		if r.Intn(4) == 0 {
			s.SlowLog = reconlib.SlowLogSites[r.Intn(len(reconlib.SlowLogSites))]
			s.SlowLogMs = []int{300, 3000}[r.Intn(2)]
		}
		if r.Intn(4) == 0 {
			s.CloseFails = "broken"
		}
		var res vrun.Result
		ok, dump := vrun.Watchdog(120*time.Second, func() {
			func() {
				defer func() {
					if p := recover(); p != nil {
						if res.Verdict == "" {
							res = vrun.Inconcl(fmt.Sprint("bubble aborted: ", p))
						} else if res.Note == "" {
							res.Note = fmt.Sprint("bubble end: ", p)
						}
					}
				}()
				synctest.Test(c.T, func(t *testing.T) {
					o := reconlib.Run(s)
					if len(o.Leftover) > 0 {
						res = vrun.Violation("library goroutines survive although every stream and the connection were closed, the peer is gone and 5 virtual minutes have passed", "goroutine-leak-after-faults:"+o.Leftover[0],
							map[string]any{"goroutines": o.Leftover, "first": o.LeftoverFirst, "count": len(o.Leftover), "faults_fired": o.FaultsFired})
						return
					}
					sig := fmt.Sprintf("u%d|d%d|%v|%s%d|%s", nu, nd, s.OutageCalls, s.SlowLog, s.SlowLogMs, s.CloseFails)
					for _, f := range s.Faults {
						sig += fmt.Sprintf("|%s-%s-%s#%d", f.Trigger.Mode, f.Trigger.Dir, f.Trigger.Class, f.Trigger.Ordinal)
					}
					res = vrun.Hold(sig, o.FaultsFired > 0)
					res.Stat("faults_fired", int64(o.FaultsFired))
					res.Stat("links", int64(o.Links))
				})
			}()
		})
		if !ok {
			res = vrun.Inconcl("real-time watchdog fired (bubble stalled)")
			for _, g := range vrun.ParseStacks(dump) {
				if strings.Contains(g.Text, vrun.LibPrefix) && (strings.Contains(g.Header, "sync.Mutex.Lock") || strings.Contains(g.Header, "sync.RWMutex")) {
					res = vrun.Violation("a library goroutine is parked on a mutex forever", "close-blocks-on-mutex:"+g.InnermostLib()+":after-faults", map[string]any{"goroutine": g.Text})
					break
				}
			}
		}
		res.Desc = s
		return res
	})
}
