// C16 - end-to-end calls and replies reach exactly the caller they belong to.
package c16

import (
	"context"
	"fmt"
	"math/rand"
	"strings"
	"sync"
	"testing"
	"time"

	"github.com/aptpod/iscp-go/iscp"
	"github.com/aptpod/iscp-go/message"

	"verif/harness/broker"
	"verif/harness/memnet"
	"verif/harness/vrun"
	"verif/harness/world"
)

type scenario struct {
	Callers    int    `json:"callers"`
	PerCaller  int    `json:"calls_per_caller"`
	Batch      int    `json:"batch"`
	Order      string `json:"order"`
	ReplyFirst bool   `json:"reply_before_ack"`
	DupAcks    bool   `json:"duplicate_acks"`
	UnknownPc  int    `json:"replies_for_unknown_ids_pct"`
	NackPc     int    `json:"nack_pct"`
	Incoming   int    `json:"incoming_calls"`
	Encoding   string `json:"encoding"`
}

type out struct {
	lc *broker.LinkCtx
	m  message.Message
}

type responder struct {
	mu      sync.Mutex
	r       *rand.Rand
	s       scenario
	pending [][]out // one group per call: messages of one call stay in their relative order unless ReplyFirst
	stop    chan struct{}
	wg      sync.WaitGroup
	n       int
	replies int
}

func (rs *responder) add(g []out) {
	rs.mu.Lock()
	rs.pending = append(rs.pending, g)
	full := len(rs.pending) >= rs.s.Batch
	rs.mu.Unlock()
	if full {
		rs.flush()
	}
}

func (rs *responder) flush() {
	rs.mu.Lock()
	p := rs.pending
	rs.pending = nil
	switch rs.s.Order {
	case "reverse":
		for i, j := 0, len(p)-1; i < j; i, j = i+1, j-1 {
			p[i], p[j] = p[j], p[i]
		}
	case "random":
		rs.r.Shuffle(len(p), func(i, j int) { p[i], p[j] = p[j], p[i] })
	}
	rs.mu.Unlock()
	for _, g := range p {
		for _, o := range g {
			o.lc.Send(o.m)
		}
	}
}

func nacked(tag string, pct int) bool {
	if pct == 0 {
		return false
	}
	h := 0
	for _, c := range tag {
		h = h*31 + int(c)
	}
	if h < 0 {
		h = -h
	}
	return h%100 < pct
}

func TestC16Calls(t *testing.T) {
	e := vrun.LoadEnv()
	meta := vrun.Meta{Property: "C16", Workload: "TestC16Calls", Total: e.Pick(300, 40000),
		Rule:        "1-32 concurrent callers x 1-5 calls over SendCall / SendReplyCall / SendCallAndWaitReplayCall, each call carrying its caller's tag in the payload; the broker builds acks and replies from the UpstreamCall it saw (reply payload = 'reply:'+tag, RequestCallID = that call's id), answers in batches of 1-8 in fifo/reverse/random order, optionally reply before ack, duplicated acks, replies for unknown call ids, negative acks for a tag-determined subset; concurrently the broker pushes 0-256 incoming calls and the application drains ReceiveCall and ReceiveReplyCall. Oracle: call ids unique; the call id returned by SendCall/SendReplyCall is the id of the UpstreamCall carrying the caller's own tag; SendCallAndWaitReplayCall returns the reply built from its own call; exactly the nacked callers fail, with their own tag in the error; ReceiveCall/ReceiveReplyCall hand every item once, unmodified, in arrival order. non-trivial = >=6 calls with batch >= 2; distinct = scenario tuple",
		Assumptions: []string{"fewer than 1024 replies and incoming calls per connection (documented inbox depth), the application drains the inboxes"}}
	vrun.Loop(t, meta, 0, func(c *vrun.Case) vrun.Result {
		r := c.Rng
		s := scenario{Callers: []int{1, 2, 4, 8, 16, 32}[r.Intn(6)], PerCaller: 1 + r.Intn(5), Batch: 1 + r.Intn(8), Order: []string{"fifo", "reverse", "random", "random"}[r.Intn(4)],
			ReplyFirst: r.Intn(3) == 0, DupAcks: r.Intn(4) == 0, UnknownPc: []int{0, 20}[r.Intn(2)], NackPc: []int{0, 0, 25}[r.Intn(3)], Incoming: []int{0, 5, 60, 256}[r.Intn(4)], Encoding: []string{"proto", "json"}[r.Intn(2)]}
		var res vrun.Result
		ok, dump := vrun.Watchdog(120*time.Second, func() { res = run(c, s) })
		if !ok {
			res = vrun.WatchdogVerdict("callers never returned")
			if res.Verdict == vrun.Inconclusive {
				res.Witness = map[string]any{"dump_head": dump[:min(len(dump), 5000)]}
			}
		}
		res.Desc = s
		return res
	})
}

type callRes struct {
	API      string
	Tag      string
	ID       string
	Reply    string
	ReplyReq string
	Err      string
}

func run(c *vrun.Case, s scenario) vrun.Result {
	w := world.New()
	defer w.Close()
	rs := &responder{r: rand.New(rand.NewSource(c.Rng.Int63())), s: s, stop: make(chan struct{})}
	w.B.OnMsg = func(lc *broker.LinkCtx, m message.Message, unrel bool) bool {
		call, ok := m.(*message.UpstreamCall)
		if !ok {
			return false
		}
		tag := string(call.Payload)
		rs.mu.Lock()
		rs.n++
		n := rs.n
		rs.mu.Unlock()
		var g []out
		ack := &message.UpstreamCallAck{CallID: call.CallID, ResultCode: message.ResultCodeSucceeded, ResultString: "ack:" + tag}
		if nacked(tag, s.NackPc) {
			ack.ResultCode = message.ResultCodeProcessFailed
			ack.ResultString = "nack:" + tag
		}
		g = append(g, out{lc, ack})
		if s.DupAcks {
			g = append(g, out{lc, &message.UpstreamCallAck{CallID: call.CallID, ResultCode: ack.ResultCode, ResultString: ack.ResultString}})
		}
		if call.Name == "wait-reply" && ack.ResultCode == message.ResultCodeSucceeded {
			rep := &message.DownstreamCall{CallID: fmt.Sprintf("broker-reply-%d", n), RequestCallID: call.CallID, SourceNodeID: "peer", Name: "reply", Type: "t", Payload: []byte("reply:" + tag)}
			rs.mu.Lock()
			rs.replies++
			rs.mu.Unlock()
			if s.ReplyFirst {
				g = append([]out{{lc, rep}}, g...)
			} else {
				g = append(g, out{lc, rep})
			}
		}
		if s.UnknownPc > 0 && n%5 == 0 {
			rs.mu.Lock()
			rs.replies++
			rs.mu.Unlock()
			g = append(g, out{lc, &message.DownstreamCall{CallID: fmt.Sprintf("broker-unk-%d", n), RequestCallID: fmt.Sprintf("never-issued-%d", n), SourceNodeID: "peer", Name: "reply", Type: "t", Payload: []byte("reply:nobody")}})
			g = append(g, out{lc, &message.UpstreamCallAck{CallID: fmt.Sprintf("never-issued-%d", n), ResultCode: message.ResultCodeSucceeded, ResultString: "ack:nobody"}})
		}
		rs.add(g)
		return true
	}
	w.Start()
	rs.wg.Add(1)
	go func() {
		defer rs.wg.Done()
		for {
			select {
			case <-rs.stop:
				return
			case <-time.After(500 * time.Microsecond):
				rs.flush()
			}
		}
	}()
	defer func() { close(rs.stop); rs.wg.Wait() }()
	enc := iscp.EncodingNameProtobuf
	if s.Encoding == "json" {
		enc = iscp.EncodingNameJSON
	}
	conn, err := w.Connect(iscp.WithConnEncoding(enc), iscp.WithConnPingInterval(time.Hour))
	if err != nil {
		return vrun.Inconcl("connect: " + err.Error())
	}
	defer conn.Close(context.Background())
	ctx, cancelAll := context.WithTimeout(context.Background(), 90*time.Second)
	defer cancelAll()

	// incoming calls pushed by the broker while the callers run
	lc := w.B.CurrentLink()
	var incoming []string
	var pushWG sync.WaitGroup
	pushWG.Add(1)
	go func() {
		defer pushWG.Done()
		for i := 0; i < s.Incoming; i++ {
			lc.Send(&message.DownstreamCall{CallID: fmt.Sprintf("in-%d", i), SourceNodeID: "src", Name: fmt.Sprintf("n%d", i), Type: "ty", Payload: []byte(fmt.Sprintf("in-payload-%d", i))})
			if i%16 == 0 {
				time.Sleep(100 * time.Microsecond)
			}
		}
	}()
	for i := 0; i < s.Incoming; i++ {
		incoming = append(incoming, fmt.Sprintf("in-%d|src|n%d|ty|in-payload-%d", i, i, i))
	}
	var recvWG sync.WaitGroup
	var gotCalls []string
	recvWG.Add(1)
	go func() {
		defer recvWG.Done()
		for i := 0; i < s.Incoming; i++ {
			dc, err := conn.ReceiveCall(ctx)
			if err != nil {
				return
			}
			gotCalls = append(gotCalls, fmt.Sprintf("%s|%s|%s|%s|%s", dc.CallID, dc.SourceNodeID, dc.Name, dc.Type, dc.Payload))
		}
	}()
	// drain of the reply inbox
	var gotReplies []string
	var mu sync.Mutex
	rctx, rcancel := context.WithCancel(ctx)
	var replyWG sync.WaitGroup
	replyWG.Add(1)
	go func() {
		defer replyWG.Done()
		for {
			rc, err := conn.ReceiveReplyCall(rctx)
			if err != nil {
				return
			}
			mu.Lock()
			gotReplies = append(gotReplies, fmt.Sprintf("%s|%s|%s", rc.CallID, rc.RequestCallID, rc.Payload))
			mu.Unlock()
		}
	}()

	var results []callRes
	var wg sync.WaitGroup
	for ci := 0; ci < s.Callers; ci++ {
		wg.Add(1)
		go func(ci int) {
			defer wg.Done()
			for k := 0; k < s.PerCaller; k++ {
				tag := fmt.Sprintf("caller%d-%d", ci, k)
				cr := callRes{Tag: tag}
				switch (ci + k) % 3 {
				case 0:
					cr.API = "SendCall"
					id, err := conn.SendCall(ctx, &iscp.UpstreamCall{DestinationNodeID: "dst", Name: "plain", Type: "t", Payload: []byte(tag)})
					cr.ID = id
					if err != nil {
						cr.Err = err.Error()
					}
				case 1:
					cr.API = "SendReplyCall"
					id, err := conn.SendReplyCall(ctx, &iscp.UpstreamReplyCall{RequestCallID: "req-" + tag, DestinationNodeID: "dst", Name: "replycall", Type: "t", Payload: []byte(tag)})
					cr.ID = id
					if err != nil {
						cr.Err = err.Error()
					}
				case 2:
					cr.API = "SendCallAndWaitReplayCall"
					rep, err := conn.SendCallAndWaitReplayCall(ctx, &iscp.UpstreamCall{DestinationNodeID: "dst", Name: "wait-reply", Type: "t", Payload: []byte(tag)})
					if err != nil {
						cr.Err = err.Error()
					} else {
						cr.Reply, cr.ReplyReq = string(rep.Payload), rep.RequestCallID
					}
				}
				mu.Lock()
				results = append(results, cr)
				mu.Unlock()
			}
		}(ci)
	}
	wg.Wait()
	pushWG.Wait()
	recvWG.Wait()
	// wait until the reply inbox has handed out everything the broker sent
	deadline := time.Now().Add(10 * time.Second)
	for time.Now().Before(deadline) {
		rs.flush()
		rs.mu.Lock()
		want := rs.replies
		rs.mu.Unlock()
		mu.Lock()
		n := len(gotReplies)
		mu.Unlock()
		_ = n
		if len(gotRepliesSnapshot(&gotReplies, &mu)) >= want {
			break
		}
		time.Sleep(200 * time.Microsecond)
	}
	rcancel()
	replyWG.Wait()

	// ledger: calls by id
	byID := map[string]*message.UpstreamCall{}
	var replyOrder []string
	for _, e := range w.B.Ledger() {
		switch m := e.Msg.(type) {
		case *message.UpstreamCall:
			if e.Dir == memnet.C2S {
				if _, dup := byID[m.CallID]; dup {
					return vrun.Violation("two UpstreamCalls carry the same call id", "call-id-reused", map[string]any{"id": m.CallID})
				}
				byID[m.CallID] = m
			}
		case *message.DownstreamCall:
			if e.Dir == memnet.S2C && m.RequestCallID != "" && e.Sent {
				replyOrder = append(replyOrder, fmt.Sprintf("%s|%s|%s", m.CallID, m.RequestCallID, m.Payload))
			}
		}
	}
	for _, cr := range results {
		nk := nacked(cr.Tag, s.NackPc)
		if nk {
			if cr.Err == "" {
				return vrun.Violation("a negatively acknowledged call succeeded at its caller", "nack-not-surfaced:"+cr.API, map[string]any{"call": cr})
			}
			if !strings.Contains(cr.Err, cr.Tag) {
				return vrun.Violation("a caller received the negative ack of another caller's call", "nack-of-another-caller:"+cr.API, map[string]any{"call": cr})
			}
			continue
		}
		if cr.Err != "" {
			return vrun.Violation("a call failed at a caller whose call was acknowledged positively", "call-failed:"+cr.API, map[string]any{"call": cr})
		}
		switch cr.API {
		case "SendCall", "SendReplyCall":
			uc, ok := byID[cr.ID]
			if !ok || string(uc.Payload) != cr.Tag {
				got := ""
				if ok {
					got = string(uc.Payload)
				}
				return vrun.Violation("the call id reported to a caller is not the id of its own call", "ack-of-another-call:"+cr.API, map[string]any{"call": cr, "id_belongs_to": got})
			}
		default:
			if cr.Reply != "reply:"+cr.Tag {
				return vrun.Violation("SendCallAndWaitReplayCall returned a reply meant for another call", "reply-of-another-caller", map[string]any{"call": cr})
			}
			uc, ok := byID[cr.ReplyReq]
			if !ok || string(uc.Payload) != cr.Tag {
				return vrun.Violation("the reply's request-call id is not the id of the caller's call", "reply-request-id-mismatch", map[string]any{"call": cr})
			}
		}
	}
	if fmt.Sprint(gotCalls) != fmt.Sprint(incoming) {
		return vrun.Violation("incoming calls were not handed to ReceiveCall once each, unmodified, in arrival order", "receivecall-order-or-content", map[string]any{"got": len(gotCalls), "want": len(incoming), "first_got": first(gotCalls), "first_want": first(incoming)})
	}
	if fmt.Sprint(gotReplies) != fmt.Sprint(replyOrder) {
		return vrun.Violation("reply calls were not handed to ReceiveReplyCall once each, unmodified, in arrival order", "receivereplycall-order-or-content", map[string]any{"got": gotReplies, "want": replyOrder})
	}
	r := vrun.Hold(fmt.Sprintf("%d|%d|%d|%s|%v|%v|%d|%d|%d|%s", s.Callers, s.PerCaller, s.Batch, s.Order, s.ReplyFirst, s.DupAcks, s.UnknownPc, s.NackPc, s.Incoming, s.Encoding), len(results) >= 6 && s.Batch >= 2)
	r.Stat("calls", int64(len(results)))
	r.Stat("incoming_calls_received", int64(len(gotCalls)))
	r.Stat("replies_received", int64(len(gotReplies)))
	return r
}

func gotRepliesSnapshot(p *[]string, mu *sync.Mutex) []string {
	mu.Lock()
	defer mu.Unlock()
	return *p
}

func first(l []string) string {
	if len(l) == 0 {
		return ""
	}
	return l[0]
}

// TestC16WaitersOnly: an application that only uses SendCallAndWaitReplayCall never drains ReceiveReplyCall, so the
// reply inbox (1024 deep, drop on overflow) fills up; the waiting callers must keep getting their own replies.
func TestC16WaitersOnly(t *testing.T) {
	e := vrun.LoadEnv()
	meta := vrun.Meta{Property: "C16", Workload: "TestC16WaitersOnly", Total: e.Pick(6, 120),
		Rule:        "1-8 concurrent callers perform 1100-1600 SendCallAndWaitReplayCall round trips in total on one connection; the application never calls ReceiveReplyCall or ReceiveCall (the reply inbox overflows after 1024 replies); the broker acks and replies at once, reply payload = 'reply:'+tag of the call it saw. Oracle: every call returns the reply built from its own call (request-call id = its call id, payload carries its tag). non-trivial = more than 1024 round trips completed; distinct = (callers, total)",
		Assumptions: []string{"the reply inbox may drop replies on overflow (documented buffering); the waiters may not be affected by it"}}
	vrun.Loop(t, meta, 2, func(c *vrun.Case) vrun.Result {
		callers := []int{1, 2, 4, 8}[c.Rng.Intn(4)]
		total := 1100 + c.Rng.Intn(500)
		desc := map[string]any{"callers": callers, "round_trips": total}
		var res vrun.Result
		ok, dump := vrun.Watchdog(120*time.Second, func() { res = runWaitersOnly(callers, total) })
		if !ok {
			res = vrun.WatchdogVerdict("callers never returned")
			if res.Verdict == vrun.Inconclusive {
				res.Witness = map[string]any{"dump_head": dump[:min(len(dump), 5000)]}
			}
		}
		res.Desc = desc
		return res
	})
}

func runWaitersOnly(callers, total int) vrun.Result {
	w := world.New()
	defer w.Close()
	w.B.OnMsg = func(lc *broker.LinkCtx, m message.Message, unrel bool) bool {
		call, ok := m.(*message.UpstreamCall)
		if !ok {
			return false
		}
		lc.Send(&message.UpstreamCallAck{CallID: call.CallID, ResultCode: message.ResultCodeSucceeded, ResultString: "OK"})
		lc.Send(&message.DownstreamCall{CallID: "r-" + call.CallID, RequestCallID: call.CallID, SourceNodeID: "peer", Name: "reply", Type: "t", Payload: append([]byte("reply:"), call.Payload...)})
		return true
	}
	w.Start()
	conn, err := w.Connect(iscp.WithConnPingInterval(time.Hour))
	if err != nil {
		return vrun.Inconcl("connect: " + err.Error())
	}
	defer conn.Close(context.Background())
	var wg sync.WaitGroup
	var mu sync.Mutex
	var firstBad *vrun.Result
	done := 0
	per := (total + callers - 1) / callers
	for ci := 0; ci < callers; ci++ {
		wg.Add(1)
		go func(ci int) {
			defer wg.Done()
			for k := 0; k < per; k++ {
				mu.Lock()
				stop := firstBad != nil
				mu.Unlock()
				if stop {
					return
				}
				tag := fmt.Sprintf("c%d-k%d", ci, k)
				ctx, cancel := context.WithTimeout(context.Background(), 10*time.Second)
				rep, err := conn.SendCallAndWaitReplayCall(ctx, &iscp.UpstreamCall{DestinationNodeID: "peer", Name: "wait-reply", Type: "t", Payload: []byte(tag)})
				cancel()
				mu.Lock()
				switch {
				case err != nil:
					if firstBad == nil {
						v := vrun.Violation("SendCallAndWaitReplayCall did not return its reply although the broker acknowledged and answered the call", "waiter-got-no-reply", map[string]any{"tag": tag, "error": err.Error(), "round_trips_completed_before": done})
						firstBad = &v
					}
				case string(rep.Payload) != "reply:"+tag:
					if firstBad == nil {
						v := vrun.Violation("SendCallAndWaitReplayCall returned a reply that belongs to another call", "waiter-got-foreign-reply", map[string]any{"tag": tag, "reply": string(rep.Payload)})
						firstBad = &v
					}
				default:
					done++
				}
				mu.Unlock()
			}
		}(ci)
	}
	wg.Wait()
	if firstBad != nil {
		return *firstBad
	}
	r := vrun.Hold(fmt.Sprintf("%d|%d", callers, total), done > 1024)
	r.Stat("round_trips_with_undrained_reply_inbox", int64(done))
	return r
}

// TestC16CloseWhileWaiting: "a closed connection surfaces as an error to that caller" - callers that wait for an ack or
// for a reply when the connection is closed get an error promptly instead of waiting for their own context.
func TestC16CloseWhileWaiting(t *testing.T) {
	e := vrun.LoadEnv()
	meta := vrun.Meta{Property: "C16", Workload: "TestC16CloseWhileWaiting", Total: e.Pick(60, 3000),
		Rule:        "1-8 callers of SendCallAndWaitReplayCall whose calls the broker acknowledges but never answers, 0-4 callers of SendCall / SendReplyCall whose acks are withheld, 0-2 goroutines blocked in ReceiveCall / ReceiveReplyCall; once the acks are out the connection is closed (0-3 ms later). Oracle: every caller returns a non-nil error within 3 s of real time (their contexts allow 60 s); nobody receives a reply. non-trivial = at least one caller was waiting for a reply after a positive ack; distinct = scenario tuple",
		Assumptions: []string{"'promptly' is judged as 3 s of real time against a 60 s context"}}
	vrun.Loop(t, meta, 0, func(c *vrun.Case) vrun.Result {
		r := c.Rng
		waiters, ackWaiters, receivers, delayUs := 1+r.Intn(8), r.Intn(5), r.Intn(3), r.Intn(3000)
		desc := map[string]any{"reply_waiters": waiters, "ack_waiters": ackWaiters, "receivers": receivers, "close_after_us": delayUs}
		var res vrun.Result
		ok, dump := vrun.Watchdog(120*time.Second, func() {
			res = runCloseWhileWaiting(waiters, ackWaiters, receivers, time.Duration(delayUs)*time.Microsecond)
		})
		if !ok {
			res = vrun.WatchdogVerdict("the case never finished")
			if res.Verdict == vrun.Inconclusive {
				res.Witness = map[string]any{"dump_head": dump[:min(len(dump), 5000)]}
			}
		}
		res.Desc = desc
		return res
	})
}

func runCloseWhileWaiting(waiters, ackWaiters, receivers int, delay time.Duration) vrun.Result {
	w := world.New()
	defer w.Close()
	var acked sync.WaitGroup
	acked.Add(waiters)
	w.B.OnMsg = func(lc *broker.LinkCtx, m message.Message, unrel bool) bool {
		switch t := m.(type) {
		case *message.UpstreamCall:
			if t.Name == "wait-reply" {
				lc.Send(&message.UpstreamCallAck{CallID: t.CallID, ResultCode: message.ResultCodeSucceeded, ResultString: "OK"})
				acked.Done()
			}
			return true // every other call (SendCall, SendReplyCall): the ack is withheld
		}
		return false
	}
	w.Start()
	conn, err := w.Connect(iscp.WithConnPingInterval(time.Hour))
	if err != nil {
		return vrun.Inconcl("connect: " + err.Error())
	}
	ctx, cancel := context.WithTimeout(context.Background(), 60*time.Second)
	defer cancel()
	type outcome struct {
		name string
		err  error
		got  bool
	}
	results := make(chan outcome, waiters+2*ackWaiters+receivers+1)
	n := 0
	start := func(name string, f func() (bool, error)) {
		n++
		go func() {
			defer func() {
				if p := recover(); p != nil {
					results <- outcome{name: name, err: fmt.Errorf("PANIC: %v", p)}
				}
			}()
			got, err := f()
			results <- outcome{name: name, err: err, got: got}
		}()
	}
	for i := 0; i < waiters; i++ {
		start("SendCallAndWaitReplayCall", func() (bool, error) {
			rep, err := conn.SendCallAndWaitReplayCall(ctx, &iscp.UpstreamCall{DestinationNodeID: "peer", Name: "wait-reply", Type: "t", Payload: []byte("w")})
			return rep != nil, err
		})
	}
	for i := 0; i < ackWaiters; i++ {
		if i%2 == 0 {
			start("SendCall", func() (bool, error) {
				_, err := conn.SendCall(ctx, &iscp.UpstreamCall{DestinationNodeID: "peer", Name: "no-ack", Type: "t"})
				return false, err
			})
		} else {
			start("SendReplyCall", func() (bool, error) {
				_, err := conn.SendReplyCall(ctx, &iscp.UpstreamReplyCall{RequestCallID: "x", DestinationNodeID: "peer", Name: "no-ack", Type: "t"})
				return false, err
			})
		}
	}
	for i := 0; i < receivers; i++ {
		if i%2 == 0 {
			start("ReceiveReplyCall", func() (bool, error) { rc, err := conn.ReceiveReplyCall(ctx); return rc != nil, err })
		} else {
			start("ReceiveCall", func() (bool, error) { dc, err := conn.ReceiveCall(ctx); return dc != nil, err })
		}
	}
	ackedCh := make(chan struct{})
	go func() { acked.Wait(); close(ackedCh) }()
	select {
	case <-ackedCh:
	case <-time.After(20 * time.Second):
		conn.Close(context.Background())
		return vrun.Inconcl("the broker did not see every call within 20 s")
	}
	time.Sleep(2*time.Millisecond + delay) // the acks reach the callers: they now wait for their replies
	cctx, cc := context.WithTimeout(context.Background(), 20*time.Second)
	conn.Close(cctx)
	cc()
	deadline := time.After(3 * time.Second)
	for i := 0; i < n; i++ {
		select {
		case o := <-results:
			if o.err == nil || o.got {
				return vrun.Violation(o.name+" returned without an error although the connection was closed while it waited", "closed-connection-not-reported:"+o.name, map[string]any{"got_item": o.got})
			}
			if strings.HasPrefix(o.err.Error(), "PANIC") {
				return vrun.Violation(o.name+" panicked when the connection was closed while it waited", "panic-on-close:"+o.name, map[string]any{"panic": o.err.Error()})
			}
		case <-deadline:
			return vrun.Violation("a caller that waited for its ack or reply when the connection was closed is still blocked 3 s after Close returned (its context allows 60 s)", "closed-connection-not-reported:still-blocked", map[string]any{"returned": i, "callers": n})
		}
	}
	r := vrun.Hold(fmt.Sprintf("%d|%d|%d", waiters, ackWaiters, receivers), waiters > 0)
	r.Stat("callers_released_by_close", int64(n))
	return r
}
