// C16 - end-to-end calls and replies reach exactly the caller they belong to.
package c16

import (
	"context"
	"fmt"
	"math/rand"
	"strings"
	"sync"
	"testing"
	"testing/synctest"
	"time"

	"github.com/aptpod/iscp-go/iscp"
	"github.com/aptpod/iscp-go/message"

	"verif/harness/broker"
	"verif/harness/memnet"
	"verif/harness/vrun"
	"verif/harness/world"
)

type scenario struct {
	Callers    int    `json:"callers"`
	PerCaller  int    `json:"calls_per_caller"`
	Batch      int    `json:"batch"`
	Order      string `json:"order"`
	ReplyFirst bool   `json:"reply_before_ack"`
	DupAcks    bool   `json:"duplicate_acks"`
	UnknownPc  int    `json:"replies_for_unknown_ids_pct"`
	NackPc     int    `json:"nack_pct"`
	Incoming   int    `json:"incoming_calls"`
	Encoding   string `json:"encoding"`
}

type out struct {
	lc *broker.LinkCtx
	m  message.Message
}

type responder struct {
	mu      sync.Mutex
	r       *rand.Rand
	s       scenario
	pending [][]out // one group per call: messages of one call stay in their relative order unless ReplyFirst
	stop    chan struct{}
	wg      sync.WaitGroup
	n       int
	replies int
}

func (rs *responder) add(g []out) {
	rs.mu.Lock()
	rs.pending = append(rs.pending, g)
	full := len(rs.pending) >= rs.s.Batch
	rs.mu.Unlock()
	if full {
		rs.flush()
	}
}

func (rs *responder) flush() {
	rs.mu.Lock()
	p := rs.pending
	rs.pending = nil
	switch rs.s.Order {
	case "reverse":
		for i, j := 0, len(p)-1; i < j; i, j = i+1, j-1 {
			p[i], p[j] = p[j], p[i]
		}
	case "random":
		rs.r.Shuffle(len(p), func(i, j int) { p[i], p[j] = p[j], p[i] })
	}
	rs.mu.Unlock()
	for _, g := range p {
		for _, o := range g {
			o.lc.Send(o.m)
		}
	}
}

func nacked(tag string, pct int) bool {
	if pct == 0 {
		return false
	}
	h := 0
	for _, c := range tag {
		h = h*31 + int(c)
	}
	if h < 0 {
		h = -h
	}
	return h%100 < pct
}

func TestC16Calls(t *testing.T) {
	e := vrun.LoadEnv()
	meta := vrun.Meta{Property: "C16", Workload: "TestC16Calls", Total: e.Pick(300, 40000),
		Rule:        "1-32 concurrent callers x 1-5 calls over SendCall / SendReplyCall / SendCallAndWaitReplayCall, each call carrying its caller's tag in the payload; the broker builds acks and replies from the UpstreamCall it saw (reply payload = 'reply:'+tag, RequestCallID = that call's id), answers in batches of 1-8 in fifo/reverse/random order, optionally reply before ack, duplicated acks, replies for unknown call ids, negative acks for a tag-determined subset; concurrently the broker pushes 0-256 incoming calls and the application drains ReceiveCall and ReceiveReplyCall. Oracle: call ids unique; the call id returned by SendCall/SendReplyCall is the id of the UpstreamCall carrying the caller's own tag; SendCallAndWaitReplayCall returns the reply built from its own call; exactly the nacked callers fail, with their own tag in the error; ReceiveCall/ReceiveReplyCall hand every item once, unmodified, in arrival order. non-trivial = >=6 calls with batch >= 2; distinct = scenario tuple",
		Assumptions: []string{"fewer than 1024 replies and incoming calls per connection (documented inbox depth), the application drains the inboxes"}}
	vrun.Loop(t, meta, 0, func(c *vrun.Case) vrun.Result {
		r := c.Rng
		s := scenario{Callers: []int{1, 2, 4, 8, 16, 32}[r.Intn(6)], PerCaller: 1 + r.Intn(5), Batch: 1 + r.Intn(8), Order: []string{"fifo", "reverse", "random", "random"}[r.Intn(4)],
			ReplyFirst: r.Intn(3) == 0, DupAcks: r.Intn(4) == 0, UnknownPc: []int{0, 20}[r.Intn(2)], NackPc: []int{0, 0, 25}[r.Intn(3)], Incoming: []int{0, 5, 60, 256}[r.Intn(4)], Encoding: []string{"proto", "json"}[r.Intn(2)]}
		var res vrun.Result
		ok, dump := vrun.Watchdog(120*time.Second, func() { res = run(c, s) })
		if !ok {
			res = vrun.WatchdogVerdict("callers never returned")
			if res.Verdict == vrun.Inconclusive {
				res.Witness = map[string]any{"dump_head": dump[:min(len(dump), 5000)]}
			}
		}
		res.Desc = s
		return res
	})
}

type callRes struct {
	API      string
	Tag      string
	ID       string
	Reply    string
	ReplyReq string
	Err      string
}

func run(c *vrun.Case, s scenario) vrun.Result {
	w := world.New()
	defer w.Close()
	rs := &responder{r: rand.New(rand.NewSource(c.Rng.Int63())), s: s, stop: make(chan struct{})}
	w.B.OnMsg = func(lc *broker.LinkCtx, m message.Message, unrel bool) bool {
		call, ok := m.(*message.UpstreamCall)
		if !ok {
			return false
		}
		tag := string(call.Payload)
		rs.mu.Lock()
		rs.n++
		n := rs.n
		rs.mu.Unlock()
		var g []out
		ack := &message.UpstreamCallAck{CallID: call.CallID, ResultCode: message.ResultCodeSucceeded, ResultString: "ack:" + tag}
		if nacked(tag, s.NackPc) {
			ack.ResultCode = message.ResultCodeProcessFailed
			ack.ResultString = "nack:" + tag
		}
		g = append(g, out{lc, ack})
		if s.DupAcks {
			g = append(g, out{lc, &message.UpstreamCallAck{CallID: call.CallID, ResultCode: ack.ResultCode, ResultString: ack.ResultString}})
		}
		if call.Name == "wait-reply" && ack.ResultCode == message.ResultCodeSucceeded {
			rep := &message.DownstreamCall{CallID: fmt.Sprintf("broker-reply-%d", n), RequestCallID: call.CallID, SourceNodeID: "peer", Name: "reply", Type: "t", Payload: []byte("reply:" + tag)}
			rs.mu.Lock()
			rs.replies++
			rs.mu.Unlock()
			if s.ReplyFirst {
				g = append([]out{{lc, rep}}, g...)
			} else {
				g = append(g, out{lc, rep})
			}
		}
		if s.UnknownPc > 0 && n%5 == 0 {
			rs.mu.Lock()
			rs.replies++
			rs.mu.Unlock()
			g = append(g, out{lc, &message.DownstreamCall{CallID: fmt.Sprintf("broker-unk-%d", n), RequestCallID: fmt.Sprintf("never-issued-%d", n), SourceNodeID: "peer", Name: "reply", Type: "t", Payload: []byte("reply:nobody")}})
			g = append(g, out{lc, &message.UpstreamCallAck{CallID: fmt.Sprintf("never-issued-%d", n), ResultCode: message.ResultCodeSucceeded, ResultString: "ack:nobody"}})
		}
		rs.add(g)
		return true
	}
	w.Start()
	rs.wg.Add(1)
	go func() {
		defer rs.wg.Done()
		for {
			select {
			case <-rs.stop:
				return
			case <-time.After(500 * time.Microsecond):
				rs.flush()
			}
		}
	}()
	defer func() { close(rs.stop); rs.wg.Wait() }()
	enc := iscp.EncodingNameProtobuf
	if s.Encoding == "json" {
		enc = iscp.EncodingNameJSON
	}
	conn, err := w.Connect(iscp.WithConnEncoding(enc), iscp.WithConnPingInterval(time.Hour))
	if err != nil {
		return vrun.Inconcl("connect: " + err.Error())
	}
	defer conn.Close(context.Background())
	ctx, cancelAll := context.WithTimeout(context.Background(), 90*time.Second)
	defer cancelAll()

	// incoming calls pushed by the broker while the callers run
	lc := w.B.CurrentLink()
	var incoming []string
	var pushWG sync.WaitGroup
	pushWG.Add(1)
	go func() {
		defer pushWG.Done()
		for i := 0; i < s.Incoming; i++ {
			lc.Send(&message.DownstreamCall{CallID: fmt.Sprintf("in-%d", i), SourceNodeID: "src", Name: fmt.Sprintf("n%d", i), Type: "ty", Payload: []byte(fmt.Sprintf("in-payload-%d", i))})
			if i%16 == 0 {
				time.Sleep(100 * time.Microsecond)
			}
		}
	}()
	for i := 0; i < s.Incoming; i++ {
		incoming = append(incoming, fmt.Sprintf("in-%d|src|n%d|ty|in-payload-%d", i, i, i))
	}
	var recvWG sync.WaitGroup
	var gotCalls []string
	recvWG.Add(1)
	go func() {
		defer recvWG.Done()
		for i := 0; i < s.Incoming; i++ {
			dc, err := conn.ReceiveCall(ctx)
			if err != nil {
				return
			}
			gotCalls = append(gotCalls, fmt.Sprintf("%s|%s|%s|%s|%s", dc.CallID, dc.SourceNodeID, dc.Name, dc.Type, dc.Payload))
		}
	}()
	// drain of the reply inbox
	var gotReplies []string
	var mu sync.Mutex
	rctx, rcancel := context.WithCancel(ctx)
	var replyWG sync.WaitGroup
	replyWG.Add(1)
	go func() {
		defer replyWG.Done()
		for {
			rc, err := conn.ReceiveReplyCall(rctx)
			if err != nil {
				return
			}
			mu.Lock()
			gotReplies = append(gotReplies, fmt.Sprintf("%s|%s|%s", rc.CallID, rc.RequestCallID, rc.Payload))
			mu.Unlock()
		}
	}()

	var results []callRes
	var wg sync.WaitGroup
	for ci := 0; ci < s.Callers; ci++ {
		wg.Add(1)
		go func(ci int) {
			defer wg.Done()
			for k := 0; k < s.PerCaller; k++ {
				tag := fmt.Sprintf("caller%d-%d", ci, k)
				cr := callRes{Tag: tag}
				switch (ci + k) % 3 {
				case 0:
					cr.API = "SendCall"
					id, err := conn.SendCall(ctx, &iscp.UpstreamCall{DestinationNodeID: "dst", Name: "plain", Type: "t", Payload: []byte(tag)})
					cr.ID = id
					if err != nil {
						cr.Err = err.Error()
					}
				case 1:
					cr.API = "SendReplyCall"
					id, err := conn.SendReplyCall(ctx, &iscp.UpstreamReplyCall{RequestCallID: "req-" + tag, DestinationNodeID: "dst", Name: "replycall", Type: "t", Payload: []byte(tag)})
					cr.ID = id
					if err != nil {
						cr.Err = err.Error()
					}
				case 2:
					cr.API = "SendCallAndWaitReplayCall"
					rep, err := conn.SendCallAndWaitReplayCall(ctx, &iscp.UpstreamCall{DestinationNodeID: "dst", Name: "wait-reply", Type: "t", Payload: []byte(tag)})
					if err != nil {
						cr.Err = err.Error()
					} else {
						cr.Reply, cr.ReplyReq = string(rep.Payload), rep.RequestCallID
					}
				}
				mu.Lock()
				results = append(results, cr)
				mu.Unlock()
			}
		}(ci)
	}
	wg.Wait()
	pushWG.Wait()
	recvWG.Wait()
	// wait until the reply inbox has handed out everything the broker sent
	deadline := time.Now().Add(10 * time.Second)
	for time.Now().Before(deadline) {
		rs.flush()
		rs.mu.Lock()
		want := rs.replies
		rs.mu.Unlock()
		mu.Lock()
		n := len(gotReplies)
		mu.Unlock()
		_ = n
		if len(gotRepliesSnapshot(&gotReplies, &mu)) >= want {
			break
		}
		time.Sleep(200 * time.Microsecond)
	}
	rcancel()
	replyWG.Wait()

	// ledger: calls by id
	byID := map[string]*message.UpstreamCall{}
	var replyOrder []string
	for _, e := range w.B.Ledger() {
		switch m := e.Msg.(type) {
		case *message.UpstreamCall:
			if e.Dir == memnet.C2S {
				if _, dup := byID[m.CallID]; dup {
					return vrun.Violation("two UpstreamCalls carry the same call id", "call-id-reused", map[string]any{"id": m.CallID})
				}
				byID[m.CallID] = m
			}
		case *message.DownstreamCall:
			if e.Dir == memnet.S2C && m.RequestCallID != "" && e.Sent {
				replyOrder = append(replyOrder, fmt.Sprintf("%s|%s|%s", m.CallID, m.RequestCallID, m.Payload))
			}
		}
	}
	for _, cr := range results {
		nk := nacked(cr.Tag, s.NackPc)
		if nk {
			if cr.Err == "" {
				return vrun.Violation("a negatively acknowledged call succeeded at its caller", "nack-not-surfaced:"+cr.API, map[string]any{"call": cr})
			}
			if !strings.Contains(cr.Err, cr.Tag) {
				return vrun.Violation("a caller received the negative ack of another caller's call", "nack-of-another-caller:"+cr.API, map[string]any{"call": cr})
			}
			continue
		}
		if cr.Err != "" {
			return vrun.Violation("a call failed at a caller whose call was acknowledged positively", "call-failed:"+cr.API, map[string]any{"call": cr})
		}
		switch cr.API {
		case "SendCall", "SendReplyCall":
			uc, ok := byID[cr.ID]
			if !ok || string(uc.Payload) != cr.Tag {
				got := ""
				if ok {
					got = string(uc.Payload)
				}
				return vrun.Violation("the call id reported to a caller is not the id of its own call", "ack-of-another-call:"+cr.API, map[string]any{"call": cr, "id_belongs_to": got})
			}
		default:
			if cr.Reply != "reply:"+cr.Tag {
				return vrun.Violation("SendCallAndWaitReplayCall returned a reply meant for another call", "reply-of-another-caller", map[string]any{"call": cr})
			}
			uc, ok := byID[cr.ReplyReq]
			if !ok || string(uc.Payload) != cr.Tag {
				return vrun.Violation("the reply's request-call id is not the id of the caller's call", "reply-request-id-mismatch", map[string]any{"call": cr})
			}
		}
	}
	if fmt.Sprint(gotCalls) != fmt.Sprint(incoming) {
		return vrun.Violation("incoming calls were not handed to ReceiveCall once each, unmodified, in arrival order", "receivecall-order-or-content", map[string]any{"got": len(gotCalls), "want": len(incoming), "first_got": first(gotCalls), "first_want": first(incoming)})
	}
	if fmt.Sprint(gotReplies) != fmt.Sprint(replyOrder) {
		return vrun.Violation("reply calls were not handed to ReceiveReplyCall once each, unmodified, in arrival order", "receivereplycall-order-or-content", map[string]any{"got": gotReplies, "want": replyOrder})
	}
	r := vrun.Hold(fmt.Sprintf("%d|%d|%d|%s|%v|%v|%d|%d|%d|%s", s.Callers, s.PerCaller, s.Batch, s.Order, s.ReplyFirst, s.DupAcks, s.UnknownPc, s.NackPc, s.Incoming, s.Encoding), len(results) >= 6 && s.Batch >= 2)
	r.Stat("calls", int64(len(results)))
	r.Stat("incoming_calls_received", int64(len(gotCalls)))
	r.Stat("replies_received", int64(len(gotReplies)))
	return r
}

func gotRepliesSnapshot(p *[]string, mu *sync.Mutex) []string {
	mu.Lock()
	defer mu.Unlock()
	return *p
}

func first(l []string) string {
	if len(l) == 0 {
		return ""
	}
	return l[0]
}

// TestC16WaitersOnly: an application that only uses SendCallAndWaitReplayCall never drains ReceiveReplyCall, so the
// reply inbox (1024 deep, drop on overflow) fills up; the waiting callers must keep getting their own replies.
func TestC16WaitersOnly(t *testing.T) {
	e := vrun.LoadEnv()
	meta := vrun.Meta{Property: "C16", Workload: "TestC16WaitersOnly", Total: e.Pick(6, 120),
		Rule:        "1-8 concurrent callers perform 1100-1600 SendCallAndWaitReplayCall round trips in total on one connection; the application never calls ReceiveReplyCall or ReceiveCall (the reply inbox overflows after 1024 replies); the broker acks and replies at once, reply payload = 'reply:'+tag of the call it saw. Oracle: every call returns the reply built from its own call (request-call id = its call id, payload carries its tag). non-trivial = more than 1024 round trips completed; distinct = (callers, total)",
		Assumptions: []string{"the reply inbox may drop replies on overflow (documented buffering); the waiters may not be affected by it"}}
	vrun.Loop(t, meta, 2, func(c *vrun.Case) vrun.Result {
		callers := []int{1, 2, 4, 8}[c.Rng.Intn(4)]
		total := 1100 + c.Rng.Intn(500)
		desc := map[string]any{"callers": callers, "round_trips": total}
		var res vrun.Result
		ok, dump := vrun.Watchdog(120*time.Second, func() { res = runWaitersOnly(callers, total) })
		if !ok {
			res = vrun.WatchdogVerdict("callers never returned")
			if res.Verdict == vrun.Inconclusive {
				res.Witness = map[string]any{"dump_head": dump[:min(len(dump), 5000)]}
			}
		}
		res.Desc = desc
		return res
	})
}

func runWaitersOnly(callers, total int) vrun.Result {
	w := world.New()
	defer w.Close()
	w.B.OnMsg = func(lc *broker.LinkCtx, m message.Message, unrel bool) bool {
		call, ok := m.(*message.UpstreamCall)
		if !ok {
			return false
		}
		lc.Send(&message.UpstreamCallAck{CallID: call.CallID, ResultCode: message.ResultCodeSucceeded, ResultString: "OK"})
		lc.Send(&message.DownstreamCall{CallID: "r-" + call.CallID, RequestCallID: call.CallID, SourceNodeID: "peer", Name: "reply", Type: "t", Payload: append([]byte("reply:"), call.Payload...)})
		return true
	}
	w.Start()
	conn, err := w.Connect(iscp.WithConnPingInterval(time.Hour))
	if err != nil {
		return vrun.Inconcl("connect: " + err.Error())
	}
	defer conn.Close(context.Background())
	var wg sync.WaitGroup
	var mu sync.Mutex
	var firstBad *vrun.Result
	done := 0
	per := (total + callers - 1) / callers
	for ci := 0; ci < callers; ci++ {
		wg.Add(1)
		go func(ci int) {
			defer wg.Done()
			for k := 0; k < per; k++ {
				mu.Lock()
				stop := firstBad != nil
				mu.Unlock()
				if stop {
					return
				}
				tag := fmt.Sprintf("c%d-k%d", ci, k)
				ctx, cancel := context.WithTimeout(context.Background(), 10*time.Second)
				rep, err := conn.SendCallAndWaitReplayCall(ctx, &iscp.UpstreamCall{DestinationNodeID: "peer", Name: "wait-reply", Type: "t", Payload: []byte(tag)})
				cancel()
				mu.Lock()
				switch {
				case err != nil:
					if firstBad == nil {
						v := vrun.Violation("SendCallAndWaitReplayCall did not return its reply although the broker acknowledged and answered the call", "waiter-got-no-reply", map[string]any{"tag": tag, "error": err.Error(), "round_trips_completed_before": done})
						firstBad = &v
					}
				case string(rep.Payload) != "reply:"+tag:
					if firstBad == nil {
						v := vrun.Violation("SendCallAndWaitReplayCall returned a reply that belongs to another call", "waiter-got-foreign-reply", map[string]any{"tag": tag, "reply": string(rep.Payload)})
						firstBad = &v
					}
				default:
					done++
				}
				mu.Unlock()
			}
		}(ci)
	}
	wg.Wait()
	if firstBad != nil {
		return *firstBad
	}
	r := vrun.Hold(fmt.Sprintf("%d|%d", callers, total), done > 1024)
	r.Stat("round_trips_with_undrained_reply_inbox", int64(done))
	return r
}

// TestC16CloseWhileWaiting: "a closed connection surfaces as an error to that caller" - callers that wait for an ack or
// for a reply when the connection is closed get an error promptly instead of waiting for their own context.
func TestC16CloseWhileWaiting(t *testing.T) {
	e := vrun.LoadEnv()
	meta := vrun.Meta{Property: "C16", Workload: "TestC16CloseWhileWaiting", Total: e.Pick(60, 3000),
		Rule:        "1-8 callers of SendCallAndWaitReplayCall whose calls the broker acknowledges but never answers, 0-4 callers of SendCall / SendReplyCall whose acks are withheld, 0-2 goroutines blocked in ReceiveCall / ReceiveReplyCall; once the acks are out the connection is closed (0-3 ms later). Oracle: every caller returns a non-nil error within 3 s of real time (their contexts allow 60 s); nobody receives a reply. non-trivial = at least one caller was waiting for a reply after a positive ack; distinct = scenario tuple",
		Assumptions: []string{"'promptly' is judged as 3 s of real time against a 60 s context"}}
	vrun.Loop(t, meta, 0, func(c *vrun.Case) vrun.Result {
		r := c.Rng
		waiters, ackWaiters, receivers, delayUs := 1+r.Intn(8), r.Intn(5), r.Intn(3), r.Intn(3000)
		desc := map[string]any{"reply_waiters": waiters, "ack_waiters": ackWaiters, "receivers": receivers, "close_after_us": delayUs}
		var res vrun.Result
		ok, dump := vrun.Watchdog(120*time.Second, func() {
			res = runCloseWhileWaiting(waiters, ackWaiters, receivers, time.Duration(delayUs)*time.Microsecond)
		})
		if !ok {
			res = vrun.WatchdogVerdict("the case never finished")
			if res.Verdict == vrun.Inconclusive {
				res.Witness = map[string]any{"dump_head": dump[:min(len(dump), 5000)]}
			}
		}
		res.Desc = desc
		return res
	})
}

func runCloseWhileWaiting(waiters, ackWaiters, receivers int, delay time.Duration) vrun.Result {
	w := world.New()
	defer w.Close()
	var acked sync.WaitGroup
	acked.Add(waiters)
	w.B.OnMsg = func(lc *broker.LinkCtx, m message.Message, unrel bool) bool {
		switch t := m.(type) {
		case *message.UpstreamCall:
			if t.Name == "wait-reply" {
				lc.Send(&message.UpstreamCallAck{CallID: t.CallID, ResultCode: message.ResultCodeSucceeded, ResultString: "OK"})
				acked.Done()
			}
			return true // every other call (SendCall, SendReplyCall): the ack is withheld
		}
		return false
	}
	w.Start()
	conn, err := w.Connect(iscp.WithConnPingInterval(time.Hour))
	if err != nil {
		return vrun.Inconcl("connect: " + err.Error())
	}
	ctx, cancel := context.WithTimeout(context.Background(), 60*time.Second)
	defer cancel()
	type outcome struct {
		name string
		err  error
		got  bool
	}
	results := make(chan outcome, waiters+2*ackWaiters+receivers+1)
	n := 0
	start := func(name string, f func() (bool, error)) {
		n++
		go func() {
			defer func() {
				if p := recover(); p != nil {
					results <- outcome{name: name, err: fmt.Errorf("PANIC: %v", p)}
				}
			}()
			got, err := f()
			results <- outcome{name: name, err: err, got: got}
		}()
	}
	for i := 0; i < waiters; i++ {
		start("SendCallAndWaitReplayCall", func() (bool, error) {
			rep, err := conn.SendCallAndWaitReplayCall(ctx, &iscp.UpstreamCall{DestinationNodeID: "peer", Name: "wait-reply", Type: "t", Payload: []byte("w")})
			return rep != nil, err
		})
	}
	for i := 0; i < ackWaiters; i++ {
		if i%2 == 0 {
			start("SendCall", func() (bool, error) {
				_, err := conn.SendCall(ctx, &iscp.UpstreamCall{DestinationNodeID: "peer", Name: "no-ack", Type: "t"})
				return false, err
			})
		} else {
			start("SendReplyCall", func() (bool, error) {
				_, err := conn.SendReplyCall(ctx, &iscp.UpstreamReplyCall{RequestCallID: "x", DestinationNodeID: "peer", Name: "no-ack", Type: "t"})
				return false, err
			})
		}
	}
	for i := 0; i < receivers; i++ {
		if i%2 == 0 {
			start("ReceiveReplyCall", func() (bool, error) { rc, err := conn.ReceiveReplyCall(ctx); return rc != nil, err })
		} else {
			start("ReceiveCall", func() (bool, error) { dc, err := conn.ReceiveCall(ctx); return dc != nil, err })
		}
	}
	ackedCh := make(chan struct{})
	go func() { acked.Wait(); close(ackedCh) }()
	select {
	case <-ackedCh:
	case <-time.After(20 * time.Second):
		conn.Close(context.Background())
		return vrun.Inconcl("the broker did not see every call within 20 s")
	}
	time.Sleep(2*time.Millisecond + delay) // the acks reach the callers: they now wait for their replies
	cctx, cc := context.WithTimeout(context.Background(), 20*time.Second)
	conn.Close(cctx)
	cc()
	deadline := time.After(3 * time.Second)
	for i := 0; i < n; i++ {
		select {
		case o := <-results:
			if o.err == nil || o.got {
				return vrun.Violation(o.name+" returned without an error although the connection was closed while it waited", "closed-connection-not-reported:"+o.name, map[string]any{"got_item": o.got})
			}
			if strings.HasPrefix(o.err.Error(), "PANIC") {
				return vrun.Violation(o.name+" panicked when the connection was closed while it waited", "panic-on-close:"+o.name, map[string]any{"panic": o.err.Error()})
			}
		case <-deadline:
			return vrun.Violation("a caller that waited for its ack or reply when the connection was closed is still blocked 3 s after Close returned (its context allows 60 s)", "closed-connection-not-reported:still-blocked", map[string]any{"returned": i, "callers": n})
		}
	}
	r := vrun.Hold(fmt.Sprintf("%d|%d|%d", waiters, ackWaiters, receivers), waiters > 0)
	r.Stat("callers_released_by_close", int64(n))
	return r
}

// TestC16AbandonedWaiters: callers that give up after the ack (their context ends before the reply) and whose replies
// arrive late - while later callers are waiting for theirs. A later caller must get its own reply, never a late one.
func TestC16AbandonedWaiters(t *testing.T) {
	e := vrun.LoadEnv()
	meta := vrun.Meta{Property: "C16", Workload: "TestC16AbandonedWaiters", Total: e.Pick(40, 2000),
		Rule:        "1-6 callers of SendCallAndWaitReplayCall whose context allows 15 ms; the broker acknowledges them at once and answers after 60 ms (too late); 1-6 further callers start 25-40 ms in, are acknowledged at once and answered after 110 ms, i.e. after the late replies have arrived; in half of the cases the early callers repeat this 2-4 times. Oracle: every early caller ends with its context's error and without a reply; every later caller gets the reply built from its own call (request-call id and payload tag). non-trivial = at least one early caller gave up and one later caller was served; distinct = scenario tuple",
		Assumptions: []string{"real time with generous margins (15 ms context vs 60 ms reply); a case in which an early caller was served after all (machine stalled for > 45 ms) is inconclusive"}}
	vrun.Loop(t, meta, 0, func(c *vrun.Case) vrun.Result {
		r := c.Rng
		early, late, rounds := 1+r.Intn(6), 1+r.Intn(6), 1
		if r.Intn(2) == 0 {
			rounds = 2 + r.Intn(3)
		}
		desc := map[string]any{"early_callers": early, "late_callers": late, "rounds": rounds}
		var res vrun.Result
		ok, dump := vrun.Watchdog(120*time.Second, func() { res = runAbandoned(early, late, rounds) })
		if !ok {
			res = vrun.WatchdogVerdict("the case never finished")
			if res.Verdict == vrun.Inconclusive {
				res.Witness = map[string]any{"dump_head": dump[:min(len(dump), 5000)]}
			}
		}
		res.Desc = desc
		return res
	})
}

func runAbandoned(early, late, rounds int) vrun.Result {
	w := world.New()
	defer w.Close()
	w.B.OnMsg = func(lc *broker.LinkCtx, m message.Message, unrel bool) bool {
		call, ok := m.(*message.UpstreamCall)
		if !ok {
			return false
		}
		lc.Send(&message.UpstreamCallAck{CallID: call.CallID, ResultCode: message.ResultCodeSucceeded, ResultString: "OK"})
		d := 110 * time.Millisecond
		if strings.HasPrefix(string(call.Payload), "early") {
			d = 60 * time.Millisecond
		}
		rep := &message.DownstreamCall{CallID: "r-" + call.CallID, RequestCallID: call.CallID, SourceNodeID: "peer", Name: "reply", Type: "t", Payload: append([]byte("reply:"), call.Payload...)}
		go func() { time.Sleep(d); lc.Send(rep) }()
		return true
	}
	w.Start()
	conn, err := w.Connect(iscp.WithConnPingInterval(time.Hour))
	if err != nil {
		return vrun.Inconcl("connect: " + err.Error())
	}
	defer conn.Close(context.Background())
	// the application drains the reply inbox (it is not the subject here)
	dctx, dcancel := context.WithCancel(context.Background())
	defer dcancel()
	go func() {
		for {
			if _, err := conn.ReceiveReplyCall(dctx); err != nil {
				return
			}
		}
	}()
	var mu sync.Mutex
	var bad *vrun.Result
	gaveUp, served, earlyServed := 0, 0, 0
	for round := 0; round < rounds && bad == nil; round++ {
		var wg sync.WaitGroup
		for i := 0; i < early; i++ {
			wg.Add(1)
			go func(i int) {
				defer wg.Done()
				tag := fmt.Sprintf("early-%d-%d", round, i)
				ctx, cancel := context.WithTimeout(context.Background(), 15*time.Millisecond)
				rep, err := conn.SendCallAndWaitReplayCall(ctx, &iscp.UpstreamCall{DestinationNodeID: "peer", Name: "wait-reply", Type: "t", Payload: []byte(tag)})
				cancel()
				mu.Lock()
				defer mu.Unlock()
				if err == nil && rep != nil {
					earlyServed++
					if string(rep.Payload) != "reply:"+tag && bad == nil {
						v := vrun.Violation("SendCallAndWaitReplayCall returned a reply that belongs to another call", "waiter-got-foreign-reply:early", map[string]any{"tag": tag, "reply": string(rep.Payload)})
						bad = &v
					}
					return
				}
				gaveUp++
			}(i)
		}
		time.Sleep(time.Duration(25+round%3*5) * time.Millisecond)
		for i := 0; i < late; i++ {
			wg.Add(1)
			go func(i int) {
				defer wg.Done()
				tag := fmt.Sprintf("late-%d-%d", round, i)
				ctx, cancel := context.WithTimeout(context.Background(), 20*time.Second)
				rep, err := conn.SendCallAndWaitReplayCall(ctx, &iscp.UpstreamCall{DestinationNodeID: "peer", Name: "wait-reply", Type: "t", Payload: []byte(tag)})
				cancel()
				mu.Lock()
				defer mu.Unlock()
				switch {
				case err != nil:
					if bad == nil {
						v := vrun.Violation("a caller did not get its reply although the broker acknowledged and answered its call", "waiter-got-no-reply:after-abandoned-waiters", map[string]any{"tag": tag, "error": err.Error()})
						bad = &v
					}
				case string(rep.Payload) != "reply:"+tag:
					if bad == nil {
						v := vrun.Violation("SendCallAndWaitReplayCall returned a reply that belongs to another call (a late reply for a caller that had given up)", "waiter-got-foreign-reply", map[string]any{"tag": tag, "reply": string(rep.Payload), "reply_request_call_id": rep.RequestCallID})
						bad = &v
					}
				default:
					served++
				}
			}(i)
		}
		wg.Wait()
		time.Sleep(5 * time.Millisecond)
	}
	if bad != nil {
		return *bad
	}
	if earlyServed > 0 {
		return vrun.Inconcl(fmt.Sprintf("%d early callers were served after all (the machine stalled): the schedule under test did not happen", earlyServed))
	}
	res := vrun.Hold(fmt.Sprintf("%d|%d|%d", early, late, rounds), gaveUp > 0 && served > 0)
	res.Stat("callers_that_gave_up_after_the_ack", int64(gaveUp))
	res.Stat("later_callers_served", int64(served))
	return res
}

// TestC16ReconnectBetweenCallAndAck (virtual time): the link dies after a call was written and before its ack arrives; the
// library reconnects and the call is sent again: every caller gets the ack (and reply) of its own call.
func TestC16ReconnectBetweenCallAndAck(t *testing.T) {
	e := vrun.LoadEnv()
	modes := []memnet.Mode{memnet.Sever, memnet.WFail, memnet.REOF, memnet.Blackhole}
	meta := vrun.Meta{Property: "C16", Workload: "TestC16ReconnectBetweenCallAndAck", Total: e.Pick(96, 4000),
		Rule:        "virtual time: 1-4 concurrent callers (SendCall / SendReplyCall / SendCallAndWaitReplayCall by caller index) with 30 s contexts; the broker lets the link die (sever / write-fail / read-EOF / blackhole) when the k-th call (k=1..3) arrives on link 1 - before acknowledging it, or right after writing the ack into the dying link; calls on later links are acknowledged and answered. Keepalive 200 ms + 200 ms. Oracle: every caller returns without error, the ack it reports is for the call carrying its own tag on the link where it was finally acknowledged, call-and-wait callers get the reply built from their own call. non-trivial = the link died with at least one call unacknowledged and a second link was dialled; distinct = scenario tuple",
		Assumptions: []string{"bounded progress: the callers' contexts allow 30 virtual seconds, recovery takes less than one"}}
	vrun.Loop(t, meta, 0, func(c *vrun.Case) vrun.Result {
		r := c.Rng
		callers, k, mode, ackFirst := 1+r.Intn(4), 1+r.Intn(3), modes[r.Intn(4)], r.Intn(2) == 0
		if k > callers {
			k = callers
		}
		desc := map[string]any{"callers": callers, "link_dies_at_call_no": k, "mode": mode.String(), "ack_written_into_the_dying_link": ackFirst}
		var res vrun.Result
		ok, dump := vrun.Watchdog(90*time.Second, func() {
			func() {
				defer func() {
					if p := recover(); p != nil {
						if res.Verdict == "" {
							res = vrun.Inconcl(fmt.Sprint("bubble aborted: ", p))
						} else if res.Note == "" {
							res.Note = fmt.Sprint("bubble end: ", p)
						}
					}
				}()
				synctest.Test(c.T, func(t *testing.T) { res = runCallReconnect(callers, k, mode, ackFirst) })
			}()
		})
		if !ok {
			res = vrun.Inconcl("real-time watchdog fired (bubble stalled)")
			res.Witness = map[string]any{"dump_head": dump[:min(len(dump), 4000)]}
		}
		res.Desc = desc
		return res
	})
}

func runCallReconnect(callers, k int, mode memnet.Mode, ackFirst bool) vrun.Result {
	w := world.New()
	var mu sync.Mutex
	seen := 0
	pendingAtFailure := 0
	ackedOn := map[string]int{} // call id -> link
	tagOf := map[string]string{}
	w.B.OnMsg = func(lc *broker.LinkCtx, m message.Message, unrel bool) bool {
		call, ok := m.(*message.UpstreamCall)
		if !ok {
			return false
		}
		mu.Lock()
		tagOf[call.CallID] = string(call.Payload)
		if lc.L.ID == 1 {
			seen++
			if seen == k {
				pendingAtFailure = 1
				mu.Unlock()
				if ackFirst {
					lc.L.Fail(mode) // the ack below goes into a link that is already dead
					lc.Send(&message.UpstreamCallAck{CallID: call.CallID, ResultCode: message.ResultCodeSucceeded, ResultString: "OK"})
				} else {
					lc.L.Fail(mode)
				}
				return true
			}
			if seen > k {
				mu.Unlock()
				return true // arrives on the dead link
			}
		}
		ackedOn[call.CallID] = lc.L.ID
		mu.Unlock()
		lc.Send(&message.UpstreamCallAck{CallID: call.CallID, ResultCode: message.ResultCodeSucceeded, ResultString: "OK"})
		if call.Name == "wait-reply" {
			lc.Send(&message.DownstreamCall{CallID: "r-" + call.CallID, RequestCallID: call.CallID, SourceNodeID: "peer", Name: "reply", Type: "t", Payload: append([]byte("reply:"), call.Payload...)})
		}
		return true
	}
	w.Start()
	conn, err := w.Connect(iscp.WithConnPingInterval(200*time.Millisecond), iscp.WithConnPingTimeout(200*time.Millisecond))
	if err != nil {
		w.Close()
		return vrun.Inconcl("connect: " + err.Error())
	}
	type outcome struct {
		api, tag, id, reply, replyReq, err string
	}
	results := make([]outcome, callers)
	var wg sync.WaitGroup
	for ci := 0; ci < callers; ci++ {
		wg.Add(1)
		go func(ci int) {
			defer wg.Done()
			tag := fmt.Sprintf("caller-%d", ci)
			o := outcome{tag: tag}
			ctx, cancel := context.WithTimeout(context.Background(), 30*time.Second)
			defer cancel()
			switch ci % 3 {
			case 0:
				o.api = "SendCallAndWaitReplayCall"
				rep, err := conn.SendCallAndWaitReplayCall(ctx, &iscp.UpstreamCall{DestinationNodeID: "peer", Name: "wait-reply", Type: "t", Payload: []byte(tag)})
				if err != nil {
					o.err = err.Error()
				} else {
					o.reply, o.replyReq = string(rep.Payload), rep.RequestCallID
				}
			case 1:
				o.api = "SendCall"
				id, err := conn.SendCall(ctx, &iscp.UpstreamCall{DestinationNodeID: "peer", Name: "plain", Type: "t", Payload: []byte(tag)})
				o.id = id
				if err != nil {
					o.err = err.Error()
				}
			case 2:
				o.api = "SendReplyCall"
				id, err := conn.SendReplyCall(ctx, &iscp.UpstreamReplyCall{RequestCallID: "req", DestinationNodeID: "peer", Name: "replycall", Type: "t", Payload: []byte(tag)})
				o.id = id
				if err != nil {
					o.err = err.Error()
				}
			}
			results[ci] = o
		}(ci)
		time.Sleep(time.Millisecond)
	}
	wg.Wait()
	links := len(w.Net.Links())
	cctx, cc := context.WithTimeout(context.Background(), 10*time.Second)
	conn.Close(cctx)
	cc()
	w.Close()
	time.Sleep(time.Second)
	synctest.Wait()
	mu.Lock()
	defer mu.Unlock()
	for _, o := range results {
		if o.err != "" {
			return vrun.Violation(o.api+" failed although the connection recovered within its context: a reconnect between call and ack must be survived", "call-failed-across-reconnect:"+o.api,
				map[string]any{"caller": o.tag, "error": o.err, "links": links})
		}
		if o.api == "SendCallAndWaitReplayCall" {
			if o.reply != "reply:"+o.tag || tagOf[o.replyReq] != o.tag {
				return vrun.Violation("SendCallAndWaitReplayCall returned a reply that does not belong to its call", "foreign-reply-across-reconnect", map[string]any{"caller": o.tag, "reply": o.reply})
			}
			continue
		}
		if tagOf[o.id] != o.tag {
			return vrun.Violation(o.api+" reported a call id that is not the id of the call carrying its own payload", "foreign-call-id-across-reconnect", map[string]any{"caller": o.tag, "reported_id_belongs_to": tagOf[o.id]})
		}
		if _, ok := ackedOn[o.id]; !ok {
			return vrun.Violation(o.api+" returned success for a call the broker never acknowledged", "success-without-ack-across-reconnect", map[string]any{"caller": o.tag})
		}
	}
	res := vrun.Hold(fmt.Sprintf("%d|%d|%s|%v", callers, k, mode, ackFirst), pendingAtFailure > 0 && links >= 2)
	res.Stat("links", int64(links))
	return res
}
