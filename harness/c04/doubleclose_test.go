package c04

import (
	"fmt"
	"testing"
	"time"

	"verif/harness/downlib"
	"verif/harness/vrun"
)

// TestC04ConcurrentClose: "all ... close timings" includes two parts of an application closing one downstream at the
// same moment (a deferred Close next to an explicit one). Whichever call does the closing, the last pending
// acknowledgements and announcements have to be on the wire before the close request.
func TestC04ConcurrentClose(t *testing.T) {
	e := vrun.LoadEnv()
	meta := vrun.Meta{Property: "C04", Workload: "TestC04ConcurrentClose", Total: e.Pick(150, 6000),
		Rule: "real time: the C03 generator (eager reader, 20-100 chunks, ack flush interval 1 ms .. 1 h) with Close called by 2-4 goroutines at once, after a random number of reads or after all of them. " +
			"Oracle: at least one Close returns nil, and the C04 ledger oracle (consumed == acknowledged, announcements exactly once, last ack before the close request, final State() = announced). non-trivial = >= 5 consumed chunks; distinct = scenario tuple",
		Assumptions: []string{"judged at the transport boundary on a connection that stays up: every ack Write succeeds"}}
	vrun.Loop(t, meta, 0, func(c *vrun.Case) vrun.Result {
		s := downlib.Gen(c.Rng, 80)
		s.Pacing, s.Burst = "eager", 0
		s.ExpiredCtx = false
		s.Closers = 2 + c.Rng.Intn(3)
		var out *downlib.Outcome
		var why string
		ok, dump := vrun.Watchdog(60*time.Second, func() { out, why = downlib.Run(s) })
		if !ok {
			r := vrun.WatchdogVerdict("the scenario never finished")
			r.Desc = s
			if r.Verdict == vrun.Inconclusive {
				r.Witness = map[string]any{"dump_head": dump[:min(len(dump), 5000)]}
			}
			return r
		}
		if out == nil {
			r := vrun.Inconcl(why)
			r.Desc = s
			return r
		}
		if out.CloseErr != nil {
			r := vrun.Violation("none of the concurrent Close calls closed the stream", "concurrent-close-all-fail", map[string]any{"close_err": out.CloseErr.Error()})
			r.Desc = s
			return r
		}
		if f := downlib.CheckC04(out); f != nil {
			r := vrun.Violation(f.Clause, f.Key+":concurrent-close", map[string]any{"detail": f.Detail, "broker_notes": out.Notes, "closers": s.Closers})
			r.Desc = s
			return r
		}
		r := vrun.Hold(fmt.Sprintf("cclose|%s|%v|u%d|d%d|f%d|c%d|n%d", s.QoS, s.Datagram, s.Upstreams, s.DataIDs, s.AckFlushUs, s.CloseAfter, s.Closers), len(out.Reads) >= 5)
		r.Desc = s
		r.Stat("consumed", int64(len(out.Reads)))
		return r
	})
}

var _ = time.Second
