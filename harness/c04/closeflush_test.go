package c04

import (
	"fmt"
	"testing"
	"testing/synctest"
	"time"

	"verif/harness/downlib"
	"verif/harness/vrun"
)

// TestC04CloseFlushVT: "On Close the last pending acknowledgements and announcements are sent before the close request"
// for ack flush intervals the periodic flush never reaches within the history (5 s ... 1 h). Virtual time: the link is
// instantaneous and the broker answers at once, so a Close whose context allows 3 virtual seconds can only fail if it
// waits for something other than the peer - independent of machine load.
func TestC04CloseFlushVT(t *testing.T) {
	e := vrun.LoadEnv()
	meta := vrun.Meta{Property: "C04", Workload: "TestC04CloseFlushVT", Total: e.Pick(60, 3000),
		Rule: "virtual time (testing/synctest): the C03 generator with eager reader, 20-80 chunks, ack flush interval 5 s / 10 min / 1 h (the history itself takes milliseconds of virtual time), Close after a random number of reads or after all of them, with a context of 3 virtual seconds. " +
			"Oracle: Close returns nil, and the C04 ledger oracle (consumed == acknowledged, announcements exactly once, last ack before the close request, final State() = announced). non-trivial = >= 5 consumed chunks; distinct = scenario tuple",
		Assumptions: []string{"inside the bubble the transport and the broker take no virtual time: only the library's own timers can make Close wait"}}
	vrun.Loop(t, meta, 0, func(c *vrun.Case) vrun.Result {
		s := downlib.Gen(c.Rng, 60)
		s.Pacing, s.Burst = "eager", 0
		s.ExpiredCtx = false
		s.AckFlushUs = []int{5 * 1000000, 600 * 1000000, 3600 * 1000000}[c.Rng.Intn(3)]
		s.CloseBudgetMs = 3000
		var res vrun.Result
		ok, dump := vrun.Watchdog(90*time.Second, func() {
			func() {
				defer func() {
					if r := recover(); r != nil {
						if res.Verdict == "" {
							res = vrun.Inconcl(fmt.Sprint("bubble aborted: ", r))
						} else if res.Note == "" {
							res.Note = fmt.Sprint("bubble end: ", r)
						}
					}
				}()
				synctest.Test(c.T, func(t *testing.T) {
					out, why := downlib.Run(s)
					if out == nil {
						res = vrun.Inconcl(why)
						return
					}
					if out.CloseErr != nil {
						res = vrun.Violation("Close did not complete within 3 virtual seconds on an instantaneous link: it waits for something other than the peer before sending the pending acknowledgements",
							"close-waits-for-the-flush-ticker", map[string]any{"close_err": out.CloseErr.Error(), "ack_flush_interval_us": s.AckFlushUs, "consumed": len(out.Reads)})
						return
					}
					if f := downlib.CheckC04(out); f != nil {
						res = vrun.Violation(f.Clause, f.Key, map[string]any{"detail": f.Detail, "broker_notes": out.Notes})
						return
					}
					res = vrun.Hold(fmt.Sprintf("closeflush|%s|%v|u%d|d%d|f%d|c%d", s.QoS, s.Datagram, s.Upstreams, s.DataIDs, s.AckFlushUs, s.CloseAfter), len(out.Reads) >= 5)
					res.Stat("consumed", int64(len(out.Reads)))
				})
			}()
		})
		if !ok {
			res = vrun.Inconcl("real-time watchdog fired (bubble stalled)")
			res.Witness = map[string]any{"dump_head": dump[:min(len(dump), 3000)]}
		}
		res.Desc = s
		return res
	})
}
