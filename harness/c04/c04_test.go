// C04 - downstream acks every consumed chunk once and announces aliases consistently.
package c04

import (
	"fmt"
	"strings"
	"testing"
	"time"

	"verif/harness/downlib"
	"verif/harness/vrun"
)

func TestC04Acks(t *testing.T) {
	e := vrun.LoadEnv()
	meta := vrun.Meta{Property: "C04", Workload: "TestC04Acks", Total: e.Pick(200, 20000),
		Rule:        "the C03 generator (1-6 upstreams, 1-8 data ids, pre-registered ids, full/alias forms - the same upstream is sent in full form repeatedly until its alias is acknowledged -, poisoned chunks, all QoS) plus ack flush intervals 1 ms..1 s, reads racing the flush ticker, and Close after a random number of reads with results still pending (1 in 4 cases). Oracle over the broker's ledger: multiset of consumed chunks == multiset of results over all DownstreamChunkAcks (upstream stream id, sequence number), ack ids start at 1 and increase strictly, alias relations functional and injective for upstreams and data ids (pre-registered included), everything first seen in full form announced exactly once, last ack before the close request, final State() equals what was announced. non-trivial = >=10 consumed chunks, >=2 acks and >=1 alias announcement; distinct = scenario tuple x (acks, announcements) counts",
		Assumptions: []string{"judged at the transport boundary on a connection that stays up: every ack Write succeeds"}}
	vrun.Loop(t, meta, 0, func(c *vrun.Case) vrun.Result {
		s := downlib.Gen(c.Rng, 380)
		var out *downlib.Outcome
		var why string
		ok, dump := vrun.Watchdog(60*time.Second, func() { out, why = downlib.Run(s) })
		if !ok {
			r := vrun.WatchdogVerdict("ReadDataPoints never returned")
			r.Desc = s
			if r.Verdict == vrun.Inconclusive {
				r.Witness = map[string]any{"dump_head": dump[:min(len(dump), 5000)]}
			}
			return r
		}
		if out == nil {
			if strings.HasPrefix(why, "LOCKLEAK:") {
				site := strings.SplitN(strings.TrimPrefix(why, "LOCKLEAK:"), "\n", 2)[0]
				r := vrun.Violation("ReadDataPoints never returns an item the broker sent: library goroutines are parked on a stream lock that is never released", "read-blocked-by-leaked-lock:"+site, map[string]any{"goroutine": why})
				r.Desc = s
				return r
			}
			r := vrun.Inconcl(why)
			r.Desc = s
			return r
		}
		if out.CloseErr != nil {
			r := vrun.Inconcl("Close failed on a healthy connection: " + out.CloseErr.Error())
			r.Desc = s
			return r
		}
		if f := downlib.CheckC04(out); f != nil {
			r := vrun.Violation(f.Clause, f.Key, map[string]any{"detail": f.Detail, "broker_notes": out.Notes})
			r.Desc = s
			return r
		}
		acks := len(out.Down.Acks)
		ann := len(out.Down.Upstreams) + len(out.Down.DataIDs) - len(out.PreRegIDs)
		ok2 := 0
		for _, rr := range out.Reads {
			if rr.Err == "" {
				ok2++
			}
		}
		r := vrun.Hold(fmt.Sprintf("%s|%v|u%d|d%d|p%d|%s|f%d|c%d|a%d|n%d", s.QoS, s.Datagram, s.Upstreams, s.DataIDs, s.PreReg, s.Pacing, s.AckFlushUs, s.CloseAfter, acks, ann), ok2 >= 10 && acks >= 2 && ann >= 1)
		r.Desc = s
		r.Stat("chunks_consumed", int64(ok2))
		r.Stat("acks_on_wire", int64(acks))
		r.Stat("alias_announcements", int64(ann))
		if s.CloseAfter >= 0 {
			r.Stat("cases_closed_with_broker_still_sending", 1)
		}
		r.AddSet("ack_flush_intervals_us", fmt.Sprint(s.AckFlushUs))
		return r
	})
}
