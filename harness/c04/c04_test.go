// C04 - downstream acks every consumed chunk once and announces aliases consistently.
package c04

import (
	"fmt"
	"math/rand"
	"strings"
	"testing"
	"testing/synctest"
	"time"

	"github.com/aptpod/iscp-go/message"

	"verif/harness/downlib"
	"verif/harness/memnet"
	"verif/harness/reconlib"
	"verif/harness/vrun"
)

func TestC04Acks(t *testing.T) {
	e := vrun.LoadEnv()
	meta := vrun.Meta{Property: "C04", Workload: "TestC04Acks", Total: e.Pick(200, 20000),
		Rule:        "the C03 generator (1-6 upstreams, 1-8 data ids, pre-registered ids, full/alias forms - the same upstream is sent in full form repeatedly until its alias is acknowledged -, poisoned chunks, all QoS) plus ack flush intervals 1 ms..1 s, reads racing the flush ticker, and Close after a random number of reads with results still pending (1 in 4 cases). Oracle over the broker's ledger: multiset of consumed chunks == multiset of results over all DownstreamChunkAcks (upstream stream id, sequence number), ack ids start at 1 and increase strictly, alias relations functional and injective for upstreams and data ids (pre-registered included), everything first seen in full form announced exactly once, last ack before the close request, final State() equals what was announced. non-trivial = >=10 consumed chunks, >=2 acks and >=1 alias announcement; distinct = scenario tuple x (acks, announcements) counts",
		Assumptions: []string{"judged at the transport boundary on a connection that stays up: every ack Write succeeds"}}
	vrun.Loop(t, meta, 0, func(c *vrun.Case) vrun.Result {
		s := downlib.Gen(c.Rng, 380)
		var out *downlib.Outcome
		var why string
		ok, dump := vrun.Watchdog(60*time.Second, func() { out, why = downlib.Run(s) })
		if !ok {
			r := vrun.WatchdogVerdict("ReadDataPoints never returned")
			r.Desc = s
			if r.Verdict == vrun.Inconclusive {
				r.Witness = map[string]any{"dump_head": dump[:min(len(dump), 5000)]}
			}
			return r
		}
		if out == nil {
			if strings.HasPrefix(why, "LOCKLEAK:") {
				site := strings.SplitN(strings.TrimPrefix(why, "LOCKLEAK:"), "\n", 2)[0]
				r := vrun.Violation("ReadDataPoints never returns an item the broker sent: library goroutines are parked on a stream lock that is never released", "read-blocked-by-leaked-lock:"+site, map[string]any{"goroutine": why})
				r.Desc = s
				return r
			}
			r := vrun.Inconcl(why)
			r.Desc = s
			return r
		}
		if out.CloseErr != nil {
			r := vrun.Inconcl("Close failed on a healthy connection: " + out.CloseErr.Error())
			r.Desc = s
			return r
		}
		if f := downlib.CheckC04(out); f != nil {
			r := vrun.Violation(f.Clause, f.Key, map[string]any{"detail": f.Detail, "broker_notes": out.Notes})
			r.Desc = s
			return r
		}
		acks := len(out.Down.Acks)
		ann := len(out.Down.Upstreams) + len(out.Down.DataIDs) - len(out.PreRegIDs)
		ok2 := 0
		for _, rr := range out.Reads {
			if rr.Err == "" {
				ok2++
			}
		}
		r := vrun.Hold(fmt.Sprintf("%s|%v|u%d|d%d|p%d|%s|f%d|c%d|a%d|n%d", s.QoS, s.Datagram, s.Upstreams, s.DataIDs, s.PreReg, s.Pacing, s.AckFlushUs, s.CloseAfter, acks, ann), ok2 >= 10 && acks >= 2 && ann >= 1)
		r.Desc = s
		r.Stat("chunks_consumed", int64(ok2))
		r.Stat("acks_on_wire", int64(acks))
		r.Stat("alias_announcements", int64(ann))
		if s.CloseAfter >= 0 {
			r.Stat("cases_closed_with_broker_still_sending", 1)
		}
		r.AddSet("ack_flush_intervals_us", fmt.Sprint(s.AckFlushUs))
		return r
	})
}

// TestC04AcksAcrossResume: exactly-once acknowledgement across a transport failure and the resume of the stream, judged at
// the transport boundary.
func TestC04AcksAcrossResume(t *testing.T) {
	e := vrun.LoadEnv()
	meta := vrun.Meta{Property: "C04", Workload: "TestC04AcksAcrossResume", Total: e.Pick(150, 15000),
		Rule:        "virtual time (the C05 scenario engine): 1-2 downstreams fed one chunk every 10 ms and read continuously, ack flush interval 20 ms, 1-2 transport failures at message boundaries (before/after the n-th DownstreamChunk, DownstreamChunkAck, ping) in 4 failure modes so that results are pending when the link dies. Oracle at the transport boundary over all link incarnations: every chunk ReadDataPoints returned appears in exactly one DownstreamChunkAck whose transport Write returned nil (an ack whose Write failed acknowledged nothing and its results must come again after the resume); streams reported closed are exempt. non-trivial = a fault fired, the stream resumed and >= 10 chunks were consumed; distinct = fault positions",
		Assumptions: []string{"an ack written successfully into a link that silently swallows data (read-EOF / blackhole modes) counts as sent: the client cannot know more"}}
	vrun.Loop(t, meta, 0, func(c *vrun.Case) vrun.Result {
		r := c.Rng
		s := reconlib.Scenario{PingMs: 200, Storage: "payload", WritesB: 1, DuringWrites: 1}
		s.Ups = []reconlib.UpSpec{{QoS: "unreliable", Flush: "immediate", Writes: 3}}
		for i := 1 + r.Intn(2); i > 0; i-- {
			s.Downs = append(s.Downs, reconlib.DownSpec{QoS: []string{"reliable", "partial", "unreliable"}[r.Intn(3)]})
		}
		for i := 1 + r.Intn(2); i > 0; i-- {
			cls := [][2]any{{memnet.S2C, "DownstreamChunk"}, {memnet.C2S, "DownstreamChunkAck"}, {memnet.S2C, "DownstreamChunkAckComplete"}, {memnet.C2S, "Ping"}}[r.Intn(4)]
			s.Faults = append(s.Faults, reconlib.Fault{Trigger: memnet.Trigger{Dir: cls[0].(memnet.Dir), Class: cls[1].(string), Ordinal: 1 + r.Intn(8), After: r.Intn(2) == 0,
				Mode: []memnet.Mode{memnet.Sever, memnet.WFail, memnet.REOF, memnet.Blackhole}[r.Intn(4)]}, DialDelayMs: []int{0, 1, 300}[r.Intn(3)]})
		}
		if r.Intn(3) == 0 {
			// the application's logger blocks at one step of the reconnect / resume procedure; half of these also let
			// the retry's link die the moment the first stream has resumed on it
			s.SlowLog = reconlib.SlowLogSites[r.Intn(len(reconlib.SlowLogSites))]
			s.SlowLogMs = []int{300, 3000, 10000}[r.Intn(3)]
			if r.Intn(2) == 0 {
				s.Faults[0].NextLink = []memnet.Trigger{{Dir: memnet.S2C, Class: "DownstreamResumeResponse", Ordinal: 1, After: true, Mode: []memnet.Mode{memnet.Sever, memnet.REOF}[r.Intn(2)]}}
			}
		}
		var res vrun.Result
		ok, dump := vrun.Watchdog(120*time.Second, func() {
			func() {
				defer func() {
					if rr := recover(); rr != nil {
						if res.Verdict == "" {
							res = vrun.Inconcl(fmt.Sprint("bubble aborted: ", rr))
						} else if res.Note == "" {
							res.Note = fmt.Sprint("bubble end: ", rr)
						}
					}
				}()
				synctest.Test(c.T, func(t *testing.T) { res = judgeAcross(reconlib.Run(s)) })
			}()
		})
		if !ok {
			res = vrun.Inconcl("real-time watchdog fired")
			res.Witness = map[string]any{"dump_head": dump[:min(len(dump), 3000)]}
		}
		res.Desc = s
		return res
	})
}

func judgeAcross(o *reconlib.Outcome) vrun.Result {
	if len(o.Downs) != len(o.S.Downs) {
		return vrun.Inconcl("streams could not be opened")
	}
	if o.FaultsFired == 0 || !o.Recovered {
		x := vrun.Hold("nofault", false)
		x.Note = "no fault fired or no recovery"
		return x
	}
	judged, consumedTotal := 0, 0
	resumed := false
	for i, d := range o.Downs {
		reported := d.ReadStreamClosed
		for _, e := range d.ClosedErrs {
			if e != "" {
				reported = true
			}
		}
		if reported || d.CloseErr != "" {
			continue
		}
		if d.Resumed > 0 {
			resumed = true
		}
		okAcks := map[uint32]int{}
		failedAcks := map[uint32]int{}
		for _, li := range o.LinkInfos {
			for _, r := range li.Log {
				ack, isAck := r.Msg.(*message.DownstreamChunkAck)
				if !isAck || r.Dir != memnet.C2S || ack.StreamIDAlias != d.Alias {
					continue
				}
				for _, rs := range ack.Results {
					if r.OK {
						okAcks[rs.SequenceNumberInUpstream]++
					} else {
						failedAcks[rs.SequenceNumberInUpstream]++
					}
				}
			}
		}
		consumed := map[uint32]int{}
		for _, sq := range d.Consumed {
			consumed[sq]++
		}
		for sq, n := range consumed {
			if okAcks[sq] < n {
				return vrun.Violation("a chunk returned by ReadDataPoints was never acknowledged in an ack that the transport accepted (its result was lost with the failed link)", "ack-lost-across-resume",
					map[string]any{"downstream": i, "qos": d.Spec.QoS, "seq": sq, "acks_written_ok": okAcks[sq], "acks_whose_write_failed": failedAcks[sq], "resumed_events": d.Resumed})
			}
			if okAcks[sq] > n {
				return vrun.Violation("a chunk returned by ReadDataPoints was acknowledged more than once across the resume", "ack-duplicated-across-resume",
					map[string]any{"downstream": i, "seq": sq, "acks_written_ok": okAcks[sq]})
			}
		}
		for sq := range okAcks {
			if consumed[sq] == 0 {
				return vrun.Violation("an acknowledgement names a chunk that ReadDataPoints never returned", "ack-for-unconsumed-across-resume", map[string]any{"downstream": i, "seq": sq})
			}
		}
		judged++
		consumedTotal += len(d.Consumed)
	}
	sig := ""
	for _, f := range o.S.Faults {
		sig += fmt.Sprintf("%s-%s#%d-%v-%s|", f.Trigger.Dir, f.Trigger.Class, f.Trigger.Ordinal, f.Trigger.After, f.Trigger.Mode)
	}
	x := vrun.Hold(sig, judged > 0 && resumed && consumedTotal >= 10)
	x.Stat("chunks_consumed_across_outages", int64(consumedTotal))
	x.Stat("streams_judged_across_resume", int64(judged))
	return x
}

var _ = rand.Int
