// C04 - downstream acks every consumed chunk once and announces aliases consistently.
package c04

import (
	"context"
	"fmt"
	"math/rand"
	"strings"
	"sync"
	"sync/atomic"
	"testing"
	"testing/synctest"
	"time"

	"github.com/aptpod/iscp-go/iscp"
	"github.com/aptpod/iscp-go/message"
	"github.com/google/uuid"

	"verif/harness/broker"
	"verif/harness/downlib"
	"verif/harness/memnet"
	"verif/harness/reconlib"
	"verif/harness/vrun"
	"verif/harness/world"
)

func TestC04Acks(t *testing.T) {
	e := vrun.LoadEnv()
	meta := vrun.Meta{Property: "C04", Workload: "TestC04Acks", Total: e.Pick(200, 20000),
		Rule:        "the C03 generator (1-6 upstreams, 1-8 data ids, pre-registered ids, full/alias forms - the same upstream is sent in full form repeatedly until its alias is acknowledged -, poisoned chunks, all QoS) plus ack flush intervals 1 ms..1 s, reads racing the flush ticker, and Close after a random number of reads with results still pending (1 in 4 cases). Oracle over the broker's ledger: multiset of consumed chunks == multiset of results over all DownstreamChunkAcks (upstream stream id, sequence number), ack ids start at 1 and increase strictly, alias relations functional and injective for upstreams and data ids (pre-registered included), everything first seen in full form announced exactly once, last ack before the close request, final State() equals what was announced. non-trivial = >=10 consumed chunks, >=2 acks and >=1 alias announcement; distinct = scenario tuple x (acks, announcements) counts",
		Assumptions: []string{"judged at the transport boundary on a connection that stays up: every ack Write succeeds"}}
	vrun.Loop(t, meta, 0, func(c *vrun.Case) vrun.Result {
		s := downlib.Gen(c.Rng, 380)
		var out *downlib.Outcome
		var why string
		ok, dump := vrun.Watchdog(60*time.Second, func() { out, why = downlib.Run(s) })
		if !ok {
			r := vrun.WatchdogVerdict("ReadDataPoints never returned")
			r.Desc = s
			if r.Verdict == vrun.Inconclusive {
				r.Witness = map[string]any{"dump_head": dump[:min(len(dump), 5000)]}
			}
			return r
		}
		if out == nil {
			if strings.HasPrefix(why, "LOCKLEAK:") {
				site := strings.SplitN(strings.TrimPrefix(why, "LOCKLEAK:"), "\n", 2)[0]
				r := vrun.Violation("ReadDataPoints never returns an item the broker sent: library goroutines are parked on a stream lock that is never released", "read-blocked-by-leaked-lock:"+site, map[string]any{"goroutine": why})
				r.Desc = s
				return r
			}
			r := vrun.Inconcl(why)
			r.Desc = s
			return r
		}
		if out.CloseErr != nil {
			r := vrun.Inconcl("Close failed on a healthy connection: " + out.CloseErr.Error())
			r.Desc = s
			return r
		}
		if f := downlib.CheckC04(out); f != nil {
			r := vrun.Violation(f.Clause, f.Key, map[string]any{"detail": f.Detail, "broker_notes": out.Notes})
			r.Desc = s
			return r
		}
		acks := len(out.Down.Acks)
		ann := len(out.Down.Upstreams) + len(out.Down.DataIDs) - len(out.PreRegIDs)
		ok2 := 0
		for _, rr := range out.Reads {
			if rr.Err == "" {
				ok2++
			}
		}
		r := vrun.Hold(fmt.Sprintf("%s|%v|u%d|d%d|p%d|%s|f%d|c%d|a%d|n%d", s.QoS, s.Datagram, s.Upstreams, s.DataIDs, s.PreReg, s.Pacing, s.AckFlushUs, s.CloseAfter, acks, ann), ok2 >= 10 && acks >= 2 && ann >= 1)
		r.Desc = s
		r.Stat("chunks_consumed", int64(ok2))
		r.Stat("acks_on_wire", int64(acks))
		r.Stat("alias_announcements", int64(ann))
		if s.CloseAfter >= 0 {
			r.Stat("cases_closed_with_broker_still_sending", 1)
		}
		r.AddSet("ack_flush_intervals_us", fmt.Sprint(s.AckFlushUs))
		return r
	})
}

// TestC04AcksAcrossResume: exactly-once acknowledgement across a transport failure and the resume of the stream, judged at
// the transport boundary.
func TestC04AcksAcrossResume(t *testing.T) {
	e := vrun.LoadEnv()
	meta := vrun.Meta{Property: "C04", Workload: "TestC04AcksAcrossResume", Total: e.Pick(150, 15000),
		Rule:        "virtual time (the C05 scenario engine): 1-2 downstreams fed one chunk every 10 ms and read continuously, ack flush interval 20 ms, 1-2 transport failures at message boundaries (before/after the n-th DownstreamChunk, DownstreamChunkAck, ping) in 4 failure modes so that results are pending when the link dies. Oracle at the transport boundary over all link incarnations: every chunk ReadDataPoints returned appears in exactly one DownstreamChunkAck whose transport Write returned nil (an ack whose Write failed acknowledged nothing and its results must come again after the resume); streams reported closed are exempt. non-trivial = a fault fired, the stream resumed and >= 10 chunks were consumed; distinct = fault positions",
		Assumptions: []string{"an ack written successfully into a link that silently swallows data (read-EOF / blackhole modes) counts as sent: the client cannot know more"}}
	vrun.Loop(t, meta, 0, func(c *vrun.Case) vrun.Result {
		r := c.Rng
		s := reconlib.Scenario{PingMs: 200, Storage: "payload", WritesB: 1, DuringWrites: 1}
		s.Ups = []reconlib.UpSpec{{QoS: "unreliable", Flush: "immediate", Writes: 3}}
		for i := 1 + r.Intn(2); i > 0; i-- {
			s.Downs = append(s.Downs, reconlib.DownSpec{QoS: []string{"reliable", "partial", "unreliable"}[r.Intn(3)]})
		}
		for i := 1 + r.Intn(2); i > 0; i-- {
			cls := [][2]any{{memnet.S2C, "DownstreamChunk"}, {memnet.C2S, "DownstreamChunkAck"}, {memnet.S2C, "DownstreamChunkAckComplete"}, {memnet.C2S, "Ping"}}[r.Intn(4)]
			s.Faults = append(s.Faults, reconlib.Fault{Trigger: memnet.Trigger{Dir: cls[0].(memnet.Dir), Class: cls[1].(string), Ordinal: 1 + r.Intn(8), After: r.Intn(2) == 0,
				Mode: []memnet.Mode{memnet.Sever, memnet.WFail, memnet.REOF, memnet.Blackhole}[r.Intn(4)]}, DialDelayMs: []int{0, 1, 300}[r.Intn(3)]})
		}
		if r.Intn(3) == 0 {
			// the application's logger blocks at one step of the reconnect / resume procedure; half of these also let
			// the retry's link die the moment the first stream has resumed on it
			s.SlowLog = reconlib.SlowLogSites[r.Intn(len(reconlib.SlowLogSites))]
			s.SlowLogMs = []int{300, 3000, 10000}[r.Intn(3)]
			if r.Intn(2) == 0 {
				s.Faults[0].NextLink = []memnet.Trigger{{Dir: memnet.S2C, Class: "DownstreamResumeResponse", Ordinal: 1, After: true, Mode: []memnet.Mode{memnet.Sever, memnet.REOF}[r.Intn(2)]}}
			}
		}
		var res vrun.Result
		ok, dump := vrun.Watchdog(120*time.Second, func() {
			func() {
				defer func() {
					if rr := recover(); rr != nil {
						if res.Verdict == "" {
							res = vrun.Inconcl(fmt.Sprint("bubble aborted: ", rr))
						} else if res.Note == "" {
							res.Note = fmt.Sprint("bubble end: ", rr)
						}
					}
				}()
				synctest.Test(c.T, func(t *testing.T) { res = judgeAcross(reconlib.Run(s)) })
			}()
		})
		if !ok {
			res = vrun.Inconcl("real-time watchdog fired")
			res.Witness = map[string]any{"dump_head": dump[:min(len(dump), 3000)]}
		}
		res.Desc = s
		return res
	})
}

func judgeAcross(o *reconlib.Outcome) vrun.Result {
	if len(o.Downs) != len(o.S.Downs) {
		return vrun.Inconcl("streams could not be opened")
	}
	if o.FaultsFired == 0 || !o.Recovered {
		x := vrun.Hold("nofault", false)
		x.Note = "no fault fired or no recovery"
		return x
	}
	judged, consumedTotal := 0, 0
	resumed := false
	for i, d := range o.Downs {
		reported := d.ReadStreamClosed
		for _, e := range d.ClosedErrs {
			if e != "" {
				reported = true
			}
		}
		if reported || d.CloseErr != "" {
			continue
		}
		if d.Resumed > 0 {
			resumed = true
		}
		okAcks := map[uint32]int{}
		failedAcks := map[uint32]int{}
		upAnnOK, idAnnOK, upAnnFailed, idAnnFailed := 0, 0, 0, 0
		for _, li := range o.LinkInfos {
			for _, r := range li.Log {
				ack, isAck := r.Msg.(*message.DownstreamChunkAck)
				if !isAck || r.Dir != memnet.C2S || ack.StreamIDAlias != d.Alias {
					continue
				}
				if r.OK {
					upAnnOK += len(ack.UpstreamAliases)
					idAnnOK += len(ack.DataIDAliases)
				} else {
					upAnnFailed += len(ack.UpstreamAliases)
					idAnnFailed += len(ack.DataIDAliases)
				}
				for _, rs := range ack.Results {
					if r.OK {
						okAcks[rs.SequenceNumberInUpstream]++
					} else {
						failedAcks[rs.SequenceNumberInUpstream]++
					}
				}
			}
		}
		consumed := map[uint32]int{}
		for _, sq := range d.Consumed {
			consumed[sq]++
		}
		for sq, n := range consumed {
			if okAcks[sq] < n {
				return vrun.Violation("a chunk returned by ReadDataPoints was never acknowledged in an ack that the transport accepted (its result was lost with the failed link)", "ack-lost-across-resume",
					map[string]any{"downstream": i, "qos": d.Spec.QoS, "seq": sq, "acks_written_ok": okAcks[sq], "acks_whose_write_failed": failedAcks[sq], "resumed_events": d.Resumed})
			}
			if okAcks[sq] > n {
				return vrun.Violation("a chunk returned by ReadDataPoints was acknowledged more than once across the resume", "ack-duplicated-across-resume",
					map[string]any{"downstream": i, "seq": sq, "acks_written_ok": okAcks[sq]})
			}
		}
		for sq := range okAcks {
			if consumed[sq] == 0 {
				return vrun.Violation("an acknowledgement names a chunk that ReadDataPoints never returned", "ack-for-unconsumed-across-resume", map[string]any{"downstream": i, "seq": sq})
			}
		}
		// every chunk names the same upstream and the same data id in full form: once a chunk was consumed, each of the
		// two has to be announced exactly once in an ack the transport accepted - on whichever link
		if len(d.Consumed) > 0 {
			if upAnnOK != 1 || idAnnOK != 1 {
				key := "announcement-lost-across-resume"
				if upAnnOK > 1 || idAnnOK > 1 {
					key = "announcement-repeated-across-resume"
				}
				return vrun.Violation("the upstream and the data id first seen in full form were not each announced exactly once in an ack the transport accepted", key,
					map[string]any{"downstream": i, "qos": d.Spec.QoS, "upstream_announcements_written_ok": upAnnOK, "data_id_announcements_written_ok": idAnnOK,
						"upstream_announcements_whose_write_failed": upAnnFailed, "data_id_announcements_whose_write_failed": idAnnFailed, "chunks_consumed": len(d.Consumed)})
			}
		}
		judged++
		consumedTotal += len(d.Consumed)
	}
	sig := ""
	for _, f := range o.S.Faults {
		sig += fmt.Sprintf("%s-%s#%d-%v-%s|", f.Trigger.Dir, f.Trigger.Class, f.Trigger.Ordinal, f.Trigger.After, f.Trigger.Mode)
	}
	x := vrun.Hold(sig, judged > 0 && resumed && consumedTotal >= 10)
	x.Stat("chunks_consumed_across_outages", int64(consumedTotal))
	x.Stat("streams_judged_across_resume", int64(judged))
	return x
}

var _ = rand.Int

// TestC04ConcurrentReaders: several goroutines call ReadDataPoints on one downstream at once. Every chunk that any of them
// gets is acknowledged exactly once; ack ids still increase strictly from 1.
func TestC04ConcurrentReaders(t *testing.T) {
	e := vrun.LoadEnv()
	meta := vrun.Meta{Property: "C04", Workload: "TestC04ConcurrentReaders", Total: e.Pick(60, 3000),
		Rule:        "real time: one reliable downstream, 2-8 reader goroutines, the broker sends 400-2400 chunks from 1-3 upstreams in bursts of at most 200 unconsumed, ack flush interval 1 ms / 5 ms / 1 s; after everything was read the stream is closed. Oracle on the broker's ledger: every (upstream, sequence number) that some reader got appears in exactly one DownstreamChunkAck result, nothing else is acknowledged, ack ids increase strictly from 1, the last ack precedes the close request. non-trivial = at least 2 readers each got at least one chunk; distinct = scenario tuple",
		Assumptions: []string{"fewer than 1024 unconsumed chunks in flight (documented inbox depth)"}}
	vrun.Loop(t, meta, 0, func(c *vrun.Case) vrun.Result {
		var res vrun.Result
		ok, dump := vrun.Watchdog(120*time.Second, func() { res = runConcurrentReaders(c) })
		if !ok {
			res = vrun.WatchdogVerdict("the case never finished")
			if res.Verdict == vrun.Inconclusive {
				res.Witness = map[string]any{"dump_head": dump[:min(len(dump), 4000)]}
			}
		}
		return res
	})
}

func runConcurrentReaders(c *vrun.Case) vrun.Result {
	r := c.Rng
	readers, total, nups := 2+r.Intn(7), 400+r.Intn(2001), 1+r.Intn(3)
	flush := []time.Duration{time.Millisecond, 5 * time.Millisecond, time.Second}[r.Intn(3)]
	desc := map[string]any{"readers": readers, "chunks": total, "upstreams": nups, "ack_flush_interval": flush.String()}
	done := func(v vrun.Result) vrun.Result { v.Desc = desc; return v }
	w := world.New()
	defer w.Close()
	w.Start()
	conn, err := w.Connect(iscp.WithConnPingInterval(time.Hour))
	if err != nil {
		return done(vrun.Inconcl("connect: " + err.Error()))
	}
	defer conn.Close(context.Background())
	ctx, cancel := context.WithTimeout(context.Background(), 90*time.Second)
	defer cancel()
	down, err := conn.OpenDownstream(ctx, []*message.DownstreamFilter{{SourceNodeID: "src", DataFilters: []*message.DataFilter{{Name: "#", Type: "#"}}}}, iscp.WithDownstreamQoS(message.QoSReliable), iscp.WithDownstreamAckFlushInterval(flush))
	if err != nil {
		return done(vrun.Inconcl("open downstream: " + err.Error()))
	}
	dss := w.B.Downs()
	if len(dss) != 1 {
		return done(vrun.Inconcl("broker saw no downstream"))
	}
	alias := dss[0].Alias
	lc := w.B.CurrentLink()
	type key struct {
		up  uuid.UUID
		seq uint32
	}
	var mu sync.Mutex
	got := map[key]int{}
	perReader := make([]int, readers)
	var consumed atomic.Int64
	var wg sync.WaitGroup
	rctx, rcancel := context.WithCancel(ctx)
	for ri := 0; ri < readers; ri++ {
		wg.Add(1)
		go func(ri int) {
			defer wg.Done()
			for consumed.Load() < int64(total) {
				ch, err := down.ReadDataPoints(rctx)
				if err != nil {
					return
				}
				mu.Lock()
				got[key{ch.UpstreamInfo.StreamID, ch.SequenceNumber}]++
				perReader[ri]++
				mu.Unlock()
				if consumed.Add(1) >= int64(total) {
					rcancel()
				}
			}
		}(ri)
	}
	id := &message.DataID{Name: "d", Type: "t"}
	seqs := make([]uint32, nups)
	for sent := 0; sent < total; sent++ {
		for int64(sent)-consumed.Load() >= 200 {
			time.Sleep(50 * time.Microsecond)
		}
		u := sent % nups
		seqs[u]++
		lc.Send(&message.DownstreamChunk{StreamIDAlias: alias, UpstreamOrAlias: &message.UpstreamInfo{SessionID: fmt.Sprintf("s%d", u), SourceNodeID: "src", StreamID: broker.StreamIDFor("cr", "u", u)},
			StreamChunk: &message.StreamChunk{SequenceNumber: seqs[u], DataPointGroups: []*message.DataPointGroup{{DataIDOrAlias: id, DataPoints: []*message.DataPoint{{ElapsedTime: time.Duration(sent), Payload: []byte("x")}}}}}})
	}
	wg.Wait()
	rcancel()
	if consumed.Load() < int64(total) {
		return done(vrun.Inconcl(fmt.Sprintf("readers got %d of %d chunks", consumed.Load(), total)))
	}
	cctx, cc := context.WithTimeout(context.Background(), 30*time.Second)
	cerr := down.Close(cctx)
	cc()
	if cerr != nil {
		return done(vrun.Inconcl("close: " + cerr.Error()))
	}
	time.Sleep(2 * time.Millisecond)
	acked := map[key]int{}
	lastAckID, nAcks := uint32(0), 0
	closeSeen := false
	for _, en := range w.B.Ledger() {
		if en.Dir != memnet.C2S {
			continue
		}
		switch m := en.Msg.(type) {
		case *message.DownstreamCloseRequest:
			closeSeen = true
		case *message.DownstreamChunkAck:
			if m.StreamIDAlias != alias {
				continue
			}
			if closeSeen {
				return done(vrun.Violation("an acknowledgement was sent after the close request", "ack-after-close:concurrent-readers", nil))
			}
			nAcks++
			if m.AckID <= lastAckID {
				return done(vrun.Violation("ack ids do not increase strictly from 1", "ack-id-not-increasing:concurrent-readers", map[string]any{"previous": lastAckID, "got": m.AckID}))
			}
			lastAckID = m.AckID
			for _, rs := range m.Results {
				acked[key{rs.StreamIDOfUpstream, rs.SequenceNumberInUpstream}]++
			}
		}
	}
	for k, n := range got {
		if n != 1 {
			return done(vrun.Violation("one chunk was returned to more than one reader", "chunk-returned-twice:concurrent-readers", map[string]any{"seq": k.seq, "times": n}))
		}
		if acked[k] != 1 {
			return done(vrun.Violation("a chunk returned by ReadDataPoints was not acknowledged exactly once (several goroutines read the stream concurrently)", "chunk-ack-count:concurrent-readers",
				map[string]any{"upstream": k.up.String(), "seq": k.seq, "acknowledged_times": acked[k], "readers": readers, "acks": nAcks}))
		}
	}
	for k := range acked {
		if got[k] == 0 {
			return done(vrun.Violation("an acknowledgement names a chunk no reader got", "ack-for-unconsumed:concurrent-readers", map[string]any{"seq": k.seq}))
		}
	}
	active := 0
	for _, n := range perReader {
		if n > 0 {
			active++
		}
	}
	res := vrun.Hold(fmt.Sprintf("%d|%d|%d|%v", readers, total/400, nups, flush), active >= 2)
	res.Stat("chunks_read_by_concurrent_readers", int64(total))
	res.Stat("acks", int64(nAcks))
	return done(res)
}
