// C15 - keepalive detects a dead peer in bounded time and never drops a live one (virtual time).
package c15

import (
	"context"
	"fmt"
	"sync"
	"sync/atomic"
	"testing"
	"testing/synctest"
	"time"

	"github.com/aptpod/iscp-go/iscp"
	"github.com/aptpod/iscp-go/message"

	"verif/harness/broker"
	"verif/harness/memnet"
	"verif/harness/vrun"
	"verif/harness/world"
)

type scenario struct {
	IntervalMs   int    `json:"ping_interval_ms"`
	TimeoutMs    int    `json:"ping_timeout_ms"`
	AnswerK      int    `json:"pings_answered_in_time"` // -1: all
	OkDelay      string `json:"delay_of_timely_pongs"`
	Late         string `json:"after_k"` // "silent" | "late+1ms" | "late3x"
	Traffic      bool   `json:"concurrent_stream_traffic"`
	BrokerPings  int    `json:"broker_pings"`
	PingBurst    int    `json:"broker_ping_burst_while_pongs_are_slow,omitempty"`
	CloseFails   bool   `json:"transport_close_reports_an_error,omitempty"`
	PongWriteErr bool   `json:"one_pong_write_fails_transiently,omitempty"`
	Abandoned    int    `json:"requests_abandoned_before_their_late_reply,omitempty"`
	CallFlood    int    `json:"incoming_calls_nobody_receives,omitempty"`
}

var durations = []int{50, 200, 1000, 1500, 10000, 30000}

func gen(c *vrun.Case) scenario {
	r := c.Rng
	s := scenario{IntervalMs: durations[r.Intn(len(durations))], TimeoutMs: durations[r.Intn(len(durations))]}
	s.AnswerK = []int{0, 1, 2, 5, 20, -1, -1}[r.Intn(7)]
	s.OkDelay = []string{"0", "half", "timeout-1ms"}[r.Intn(3)]
	s.Late = []string{"silent", "late+1ms", "late3x"}[r.Intn(3)]
	s.Traffic = r.Intn(2) == 0
	s.BrokerPings = []int{0, 3, 10}[r.Intn(3)]
	if r.Intn(3) == 0 && s.IntervalMs >= 1000 && s.TimeoutMs >= 1000 {
		// only where the ~150 ms the client needs to write the pongs cannot interfere with its own keepalive deadlines
		// (the reader waits for the pong writer by design: with sub-second timeouts that head-of-line wait is itself a timeout)
		s.PingBurst = 12 + r.Intn(20)
	}
	s.CloseFails = r.Intn(3) == 0
	s.PongWriteErr = s.BrokerPings > 0 && r.Intn(2) == 0
	if r.Intn(3) == 0 {
		s.Abandoned = 1 + r.Intn(3)
	}
	if r.Intn(4) == 0 {
		// more request calls and replies than the client's inboxes (1024 each) and dispatch queues hold, and an
		// application that never asks for them: whatever the client does with the surplus, it must keep reading pongs
		s.CallFlood = 1100 + r.Intn(1500)
	}
	return s
}

const slack = time.Millisecond

func TestC15Keepalive(t *testing.T) {
	e := vrun.LoadEnv()
	meta := vrun.Meta{Property: "C15", Workload: "TestC15Keepalive", Total: e.Pick(200, 50000),
		Rule: "virtual time (testing/synctest): (interval, timeout) drawn from {50ms,200ms,1s,1.5s,10s,30s}^2; the broker answers the first k in {0,1,2,5,20,all} pings in time (pong delay 0, timeout/2 or timeout-1ms) and then falls silent or answers late (timeout+1ms, 3*timeout); with or without concurrent upstream traffic (the silent broker withholds its acks as well); 0/3/10 broker-originated pings interleaved (in half of those cases the write of the first pong fails once while the link stays up), in a third of the cases 1-3 application requests whose caller gives up before the broker's (late) reply, in a third a transport whose Close reports an error, in a quarter 1100-2599 incoming request calls and as many replies that the application never receives, in a third of the cases also a burst of 12-31 broker pings at once while the client's pong writes take 5 ms each. Oracle on the virtual clock: disconnect notification no later than interval + timeout + 1 ms after the broker's last timely message, AND no later than timeout + 1 ms after the first ping that is not answered in time reached the broker, and a new dial; no disconnect and no redial over 40 intervals while every pong is in time; every broker ping answered by a pong with the same request id; announced interval/timeout = configured values truncated to whole seconds. non-trivial = at least 2 client pings observed; distinct = scenario tuple",
		Assumptions: []string{"scheduling slack is 1 ms of virtual time (inside a bubble time only advances when every goroutine is blocked)",
			"'silence' starts with the first ping that does not get its pong within the timeout; the bound is measured from that ping's arrival at the broker"}}
	vrun.Loop(t, meta, 0, func(c *vrun.Case) vrun.Result {
		s := gen(c)
		var res vrun.Result
		func() {
			defer func() {
				if r := recover(); r != nil {
					if res.Verdict == "" {
						res = vrun.Inconcl(fmt.Sprint("bubble aborted: ", r))
					} else if res.Note == "" {
						res.Note = fmt.Sprint("bubble ended with blocked goroutines (C10's subject): ", r)
					}
				}
			}()
			synctest.Test(c.T, func(t *testing.T) { res = run(s) })
		}()
		res.Desc = s
		return res
	})
}

func run(s scenario) vrun.Result {
	iv := time.Duration(s.IntervalMs) * time.Millisecond
	to := time.Duration(s.TimeoutMs) * time.Millisecond
	okDelay := time.Duration(0)
	switch s.OkDelay {
	case "half":
		okDelay = to / 2
	case "timeout-1ms":
		okDelay = to - time.Millisecond
	}
	lateDelay := time.Duration(-1)
	switch s.Late {
	case "late+1ms":
		lateDelay = to + time.Millisecond
	case "late3x":
		lateDelay = 3 * to
	}
	w := world.New()
	defer w.Close()
	var mu sync.Mutex
	type pingRec struct {
		at   time.Time
		link int
		n    int
	}
	var pings []pingRec
	var firstBad *pingRec
	perLink := map[int]int{}
	// silentFrom: the (virtual) instant from which the broker says nothing more on link 1 - right after its last timely
	// pong, or the start of the connection when it never answers. From then on it also withholds acks ("falls silent").
	var silentFrom time.Time
	silent := false
	goSilent := func() { // mu held
		if !silent {
			silent = true
			silentFrom = time.Now()
		}
	}
	if s.AnswerK == 0 {
		goSilent()
	}
	w.B.OnMsg = func(lc *broker.LinkCtx, m message.Message, unrel bool) bool {
		p, ok := m.(*message.Ping)
		if !ok {
			if md, isMeta := m.(*message.UpstreamMetadata); isMeta {
				if bt, isBT := md.Metadata.(*message.BaseTime); isBT && bt.Name == "abandoned" {
					// answered, but only after the caller has given up (its context allows 5 ms)
					go func() {
						time.Sleep(40 * time.Millisecond)
						lc.Send(&message.UpstreamMetadataAck{RequestID: md.RequestID, ResultCode: message.ResultCodeSucceeded, ResultString: "OK"})
					}()
					return true
				}
			}
			if lc.L.ID == 1 && s.Late == "silent" {
				mu.Lock()
				sl := silent
				mu.Unlock()
				if sl {
					if ch, isChunk := m.(*message.UpstreamChunk); isChunk {
						lc.RecordChunk(ch, unrel)
						return true // a silent peer does not acknowledge either
					}
				}
			}
			return false
		}
		mu.Lock()
		perLink[lc.L.ID]++
		n := perLink[lc.L.ID]
		rec := pingRec{at: time.Now(), link: lc.L.ID, n: n}
		pings = append(pings, rec)
		good := lc.L.ID > 1 || s.AnswerK < 0 || n <= s.AnswerK // redialled links are answered promptly
		if !good && firstBad == nil {
			firstBad = &rec
		}
		mu.Unlock()
		d := okDelay
		if lc.L.ID > 1 {
			d = 0
		}
		if !good {
			if lateDelay < 0 {
				return true // silent
			}
			d = lateDelay
		}
		last := good && lc.L.ID == 1 && s.AnswerK >= 0 && n == s.AnswerK // the last pong before the silence
		if d == 0 {
			lc.Send(&message.Pong{RequestID: p.RequestID})
			if last {
				mu.Lock()
				goSilent()
				mu.Unlock()
			}
		} else {
			go func() {
				time.Sleep(d)
				lc.Send(&message.Pong{RequestID: p.RequestID})
				if last {
					mu.Lock()
					goSilent()
					mu.Unlock()
				}
			}()
		}
		return true
	}
	if s.CloseFails {
		// the transport's Close reports an error (after closing): a silent peer never completes a closing handshake
		w.Net.CloseFails = "always"
	}
	if s.PongWriteErr {
		// the write of the FIRST pong fails once (the link stays up): later broker pings still have to be answered
		w.Net.TransientWriteError = func(class string, ord int) bool { return class == "Pong" && ord == 1 }
	}
	if s.PingBurst > 0 {
		// the client's pong writes take 5 ms (virtual) each: a burst of broker pings piles up behind the pong writer
		w.Net.WriteDelay = func(class string) (pre, post time.Duration) {
			if class == "Pong" {
				return 5 * time.Millisecond, 0
			}
			return 0, 0
		}
	}
	w.Start()
	var disc, recon atomic.Int64
	var discAt time.Time
	conn, err := w.Connect(iscp.WithConnPingInterval(iv), iscp.WithConnPingTimeout(to),
		iscp.WithConnDisconnectedEventHandler(iscp.DisconnectedEventHandlerFunc(func(ev *iscp.DisconnectedEvent) {
			mu.Lock()
			if disc.Load() == 0 {
				discAt = time.Now()
			}
			mu.Unlock()
			disc.Add(1)
		})),
		iscp.WithConnReconnectedEventHandler(iscp.ReconnectedEventHandlerFunc(func(ev *iscp.ReconnectedEvent) { recon.Add(1) })))
	if err != nil {
		return vrun.Inconcl("connect: " + err.Error())
	}
	start := time.Now()
	ctx, cancel := context.WithCancel(context.Background())
	var twg sync.WaitGroup
	if s.Traffic {
		up, err := conn.OpenUpstream(ctx, "traffic", iscp.WithUpstreamFlushPolicyImmediately(), iscp.WithUpstreamQoS(message.QoSReliable))
		if err == nil {
			twg.Add(1)
			go func() {
				defer twg.Done()
				id := &message.DataID{Name: "d", Type: "t"}
				for i := 0; ; i++ {
					select {
					case <-ctx.Done():
						return
					case <-time.After(iv/7 + time.Millisecond):
					}
					wctx, c2 := context.WithTimeout(ctx, iv)
					up.WriteDataPoints(wctx, id, &message.DataPoint{ElapsedTime: time.Duration(i), Payload: []byte("x")})
					c2()
				}
			}()
		}
	}
	// broker-originated pings
	var bpIDs []uint32
	if s.BrokerPings > 0 {
		lc := w.B.CurrentLink()
		twg.Add(1)
		go func() {
			defer twg.Done()
			for i := 0; i < s.BrokerPings; i++ {
				select {
				case <-ctx.Done():
					return
				case <-time.After(iv / 3):
				}
				id := uint32(1001 + 2*i)
				if lc.Send(&message.Ping{RequestID: message.RequestID(id)}) {
					mu.Lock()
					bpIDs = append(bpIDs, id)
					mu.Unlock()
				}
			}
		}()
	}
	if s.PingBurst > 0 {
		lc := w.B.CurrentLink()
		twg.Add(1)
		go func() {
			defer twg.Done()
			select {
			case <-ctx.Done():
				return
			case <-time.After(iv / 5):
			}
			for i := 0; i < s.PingBurst; i++ {
				id := uint32(5001 + 2*i)
				if lc.Send(&message.Ping{RequestID: message.RequestID(id)}) {
					mu.Lock()
					bpIDs = append(bpIDs, id)
					mu.Unlock()
				}
			}
		}()
	}
	if s.CallFlood > 0 {
		lc := w.B.CurrentLink()
		twg.Add(1)
		go func() {
			defer twg.Done()
			select {
			case <-ctx.Done():
				return
			case <-time.After(iv / 6):
			}
			for i := 0; i < s.CallFlood; i++ {
				lc.Send(&message.DownstreamCall{CallID: fmt.Sprintf("flood-%d", i), SourceNodeID: "src", Name: "n", Type: "t", Payload: []byte("c")})
				lc.Send(&message.DownstreamCall{CallID: fmt.Sprintf("flood-r-%d", i), RequestCallID: fmt.Sprintf("nobody-%d", i), SourceNodeID: "src", Name: "n", Type: "t", Payload: []byte("c")})
			}
		}()
	}
	if s.Abandoned > 0 {
		twg.Add(1)
		go func() {
			defer twg.Done()
			for i := 0; i < s.Abandoned; i++ {
				select {
				case <-ctx.Done():
					return
				case <-time.After(iv/4 + time.Millisecond):
				}
				actx, ac := context.WithTimeout(ctx, 5*time.Millisecond)
				conn.SendBaseTime(actx, &message.BaseTime{Name: "abandoned", BaseTime: time.Unix(1, 0).UTC()})
				ac()
			}
		}()
	}
	horizon := 40 * iv
	if s.AnswerK >= 0 {
		horizon = time.Duration(s.AnswerK+3)*(iv+to) + 3*to + time.Second
	}
	time.Sleep(horizon)
	synctest.Wait()
	mu.Lock()
	ps := append([]pingRec(nil), pings...)
	fb := firstBad
	dAt := discAt
	sFrom, isSilent := silentFrom, silent
	mu.Unlock()
	finish := func(r vrun.Result) vrun.Result {
		cancel()
		twg.Wait()
		cctx, c3 := context.WithTimeout(context.Background(), time.Minute)
		conn.Close(cctx)
		c3()
		synctest.Wait()
		return r
	}
	// announced values
	lcs := w.B.LinkCtxs()
	if len(lcs) == 0 || lcs[0].Connect == nil {
		return finish(vrun.Inconcl("no connect request seen"))
	}
	cr := lcs[0].Connect
	if cr.PingInterval != iv.Truncate(time.Second) || cr.PingTimeout != to.Truncate(time.Second) {
		return finish(vrun.Violation("announced ping interval/timeout differ from the configured values at whole-second resolution", "announced-keepalive-values",
			map[string]any{"announced_interval": cr.PingInterval.String(), "announced_timeout": cr.PingTimeout.String(), "configured_interval": iv.String(), "configured_timeout": to.String()}))
	}
	// cadence on link 1 up to the first bad ping
	cadenceGaps := 0
	var l1 []pingRec
	for _, p := range ps {
		if p.link == 1 {
			l1 = append(l1, p)
		}
	}
	for i := 1; i < len(l1); i++ {
		if fb != nil && l1[i].n > fb.n {
			break
		}
		// the previous ping was answered after okDelay; the next one is due one interval after the previous was sent (ticker), or right after the pong if that is later
		due := iv
		if okDelay > due {
			due = okDelay
		}
		if gap := l1[i].at.Sub(l1[i-1].at); gap > due+slack {
			cadenceGaps++ // observation only: the statement bounds the detection, not the spacing of pings
		}
	}
	if len(l1) > 0 {
		if first := l1[0].at.Sub(start); first > iv+slack {
			cadenceGaps++
		}
	}
	if s.AnswerK >= 0 && isSilent {
		// the statement's bound, measured from the moment the peer fell silent: interval + timeout (+ slack), whatever
		// the client did with its pings in between (for late pongs the silence starts with the last timely one as well)
		bound := sFrom.Add(iv + to + slack)
		if disc.Load() == 0 || dAt.After(bound) {
			got := "never"
			if disc.Load() > 0 {
				got = dAt.Sub(sFrom).String()
			}
			return finish(vrun.Violation("dead peer not declared lost within ping interval + ping timeout (+1 ms) after it fell silent", "dead-peer-detection-late:since-silence",
				map[string]any{"declared_after_silence": got, "timeout": to.String(), "interval": iv.String(), "timely_pongs_before": s.AnswerK, "client_pings_on_link_1": len(l1)}))
		}
	}
	if fb == nil {
		// live peer: never given up
		if disc.Load() != 0 || w.Net.Dials() != 1 {
			return finish(vrun.Violation("the client gave up a connection whose pongs all arrived within the timeout", "spurious-disconnect",
				map[string]any{"disconnected_events": disc.Load(), "dials": w.Net.Dials(), "pong_delay": okDelay.String(), "timeout": to.String(), "pings": len(l1)}))
		}
	} else {
		bound := fb.at.Add(to + slack)
		if disc.Load() == 0 || dAt.After(bound) {
			got := "never"
			if disc.Load() > 0 {
				got = dAt.Sub(fb.at).String()
			}
			return finish(vrun.Violation("dead peer not declared lost within ping timeout (+1 ms) after the first unanswered ping", "dead-peer-detection-late",
				map[string]any{"declared_after": got, "timeout": to.String(), "interval": iv.String(), "unanswered_ping_no": fb.n}))
		}
		links := w.Net.Links()
		if len(links) < 2 {
			return finish(vrun.Violation("no recovery (redial) started after the connection was declared lost", "no-redial-after-detection", map[string]any{"dials": w.Net.Dials()}))
		}
		if disc.Load() > 1+recon.Load() {
			// more disconnects than reconnects+1 would mean a healthy redialled link was dropped too
			return finish(vrun.Violation("a redialled, live connection was given up", "spurious-disconnect-after-recovery", map[string]any{"disconnected": disc.Load(), "reconnected": recon.Load()}))
		}
	}
	// broker pings answered
	pongs := map[uint32]int{}
	for _, e := range w.B.Ledger() {
		if pg, ok := e.Msg.(*message.Pong); ok && e.Dir == memnet.C2S && e.Link == 1 {
			pongs[uint32(pg.RequestID)]++
		}
	}
	mu.Lock()
	ids := append([]uint32(nil), bpIDs...)
	mu.Unlock()
	deadAt := time.Time{}
	if fb != nil {
		deadAt = dAt
	}
	_ = deadAt
	// a pong whose transport write failed (transient error injected by the scenario) was not lost by the client
	writeFailed := map[uint32]bool{}
	for _, l := range w.Net.Links() {
		for _, rc := range l.Log() {
			if pg, ok := rc.Msg.(*message.Pong); ok && rc.Dir == memnet.C2S && !rc.OK {
				writeFailed[uint32(pg.RequestID)] = true
			}
		}
	}
	answered := 0
	for _, id := range ids {
		if pongs[id] == 1 {
			answered++
			continue
		}
		if writeFailed[id] && pongs[id] == 0 {
			continue
		}
		if fb != nil {
			continue // the link died around then: a pong may be missing legitimately
		}
		return finish(vrun.Violation("a broker ping was not answered by exactly one pong with the same request id", "broker-ping-unanswered", map[string]any{"id": id, "pongs": pongs[id]}))
	}
	r := vrun.Hold(fmt.Sprintf("%d|%d|%d|%s|%s|%v|%d|%d|%v|%d|%v", s.IntervalMs, s.TimeoutMs, s.AnswerK, s.OkDelay, s.Late, s.Traffic, s.BrokerPings, s.PingBurst, s.CloseFails, s.Abandoned, s.PongWriteErr), len(l1) >= 2)
	r.Stat("client_pings_observed", int64(len(ps)))
	r.Stat("observation_ping_gaps_longer_than_one_interval", int64(cadenceGaps))
	r.Stat("broker_pings_answered", int64(answered))
	if fb != nil {
		r.Stat("dead_peer_cases", 1)
	} else {
		r.Stat("live_peer_cases", 1)
	}
	return finish(r)
}
