// Package vrun is the case protocol shared by every property workload of the harness.
//
// A workload is a Go test that calls Loop with a case function. Loop derives one PRNG per case from
// (VERIF_SEED, property, case index) - never from the clock -, writes a "start" record before and an
// "end" record (verdict, signature, witness, stats) after each case to $VERIF_OUT/cases.jsonl, and
// flushes after every record so that a crash of the process leaves the running case identifiable.
// The runner (/verif/check) aggregates these records into the evidence file and the exit status.
package vrun

import (
	"bytes"
	"encoding/json"
	"fmt"
	"hash/fnv"
	"math/rand"
	"os"
	"path/filepath"
	"runtime"
	"runtime/debug"
	"strconv"
	"strings"
	"sync"
	"sync/atomic"
	"testing"
	"time"
)

const (
	Held         = "held"
	Violated     = "violated"
	Inconclusive = "inconclusive"
)

type Env struct {
	Seed   int64
	Tier   string
	OutDir string
	From   int
	To     int // exclusive; <0 = no limit
	Par    int
}

func LoadEnv() Env {
	e := Env{Seed: 1, Tier: "quick", From: 0, To: -1, Par: 8}
	if v := os.Getenv("VERIF_SEED"); v != "" {
		if n, err := strconv.ParseInt(v, 10, 64); err == nil {
			e.Seed = n
		}
	}
	if v := os.Getenv("VERIF_TIER"); v == "thorough" {
		e.Tier = v
	}
	e.OutDir = os.Getenv("VERIF_OUT")
	if e.OutDir == "" {
		e.OutDir = os.TempDir()
	}
	if v := os.Getenv("VERIF_CASE_FROM"); v != "" {
		e.From, _ = strconv.Atoi(v)
	}
	if v := os.Getenv("VERIF_CASE_TO"); v != "" {
		e.To, _ = strconv.Atoi(v)
	}
	if v := os.Getenv("VERIF_PAR"); v != "" {
		if n, err := strconv.Atoi(v); err == nil && n > 0 {
			e.Par = n
		}
	}
	return e
}

func (e Env) Thorough() bool { return e.Tier == "thorough" }

// Pick returns q for the quick tier and t for the thorough tier.
func (e Env) Pick(q, t int) int {
	if e.Thorough() {
		return t
	}
	return q
}

// Case is what a case function receives.
type Case struct {
	Index int
	Seed  int64
	Rng   *rand.Rand
	Env   Env
	T     *testing.T
}

// Result is what a case function returns.
type Result struct {
	Verdict    string              `json:"verdict"`
	Clause     string              `json:"clause,omitempty"`      // which clause of the property was violated
	FindingKey string              `json:"finding_key,omitempty"` // stable identity of a violation (seed independent)
	Sig        string              `json:"sig,omitempty"`         // signature used to count distinct cases
	NonTrivial bool                `json:"nontrivial"`
	Desc       any                 `json:"desc,omitempty"`    // the generated scenario (always written; used for replay)
	Witness    any                 `json:"witness,omitempty"` // offending events
	Note       string              `json:"note,omitempty"`
	Stats      map[string]int64    `json:"stats,omitempty"`
	Sets       map[string][]string `json:"sets,omitempty"` // named sets, unioned by the runner (distinct things observed)
}

func Hold(sig string, nontrivial bool) Result {
	return Result{Verdict: Held, Sig: sig, NonTrivial: nontrivial}
}

func Violation(clause, key string, witness any) Result {
	return Result{Verdict: Violated, Clause: clause, FindingKey: key, Witness: witness}
}

func Inconcl(note string) Result { return Result{Verdict: Inconclusive, Note: note} }

func (r *Result) Stat(k string, n int64) {
	if r.Stats == nil {
		r.Stats = map[string]int64{}
	}
	r.Stats[k] += n
}

func (r *Result) AddSet(name string, vals ...string) {
	if r.Sets == nil {
		r.Sets = map[string][]string{}
	}
	r.Sets[name] = append(r.Sets[name], vals...)
}

type Meta struct {
	Property    string   `json:"property"`
	Workload    string   `json:"workload"`
	Rule        string   `json:"rule"`
	Assumptions []string `json:"assumptions,omitempty"`
	Exhaustive  bool     `json:"exhaustive,omitempty"`
	Total       int      `json:"total"`
}

type writer struct {
	mu sync.Mutex
	f  *os.File
}

var (
	outOnce sync.Once
	out     *writer
	// violations counts violated cases of the running workload; the loop stops handing out cases after
	// maxViolationsPerWorkload of them (every one of them is still reported).
	violations atomic.Int64
)

const maxViolationsPerWorkload = 25

func getOut(e Env) *writer {
	outOnce.Do(func() {
		_ = os.MkdirAll(e.OutDir, 0o755)
		f, err := os.OpenFile(filepath.Join(e.OutDir, "cases.jsonl"), os.O_CREATE|os.O_APPEND|os.O_WRONLY, 0o644)
		if err != nil {
			panic(err)
		}
		out = &writer{f: f}
	})
	return out
}

func (w *writer) emit(v any) {
	b, err := json.Marshal(v)
	if err != nil {
		b, _ = json.Marshal(map[string]any{"ev": "error", "error": err.Error()})
	}
	w.mu.Lock()
	defer w.mu.Unlock()
	w.f.Write(append(b, '\n'))
}

// CaseSeed mixes the run seed, the workload name and the case index.
func CaseSeed(seed int64, workload string, idx int) int64 {
	h := fnv.New64a()
	fmt.Fprintf(h, "%d/%s/%d", seed, workload, idx)
	return int64(h.Sum64() & 0x7fffffffffffffff)
}

// Loop runs cases [0,total) (restricted to [From,To) when the runner asks for a batch) on e.Par workers.
// par <= 0 means "use the environment's parallelism"; par == 1 forces sequential execution.
func Loop(t *testing.T, meta Meta, par int, fn func(c *Case) Result) {
	e := LoadEnv()
	w := getOut(e)
	w.emit(map[string]any{"ev": "meta", "meta": meta, "seed": e.Seed, "tier": e.Tier})
	if par <= 0 {
		par = e.Par
	}
	from, to := e.From, meta.Total
	if e.To >= 0 && e.To < to {
		to = e.To
	}
	idx := make(chan int)
	var wg sync.WaitGroup
	for i := 0; i < par; i++ {
		wg.Add(1)
		go func() {
			defer wg.Done()
			for i := range idx {
				runOne(t, e, w, meta, i, fn)
			}
		}()
	}
	stoppedAt := -1
	for i := from; i < to; i++ {
		// a broken tree makes many cases wait for their watchdogs: enough witnesses is enough
		if violations.Load() >= maxViolationsPerWorkload {
			stoppedAt = i
			break
		}
		idx <- i
	}
	close(idx)
	wg.Wait()
	w.emit(map[string]any{"ev": "done", "workload": meta.Workload, "from": from, "to": to, "stopped_early_at": stoppedAt})
}

func runOne(t *testing.T, e Env, w *writer, meta Meta, i int, fn func(c *Case) Result) {
	seed := CaseSeed(e.Seed, meta.Workload, i)
	c := &Case{Index: i, Seed: seed, Rng: rand.New(rand.NewSource(seed)), Env: e, T: t}
	w.emit(map[string]any{"ev": "start", "workload": meta.Workload, "case": i})
	t0 := time.Now()
	var res Result
	func() {
		defer func() {
			if r := recover(); r != nil {
				st := string(debug.Stack())
				res = Result{Verdict: Violated, Clause: "panic in the calling goroutine",
					FindingKey: "panic:" + PanicSite(st), Witness: map[string]any{"panic": fmt.Sprint(r), "stack": st}}
			}
		}()
		res = fn(c)
	}()
	if res.Verdict == Violated {
		n := int64(1)
		if time.Since(t0) > 15*time.Second {
			n = 5 // a violation that costs a watchdog (hang, leaked lock): five witnesses of those are enough
		}
		violations.Add(n)
	}
	w.emit(map[string]any{"ev": "end", "workload": meta.Workload, "case": i, "ms": time.Since(t0).Milliseconds(), "res": res})
}

// PanicSite returns the first library frame (function name) of a stack trace, for finding keys.
func PanicSite(stack string) string {
	for _, ln := range strings.Split(stack, "\n") {
		ln = strings.TrimSpace(ln)
		if strings.HasPrefix(ln, "github.com/aptpod/iscp-go/") {
			if i := strings.LastIndex(ln, "("); i > 0 {
				ln = ln[:i]
			}
			return strings.TrimPrefix(ln, "github.com/aptpod/iscp-go/")
		}
	}
	return "unknown"
}

// Watchdog runs f; if it has not returned after d of wall-clock time the goroutine dump is returned and
// ok is false (the goroutine is abandoned). A watchdog firing is never by itself a violation.
func Watchdog(d time.Duration, f func()) (ok bool, dump string) {
	done := make(chan struct{})
	go func() {
		defer close(done)
		f()
	}()
	deadline := time.After(d)
	// A leaked lock is recognisable long before the deadline: the same library goroutine parked on the same mutex
	// in three dumps taken 5 s apart (after 10 s of grace) ends the wait early. The verdict is still formed by the
	// caller from the dump.
	probe := time.NewTimer(10 * time.Second)
	defer probe.Stop()
	var prev map[string]string
	streak := 0
	for {
		select {
		case <-done:
			return true, ""
		case <-deadline:
			return false, AllStacks()
		case <-probe.C:
			cur := parkedOnMutex()
			if prev != nil {
				for id, site := range cur {
					if prev[id] != site {
						delete(cur, id)
					}
				}
			}
			if len(cur) == 0 {
				prev, streak = nil, 0
			} else {
				prev = cur
				streak++
			}
			if streak >= 3 {
				return false, AllStacks()
			}
			probe.Reset(5 * time.Second)
		}
	}
}

// parkedOnMutex lists the goroutines (id -> innermost library function) that have a library frame and sit in
// sync.(RW)Mutex.Lock right now.
func parkedOnMutex() map[string]string {
	m := map[string]string{}
	for _, g := range ParseStacks(AllStacks()) {
		if !strings.Contains(g.Text, LibPrefix) {
			continue
		}
		if strings.Contains(g.Header, "sync.Mutex.Lock") || strings.Contains(g.Header, "sync.RWMutex") {
			m[strings.SplitN(g.Header, " ", 3)[1]] = g.InnermostLib()
		}
	}
	return m
}

func AllStacks() string {
	buf := make([]byte, 1<<20)
	for {
		n := runtime.Stack(buf, true)
		if n < len(buf) {
			return string(buf[:n])
		}
		buf = make([]byte, 2*len(buf))
	}
}

// Goroutine is one parsed goroutine of a dump.
type Goroutine struct {
	Header    string
	Frames    []string // function names, innermost first (without the "created by" line)
	CreatedBy string   // function that started the goroutine ("" for the main goroutine)
	Text      string
}

// ParseStacks splits a runtime.Stack(all) dump.
func ParseStacks(dump string) []Goroutine {
	var res []Goroutine
	for _, blk := range strings.Split(dump, "\n\n") {
		blk = strings.TrimSpace(blk)
		if !strings.HasPrefix(blk, "goroutine ") {
			continue
		}
		lines := strings.Split(blk, "\n")
		g := Goroutine{Header: lines[0], Text: blk}
		for _, ln := range lines[1:] {
			if strings.HasPrefix(ln, "\t") {
				continue
			}
			if strings.HasPrefix(ln, "created by ") {
				ln = strings.TrimPrefix(ln, "created by ")
				if i := strings.Index(ln, " in goroutine "); i > 0 {
					ln = ln[:i]
				}
				g.CreatedBy = ln
				continue
			}
			if i := strings.LastIndex(ln, "("); i > 0 {
				ln = ln[:i]
			}
			g.Frames = append(g.Frames, ln)
		}
		res = append(res, g)
	}
	return res
}

const LibPrefix = "github.com/aptpod/iscp-go/"

// LibraryOwned reports whether the goroutine was started by library code. A goroutine started by the
// harness is an application call even while it executes library code; a goroutine started by the library
// stays library-owned while it sits in a harness transport's Read.
func (g Goroutine) LibraryOwned() bool {
	return strings.HasPrefix(g.CreatedBy, LibPrefix)
}

// InnermostLib returns the innermost library function of the goroutine.
func (g Goroutine) InnermostLib() string {
	for _, f := range g.Frames {
		if strings.HasPrefix(f, LibPrefix) {
			return strings.TrimPrefix(f, LibPrefix)
		}
	}
	return strings.TrimPrefix(g.CreatedBy, LibPrefix)
}

// Census returns the library-owned goroutines alive now.
func Census() []Goroutine {
	var res []Goroutine
	for _, g := range ParseStacks(AllStacks()) {
		if g.LibraryOwned() {
			res = append(res, g)
		}
	}
	return res
}

func bubbleOf(header string) string {
	i := strings.Index(header, "synctest bubble ")
	if i < 0 {
		return ""
	}
	rest := header[i+len("synctest bubble "):]
	j := strings.IndexAny(rest, "],")
	if j < 0 {
		return rest
	}
	return rest[:j]
}

// BubbleCensus returns the library-owned goroutines that live in the calling goroutine's synctest bubble
// (runtime.Stack lists the caller first and tags every goroutine with its bubble).
func BubbleCensus() []Goroutine {
	gs := ParseStacks(AllStacks())
	if len(gs) == 0 {
		return nil
	}
	me := bubbleOf(gs[0].Header)
	var res []Goroutine
	for _, g := range gs[1:] {
		if bubbleOf(g.Header) == me && g.LibraryOwned() {
			res = append(res, g)
		}
	}
	return res
}

// StuckOnMutex decides, after a watchdog has fired, whether library code is parked on a mutex for good: it takes two
// goroutine dumps two seconds apart and returns a goroutine that has a library frame and sits in sync.(RW)Mutex.Lock
// in both. A lock that is still held long after everything else has gone quiet is a leaked lock, not scheduling.
func StuckOnMutex() (site string, text string, ok bool) {
	parked := func() map[string]Goroutine {
		m := map[string]Goroutine{}
		for _, g := range ParseStacks(AllStacks()) {
			if !strings.Contains(g.Text, LibPrefix) {
				continue
			}
			if strings.Contains(g.Header, "sync.Mutex.Lock") || strings.Contains(g.Header, "sync.RWMutex") {
				id := strings.SplitN(g.Header, " ", 3)[1]
				m[id] = g
			}
		}
		return m
	}
	a := parked()
	if len(a) == 0 {
		return "", "", false
	}
	time.Sleep(2 * time.Second)
	b := parked()
	// Inside a synctest bubble a goroutine waiting for a sync.Mutex keeps virtual time from advancing. If library code
	// of the same bubble is inside time.Sleep, the lock may simply be held across that sleep (which can never end there):
	// an artefact of the virtual clock, not a leaked lock.
	sleepers := map[string]bool{}
	for _, g := range ParseStacks(AllStacks()) {
		if strings.Contains(g.Text, LibPrefix) && strings.Contains(g.Header, "[sleep") {
			sleepers[bubbleOf(g.Header)] = true
		}
	}
	for id, g := range a {
		if g2, still := b[id]; still && g2.InnermostLib() == g.InnermostLib() {
			if bub := bubbleOf(g2.Header); bub != "" && sleepers[bub] {
				continue
			}
			return g.InnermostLib(), g2.Text, true
		}
	}
	return "", "", false
}

// WatchdogVerdict is what a workload returns when its wall-clock watchdog fired: a violation if library code is stuck
// on a mutex (leaked lock), otherwise inconclusive.
func WatchdogVerdict(what string) Result {
	if site, text, ok := StuckOnMutex(); ok {
		return Violation(what+": library goroutines are parked on a mutex that is never released", "stuck-on-mutex:"+site, map[string]any{"goroutine": text})
	}
	return Inconcl("wall-clock watchdog fired (" + what + ")")
}

// JSON is a helper for compact witnesses.
func JSON(v any) string {
	var b bytes.Buffer
	enc := json.NewEncoder(&b)
	enc.SetEscapeHTML(false)
	_ = enc.Encode(v)
	return strings.TrimSpace(b.String())
}
