// C06 - each request receives its own response; request ids are unique and even.
package c06

import (
	"context"
	"errors"
	"fmt"
	"math/rand"
	"sync"
	"testing"
	"time"

	"github.com/aptpod/iscp-go/encoding"
	"github.com/aptpod/iscp-go/iscp"
	"github.com/aptpod/iscp-go/message"
	"github.com/aptpod/iscp-go/transport"
	"github.com/aptpod/iscp-go/wire"
	"github.com/google/uuid"

	"verif/harness/broker"
	"verif/harness/memnet"
	"verif/harness/vrun"
	"verif/harness/world"
)

type scenario struct {
	Callers    int    `json:"callers"`
	PerCaller  int    `json:"requests_per_caller"`
	Batch      int    `json:"response_batch"`
	Order      string `json:"response_order"`
	SpuriousPc int    `json:"spurious_pct"`
	CancelPc   int    `json:"cancel_pct"`
	PingMs     int    `json:"ping_interval_ms"`
	Encoding   string `json:"encoding"`
}

// responder holds responses back and releases them in a drawn order, with spurious responses mixed in.
type responder struct {
	mu       sync.Mutex
	r        *rand.Rand
	s        scenario
	pending  []pend
	answered []message.Message // already sent responses (for duplicates)
	spurious int
	stop     chan struct{}
	wg       sync.WaitGroup
}

type pend struct {
	lc  *broker.LinkCtx
	msg message.Message
}

func (rs *responder) add(lc *broker.LinkCtx, m message.Message) {
	rs.mu.Lock()
	rs.pending = append(rs.pending, pend{lc, m})
	full := len(rs.pending) >= rs.s.Batch
	rs.mu.Unlock()
	if full {
		rs.flush()
	}
}

func (rs *responder) flush() {
	rs.mu.Lock()
	p := rs.pending
	rs.pending = nil
	switch rs.s.Order {
	case "reverse":
		for i, j := 0, len(p)-1; i < j; i, j = i+1, j-1 {
			p[i], p[j] = p[j], p[i]
		}
	case "random":
		rs.r.Shuffle(len(p), func(i, j int) { p[i], p[j] = p[j], p[i] })
	}
	var out []pend
	for _, x := range p {
		if rs.s.SpuriousPc > 0 && rs.r.Intn(100) < rs.s.SpuriousPc {
			switch rs.r.Intn(3) {
			case 0: // unknown (never issued) even id
				out = append(out, pend{x.lc, &message.UpstreamMetadataAck{RequestID: message.RequestID(4000000 + 2*uint32(rs.r.Intn(1000))), ResultCode: message.ResultCodeSucceeded, ResultString: "spurious-unknown"}})
			case 1: // odd id (the broker's parity)
				out = append(out, pend{x.lc, &message.UpstreamMetadataAck{RequestID: message.RequestID(1 + 2*uint32(rs.r.Intn(50))), ResultCode: message.ResultCodeSucceeded, ResultString: "spurious-odd"}})
			case 2: // an already answered id, same response again
				if len(rs.answered) > 0 {
					out = append(out, pend{x.lc, rs.answered[rs.r.Intn(len(rs.answered))]})
				}
			}
			rs.spurious++
		}
		out = append(out, x)
		rs.answered = append(rs.answered, x.msg)
	}
	rs.mu.Unlock()
	for _, x := range out {
		x.lc.Send(x.msg)
	}
}

func (rs *responder) run() {
	rs.wg.Add(1)
	go func() {
		defer rs.wg.Done()
		for {
			select {
			case <-rs.stop:
				return
			case <-time.After(500 * time.Microsecond):
				rs.flush()
			}
		}
	}()
}

func tagUUID(tag string) uuid.UUID { return broker.StreamIDFor("c06", tag, 0) }

// install makes the broker echo a tag derived from the request BODY into the response's ResultString.
func install(w *world.World, rs *responder) {
	w.B.OnMsg = func(lc *broker.LinkCtx, m message.Message, unrel bool) bool {
		switch t := m.(type) {
		case *message.UpstreamOpenRequest:
			resp := lc.OpenUpstream(t)
			resp.ResultString = "uo:" + t.SessionID
			rs.add(lc, resp)
		case *message.UpstreamResumeRequest:
			rs.add(lc, &message.UpstreamResumeResponse{RequestID: t.RequestID, AssignedStreamIDAlias: 77, ResultCode: message.ResultCodeStreamNotFound, ResultString: "ur:" + t.StreamID.String()})
		case *message.UpstreamCloseRequest:
			rs.add(lc, &message.UpstreamCloseResponse{RequestID: t.RequestID, ResultCode: message.ResultCodeSucceeded, ResultString: "uc:" + t.StreamID.String()})
		case *message.UpstreamMetadata:
			name := ""
			if bt, ok := t.Metadata.(*message.BaseTime); ok {
				name = bt.Name
			}
			rs.add(lc, &message.UpstreamMetadataAck{RequestID: t.RequestID, ResultCode: message.ResultCodeSucceeded, ResultString: "um:" + name})
		case *message.DownstreamOpenRequest:
			resp := lc.OpenDownstream(t)
			resp.ResultString = fmt.Sprintf("do:%d", t.DesiredStreamIDAlias)
			rs.add(lc, resp)
		case *message.DownstreamResumeRequest:
			rs.add(lc, &message.DownstreamResumeResponse{RequestID: t.RequestID, ResultCode: message.ResultCodeStreamNotFound, ResultString: "dr:" + t.StreamID.String()})
		case *message.DownstreamCloseRequest:
			rs.add(lc, &message.DownstreamCloseResponse{RequestID: t.RequestID, ResultCode: message.ResultCodeSucceeded, ResultString: "dc:" + t.StreamID.String()})
		default:
			return false
		}
		return true
	}
}

func genScenario(r *rand.Rand) scenario {
	return scenario{Callers: []int{2, 4, 8, 16, 32, 64}[r.Intn(6)], PerCaller: 1 + r.Intn(6), Batch: 1 + r.Intn(8),
		Order: []string{"fifo", "reverse", "random", "random"}[r.Intn(4)], SpuriousPc: []int{0, 10, 30}[r.Intn(3)], CancelPc: []int{0, 10, 30}[r.Intn(3)],
		PingMs: []int{1, 5, 1000}[r.Intn(3)], Encoding: []string{"proto", "json"}[r.Intn(2)]}
}

type callResult struct {
	Kind      string
	Tag       string
	ReqID     uint32
	RespID    uint32
	Got       string
	Err       string
	Cancelled bool
}

func ledgerIDs(w *world.World) (ids []uint32, f *vrun.Result) {
	seen := map[[2]uint32]string{}
	for _, e := range w.B.Ledger() {
		if e.Dir != memnet.C2S {
			continue
		}
		rq, ok := e.Msg.(message.Request)
		if !ok {
			continue
		}
		if _, isPong := e.Msg.(*message.Pong); isPong {
			continue
		}
		id := rq.GetRequestID()
		ids = append(ids, id)
		if id%2 != 0 {
			v := vrun.Violation("a client request carries an odd request id", "request-id-odd", map[string]any{"id": id, "class": e.Class})
			return ids, &v
		}
		k := [2]uint32{uint32(e.Link), id}
		if prev, dup := seen[k]; dup {
			v := vrun.Violation("two client requests on one connection carry the same request id", "request-id-reused", map[string]any{"id": id, "first": prev, "second": e.Class})
			return ids, &v
		}
		seen[k] = e.Class
	}
	return ids, nil
}

func TestC06Wire(t *testing.T) {
	e := vrun.LoadEnv()
	meta := vrun.Meta{Property: "C06", Workload: "TestC06Wire", Total: e.Pick(300, 30000),
		Rule:        "wire.Connect over memnet; 2-64 concurrent callers x 1-6 requests of the 7 request kinds (upstream open/resume/close, metadata, downstream open/resume/close) plus keepalive pings every 1 ms / 5 ms / 1 s; the broker answers in batches of 1-8 in fifo/reverse/random order, mixes in spurious responses (unknown even id, odd id, duplicate of an already answered response) and echoes a tag derived from the request BODY in the response; callers are cancelled at random points in 0/10/30% of the requests. Oracle: response id == request id, echoed tag == the caller's own tag, no caller (cancelled ones aside) fails, all request ids on the connection distinct and even (connect request and pings included). non-trivial = >=8 requests answered with >=2 outstanding at once (batch >= 2); distinct = scenario tuple",
		Assumptions: []string{"spurious responses keep the message type of a response the library could legitimately receive for that id; type confusion between response kinds is C12's subject"}}
	vrun.Loop(t, meta, 0, func(c *vrun.Case) vrun.Result {
		s := genScenario(c.Rng)
		var res vrun.Result
		ok, dump := vrun.Watchdog(120*time.Second, func() { res = runWire(c, s) })
		if !ok {
			res = vrun.WatchdogVerdict("callers never returned")
			if res.Verdict == vrun.Inconclusive {
				res.Witness = map[string]any{"dump_head": dump[:min(len(dump), 5000)]}
			}
		}
		res.Desc = s
		return res
	})
}

func runWire(c *vrun.Case, s scenario) vrun.Result {
	w := world.New()
	defer w.Close()
	rs := &responder{r: rand.New(rand.NewSource(c.Rng.Int63())), s: s, stop: make(chan struct{})}
	install(w, rs)
	w.Start()
	rs.run()
	defer func() { close(rs.stop); rs.wg.Wait() }()
	encName := transport.EncodingNameProtobuf
	if s.Encoding == "json" {
		encName = transport.EncodingNameJSON
	}
	tr, err := w.Net.Dialer().Dial(transport.DialConfig{Address: w.Addr, EncodingName: encName})
	if err != nil {
		return vrun.Inconcl("dial: " + err.Error())
	}
	et := encoding.NewTransport(&encoding.TransportConfig{Transport: tr, Encoding: w.Net.Current().Encoding()})
	cc, err := wire.Connect(&wire.ClientConnConfig{Transport: et, NodeID: "n", PingInterval: time.Duration(s.PingMs) * time.Millisecond, PingTimeout: 30 * time.Second})
	if err != nil {
		return vrun.Inconcl("wire.Connect: " + err.Error())
	}
	defer cc.Close()
	var mu sync.Mutex
	var results []callResult
	var wg sync.WaitGroup
	seeds := make([]int64, s.Callers)
	for i := range seeds {
		seeds[i] = c.Rng.Int63()
	}
	for ci := 0; ci < s.Callers; ci++ {
		wg.Add(1)
		go func(ci int) {
			defer wg.Done()
			r := rand.New(rand.NewSource(seeds[ci]))
			for k := 0; k < s.PerCaller; k++ {
				tag := fmt.Sprintf("c%d-%d", ci, k)
				ctx, cancel := context.WithTimeout(context.Background(), 60*time.Second)
				cancelled := false
				if s.CancelPc > 0 && r.Intn(100) < s.CancelPc {
					cancelled = true
					d := time.Duration(r.Intn(400)) * time.Microsecond
					go func() { time.Sleep(d); cancel() }()
				}
				cr := callResult{Tag: tag, Cancelled: cancelled}
				var err error
				func() {
					defer func() {
						if p := recover(); p != nil {
							err = fmt.Errorf("PANIC: %v", p)
						}
					}()
					switch r.Intn(7) {
					case 0:
						cr.Kind = "uo"
						req := &message.UpstreamOpenRequest{SessionID: tag, QoS: message.QoSReliable}
						var resp *message.UpstreamOpenResponse
						resp, err = cc.SendUpstreamOpenRequest(ctx, req)
						cr.ReqID = uint32(req.RequestID)
						if err == nil {
							cr.RespID, cr.Got = uint32(resp.RequestID), resp.ResultString
						}
					case 1:
						cr.Kind = "ur"
						req := &message.UpstreamResumeRequest{StreamID: tagUUID(tag)}
						cr.Tag = tagUUID(tag).String()
						var resp *message.UpstreamResumeResponse
						resp, err = cc.SendUpstreamResumeRequest(ctx, req, message.QoSReliable)
						cr.ReqID = uint32(req.RequestID)
						if err == nil {
							cr.RespID, cr.Got = uint32(resp.RequestID), resp.ResultString
						}
					case 2:
						cr.Kind = "uc"
						req := &message.UpstreamCloseRequest{StreamID: tagUUID(tag)}
						cr.Tag = tagUUID(tag).String()
						var resp *message.UpstreamCloseResponse
						resp, err = cc.SendUpstreamCloseRequest(ctx, req)
						cr.ReqID = uint32(req.RequestID)
						if err == nil {
							cr.RespID, cr.Got = uint32(resp.RequestID), resp.ResultString
						}
					case 3:
						cr.Kind = "um"
						req := &message.UpstreamMetadata{Metadata: &message.BaseTime{Name: tag, BaseTime: time.Unix(1, 0).UTC()}}
						var resp *message.UpstreamMetadataAck
						resp, err = cc.SendUpstreamMetadata(ctx, req)
						cr.ReqID = uint32(req.RequestID)
						if err == nil {
							cr.RespID, cr.Got = uint32(resp.RequestID), resp.ResultString
						}
					case 4:
						cr.Kind = "do"
						alias := uint32(ci*100 + k + 1)
						cr.Tag = fmt.Sprint(alias)
						req := &message.DownstreamOpenRequest{DesiredStreamIDAlias: alias, QoS: message.QoSReliable}
						var resp *message.DownstreamOpenResponse
						resp, err = cc.SendDownstreamOpenRequest(ctx, req)
						cr.ReqID = uint32(req.RequestID)
						if err == nil {
							cr.RespID, cr.Got = uint32(resp.RequestID), resp.ResultString
						}
					case 5:
						cr.Kind = "dr"
						req := &message.DownstreamResumeRequest{StreamID: tagUUID(tag), DesiredStreamIDAlias: uint32(5000 + ci*100 + k)}
						cr.Tag = tagUUID(tag).String()
						var resp *message.DownstreamResumeResponse
						resp, err = cc.SendDownstreamResumeRequest(ctx, req)
						cr.ReqID = uint32(req.RequestID)
						if err == nil {
							cr.RespID, cr.Got = uint32(resp.RequestID), resp.ResultString
						}
					case 6:
						cr.Kind = "dc"
						req := &message.DownstreamCloseRequest{StreamID: tagUUID(tag)}
						cr.Tag = tagUUID(tag).String()
						var resp *message.DownstreamCloseResponse
						resp, err = cc.SendDownstreamCloseRequest(ctx, req)
						cr.ReqID = uint32(req.RequestID)
						if err == nil {
							cr.RespID, cr.Got = uint32(resp.RequestID), resp.ResultString
						}
					}
				}()
				cancel()
				if err != nil {
					cr.Err = err.Error()
					if cancelled && errors.Is(err, context.Canceled) {
						cr.Err = "cancelled"
					}
				}
				mu.Lock()
				results = append(results, cr)
				mu.Unlock()
			}
		}(ci)
	}
	wg.Wait()
	answered := 0
	for _, cr := range results {
		switch {
		case cr.Err == "cancelled":
			continue
		case cr.Err != "":
			return vrun.Violation("a caller failed although the broker answered every request", "caller-failed:"+cr.Kind, map[string]any{"call": cr})
		}
		answered++
		if cr.RespID != cr.ReqID {
			return vrun.Violation("a caller received a response bearing another request id", "response-id-mismatch:"+cr.Kind, map[string]any{"call": cr})
		}
		if cr.Got != cr.Kind+":"+cr.Tag {
			return vrun.Violation("a caller received the response that belongs to another request", "response-payload-of-another-request:"+cr.Kind, map[string]any{"call": cr, "want": cr.Kind + ":" + cr.Tag})
		}
	}
	ids, f := ledgerIDs(w)
	if f != nil {
		return *f
	}
	r := vrun.Hold(fmt.Sprintf("%d|%d|%d|%s|%d|%d|%d|%s", s.Callers, s.PerCaller, s.Batch, s.Order, s.SpuriousPc, s.CancelPc, s.PingMs, s.Encoding), answered >= 8 && s.Batch >= 2)
	r.Stat("requests_answered", int64(answered))
	r.Stat("requests_cancelled", int64(len(results)-answered))
	r.Stat("request_ids_seen", int64(len(ids)))
	r.Stat("spurious_responses", int64(rs.spurious))
	return r
}

// TestC06Iscp: OpenUpstream/OpenDownstream/SendMetadata through iscp.Conn with permuted responses: every caller
// gets the stream the broker derived from ITS session id.
func TestC06Iscp(t *testing.T) {
	e := vrun.LoadEnv()
	meta := vrun.Meta{Property: "C06", Workload: "TestC06Iscp", Total: e.Pick(150, 15000),
		Rule: "iscp.Connect over memnet; 2-32 concurrent callers of OpenUpstream(session)/SendMetadata/Upstream.Close with responses permuted in batches and spurious responses mixed in; oracle: OpenUpstream(session) returns the stream whose id the broker derived from that session id, metadata calls succeed, all request ids distinct and even; non-trivial = >=6 opens with batch >= 2; distinct = scenario tuple",
	}
	vrun.Loop(t, meta, 0, func(c *vrun.Case) vrun.Result {
		s := genScenario(c.Rng)
		if s.Callers > 32 {
			s.Callers = 32
		}
		s.CancelPc = 0
		var res vrun.Result
		ok, dump := vrun.Watchdog(120*time.Second, func() { res = runIscp(c, s) })
		if !ok {
			res = vrun.WatchdogVerdict("callers never returned")
			if res.Verdict == vrun.Inconclusive {
				res.Witness = map[string]any{"dump_head": dump[:min(len(dump), 5000)]}
			}
		}
		res.Desc = s
		return res
	})
}

func runIscp(c *vrun.Case, s scenario) vrun.Result {
	w := world.New()
	defer w.Close()
	rs := &responder{r: rand.New(rand.NewSource(c.Rng.Int63())), s: s, stop: make(chan struct{})}
	install(w, rs)
	w.Start()
	rs.run()
	defer func() { close(rs.stop); rs.wg.Wait() }()
	conn, err := w.Connect(iscp.WithConnPingInterval(time.Duration(s.PingMs)*time.Millisecond), iscp.WithConnPingTimeout(30*time.Second))
	if err != nil {
		return vrun.Inconcl("connect: " + err.Error())
	}
	defer conn.Close(context.Background())
	var mu sync.Mutex
	var viol *vrun.Result
	opens := 0
	var wg sync.WaitGroup
	for ci := 0; ci < s.Callers; ci++ {
		wg.Add(1)
		go func(ci int) {
			defer wg.Done()
			ctx, cancel := context.WithTimeout(context.Background(), 60*time.Second)
			defer cancel()
			for k := 0; k < s.PerCaller; k++ {
				sess := fmt.Sprintf("sess-%d-%d", ci, k)
				if (ci+k)%3 == 2 {
					if err := conn.SendBaseTime(ctx, &message.BaseTime{Name: sess, BaseTime: time.Unix(1, 0).UTC()}); err != nil {
						mu.Lock()
						if viol == nil {
							v := vrun.Violation("SendMetadata failed although the broker answered", "iscp-metadata-failed", map[string]any{"err": err.Error()})
							viol = &v
						}
						mu.Unlock()
					}
					continue
				}
				up, err := conn.OpenUpstream(ctx, sess, iscp.WithUpstreamQoS(message.QoSReliable))
				if err != nil {
					mu.Lock()
					if viol == nil {
						v := vrun.Violation("OpenUpstream failed although the broker answered", "iscp-open-failed", map[string]any{"err": err.Error(), "session": sess})
						viol = &v
					}
					mu.Unlock()
					continue
				}
				want := broker.StreamIDFor("up", sess, 0)
				mu.Lock()
				opens++
				if up.ID != want && viol == nil {
					v := vrun.Violation("OpenUpstream returned the stream that belongs to another caller's request", "iscp-open-wrong-stream", map[string]any{"session": sess, "got": up.ID.String(), "want": want.String()})
					viol = &v
				}
				mu.Unlock()
				if err := up.Close(ctx); err != nil {
					mu.Lock()
					if viol == nil {
						v := vrun.Violation("Upstream.Close failed although the broker answered", "iscp-close-failed", map[string]any{"err": err.Error(), "session": sess})
						viol = &v
					}
					mu.Unlock()
				}
			}
		}(ci)
	}
	wg.Wait()
	if viol != nil {
		return *viol
	}
	ids, f := ledgerIDs(w)
	if f != nil {
		return *f
	}
	r := vrun.Hold(fmt.Sprintf("%d|%d|%d|%s|%d|%d", s.Callers, s.PerCaller, s.Batch, s.Order, s.SpuriousPc, s.PingMs), opens >= 6 && s.Batch >= 2)
	r.Stat("upstreams_opened", int64(opens))
	r.Stat("request_ids_seen", int64(len(ids)))
	return r
}

// TestC06AbandonedRequests: "a caller whose context ends stops waiting without consuming another caller's response" -
// for every request kind: the broker withholds one request's response, the caller's context ends, the caller must return
// (with its context's error) while the other callers get their own responses; the withheld response, sent late, is
// ignored and the next request of the same kind gets its own.
func TestC06AbandonedRequests(t *testing.T) {
	e := vrun.LoadEnv()
	kinds := []string{"uo", "ur", "uc", "um", "do", "dr", "dc"}
	meta := vrun.Meta{Property: "C06", Workload: "TestC06AbandonedRequests", Total: e.Pick(56, 2800),
		Rule:        "wire.Connect over memnet; for each of the 7 request kinds (round robin over the cases): the victim issues one request with a 20 ms context whose response the broker withholds, 1-6 other callers issue answered requests of all kinds meanwhile; after the victim has returned the broker sends the withheld response (late) and the victim issues the same kind of request again (answered). Oracle: the victim returns no later than 10 s after its context ended, with the context's error; every other caller and the victim's second request get the response bearing their own request id and tag. non-trivial = the withheld request reached the broker; distinct = (kind, encoding, other callers)",
		Assumptions: []string{"10 s is a wall-clock watchdog far above the 20 ms context: a caller counted as stuck ignores its context"}}
	vrun.Loop(t, meta, 0, func(c *vrun.Case) vrun.Result {
		kind := kinds[c.Index%len(kinds)]
		others := 1 + c.Rng.Intn(6)
		enc := []string{"proto", "json"}[c.Rng.Intn(2)]
		desc := map[string]any{"kind": kind, "other_callers": others, "encoding": enc}
		var res vrun.Result
		ok, dump := vrun.Watchdog(120*time.Second, func() { res = runAbandonedRequest(c, kind, others, enc) })
		if !ok {
			res = vrun.WatchdogVerdict("the case never finished")
			if res.Verdict == vrun.Inconclusive {
				res.Witness = map[string]any{"dump_head": dump[:min(len(dump), 5000)]}
			}
		}
		res.Desc = desc
		return res
	})
}

// issueKind sends one request of the given kind; it returns the request id, the response id and the echoed tag.
func issueKind(ctx context.Context, cc *wire.ClientConn, kind, tag string, alias uint32) (reqID, respID uint32, got string, err error) {
	switch kind {
	case "uo":
		req := &message.UpstreamOpenRequest{SessionID: tag, QoS: message.QoSReliable}
		resp, e := cc.SendUpstreamOpenRequest(ctx, req)
		reqID, err = uint32(req.RequestID), e
		if e == nil {
			respID, got = uint32(resp.RequestID), resp.ResultString
		}
	case "ur":
		req := &message.UpstreamResumeRequest{StreamID: tagUUID(tag)}
		resp, e := cc.SendUpstreamResumeRequest(ctx, req, message.QoSReliable)
		reqID, err = uint32(req.RequestID), e
		if e == nil {
			respID, got = uint32(resp.RequestID), resp.ResultString
		}
	case "uc":
		req := &message.UpstreamCloseRequest{StreamID: tagUUID(tag)}
		resp, e := cc.SendUpstreamCloseRequest(ctx, req)
		reqID, err = uint32(req.RequestID), e
		if e == nil {
			respID, got = uint32(resp.RequestID), resp.ResultString
		}
	case "um":
		req := &message.UpstreamMetadata{Metadata: &message.BaseTime{Name: tag, BaseTime: time.Unix(1, 0).UTC()}}
		resp, e := cc.SendUpstreamMetadata(ctx, req)
		reqID, err = uint32(req.RequestID), e
		if e == nil {
			respID, got = uint32(resp.RequestID), resp.ResultString
		}
	case "do":
		req := &message.DownstreamOpenRequest{DesiredStreamIDAlias: alias, QoS: message.QoSReliable}
		resp, e := cc.SendDownstreamOpenRequest(ctx, req)
		reqID, err = uint32(req.RequestID), e
		if e == nil {
			respID, got = uint32(resp.RequestID), resp.ResultString
		}
	case "dr":
		req := &message.DownstreamResumeRequest{StreamID: tagUUID(tag), DesiredStreamIDAlias: alias}
		resp, e := cc.SendDownstreamResumeRequest(ctx, req)
		reqID, err = uint32(req.RequestID), e
		if e == nil {
			respID, got = uint32(resp.RequestID), resp.ResultString
		}
	case "dc":
		req := &message.DownstreamCloseRequest{StreamID: tagUUID(tag)}
		resp, e := cc.SendDownstreamCloseRequest(ctx, req)
		reqID, err = uint32(req.RequestID), e
		if e == nil {
			respID, got = uint32(resp.RequestID), resp.ResultString
		}
	}
	return
}

func wantTag(kind, tag string, alias uint32) string {
	switch kind {
	case "uo", "um":
		return kind + ":" + tag
	case "do":
		return fmt.Sprintf("do:%d", alias)
	}
	return kind + ":" + tagUUID(tag).String()
}

func runAbandonedRequest(c *vrun.Case, kind string, others int, enc string) vrun.Result {
	w := world.New()
	defer w.Close()
	rs := &responder{r: rand.New(rand.NewSource(c.Rng.Int63())), s: scenario{Batch: 1, Order: "fifo"}, stop: make(chan struct{})}
	install(w, rs)
	answer := w.B.OnMsg
	var mu sync.Mutex
	var withheld message.Message
	var withheldLC *broker.LinkCtx
	kindOf := func(m message.Message) string {
		switch m.(type) {
		case *message.UpstreamOpenRequest:
			return "uo"
		case *message.UpstreamResumeRequest:
			return "ur"
		case *message.UpstreamCloseRequest:
			return "uc"
		case *message.UpstreamMetadata:
			return "um"
		case *message.DownstreamOpenRequest:
			return "do"
		case *message.DownstreamResumeRequest:
			return "dr"
		case *message.DownstreamCloseRequest:
			return "dc"
		}
		return ""
	}
	victimArmed := true
	w.B.OnMsg = func(lc *broker.LinkCtx, m message.Message, unrel bool) bool {
		mu.Lock()
		if victimArmed && kindOf(m) == kind && isVictim(m) {
			victimArmed = false
			withheld, withheldLC = m, lc
			mu.Unlock()
			return true
		}
		mu.Unlock()
		return answer(lc, m, unrel)
	}
	w.Start()
	rs.run()
	defer func() { close(rs.stop); rs.wg.Wait() }()
	encName := transport.EncodingNameProtobuf
	if enc == "json" {
		encName = transport.EncodingNameJSON
	}
	tr, err := w.Net.Dialer().Dial(transport.DialConfig{Address: w.Addr, EncodingName: encName})
	if err != nil {
		return vrun.Inconcl("dial: " + err.Error())
	}
	et := encoding.NewTransport(&encoding.TransportConfig{Transport: tr, Encoding: w.Net.Current().Encoding()})
	cc, err := wire.Connect(&wire.ClientConnConfig{Transport: et, NodeID: "n", PingInterval: time.Hour, PingTimeout: 30 * time.Second})
	if err != nil {
		return vrun.Inconcl("wire.Connect: " + err.Error())
	}
	defer cc.Close()

	type vres struct {
		err error
	}
	vdone := make(chan vres, 1)
	vctx, vcancel := context.WithTimeout(context.Background(), 20*time.Millisecond)
	defer vcancel()
	go func() {
		_, _, _, err := issueKind(vctx, cc, kind, "victim", 9001)
		vdone <- vres{err}
	}()
	// the other callers
	var wg sync.WaitGroup
	var bad *vrun.Result
	allKinds := []string{"uo", "ur", "uc", "um", "do", "dr", "dc"}
	for i := 0; i < others; i++ {
		wg.Add(1)
		go func(i int) {
			defer wg.Done()
			for k := 0; k < 3; k++ {
				kd := allKinds[(i+k)%len(allKinds)]
				tag := fmt.Sprintf("other-%d-%d", i, k)
				alias := uint32(100 + i*10 + k)
				ctx, cancel := context.WithTimeout(context.Background(), 30*time.Second)
				reqID, respID, got, err := issueKind(ctx, cc, kd, tag, alias)
				cancel()
				mu.Lock()
				if bad == nil {
					if err != nil {
						v := vrun.Violation("a caller failed while another caller's request was abandoned", "other-caller-failed:"+kd, map[string]any{"error": err.Error(), "abandoned_kind": kind})
						bad = &v
					} else if reqID != respID || got != wantTag(kd, tag, alias) {
						v := vrun.Violation("a caller got a response that is not its own while another caller's request was abandoned", "foreign-response:"+kd, map[string]any{"request_id": reqID, "response_id": respID, "echo": got, "want": wantTag(kd, tag, alias)})
						bad = &v
					}
				}
				mu.Unlock()
			}
		}(i)
	}
	var vr vres
	select {
	case vr = <-vdone:
	case <-time.After(10*time.Second + 20*time.Millisecond):
		return vrun.Violation("a caller whose context had ended kept waiting for its response", "caller-ignores-its-context:"+kind, map[string]any{"context": "20ms", "waited": "10s", "stacks": head(vrun.AllStacks(), 5000)})
	}
	wg.Wait()
	if bad != nil {
		return *bad
	}
	mu.Lock()
	wm, wlc := withheld, withheldLC
	mu.Unlock()
	if wm == nil {
		return vrun.Inconcl("the victim's request never reached the broker")
	}
	if vr.err == nil {
		return vrun.Violation("a request whose response the broker withheld returned successfully", "withheld-request-succeeded:"+kind, nil)
	}
	if !errors.Is(vr.err, context.DeadlineExceeded) && !errors.Is(vr.err, context.Canceled) {
		return vrun.Violation("a caller whose context ended got an error other than its context's", "abandoned-wrong-error:"+kind, map[string]any{"error": vr.err.Error()})
	}
	// the late response, then the same kind again
	answer(wlc, wm, false)
	rs.flush()
	time.Sleep(2 * time.Millisecond)
	ctx, cancel := context.WithTimeout(context.Background(), 30*time.Second)
	reqID, respID, got, err := issueKind(ctx, cc, kind, "second", 9002)
	cancel()
	if err != nil {
		return vrun.Violation("the request after an abandoned one of the same kind failed", "after-abandoned-failed:"+kind, map[string]any{"error": err.Error()})
	}
	if reqID != respID || got != wantTag(kind, "second", 9002) {
		return vrun.Violation("the request after an abandoned one received the late response of the abandoned request", "late-response-consumed:"+kind, map[string]any{"request_id": reqID, "response_id": respID, "echo": got})
	}
	res := vrun.Hold(fmt.Sprintf("%s|%s|%d", kind, enc, others), true)
	res.Stat("abandoned_requests", 1)
	return res
}

// isVictim recognises the victim's request by its body.
func isVictim(m message.Message) bool {
	switch t := m.(type) {
	case *message.UpstreamOpenRequest:
		return t.SessionID == "victim"
	case *message.UpstreamResumeRequest:
		return t.StreamID == tagUUID("victim")
	case *message.UpstreamCloseRequest:
		return t.StreamID == tagUUID("victim")
	case *message.UpstreamMetadata:
		bt, ok := t.Metadata.(*message.BaseTime)
		return ok && bt.Name == "victim"
	case *message.DownstreamOpenRequest:
		return t.DesiredStreamIDAlias == 9001
	case *message.DownstreamResumeRequest:
		return t.StreamID == tagUUID("victim")
	case *message.DownstreamCloseRequest:
		return t.StreamID == tagUUID("victim")
	}
	return false
}

func head(s string, n int) string {
	if len(s) > n {
		return s[:n]
	}
	return s
}
