// C09 - concurrent use of connection, streams and transports is free of data races (Go race detector).
package c09

import (
	"context"
	"fmt"
	"math/rand"
	"sort"
	"sync"
	"testing"
	"time"

	"github.com/aptpod/iscp-go/encoding"
	"github.com/aptpod/iscp-go/encoding/protobuf"
	"github.com/aptpod/iscp-go/iscp"
	"github.com/aptpod/iscp-go/message"
	"github.com/aptpod/iscp-go/transport"

	"verif/harness/broker"
	"verif/harness/memnet"
	"verif/harness/vrun"
	"verif/harness/world"
)

type interval struct {
	kind     string
	from, to int64
}

type opLog struct {
	mu  sync.Mutex
	clk *memnet.Clock
	ivs []interval
}

func (l *opLog) do(kind string, f func()) {
	a := l.clk.Tick()
	f()
	b := l.clk.Tick()
	l.mu.Lock()
	l.ivs = append(l.ivs, interval{kind, a, b})
	l.mu.Unlock()
}

// overlapPairs returns the set of unordered kind pairs whose intervals intersected at least once.
func (l *opLog) overlapPairs() []string {
	l.mu.Lock()
	ivs := append([]interval(nil), l.ivs...)
	l.mu.Unlock()
	sort.Slice(ivs, func(i, j int) bool { return ivs[i].from < ivs[j].from })
	set := map[string]bool{}
	for i := range ivs {
		for j := i + 1; j < len(ivs) && ivs[j].from <= ivs[i].to; j++ {
			a, b := ivs[i].kind, ivs[j].kind
			if a > b {
				a, b = b, a
			}
			set[a+" || "+b] = true
		}
	}
	var res []string
	for k := range set {
		res = append(res, k)
	}
	sort.Strings(res)
	return res
}

var kinds = []string{"open-write-close-upstream", "write", "flush", "upstream-state", "open-close-downstream", "read", "downstream-state", "metadata", "call", "call-wait-reply", "receive-call", "reply-call"}

func TestC09Mixed(t *testing.T) {
	e := vrun.LoadEnv()
	meta := vrun.Meta{Property: "C09", Workload: "TestC09Mixed", Total: e.Pick(60, 1200),
		Rule:        "race-detector build, real parallelism: one connection used by 8-32 goroutines that mix opening/writing/closing upstreams, writes and flushes on shared upstreams, State() on both stream kinds, opening/closing downstreams, reads on shared downstreams, metadata and the call APIs, while the broker streams acks with alias assignments, chunks, metadata and calls and the link is killed every 20-200 ms in a drawn failure mode so that the connection reconnects and every stream resumes. The oracle is the Go race detector (reports collected with halt_on_error=0 and deduplicated by the pair of innermost non-runtime frames); non-trivial = at least 15 distinct operation-kind pairs overlapped in time and at least one reconnect happened; distinct = set of overlapped pairs",
		Assumptions: []string{"a race report counts against the library only when both racing accesses are in library frames; a harness frame makes the check fail as broken"}}
	vrun.Loop(t, meta, 4, func(c *vrun.Case) vrun.Result {
		var res vrun.Result
		ok, dump := vrun.Watchdog(180*time.Second, func() { res = runMixed(c) })
		if !ok {
			res = vrun.WatchdogVerdict("the case never finished")
			if res.Verdict == vrun.Inconclusive {
				res.Witness = map[string]any{"dump_head": dump[:min(len(dump), 3000)]}
			}
		}
		return res
	})
}

func runMixed(c *vrun.Case) vrun.Result {
	r := c.Rng
	w := world.New()
	defer w.Close()
	w.Net.WithUnreliable = r.Intn(2) == 0
	w.B.P.Alias = broker.AliasAfterNth
	w.B.P.AliasN = 2
	w.B.OnMsg = func(lc *broker.LinkCtx, m message.Message, unrel bool) bool {
		if uc, ok := m.(*message.UpstreamCall); ok {
			lc.Send(&message.UpstreamCallAck{CallID: uc.CallID, ResultCode: message.ResultCodeSucceeded, ResultString: "OK"})
			if uc.Name == "wait" {
				lc.Send(&message.DownstreamCall{CallID: "r" + uc.CallID, RequestCallID: uc.CallID, SourceNodeID: "p", Name: "r", Type: "t", Payload: uc.Payload})
			}
			return true
		}
		return false
	}
	w.Start()
	conn, err := w.Connect(iscp.WithConnPingInterval(20*time.Millisecond), iscp.WithConnPingTimeout(100*time.Millisecond))
	if err != nil {
		return vrun.Inconcl("connect: " + err.Error())
	}
	bg := context.Background()
	lg := &opLog{clk: w.Clock}
	call := func(d time.Duration) (context.Context, context.CancelFunc) { return context.WithTimeout(bg, d) }
	// shared streams
	var shUp []*iscp.Upstream
	var shDown []*iscp.Downstream
	for i := 0; i < 2; i++ {
		ctx, cancel := call(5 * time.Second)
		up, err := conn.OpenUpstream(ctx, fmt.Sprintf("shared-%d", i), iscp.WithUpstreamQoS([]message.QoS{message.QoSReliable, message.QoSUnreliable}[i]), iscp.WithUpstreamFlushPolicyIntervalOrBufferSize(5*time.Millisecond, 200), iscp.WithUpstreamCloseTimeout(time.Second))
		cancel()
		if err == nil {
			shUp = append(shUp, up)
		}
		ctx, cancel = call(5 * time.Second)
		d, err := conn.OpenDownstream(ctx, []*message.DownstreamFilter{{SourceNodeID: "src", DataFilters: []*message.DataFilter{{Name: "#", Type: "#"}}}}, iscp.WithDownstreamQoS([]message.QoS{message.QoSReliable, message.QoSUnreliable}[i]), iscp.WithDownstreamAckFlushInterval(3*time.Millisecond))
		cancel()
		if err == nil {
			shDown = append(shDown, d)
		}
	}
	if len(shUp) == 0 || len(shDown) == 0 {
		conn.Close(bg)
		return vrun.Inconcl("could not open the shared streams")
	}
	stop := make(chan struct{})
	var bwg sync.WaitGroup
	// broker pushes chunks, metadata and calls on whatever link is current
	bwg.Add(1)
	go func() {
		defer bwg.Done()
		n := uint32(0)
		for {
			select {
			case <-stop:
				return
			case <-time.After(500 * time.Microsecond):
			}
			lc := w.B.CurrentLink()
			if lc == nil || lc.L.Dead() {
				continue
			}
			n++
			for _, ds := range w.B.Downs() {
				if lc.Down(ds.Alias) != ds {
					continue
				}
				msg := &message.DownstreamChunk{StreamIDAlias: ds.Alias, UpstreamOrAlias: &message.UpstreamInfo{SessionID: "s", SourceNodeID: "src", StreamID: broker.StreamIDFor("c09", "u", int(n%3))},
					StreamChunk: &message.StreamChunk{SequenceNumber: n, DataPointGroups: []*message.DataPointGroup{{DataIDOrAlias: &message.DataID{Name: fmt.Sprintf("d%d", n%4), Type: "t"}, DataPoints: []*message.DataPoint{{ElapsedTime: time.Duration(n), Payload: []byte("x")}}}}}}
				if ds.QoS == message.QoSUnreliable && w.Net.WithUnreliable {
					lc.SendUnreliable(msg)
				} else {
					lc.Send(msg)
				}
				if n%7 == 0 {
					lc.Send(&message.DownstreamMetadata{RequestID: message.RequestID(n), StreamIDAlias: ds.Alias, SourceNodeID: "src", Metadata: &message.BaseTime{Name: "b", BaseTime: time.Unix(1, 0).UTC()}})
				}
			}
			if n%5 == 0 {
				lc.Send(&message.DownstreamCall{CallID: fmt.Sprintf("in%d", n), SourceNodeID: "src", Name: "n", Type: "t", Payload: []byte("c")})
			}
		}
	}()
	// link killer
	kills := 0
	bwg.Add(1)
	seedK := r.Int63()
	go func() {
		defer bwg.Done()
		rr := rand.New(rand.NewSource(seedK))
		for {
			select {
			case <-stop:
				return
			case <-time.After(time.Duration(20+rr.Intn(180)) * time.Millisecond):
			}
			if l := w.Net.Current(); l != nil && !l.Dead() {
				l.Fail([]memnet.Mode{memnet.Sever, memnet.WFail, memnet.REOF, memnet.Sever}[rr.Intn(4)])
				kills++
			}
		}
	}()
	G := 8 + r.Intn(25)
	ops := 25 + r.Intn(30)
	seeds := make([]int64, G)
	for i := range seeds {
		seeds[i] = r.Int63()
	}
	var wg sync.WaitGroup
	for g := 0; g < G; g++ {
		wg.Add(1)
		go func(g int) {
			defer wg.Done()
			defer func() { recover() }()
			rr := rand.New(rand.NewSource(seeds[g]))
			id := &message.DataID{Name: fmt.Sprintf("d%d", g%4), Type: "t"}
			for k := 0; k < ops; k++ {
				kind := kinds[rr.Intn(len(kinds))]
				lg.do(kind, func() {
					ctx, cancel := call(300 * time.Millisecond)
					defer cancel()
					switch kind {
					case "open-write-close-upstream":
						up, err := conn.OpenUpstream(ctx, fmt.Sprintf("g%d-%d", g, k), iscp.WithUpstreamFlushPolicyImmediately(), iscp.WithUpstreamCloseTimeout(50*time.Millisecond), iscp.WithUpstreamQoS(message.QoSReliable))
						if err == nil {
							up.WriteDataPoints(ctx, id, &message.DataPoint{ElapsedTime: time.Duration(k), Payload: []byte("w")})
							up.Close(ctx)
						}
					case "write":
						shUp[rr.Intn(len(shUp))].WriteDataPoints(ctx, id, &message.DataPoint{ElapsedTime: time.Duration(k), Payload: []byte("w")})
					case "flush":
						shUp[rr.Intn(len(shUp))].Flush(ctx)
					case "upstream-state":
						_ = shUp[rr.Intn(len(shUp))].State()
					case "open-close-downstream":
						d, err := conn.OpenDownstream(ctx, []*message.DownstreamFilter{{SourceNodeID: "src", DataFilters: []*message.DataFilter{{Name: "#", Type: "#"}}}}, iscp.WithDownstreamQoS(message.QoSReliable))
						if err == nil {
							d.ReadDataPoints(ctx)
							d.Close(ctx)
						}
					case "read":
						d := shDown[rr.Intn(len(shDown))]
						if rr.Intn(4) == 0 {
							d.ReadMetadata(ctx)
						} else {
							d.ReadDataPoints(ctx)
						}
					case "downstream-state":
						_ = shDown[rr.Intn(len(shDown))].State()
					case "metadata":
						conn.SendBaseTime(ctx, &message.BaseTime{Name: "m", BaseTime: time.Unix(1, 0).UTC()})
					case "call":
						conn.SendCall(ctx, &iscp.UpstreamCall{DestinationNodeID: "n", Name: "plain", Type: "t", Payload: []byte("p")})
					case "call-wait-reply":
						conn.SendCallAndWaitReplayCall(ctx, &iscp.UpstreamCall{DestinationNodeID: "n", Name: "wait", Type: "t", Payload: []byte("p")})
					case "receive-call":
						if rr.Intn(2) == 0 {
							conn.ReceiveCall(ctx)
						} else {
							conn.ReceiveReplyCall(ctx)
						}
					case "reply-call":
						conn.SendReplyCall(ctx, &iscp.UpstreamReplyCall{RequestCallID: "x", DestinationNodeID: "n", Name: "r", Type: "t", Payload: []byte("p")})
					}
				})
			}
		}(g)
	}
	wg.Wait()
	close(stop)
	bwg.Wait()
	for _, up := range shUp {
		ctx, cancel := call(time.Second)
		lg.do("close-shared-upstream", func() { up.Close(ctx) })
		cancel()
	}
	for _, d := range shDown {
		ctx, cancel := call(time.Second)
		lg.do("close-shared-downstream", func() { d.Close(ctx) })
		cancel()
	}
	ctx, cancel := call(2 * time.Second)
	conn.Close(ctx)
	cancel()
	pairs := lg.overlapPairs()
	x := vrun.Hold(fmt.Sprintf("%d pairs, %d goroutines", len(pairs), G), len(pairs) >= 15 && len(w.Net.Links()) >= 2)
	x.Desc = map[string]any{"goroutines": G, "ops_per_goroutine": ops, "link_kills": kills, "links": len(w.Net.Links()), "datagram_side_channel": w.Net.WithUnreliable}
	x.Stat("operations", int64(G*ops))
	x.Stat("link_incarnations", int64(len(w.Net.Links())))
	x.AddSet("overlapped_operation_pairs", pairs...)
	return x
}

// TestC09EncodingCounters: encoding.Transport counters read while other goroutines write and read.
func TestC09EncodingCounters(t *testing.T) {
	e := vrun.LoadEnv()
	meta := vrun.Meta{Property: "C09", Workload: "TestC09EncodingCounters", Total: e.Pick(30, 400),
		Rule: "race-detector build: an encoding.Transport over an in-memory pipe is written by 1-4 goroutines and read by one while 2 goroutines poll every counter accessor; non-trivial = >= 100 messages moved; distinct = (writers, messages)"}
	vrun.Loop(t, meta, 4, func(c *vrun.Case) vrun.Result {
		a, b := transport.Pipe()
		ta := encoding.NewTransport(&encoding.TransportConfig{Transport: a, Encoding: protobuf.NewEncoding()})
		tb := encoding.NewTransport(&encoding.TransportConfig{Transport: b, Encoding: protobuf.NewEncoding()})
		W := 1 + c.Rng.Intn(4)
		N := 50 + c.Rng.Intn(100)
		var wg sync.WaitGroup
		stop := make(chan struct{})
		for i := 0; i < 2; i++ {
			wg.Add(1)
			go func() {
				defer wg.Done()
				for {
					select {
					case <-stop:
						return
					default:
					}
					_ = ta.TxCount()
					_ = ta.TxMessageCounterValue()
					_ = tb.RxCount()
					_ = tb.RxMessageCounterValue()
				}
			}()
		}
		var rw sync.WaitGroup
		rw.Add(1)
		go func() {
			defer rw.Done()
			for i := 0; i < W*N; i++ {
				if _, err := tb.Read(); err != nil {
					return
				}
			}
		}()
		var ww sync.WaitGroup
		var wmu sync.Mutex // transport.Pipe is a rendezvous pipe for one writer at a time
		for w := 0; w < W; w++ {
			ww.Add(1)
			go func(w int) {
				defer ww.Done()
				for i := 0; i < N; i++ {
					wmu.Lock()
					ta.Write(&message.Ping{RequestID: message.RequestID(i)})
					wmu.Unlock()
				}
			}(w)
		}
		ww.Wait()
		rw.Wait()
		close(stop)
		wg.Wait()
		ta.Close()
		tb.Close()
		x := vrun.Hold(fmt.Sprintf("%d|%d", W, N), W*N >= 100)
		x.Desc = map[string]any{"writers": W, "messages_per_writer": N}
		x.Stat("messages", int64(W*N))
		return x
	})
}

// TestC09ResendAliases: the retransmission after a resume next to acks that assign data id aliases (seeded change C09-7).
// Chunks full of data ids the broker has not aliased yet stay unacknowledged (acks withheld); the link is killed; on the
// new link the broker acknowledges every retransmitted chunk at once and each of those acks hands out aliases for the
// ids of that chunk - so the stream's alias tables are written by the ack dispatcher while the retransmission is still
// converting the next stored chunks. Writers with fresh ids and State() pollers run next to it.
func TestC09ResendAliases(t *testing.T) {
	e := vrun.LoadEnv()
	meta := vrun.Meta{Property: "C09", Workload: "TestC09ResendAliases", Total: e.Pick(40, 600),
		Rule: "race-detector build, real parallelism: a reliable upstream cuts 5-24 chunks of 40-600 data ids each that the broker has not aliased, acks withheld; the link is killed (severed or failing writes); after the resume the broker acknowledges every retransmitted chunk immediately, each ack assigning aliases to that chunk's ids, while 1-3 writers add up to 30 chunks with fresh ids each and a poller reads State(); then Close. The oracle is the Go race detector; non-trivial = the stream resumed on a second link, at least two chunks were retransmitted there and at least two acks on that link carried alias assignments; distinct = (chunks, ids per chunk, failure mode, writers)"}
	vrun.Loop(t, meta, 4, func(c *vrun.Case) vrun.Result {
		var res vrun.Result
		ok, dump := vrun.Watchdog(120*time.Second, func() { res = runResendAliases(c) })
		if !ok {
			res = vrun.WatchdogVerdict("the case never finished")
			if res.Verdict == vrun.Inconclusive {
				res.Witness = map[string]any{"dump_head": dump[:min(len(dump), 3000)]}
			}
		}
		return res
	})
}

func runResendAliases(c *vrun.Case) vrun.Result {
	r := c.Rng
	w := world.New()
	defer w.Close()
	w.B.P.Alias = broker.AliasAfterNth
	w.B.P.AliasN = 2 // an id is aliased when it is seen in full form for the second time: in the retransmitted chunk
	w.B.P.Ack = broker.AckWithhold
	w.Start()
	conn, err := w.Connect(iscp.WithConnPingInterval(50*time.Millisecond), iscp.WithConnPingTimeout(time.Second))
	if err != nil {
		return vrun.Inconcl("connect: " + err.Error())
	}
	bg := context.Background()
	call := func(d time.Duration) (context.Context, context.CancelFunc) { return context.WithTimeout(bg, d) }
	N := 5 + r.Intn(20)
	M := 40 + r.Intn(561)
	W := 1 + r.Intn(3)
	modes := []memnet.Mode{memnet.Sever, memnet.WFail}
	mi := r.Intn(len(modes))
	ctx, cancel := call(5 * time.Second)
	up, err := conn.OpenUpstream(ctx, "resend", iscp.WithUpstreamQoS(message.QoSReliable), iscp.WithUpstreamFlushPolicyNone(), iscp.WithUpstreamCloseTimeout(2*time.Second))
	cancel()
	if err != nil {
		conn.Close(bg)
		return vrun.Inconcl("open: " + err.Error())
	}
	for k := 0; k < N; k++ {
		ctx, cancel := call(2 * time.Second)
		for j := 0; j < M; j++ {
			up.WriteDataPoints(ctx, &message.DataID{Name: fmt.Sprintf("c%d-i%d", k, j), Type: "t"}, &message.DataPoint{ElapsedTime: time.Duration(k*M + j), Payload: []byte("p")})
		}
		up.Flush(ctx)
		cancel()
	}
	first := w.Net.Current()
	w.B.Lock()
	w.B.P.Ack = broker.AckImmediate
	w.B.Unlock()
	stop := make(chan struct{})
	var wg sync.WaitGroup
	for g := 0; g < W; g++ {
		wg.Add(1)
		go func(g int) {
			defer wg.Done()
			for k := 0; k < 30; k++ { // bounded: the broker looks at every id it has seen whenever it acknowledges
				select {
				case <-stop:
					return
				default:
				}
				ctx, cancel := call(300 * time.Millisecond)
				for j := 0; j < 20; j++ {
					up.WriteDataPoints(ctx, &message.DataID{Name: fmt.Sprintf("w%d-%d-%d", g, k, j), Type: "t"}, &message.DataPoint{ElapsedTime: time.Duration(k), Payload: []byte("q")})
				}
				up.Flush(ctx)
				cancel()
				time.Sleep(time.Millisecond)
			}
		}(g)
	}
	wg.Add(1)
	go func() {
		defer wg.Done()
		for {
			select {
			case <-stop:
				return
			default:
			}
			_ = up.State()
			time.Sleep(100 * time.Microsecond)
		}
	}()
	if first != nil {
		first.Fail(modes[mi])
	}
	// wait (bounded) until the broker has acknowledged the N withheld chunks on a later link
	resent, aliasAcks := 0, 0
	deadline := time.Now().Add(5 * time.Second)
	for time.Now().Before(deadline) {
		resent, aliasAcks = 0, 0
		ups := w.B.Ups()
		w.B.Lock()
		for _, us := range ups {
			for _, ch := range us.Chunks {
				if first != nil && ch.Link != first.ID && ch.Seq <= uint32(N) {
					resent++
				}
			}
			for _, a := range us.AcksSent {
				if first != nil && a.Link != first.ID && len(a.Aliases) > 0 {
					aliasAcks++
				}
			}
		}
		w.B.Unlock()
		if resent >= N {
			break
		}
		time.Sleep(2 * time.Millisecond)
	}
	time.Sleep(5 * time.Millisecond)
	close(stop)
	wg.Wait()
	ctx, cancel = call(3 * time.Second)
	up.Close(ctx)
	cancel()
	ctx, cancel = call(2 * time.Second)
	conn.Close(ctx)
	cancel()
	x := vrun.Hold(fmt.Sprintf("%d|%d|%d|%d", N, M, mi, W), len(w.Net.Links()) >= 2 && resent >= 2 && aliasAcks >= 2)
	x.Desc = map[string]any{"withheld_chunks": N, "ids_per_chunk": M, "failure_mode": mi, "writers": W, "retransmitted_on_later_links": resent, "acks_with_aliases_on_later_links": aliasAcks, "links": len(w.Net.Links())}
	x.Stat("retransmitted_chunks", int64(resent))
	x.Stat("acks_with_alias_assignments", int64(aliasAcks))
	return x
}
