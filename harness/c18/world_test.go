// C18 - reconnectable transport: scripted underlying transports (the "world") and the call recorder.
//
// The world is a transport.Dialer whose Dial returns scripted in-memory incarnations. Every incarnation keeps its own
// accepted-write log, a read queue fed by the workload and programmable failures. Nothing here knows whether it runs on
// the real clock or inside a testing/synctest bubble: it only uses channels, time.Sleep and short critical sections.
package c18

import (
	"errors"
	"fmt"
	"sort"
	"sync"
	"sync/atomic"
	"time"

	"github.com/aptpod/iscp-go/transport"
)

var (
	errInjRead     = errors.New("c18: injected read failure")
	errInjWrite    = errors.New("c18: injected write failure")
	errInjDial     = errors.New("c18: injected dial failure")
	errInjHs       = errors.New("c18: injected handshake read failure")
	errLocalClosed = errors.New("c18: incarnation closed locally")
	errInjClose    = errors.New("c18: injected close failure (the connection is closed nevertheless)")
)

const (
	pingMsg = "ping"
	pongMsg = "pong"
)

// acc is one accepted underlying write.
type acc struct {
	Inc int    `json:"inc"`
	Pos int    `json:"pos"`
	Seq int64  `json:"seq"`
	Msg string `json:"msg"`
}

// dlv is one message an incarnation's Read handed to the library.
type dlv struct {
	Seq       int64  `json:"seq"`
	Inc       int    `json:"inc"`
	Msg       string `json:"msg"`
	Handshake bool   `json:"handshake,omitempty"`
}

type dialRec struct {
	Seq         int64  `json:"seq"`
	TransportID string `json:"transport_id"`
	Reconnect   bool   `json:"reconnect"`
	Redial      bool   `json:"redial"` // issued after the first successful dial
	Outcome     string `json:"outcome"`
	Inc         int    `json:"inc"`
}

// dialStep scripts the outcome of one Dial call.
type dialStep struct {
	Err         bool          `json:"err,omitempty"`
	HsErr       bool          `json:"hs_err,omitempty"` // dial succeeds, the handshake read fails
	Latency     time.Duration `json:"latency,omitempty"`
	CloseNotice time.Duration `json:"close_notice,omitempty"`
}

type world struct {
	seq atomic.Int64

	mu           sync.Mutex
	script       []dialStep
	tailFail     bool          // after the script is consumed: every dial fails (else: succeeds)
	tailCN       time.Duration // close notice of tail incarnations
	dials        []dialRec
	incs         []*inc
	firstOK      bool
	lastEv       time.Time     // time of the last dial / failure / handshake event (steering only)
	budget       int           // redial budget of the transport under test
	consec       int           // consecutive failed redial attempts
	closeLatency time.Duration // set before the first dial, never changed
	closeFails   bool          // set before the first dial: Close reports an error after closing
	writeLatency time.Duration // set before the first dial, never changed
	onExhaust    func()        // called (no locks held) when consec reaches budget

	appClosing    atomic.Bool // the application has called Close on the transport under test
	healthyClosed []int       // incarnations the library closed although nothing had failed on them and no Close was called
}

// attempt records the outcome of one redial attempt.
func (w *world) attempt(ok bool) {
	w.mu.Lock()
	fire := false
	if ok {
		w.consec = 0
	} else {
		w.consec++
		fire = w.budget > 0 && w.consec >= w.budget && w.onExhaust != nil
	}
	f := w.onExhaust
	w.mu.Unlock()
	if fire {
		f()
	}
}

func newWorld() *world { return &world{} }

func (w *world) touch() {
	w.mu.Lock()
	w.lastEv = time.Now()
	w.mu.Unlock()
}

func (w *world) push(steps ...dialStep) {
	w.mu.Lock()
	w.script = append(w.script, steps...)
	w.mu.Unlock()
}

func (w *world) setTail(fail bool, cn time.Duration) {
	w.mu.Lock()
	w.tailFail = fail
	w.tailCN = cn
	w.mu.Unlock()
}

// Dial implements transport.Dialer.
func (w *world) Dial(cfg transport.DialConfig) (transport.Transport, error) {
	w.mu.Lock()
	var st dialStep
	if len(w.script) > 0 {
		st = w.script[0]
		w.script = w.script[1:]
	} else {
		st = dialStep{Err: w.tailFail, CloseNotice: w.tailCN}
	}
	redial := w.firstOK
	w.lastEv = time.Now()
	w.mu.Unlock()
	if st.Latency > 0 {
		time.Sleep(st.Latency)
	}
	rec := dialRec{Seq: w.seq.Add(1), TransportID: string(cfg.TransportID), Reconnect: cfg.Reconnect, Redial: redial, Inc: -1}
	if st.Err && redial {
		defer w.attempt(false) // runs after the unlock below
	}
	w.mu.Lock()
	defer w.mu.Unlock()
	w.lastEv = time.Now()
	if st.Err {
		rec.Outcome = "dial-error"
		w.dials = append(w.dials, rec)
		return nil, errInjDial
	}
	c := &inc{w: w, id: len(w.incs), redial: redial, hsErr: st.HsErr, closeNotice: st.CloseNotice,
		sig: make(chan struct{}, 1), closedCh: make(chan struct{}), readFailAfter: -1, writeFailAfter: -1, np: cfg.NegotiationParams()}
	if redial && !st.HsErr {
		c.rq = append(c.rq, []byte(pingMsg)) // the peer greets a redialled connection with a ping
	}
	w.incs = append(w.incs, c)
	w.firstOK = true
	rec.Inc = c.id
	rec.Outcome = "ok"
	if st.HsErr {
		rec.Outcome = "hs-error"
	}
	w.dials = append(w.dials, rec)
	return c, nil
}

// live returns the newest incarnation if it is usable (handshake done, not closed, no sticky failure), else nil.
func (w *world) live() *inc {
	w.mu.Lock()
	defer w.mu.Unlock()
	if len(w.incs) == 0 {
		return nil
	}
	c := w.incs[len(w.incs)-1]
	c.mu.Lock()
	defer c.mu.Unlock()
	if c.closed || c.hsErr || c.readFail || c.writeFail || (c.redial && !c.hsDone) {
		return nil
	}
	return c
}

func (w *world) newest() *inc {
	w.mu.Lock()
	defer w.mu.Unlock()
	if len(w.incs) == 0 {
		return nil
	}
	return w.incs[len(w.incs)-1]
}

func (w *world) quietFor() time.Duration {
	w.mu.Lock()
	defer w.mu.Unlock()
	return time.Since(w.lastEv)
}

type snapshot struct {
	Dials []dialRec
	Logs  [][]acc // per incarnation
	Dlvs  []dlv
	// bookkeeping for the evidence
	Rejected      int
	UnclosedHsInc int
	HealthyClosed []int
}

func (w *world) snap() (s snapshot) {
	w.mu.Lock()
	defer w.mu.Unlock()
	s = snapshot{Dials: append([]dialRec(nil), w.dials...), HealthyClosed: append([]int(nil), w.healthyClosed...)}
	defer func() { sort.Slice(s.Dlvs, func(i, j int) bool { return s.Dlvs[i].Seq < s.Dlvs[j].Seq }) }()
	for _, c := range w.incs {
		c.mu.Lock()
		s.Dlvs = append(s.Dlvs, c.dlvs...)
		s.Logs = append(s.Logs, append([]acc(nil), c.log...))
		s.Rejected += c.rejected
		if c.hsErr && !c.closed {
			s.UnclosedHsInc++
		}
		c.mu.Unlock()
	}
	return s
}

// inc is one scripted underlying connection.
type inc struct {
	w           *world
	id          int
	redial      bool
	hsErr       bool
	closeNotice time.Duration
	np          transport.NegotiationParams

	mu             sync.Mutex
	rq             [][]byte
	sig            chan struct{}
	closedCh       chan struct{}
	closed         bool
	hsDone         bool
	readFail       bool
	readFailAfter  int // fail once this many more messages were delivered; <0 never
	writeFail      bool
	writeFailAfter int // fail once this many more writes were accepted; <0 never
	log            []acc
	rejected       int
	delivered      int
	dlvs           []dlv
	stallGate      chan struct{} // non-nil: underlying writes block until released or closed
}

func (c *inc) wake() {
	select {
	case c.sig <- struct{}{}:
	default:
	}
}

// feed queues a message for the library to read on this incarnation.
func (c *inc) feed(msg string) {
	c.mu.Lock()
	c.rq = append(c.rq, []byte(msg))
	c.mu.Unlock()
	c.wake()
}

func (c *inc) failReadNow() {
	c.mu.Lock()
	c.readFail = true
	c.mu.Unlock()
	c.wake()
}

func (c *inc) failReadAfter(k int) {
	c.mu.Lock()
	c.readFailAfter = k
	c.mu.Unlock()
	c.wake()
}

func (c *inc) failWritesAfter(k int) {
	c.mu.Lock()
	c.writeFailAfter = k
	c.mu.Unlock()
}

func (c *inc) setCloseNotice(d time.Duration) {
	c.mu.Lock()
	c.closeNotice = d
	c.mu.Unlock()
}

func (c *inc) Read() ([]byte, error) {
	for {
		c.mu.Lock()
		if c.closed {
			d := c.closeNotice
			c.mu.Unlock()
			if d > 0 {
				time.Sleep(d) // a pending read learns of the local close after a delay
			}
			c.w.touch()
			return nil, errLocalClosed
		}
		hs := false
		if c.redial && !c.hsDone {
			// the first read on a redialled connection is the redial procedure's handshake read
			c.hsDone = true
			hs = true
		}
		if c.hsErr {
			c.mu.Unlock()
			c.w.touch()
			if hs {
				c.w.attempt(false)
			}
			return nil, errInjHs
		}
		if !hs && (c.readFail || c.readFailAfter == 0) {
			c.readFail = true
			c.mu.Unlock()
			c.w.touch()
			return nil, errInjRead
		}
		if len(c.rq) > 0 {
			m := c.rq[0]
			c.rq = c.rq[1:]
			if !hs {
				c.delivered++
				if c.readFailAfter > 0 {
					c.readFailAfter--
				}
			}
			c.dlvs = append(c.dlvs, dlv{Seq: c.w.seq.Add(1), Inc: c.id, Msg: string(m), Handshake: hs})
			c.mu.Unlock()
			c.w.touch()
			if hs {
				c.w.attempt(true)
			}
			return append([]byte(nil), m...), nil
		}
		if hs {
			c.hsDone = false // nothing queued yet: stay in handshake state
		}
		c.mu.Unlock()
		select {
		case <-c.sig:
		case <-c.closedCh:
		}
	}
}

// stallWrites makes every underlying Write on this incarnation block until releaseWrites is called or the incarnation is
// closed (a peer that does not drain its socket).
func (c *inc) stallWrites() {
	c.mu.Lock()
	if c.stallGate == nil {
		c.stallGate = make(chan struct{})
	}
	c.mu.Unlock()
}

func (c *inc) releaseWrites() {
	c.mu.Lock()
	if c.stallGate != nil {
		close(c.stallGate)
		c.stallGate = nil
	}
	c.mu.Unlock()
}

func (c *inc) Write(bs []byte) error {
	c.mu.Lock()
	gate := c.stallGate
	c.mu.Unlock()
	if gate != nil {
		select {
		case <-gate:
		case <-c.closedCh:
		}
	}
	if d := c.w.writeLatency; d > 0 {
		time.Sleep(d) // the write is on its way; a connection closed meanwhile fails it (real clock only)
	}
	c.mu.Lock()
	if c.closed {
		c.rejected++
		c.mu.Unlock()
		c.w.touch()
		return errLocalClosed
	}
	if c.writeFail || c.writeFailAfter == 0 {
		c.writeFail = true
		c.rejected++
		c.mu.Unlock()
		c.w.touch()
		return errInjWrite
	}
	if c.writeFailAfter > 0 {
		c.writeFailAfter--
	}
	c.log = append(c.log, acc{Inc: c.id, Pos: len(c.log), Seq: c.w.seq.Add(1), Msg: string(bs)})
	c.mu.Unlock()
	return nil
}

func (c *inc) Close() error { return c.CloseWithStatus(transport.CloseStatusNormal) }

func (c *inc) CloseWithStatus(transport.CloseStatus) error {
	c.mu.Lock()
	if !c.closed {
		c.closed = true
		close(c.closedCh)
		healthy := !c.readFail && !c.writeFail && !c.hsErr && c.readFailAfter != 0 && c.writeFailAfter != 0
		c.mu.Unlock()
		if healthy && !c.w.appClosing.Load() {
			// the world never failed this connection and the application has not asked for a Close
			c.w.mu.Lock()
			c.w.healthyClosed = append(c.w.healthyClosed, c.id)
			c.w.mu.Unlock()
		}
		if d := c.w.closeLatency; d > 0 {
			time.Sleep(d) // a closing handshake takes time; the connection refuses writes meanwhile (real clock only)
		}
		if c.w.closeFails {
			return errInjClose
		}
		return nil
	}
	c.mu.Unlock()
	if c.w.closeFails {
		return errInjClose
	}
	return nil
}

func (c *inc) RxBytesCounterValue() uint64                         { return 0 }
func (c *inc) TxBytesCounterValue() uint64                         { return 0 }
func (c *inc) AsUnreliable() (transport.UnreliableTransport, bool) { return nil, false }
func (c *inc) NegotiationParams() transport.NegotiationParams      { return c.np }
func (c *inc) Name() transport.Name                                { return transport.Name("c18-scripted") }

// ---------------------------------------------------------------------------------------------------------------------
// recorder of library-level calls

type wcall struct {
	Writer   int    `json:"writer"`
	Ctr      int    `json:"ctr"`
	Msg      string `json:"msg"`
	Issue    int64  `json:"issue"`
	Ret      int64  `json:"ret"` // 0 = still open
	Err      string `json:"err,omitempty"`
	Sit      string `json:"situation"` // situation when the call was issued: live / exhausted / closed
	AfterEnd bool   `json:"after_end,omitempty"`
}

type rcall struct {
	Issue int64  `json:"issue"`
	Ret   int64  `json:"ret"`
	Msg   string `json:"msg,omitempty"`
	Err   string `json:"err,omitempty"`
	Sit   string `json:"situation"`
}

type recorder struct {
	w  *world
	mu sync.Mutex
	ws []*wcall
	rs []*rcall
	// situation is set by the driver: "live", "exhausted", "closed"
	sit string
}

func (r *recorder) situation() string {
	r.mu.Lock()
	defer r.mu.Unlock()
	return r.sit
}

func (r *recorder) setSituation(s string) {
	r.mu.Lock()
	// closed dominates exhausted dominates live
	if r.sit == "closed" || (r.sit == "exhausted" && s == "live") {
		r.mu.Unlock()
		return
	}
	r.sit = s
	r.mu.Unlock()
}

func msgOf(writer, ctr int) string { return fmt.Sprintf("w%02d-%05d", writer, ctr) }

// write performs one library-level Write through tr and records it.
func (r *recorder) write(tr transport.Transport, writer, ctr int) error {
	c := &wcall{Writer: writer, Ctr: ctr, Msg: msgOf(writer, ctr)}
	r.mu.Lock()
	c.Sit = r.sit
	c.Issue = r.w.seq.Add(1)
	r.ws = append(r.ws, c)
	r.mu.Unlock()
	err := tr.Write([]byte(c.Msg))
	r.mu.Lock()
	c.Ret = r.w.seq.Add(1)
	if err != nil {
		c.Err = err.Error()
	}
	r.mu.Unlock()
	return err
}

func (r *recorder) read(tr transport.Transport) ([]byte, error) {
	c := &rcall{}
	r.mu.Lock()
	c.Sit = r.sit
	c.Issue = r.w.seq.Add(1)
	r.rs = append(r.rs, c)
	r.mu.Unlock()
	bs, err := tr.Read()
	r.mu.Lock()
	c.Ret = r.w.seq.Add(1)
	if err != nil {
		c.Err = err.Error()
	} else {
		c.Msg = string(bs)
	}
	r.mu.Unlock()
	return bs, err
}

func (r *recorder) snap() ([]wcall, []rcall) {
	r.mu.Lock()
	defer r.mu.Unlock()
	ws := make([]wcall, len(r.ws))
	for i, c := range r.ws {
		ws[i] = *c
	}
	rs := make([]rcall, len(r.rs))
	for i, c := range r.rs {
		rs[i] = *c
	}
	return ws, rs
}
