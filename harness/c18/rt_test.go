package c18

import (
	"fmt"
	"math/rand"
	"runtime"
	"sync"
	"sync/atomic"
	"testing"
	"time"

	"verif/harness/vrun"
)

// ---------------------------------------------------------------------------------------------------------------------
// Real-time stress: the same world and oracles 1-4 with real goroutine parallelism and redials that overlap with
// traffic and with Close (schedules a synctest bubble cannot produce). No time bound decides anything here; a
// wall-clock watchdog firing is inconclusive.

type rtFault struct {
	Kind   string        `json:"kind"` // read-error, write-error
	After  int           `json:"after_k_writes,omitempty"`
	Steps  []dialStep    `json:"steps"`
	Notice time.Duration `json:"close_notice,omitempty"`
	Pause  time.Duration `json:"pause_before"`
}

type rtCase struct {
	Cfg       sessCfg       `json:"cfg"`
	Writers   int           `json:"writers"`
	Msgs      int           `json:"msgs_per_writer"`
	Feed      int           `json:"peer_messages"`
	Faults    []rtFault     `json:"faults"`
	Close     bool          `json:"close_at_random_time"`
	CloseAt   time.Duration `json:"close_after,omitempty"`
	Yield     bool          `json:"writers_yield"`
	Retry     int           `json:"writer_gives_up_after_errors"`
	UnderLoad bool          `json:"close_under_write_load,omitempty"`
}

func genRT(r *rand.Rand, underLoad bool) rtCase {
	c := rtCase{}
	c.Cfg = sessCfg{Budget: pick(r, 2, 5, 5), Interval: pick(r, 200*time.Microsecond, time.Millisecond, 3*time.Millisecond), GivenTID: r.Intn(2) == 0, CloseFails: r.Intn(3) == 0}
	c.Writers = 1 + r.Intn(16)
	c.Msgs = 20 + r.Intn(80)
	c.Feed = 30 + r.Intn(150)
	c.Yield = r.Intn(2) == 0
	nf := 1 + r.Intn(6)
	for i := 0; i < nf; i++ {
		f := rtFault{Kind: pick(r, "read-error", "write-error"), After: r.Intn(20), Pause: time.Duration(r.Intn(1500)) * time.Microsecond,
			Notice: pick(r, 0, 0, 300*time.Microsecond)}
		n := r.Intn(c.Cfg.Budget) // < budget: never exhausted
		for j := 0; j < n; j++ {
			if r.Intn(3) == 0 {
				f.Steps = append(f.Steps, dialStep{HsErr: true})
			} else {
				f.Steps = append(f.Steps, dialStep{Err: true})
			}
		}
		f.Steps = append(f.Steps, dialStep{Latency: pick(r, 0, 0, 500*time.Microsecond), CloseNotice: f.Notice})
		c.Faults = append(c.Faults, f)
	}
	c.UnderLoad = underLoad
	c.Retry = 2
	if underLoad {
		c.Close = true
		c.Yield = r.Intn(4) == 0
		c.CloseAt = time.Duration(r.Intn(3000)) * time.Microsecond
		c.Msgs = 1 << 20 // the writers write until the transport refuses
		c.Cfg.CloseLat = pick(r, 0, 100*time.Microsecond, 500*time.Microsecond, 2*time.Millisecond)
		c.Cfg.WriteLat = pick(r, 0, 20*time.Microsecond, 100*time.Microsecond)
		c.Retry = pick(r, 2, 10, 40)
	} else if r.Intn(3) == 0 {
		c.Close = true // after the writers are done, while the peer and the fault injector may still be active
		c.CloseAt = time.Duration(r.Intn(2000)) * time.Microsecond
	}
	return c
}

var rtFired atomic.Int32

func waitUntil(d time.Duration, cond func() bool) bool {
	dl := time.Now().Add(d)
	for !cond() {
		if time.Now().After(dl) {
			return false
		}
		time.Sleep(200 * time.Microsecond)
	}
	return true
}

func TestC18StressRT(t *testing.T) {
	e := vrun.LoadEnv()
	meta := vrun.Meta{Property: "C18", Workload: "TestC18StressRT", Total: e.Pick(800, 30000),
		Rule: "Real clock, real parallelism (GOMAXPROCS as is, 8 cases at a time): 1-16 writers x 20-99 tagged messages in tight loops, a peer feeding 30-179 messages (~25% pings), " +
			"1-6 failures {underlying read error now, underlying write error after k writes} injected one after the other while traffic runs, each with 0..budget-1 dial/handshake errors, " +
			"optional dial latency and close-notice delay, ReconnectInterval {0.2,1,3} ms, budget {2,5}; one third of the cases call Close after the writers finished while the peer and the fault injector are still active (possibly during a redial). " +
			"Oracles 1-4 only (exactly-once acceptance, order, redial parameters, reads/pings); the budget is never exhausted here. Non-trivial: >=1 redial and accepted writes on >=2 connections " +
			"or a Close. Distinct: the generated scenario.",
		Assumptions: append([]string{"Real-time workload: waiting for quiescence uses wall-clock watchdogs (15 s); a watchdog firing yields inconclusive, never a verdict."}, vtAssumptions[:5]...)}
	vrun.Loop(t, meta, 0, func(c *vrun.Case) vrun.Result {
		rc := genRT(c.Rng, false)
		return runRT(rc, c.Rng.Int63())
	})
}

// TestC18CloseUnderLoadRT: Close at a random moment while 1-16 writers hammer the transport (possibly during a redial).
// A workload of its own because on the unchanged tree this input class can kill the process (see TestC18CloseMidBurst).
func TestC18CloseUnderLoadRT(t *testing.T) {
	e := vrun.LoadEnv()
	meta := vrun.Meta{Property: "C18", Workload: "TestC18CloseUnderLoadRT", Total: e.Pick(600, 15000),
		Rule: "Scenario generator of TestC18StressRT, but the writers write until the transport refuses (giving up after 2/10/40 errors), underlying Close takes 0-2 ms and underlying Write 0-0.1 ms, and every case calls Close 0-3 ms after the start while the writers are writing and failures are being injected " +
			"(Close may land in the middle of a redial). Oracles 1-4 on the prefix; after Close returned no Write may return nil. Non-trivial: Close ran and writes were accepted. Distinct: the generated scenario.",
		Assumptions: append([]string{"Real-time workload: waiting for quiescence uses wall-clock watchdogs (15 s); a watchdog firing yields inconclusive, never a verdict."}, vtAssumptions[:5]...)}
	vrun.Loop(t, meta, 0, func(c *vrun.Case) vrun.Result {
		rc := genRT(c.Rng, true)
		return runRT(rc, c.Rng.Int63())
	})
}

func runRT(rc rtCase, seed int64) vrun.Result {
	r := rand.New(rand.NewSource(seed))
	s, err := openSession(rc.Cfg, false)
	if err != nil {
		return vrun.Inconcl("initial Dial failed: " + err.Error())
	}
	// generous while the process behaves; once several cases of this process hit the watchdog (a broken library makes
	// every case hang) the remaining ones get a short leash - they are inconclusive either way
	wd := 15 * time.Second
	if rtFired.Load() >= 8 {
		wd = time.Second
	}
	inconcl := func(what string) vrun.Result {
		rtFired.Add(1)
		dump := vrun.AllStacks()
		if len(dump) > 30000 {
			dump = dump[:30000]
		}
		res := vrun.Inconcl("wall-clock watchdog (" + wd.String() + ") while waiting for " + what)
		res.Witness = map[string]any{"scenario": rc, "dump": dump}
		if !s.closed.Load() {
			go s.closeNow() // best effort release
		}
		return res
	}
	s.startReader()
	var wg sync.WaitGroup
	var writersLeft atomic.Int32
	for w := 0; w < rc.Writers; w++ {
		wg.Add(1)
		writersLeft.Add(1)
		go func(w int) {
			defer wg.Done()
			defer writersLeft.Add(-1)
			errs := 0
			for i := 0; i < rc.Msgs && errs < rc.Retry; i++ {
				if s.rec.write(s.tr, w, i) != nil {
					errs++
				}
				if rc.Yield {
					runtime.Gosched()
				}
			}
		}(w)
	}
	feed := make([]string, rc.Feed)
	for i := range feed {
		if r.Intn(4) == 0 {
			feed[i] = pingMsg
		} else {
			feed[i] = fmt.Sprintf("d-%04d", i)
		}
	}
	wg.Add(1)
	go func() { // the peer
		defer wg.Done()
		for _, m := range feed {
			ok := waitUntil(wd, func() bool {
				if s.closed.Load() {
					return true
				}
				if cur := s.w.live(); cur != nil {
					cur.feed(m)
					return true
				}
				return false
			})
			if !ok || s.closed.Load() {
				return
			}
			runtime.Gosched()
		}
	}()
	var manifested atomic.Int32
	wg.Add(1)
	go func() { // the fault injector: one failure after the other
		defer wg.Done()
		for _, f := range rc.Faults {
			time.Sleep(f.Pause)
			var cur *inc
			if !waitUntil(wd, func() bool { cur = s.w.live(); return cur != nil || s.closed.Load() }) || s.closed.Load() {
				return
			}
			s.w.push(f.Steps...)
			cur.setCloseNotice(f.Notice)
			if f.Kind == "read-error" {
				cur.failReadNow()
			} else {
				cur.failWritesAfter(f.After)
			}
			// wait for the replacement (or give up when the failure cannot manifest any more)
			gone := false
			ok := waitUntil(wd, func() bool {
				if s.closed.Load() {
					return true
				}
				if n := s.w.live(); n != nil && n != cur {
					gone = true
					return true
				}
				return f.Kind == "write-error" && writersLeft.Load() == 0 && s.w.newest() == cur && s.w.quietFor() > 50*time.Millisecond
			})
			if !ok || !gone {
				return
			}
			manifested.Add(1)
		}
	}()
	if rc.Close {
		if !rc.UnderLoad && !waitUntil(wd, func() bool { return writersLeft.Load() == 0 }) {
			return inconcl("the writers to finish")
		}
		time.Sleep(rc.CloseAt)
		if ok, _ := vrun.Watchdog(wd, s.closeNow); !ok {
			return inconcl("Close to return")
		}
	}
	if ok, _ := vrun.Watchdog(wd, wg.Wait); !ok {
		return inconcl("writers, peer and fault injector to finish")
	}
	mustDrain := !rc.Close
	if mustDrain {
		ok := waitUntil(wd, func() bool {
			// order matters: once the live connection's queue is empty (the peer is done) nothing more can be
			// delivered, so the delivered count read afterwards is final and "returned >= delivered" is stable
			cur := s.w.live()
			if cur == nil {
				return false
			}
			cur.mu.Lock()
			pending := len(cur.rq)
			cur.mu.Unlock()
			if pending != 0 {
				return false
			}
			sn := s.w.snap()
			exp := 0
			for _, d := range sn.Dlvs {
				if !d.Handshake && d.Msg != pingMsg {
					exp++
				}
			}
			p, _ := countPingPong(sn)
			_, rs := s.rec.snap()
			got := 0
			for _, c := range rs {
				if c.Ret != 0 && c.Err == "" {
					got++
				}
			}
			_, q := countPingPong(s.w.snap())
			return got >= exp && q >= p && s.w.live() == cur
		})
		if !ok {
			return inconcl("the reader to catch up with delivered messages and pongs")
		}
	}
	sn := s.w.snap()
	ws, rs := s.rec.snap()
	final := s.rec.situation()
	if !s.closed.Load() {
		if ok, _ := vrun.Watchdog(wd, s.closeNow); !ok {
			return inconcl("the final Close")
		}
	}
	if !waitUntil(wd, func() bool { return s.active.Load() == 0 }) {
		return inconcl("the reader to return after Close")
	}
	fs := judge(sn, ws, rs, endInfo{MustDrain: mustDrain})
	fs = append(fs, healthyClosedFindings(s.w.snap())...)
	for _, c := range ws {
		if c.Ret != 0 && c.Err == "" && c.Sit == "closed" {
			fs = append(fs, finding{6, clBlock, "write-returns-nil-after-close", map[string]any{"call": c}})
		}
	}
	var res vrun.Result
	if len(fs) > 0 {
		keys := map[string]int{}
		for _, f := range fs {
			keys[f.Key]++
		}
		res = vrun.Violation(fs[0].Clause, fs[0].Key, map[string]any{"scenario": rc, "offending": fs[0].Witness, "all_finding_keys": keys, "dials": sn.Dials})
	} else {
		used := 0
		for _, lg := range sn.Logs {
			if len(lg) > 0 {
				used++
			}
		}
		res = vrun.Hold(fmt.Sprintf("%d|%v", seed, rc.Cfg), (manifested.Load() > 0 && used >= 2) || rc.Close)
	}
	res.Desc = rc
	s.stats(&res, sn, ws, rs, final)
	res.Stat("rt_failures_manifested", int64(manifested.Load()))
	res.AddSet("rt_writers", fmt.Sprint(rc.Writers))
	return res
}
