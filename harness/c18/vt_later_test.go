package c18

import (
	"fmt"
	"sync/atomic"
	"testing"
	"time"

	"verif/harness/vrun"
)

// ---------------------------------------------------------------------------------------------------------------------
// Many later calls: "after Close, or when the redial budget is exhausted, ... later Reads and Writes fail with an error
// instead of blocking" has no bound on the number of later calls. The transport queues write requests (1024 slots) for a
// loop that is gone by then, so the 1025th later call is a different code path from the first.

type laterCase struct {
	Ending     string `json:"ending"` // close | exhausted-by-read | exhausted-by-write
	Writes     int    `json:"later_writes"`
	Concurrent bool   `json:"concurrent"`
	GivenTID   bool   `json:"given_transport_id"`
}

func TestC18ManyLaterCalls(t *testing.T) {
	var cases []laterCase
	for _, e := range []string{"close", "exhausted-by-read", "exhausted-by-write"} {
		for _, n := range []int{1030, 2200} {
			for _, conc := range []bool{false, true} {
				for _, tid := range []bool{false, true} {
					cases = append(cases, laterCase{e, n, conc, tid})
				}
			}
		}
	}
	meta := vrun.Meta{Property: "C18", Workload: "TestC18ManyLaterCalls", Total: len(cases), Exhaustive: true,
		Rule: "virtual time; the transport is closed, or its redial budget (2) is exhausted by a read-side or a write-side failure with the peer unreachable; then 1030 / 2200 later Writes " +
			"(one after the other, or all at once) and 5 later Reads are issued: every one of them returns an error within the virtual bound. The grid is enumerated completely. " +
			"Non-trivial: the ending was reached and all later calls were issued. Distinct: the case tuple.",
		Assumptions: vtAssumptions}
	vrun.Loop(t, meta, 0, func(c *vrun.Case) vrun.Result {
		lc := cases[c.Index]
		return runBubble(c.T, func() vrun.Result { return runLater(lc) })
	})
}

func runLater(lc laterCase) vrun.Result {
	s, err := openSession(sessCfg{Budget: 2, Interval: 10 * time.Millisecond, GivenTID: lc.GivenTID}, true)
	if err != nil {
		return vrun.Inconcl("initial Dial failed: " + err.Error())
	}
	s.startReader()
	settle(0)
	s.issue(func() { s.rec.write(s.tr, 0, 0) })
	cur := s.w.live()
	if cur == nil {
		return vrun.Inconcl("no live connection")
	}
	switch lc.Ending {
	case "close":
		s.closeNow()
	case "exhausted-by-read":
		s.w.setTail(true, slowNotice)
		cur.setCloseNotice(slowNotice)
		cur.failReadNow()
	case "exhausted-by-write":
		s.w.setTail(true, slowNotice)
		cur.setCloseNotice(slowNotice)
		cur.failWritesAfter(0)
		s.issue(func() { s.rec.write(s.tr, 0, 1) })
	}
	settle(vBound / 2)
	reached := s.rec.situation() != "live"
	var returned atomic.Int64
	one := func(i int) {
		s.rec.write(s.tr, 1, i)
		returned.Add(1)
	}
	s.active.Add(1)
	go func() {
		defer s.active.Add(-1)
		if !lc.Concurrent {
			for i := 0; i < lc.Writes; i++ {
				one(i)
			}
			return
		}
		for i := 0; i < lc.Writes; i++ {
			s.active.Add(1)
			go func() {
				defer s.active.Add(-1)
				one(i)
			}()
		}
	}()
	for i := 0; i < 5; i++ {
		s.active.Add(1)
		go func() {
			defer s.active.Add(-1)
			s.rec.read(s.tr)
		}()
	}
	settle(0)
	if int(returned.Load()) < lc.Writes {
		settle(vBound)
	}
	sig := fmt.Sprintf("later|%s|%d|%v|%v", lc.Ending, lc.Writes, lc.Concurrent, lc.GivenTID)
	res := s.finish(lc, sig, false)
	res.Stat("later_writes_returned", returned.Load())
	if res.Verdict == vrun.Held {
		res.NonTrivial = reached
	}
	return res
}
