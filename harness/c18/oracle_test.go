package c18

import (
	"fmt"
	"sort"
	"strings"
	"testing"
)

// finding is one violated obligation. Lower rank = reported first (a case carries one verdict).
type finding struct {
	Rank    int    `json:"-"`
	Clause  string `json:"clause"`
	Key     string `json:"key"`
	Witness any    `json:"witness"`
}

type endInfo struct {
	MustDrain bool // history ended live and quiescent: every delivered message must have been returned, every ping answered
}

const (
	clWrites = "each Write that returned nil was accepted by exactly one underlying connection"
	clOrder  = "accepted writes appear across the successive connections in the order they were issued"
	clRedial = "a broken connection is replaced by redialling with the same transport id and the reconnect flag set"
	clReads  = "reads continue on the new connection with control pings answered and filtered out"
	clBlock  = "when the redial budget is exhausted, or after Close, pending and later Reads and Writes fail with an error instead of blocking"
)

// judge evaluates oracles 1-4 on a finished history. It is a pure function of the recorded events.
func judge(s snapshot, ws []wcall, rs []rcall, end endInfo) []finding {
	var fs []finding
	add := func(rank int, clause, key string, wit any) { fs = append(fs, finding{rank, clause, key, wit}) }

	// ---- oracle 1: exactly-once acceptance
	where := map[string][]acc{}
	pongs := 0
	for _, lg := range s.Logs {
		for _, a := range lg {
			if a.Msg == pongMsg {
				pongs++
				continue
			}
			where[a.Msg] = append(where[a.Msg], a)
		}
	}
	issued := map[string]bool{}
	for _, c := range ws {
		issued[c.Msg] = true
		n := len(where[c.Msg])
		switch {
		case c.Ret != 0 && c.Err == "" && n == 0:
			add(1, clWrites, "write-lost:nil-return-accepted-by-no-connection", map[string]any{"call": c})
		case c.Ret != 0 && c.Err == "" && n >= 2:
			add(1, clWrites, "write-duplicated:nil-return-accepted-more-than-once", map[string]any{"call": c, "accepted": where[c.Msg]})
		case n >= 2:
			add(1, clWrites, "write-duplicated:failed-or-open-write-accepted-more-than-once", map[string]any{"call": c, "accepted": where[c.Msg]})
		}
	}
	for m, as := range where {
		if !issued[m] {
			add(1, clWrites, "write-phantom:connection-accepted-bytes-nobody-wrote", map[string]any{"accepted": as})
		}
	}

	// ---- oracle 2: order
	byMsg := map[string]wcall{}
	for _, c := range ws {
		byMsg[c.Msg] = c
	}
	type ent struct {
		a acc
		c wcall
	}
	var flat []ent
	for _, lg := range s.Logs { // incarnations in dial order, positions in log order
		for _, a := range lg {
			if c, ok := byMsg[a.Msg]; ok && len(where[a.Msg]) == 1 {
				flat = append(flat, ent{a, c})
			}
		}
	}
	last := map[int]ent{}
	for _, e := range flat {
		if p, ok := last[e.c.Writer]; ok && p.c.Ctr > e.c.Ctr {
			add(2, clOrder, "write-reordered:one-writer", map[string]any{"earlier_in_log": p, "later_in_log": e})
			break
		}
		last[e.c.Writer] = e
	}
	// across writers: b completed before a was issued, yet a sits before b in the connection logs
	minRet, minIdx := int64(0), -1
	for i := len(flat) - 1; i >= 0; i-- {
		if minIdx >= 0 && minRet < flat[i].c.Issue {
			add(2, clOrder, "write-reordered:across-writers", map[string]any{"earlier_in_log": flat[i], "later_in_log_but_returned_before_the_other_was_issued": flat[minIdx]})
			break
		}
		if r := flat[i].c.Ret; r != 0 && (minIdx < 0 || r < minRet) {
			minRet, minIdx = r, i
		}
	}

	// ---- oracle 3: redial parameters
	firstTID, haveFirst := "", false
	for _, d := range s.Dials {
		if !haveFirst {
			firstTID, haveFirst = d.TransportID, true
		}
		if !d.Redial {
			if d.TransportID != firstTID {
				add(3, clRedial, "initial-dial-retry-changes-transport-id", map[string]any{"dial": d, "first": firstTID})
			}
			continue
		}
		if d.TransportID != firstTID {
			add(3, clRedial, "redial-with-different-transport-id", map[string]any{"dial": d, "first": firstTID})
		}
		if !d.Reconnect {
			add(3, clRedial, "redial-without-reconnect-flag", map[string]any{"dial": d})
		}
	}

	// ---- oracle 4: reads
	var exp []string
	pings := 0
	for _, d := range s.Dlvs {
		switch {
		case d.Handshake:
		case d.Msg == pingMsg:
			pings++
		default:
			exp = append(exp, d.Msg)
		}
	}
	var got []string
	for _, c := range rs {
		if c.Ret != 0 && c.Err == "" {
			got = append(got, c.Msg)
		}
	}
	seen := map[string]int{}
	expIdx := map[string]int{}
	for i, m := range exp {
		expIdx[m] = i
	}
	j := 0 // next expected
	for i, m := range got {
		if m == pingMsg || m == pongMsg {
			add(4, clReads, "control-message-returned-by-read:"+m, map[string]any{"read_index": i, "reads": tail(got, i)})
			break
		}
		if _, dup := seen[m]; dup {
			add(4, clReads, "read-duplicated", map[string]any{"read_index": i, "msg": m, "first_at": seen[m]})
			break
		}
		seen[m] = i
		k, known := expIdx[m]
		if !known {
			add(4, clReads, "read-phantom:message-no-connection-delivered", map[string]any{"read_index": i, "msg": m})
			break
		}
		if k < j {
			add(4, clReads, "read-reordered", map[string]any{"read_index": i, "msg": m, "delivered_index": k, "expected_next": exp[j]})
			break
		}
		if k > j {
			// exp[j..k) skipped: lost unless they show up later (then: reordered)
			key := "read-lost:delivered-message-skipped"
			for _, later := range got[i+1:] {
				if later == exp[j] {
					key = "read-reordered"
				}
			}
			add(4, clReads, key, map[string]any{"read_index": i, "msg": m, "skipped": exp[j:k]})
			break
		}
		j = k + 1
	}
	if end.MustDrain {
		// the history saw neither Close nor budget consecutive failed redial attempts: a call that returned an error
		// means a broken connection was given up instead of being replaced
		for _, c := range ws {
			if c.Ret != 0 && c.Err != "" {
				add(5, clRedial, "call-fails-while-redial-budget-remains:write", map[string]any{"call": c, "dials": s.Dials})
				break
			}
		}
		for _, c := range rs {
			if c.Ret != 0 && c.Err != "" {
				add(5, clRedial, "call-fails-while-redial-budget-remains:read", map[string]any{"call": c, "dials": s.Dials})
				break
			}
		}
		if len(fs) == 0 && j < len(exp) {
			add(4, clReads, "read-lost:delivered-message-never-returned", map[string]any{"missing": head(exp[j:], 8), "returned": len(got), "delivered": len(exp)})
		}
		if pongs < pings {
			add(4, clReads, "ping-unanswered", map[string]any{"pings_delivered": pings, "pongs_accepted": pongs})
		}
	}
	sort.SliceStable(fs, func(a, b int) bool { return fs[a].Rank < fs[b].Rank })
	return fs
}

func countPingPong(s snapshot) (pings, pongs int) {
	for _, d := range s.Dlvs {
		if !d.Handshake && d.Msg == pingMsg {
			pings++
		}
	}
	for _, lg := range s.Logs {
		for _, a := range lg {
			if a.Msg == pongMsg {
				pongs++
			}
		}
	}
	return
}

func tail(xs []string, i int) []string {
	lo := i - 4
	if lo < 0 {
		lo = 0
	}
	hi := i + 2
	if hi > len(xs) {
		hi = len(xs)
	}
	return xs[lo:hi]
}

func head(xs []string, n int) []string {
	if len(xs) > n {
		return xs[:n]
	}
	return xs
}

// TestC18OracleSelf checks the oracle on hand-made good and bad histories (not a workload).
func TestC18OracleSelf(t *testing.T) {
	mk := func(msgs ...string) []acc {
		var r []acc
		for i, m := range msgs {
			r = append(r, acc{Pos: i, Msg: m})
		}
		return r
	}
	w := func(wr, ctr int, issue, ret int64, err string) wcall {
		return wcall{Writer: wr, Ctr: ctr, Msg: msgOf(wr, ctr), Issue: issue, Ret: ret, Err: err}
	}
	okDials := []dialRec{{TransportID: "t", Outcome: "ok"}, {TransportID: "t", Reconnect: true, Redial: true, Outcome: "ok"}}
	cases := []struct {
		name string
		s    snapshot
		ws   []wcall
		rs   []rcall
		end  endInfo
		want string
	}{
		{"good", snapshot{Dials: okDials, Logs: [][]acc{mk(msgOf(0, 0)), mk(msgOf(1, 0), msgOf(0, 1), pongMsg)},
			Dlvs: []dlv{{Msg: "d0"}, {Msg: pingMsg, Handshake: true}, {Msg: pingMsg}, {Msg: "d1"}}},
			[]wcall{w(0, 0, 1, 2, ""), w(1, 0, 1, 9, ""), w(0, 1, 3, 10, "")},
			[]rcall{{Ret: 1, Msg: "d0"}, {Ret: 2, Msg: "d1"}, {Ret: 0}}, endInfo{MustDrain: true}, ""},
		{"gave-up", snapshot{Dials: okDials, Logs: [][]acc{mk()}}, []wcall{w(0, 0, 1, 2, "e")}, nil, endInfo{MustDrain: true}, "call-fails-while-redial-budget-remains:write"},
		{"gave-up-r", snapshot{Dials: okDials, Logs: [][]acc{mk()}}, nil, []rcall{{Ret: 3, Err: "x"}}, endInfo{MustDrain: true}, "call-fails-while-redial-budget-remains:read"},
		{"lost", snapshot{Dials: okDials, Logs: [][]acc{mk()}}, []wcall{w(0, 0, 1, 2, "")}, nil, endInfo{}, "write-lost"},
		{"errlost-ok", snapshot{Dials: okDials, Logs: [][]acc{mk()}}, []wcall{w(0, 0, 1, 2, "e"), w(0, 1, 3, 0, "")}, nil, endInfo{}, ""},
		{"dup", snapshot{Dials: okDials, Logs: [][]acc{mk(msgOf(0, 0)), mk(msgOf(0, 0))}}, []wcall{w(0, 0, 1, 2, "")}, nil, endInfo{}, "write-duplicated:nil"},
		{"dup-open", snapshot{Dials: okDials, Logs: [][]acc{mk(msgOf(0, 0)), mk(msgOf(0, 0))}}, []wcall{w(0, 0, 1, 0, "")}, nil, endInfo{}, "write-duplicated:failed"},
		{"phantom", snapshot{Dials: okDials, Logs: [][]acc{mk("zz")}}, nil, nil, endInfo{}, "write-phantom"},
		{"reorder1", snapshot{Dials: okDials, Logs: [][]acc{mk(msgOf(0, 1)), mk(msgOf(0, 0))}}, []wcall{w(0, 0, 1, 2, ""), w(0, 1, 3, 4, "")}, nil, endInfo{}, "write-reordered:one-writer"},
		{"reorderX", snapshot{Dials: okDials, Logs: [][]acc{mk(msgOf(1, 0), msgOf(0, 0))}}, []wcall{w(0, 0, 1, 2, ""), w(1, 0, 3, 4, "")}, nil, endInfo{}, "write-reordered:across"},
		{"concurrent-ok", snapshot{Dials: okDials, Logs: [][]acc{mk(msgOf(1, 0), msgOf(0, 0))}}, []wcall{w(0, 0, 1, 5, ""), w(1, 0, 3, 4, "")}, nil, endInfo{}, ""},
		{"tid", snapshot{Dials: []dialRec{{TransportID: "t"}, {TransportID: "u", Reconnect: true, Redial: true}}}, nil, nil, endInfo{}, "redial-with-different"},
		{"flag", snapshot{Dials: []dialRec{{TransportID: "t"}, {TransportID: "t", Redial: true}}}, nil, nil, endInfo{}, "redial-without"},
		{"pingleak", snapshot{Dials: okDials, Dlvs: []dlv{{Msg: pingMsg}}}, nil, []rcall{{Ret: 1, Msg: pingMsg}}, endInfo{}, "control-message-returned-by-read:ping"},
		{"readdup", snapshot{Dials: okDials, Dlvs: []dlv{{Msg: "d0"}}}, nil, []rcall{{Ret: 1, Msg: "d0"}, {Ret: 2, Msg: "d0"}}, endInfo{}, "read-duplicated"},
		{"readlost", snapshot{Dials: okDials, Dlvs: []dlv{{Msg: "d0"}, {Msg: "d1"}}}, nil, []rcall{{Ret: 1, Msg: "d1"}}, endInfo{}, "read-lost:delivered-message-skipped"},
		{"readreord", snapshot{Dials: okDials, Dlvs: []dlv{{Msg: "d0"}, {Msg: "d1"}}}, nil, []rcall{{Ret: 1, Msg: "d1"}, {Ret: 2, Msg: "d0"}}, endInfo{}, "read-reordered"},
		{"readprefix-ok", snapshot{Dials: okDials, Dlvs: []dlv{{Msg: "d0"}, {Msg: "d1"}}}, nil, []rcall{{Ret: 1, Msg: "d0"}}, endInfo{}, ""},
		{"readnodrain", snapshot{Dials: okDials, Dlvs: []dlv{{Msg: "d0"}, {Msg: "d1"}}}, nil, []rcall{{Ret: 1, Msg: "d0"}}, endInfo{MustDrain: true}, "read-lost:delivered-message-never-returned"},
		{"noping", snapshot{Dials: okDials, Dlvs: []dlv{{Msg: pingMsg}}, Logs: [][]acc{mk()}}, nil, nil, endInfo{MustDrain: true}, "ping-unanswered"},
		{"hs-ping-needs-no-pong", snapshot{Dials: okDials, Dlvs: []dlv{{Msg: pingMsg, Handshake: true}}, Logs: [][]acc{mk()}}, nil, nil, endInfo{MustDrain: true}, ""},
	}
	for _, c := range cases {
		for li := range c.s.Logs {
			for pi := range c.s.Logs[li] {
				c.s.Logs[li][pi].Inc = li
			}
		}
		fs := judge(c.s, c.ws, c.rs, c.end)
		got := ""
		if len(fs) > 0 {
			got = fs[0].Key
		}
		if (c.want == "") != (got == "") || !strings.HasPrefix(got, c.want) {
			t.Errorf("%s: want %q got %q (%s)", c.name, c.want, got, fmt.Sprint(fs))
		}
	}
}
