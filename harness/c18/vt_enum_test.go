package c18

import (
	"fmt"
	"sync/atomic"
	"testing"
	"time"

	"verif/harness/vrun"
)

// ---------------------------------------------------------------------------------------------------------------------
// Fault enumeration: a fixed sequential base trace, ONE failure injected at every position x every failure kind.

type op struct {
	Kind   byte // 'W' write, 'R' feed a data message and see it read, 'P' peer ping
	Writer int
	Ctr    int
}

func baseTrace() []op {
	var ops []op
	for i := 0; i < 5; i++ {
		for w := 0; w < 3; w++ {
			ops = append(ops, op{'W', w, i})
		}
		ops = append(ops, op{Kind: 'R'})
		if i == 1 || i == 3 {
			ops = append(ops, op{Kind: 'P'})
		}
	}
	ops = append(ops, op{Kind: 'R'})
	return ops // 15 writes, 6 reads, 2 pings = 23 ops
}

type plan struct {
	Name    string     `json:"name"`
	Budget  int        `json:"budget"`
	Steps   []dialStep `json:"steps"`
	Tail    bool       `json:"dial_fails_forever"`
	Exhaust bool       `json:"exhausts_budget"`
}

func (p plan) slow() bool {
	if p.Tail {
		return true
	}
	for _, s := range p.Steps {
		if s.Err || s.HsErr || s.Latency > 0 {
			return true
		}
	}
	return false
}

func enumPlans() []plan {
	e, h := dialStep{Err: true}, dialStep{HsErr: true}
	return []plan{
		{Name: "redial-ok", Budget: 5},
		{Name: "dial-error-x1", Budget: 5, Steps: []dialStep{e}},
		{Name: "dial-error-x2", Budget: 5, Steps: []dialStep{e, e}},
		{Name: "dial-error-x1-budget2", Budget: 2, Steps: []dialStep{e}},
		{Name: "handshake-read-error", Budget: 5, Steps: []dialStep{h}},
		{Name: "dial-error+handshake-read-error", Budget: 5, Steps: []dialStep{e, h}},
		{Name: "dial-latency", Budget: 5, Steps: []dialStep{{Latency: 300 * time.Millisecond}}},
		{Name: "budget1-exhausted-forever", Budget: 1, Tail: true, Exhaust: true},
		{Name: "budget2-exhausted-forever", Budget: 2, Tail: true, Exhaust: true},
		{Name: "budget2-exhausted-hs+dial-forever", Budget: 2, Steps: []dialStep{h}, Tail: true, Exhaust: true},
		{Name: "budget2-exhausted-then-dialer-recovers", Budget: 2, Steps: []dialStep{e, e}, Exhaust: true},
	}
}

type enumCase struct {
	Pos        int           `json:"position"`
	Trigger    string        `json:"trigger"` // read-error, write-error, close, none
	Plan       plan          `json:"redial_plan"`
	Interval   time.Duration `json:"reconnect_interval"`
	GivenTID   bool          `json:"given_transport_id"`
	CloseFails bool          `json:"underlying_close_reports_error,omitempty"`
}

func enumCases() []enumCase {
	n := len(baseTrace())
	ivs := []time.Duration{10 * time.Millisecond, time.Second, 0, 250 * time.Millisecond}
	var cs []enumCase
	cs = append(cs, enumCase{Pos: 0, Trigger: "none", Plan: plan{Name: "no-fault", Budget: 5}, Interval: time.Second, GivenTID: true})
	k := 0
	for pos := 0; pos <= n; pos++ {
		for _, trig := range []string{"read-error", "write-error"} {
			for _, pl := range enumPlans() {
				cs = append(cs, enumCase{Pos: pos, Trigger: trig, Plan: pl, Interval: ivs[k%len(ivs)], GivenTID: k%3 != 0})
				k++
			}
		}
		cs = append(cs, enumCase{Pos: pos, Trigger: "close", Plan: plan{Name: "close", Budget: 5}, Interval: ivs[k%len(ivs)], GivenTID: k%3 != 0})
		k++
		cs = append(cs, enumCase{Pos: pos, Trigger: "close", Plan: plan{Name: "close-reports-error", Budget: 5}, Interval: ivs[k%len(ivs)], GivenTID: k%3 != 0, CloseFails: true})
		k++
	}
	return cs
}

func TestC18FaultEnum(t *testing.T) {
	cases := enumCases()
	meta := vrun.Meta{Property: "C18", Workload: "TestC18FaultEnum", Total: len(cases), Exhaustive: true,
		Rule: "Fixed base trace (3 writers x 5 tagged messages, 6 peer messages read, 2 peer pings = 23 sequential operations) run in a synctest bubble; " +
			"ONE failure is injected before every position 0..23 x trigger {underlying read error, underlying write error} x redial plan " +
			"{immediate, dial error x1/x2, x1 with budget 2, handshake read error, dial+handshake error, dial latency, budget 1/2 exhausted with the dialer failing forever, " +
			"budget 2 exhausted by handshake+dial errors, budget 2 exhausted then dialer recovers}, plus Close at every position and one fault-free run. " +
			"The whole (position x kind) grid is enumerated, independent of the seed. Non-trivial: the failure manifested (a redial was dialled or Close ran) and writes were accepted. " +
			"Distinct: (position, trigger, plan).",
		Assumptions: vtAssumptions}
	vrun.Loop(t, meta, 0, func(c *vrun.Case) vrun.Result {
		ec := cases[c.Index]
		return runBubble(c.T, func() vrun.Result { return runEnum(ec) })
	})
}

// issue runs one library call in its own goroutine and waits (virtual clock) for it to return.
func (s *session) issue(f func()) bool {
	var done atomic.Bool
	s.active.Add(1)
	go func() {
		defer s.active.Add(-1)
		f()
		done.Store(true)
	}()
	settle(0)
	if !done.Load() {
		settle(vBound)
	}
	return done.Load()
}

func runEnum(ec enumCase) vrun.Result {
	s, err := openSession(sessCfg{Budget: ec.Plan.Budget, Interval: ec.Interval, GivenTID: ec.GivenTID, CloseFails: ec.CloseFails}, true)
	if err != nil {
		return vrun.Inconcl("initial Dial failed: " + err.Error())
	}
	s.startReader()
	settle(0)
	ops := baseTrace()
	nData := 0
	inject := func() {
		switch ec.Trigger {
		case "close":
			s.closeNow()
			settle(0)
			return
		case "none":
			return
		}
		cur := s.w.live()
		if cur == nil {
			return
		}
		s.w.push(ec.Plan.Steps...)
		cn := time.Duration(0)
		if ec.Plan.slow() {
			cn = slowNotice
		}
		s.w.setTail(ec.Plan.Tail, cn)
		cur.setCloseNotice(cn)
		if ec.Trigger == "read-error" {
			cur.failReadNow()
			settle(vBound / 2) // the whole redial round (and a second one by the other loop) fits
		} else {
			cur.failWritesAfter(0) // manifests at the next underlying write (data or pong)
		}
	}
	for i := 0; i <= len(ops); i++ {
		if i == ec.Pos {
			inject()
		}
		if i == len(ops) {
			break
		}
		o := ops[i]
		switch o.Kind {
		case 'W':
			s.issue(func() { s.rec.write(s.tr, o.Writer, o.Ctr) })
		case 'R', 'P':
			cur := s.w.live()
			if cur == nil || s.rec.situation() != "live" {
				continue // no usable connection to feed: the peer has nobody to talk to
			}
			if o.Kind == 'R' {
				before := s.reads.Load()
				cur.feed(fmt.Sprintf("d-%03d", nData))
				nData++
				settle(0)
				if s.reads.Load() == before {
					settle(vBound)
				}
			} else {
				cur.feed(pingMsg)
				settle(0)
				p, q := countPingPong(s.w.snap())
				if q < p {
					settle(vBound)
					p, q = countPingPong(s.w.snap())
					if q < p && s.rec.situation() == "live" {
						s.add(finding{4, clReads, "ping-unanswered", map[string]any{"pings_delivered": p, "pongs_accepted": q, "after_op": i}})
					}
				}
			}
		}
	}
	sig := fmt.Sprintf("%d|%s|%s", ec.Pos, ec.Trigger, ec.Plan.Name)
	res := s.finish(ec, sig, !ec.Plan.Tail)
	res.AddSet("trigger_x_plan", ec.Trigger+"|"+ec.Plan.Name)
	return res
}

// ---------------------------------------------------------------------------------------------------------------------
// Stalled underlying writes: a peer that does not drain its socket blocks the underlying Write. Close must still return
// and fail the pending Write; reads and control pings must keep working while a Write is stalled.

type stallCase struct {
	Kind     string `json:"kind"` // close-behind-stalled-write | traffic-behind-stalled-write | read-fails-behind-stalled-write
	TailFail bool   `json:"peer_unreachable_after_the_redial,omitempty"`
	Pings    int    `json:"pings,omitempty"`
	Data     int    `json:"data_messages,omitempty"`
	AfterRed bool   `json:"on_a_redialled_connection"`
	GivenTID bool   `json:"given_transport_id"`
}

func TestC18StalledWrite(t *testing.T) {
	var cases []stallCase
	for _, red := range []bool{false, true} {
		for _, tid := range []bool{false, true} {
			cases = append(cases, stallCase{Kind: "close-behind-stalled-write", AfterRed: red, GivenTID: tid})
			for _, tf := range []bool{false, true} {
				for _, data := range []int{0, 3} {
					cases = append(cases, stallCase{Kind: "read-fails-behind-stalled-write", Data: data, TailFail: tf, AfterRed: red, GivenTID: tid})
				}
			}
			for _, pings := range []int{1, 8, 9, 12, 40} {
				for _, data := range []int{0, 3} {
					cases = append(cases, stallCase{Kind: "traffic-behind-stalled-write", Pings: pings, Data: data, AfterRed: red, GivenTID: tid})
				}
			}
		}
	}
	meta := vrun.Meta{Property: "C18", Workload: "TestC18StalledWrite", Total: len(cases), Exhaustive: true,
		Rule: "virtual time; the underlying connection's Write blocks (peer not draining) while one library Write is in progress - on the first or on a redialled connection. " +
			"(close) Close is called: it returns, the pending Write and the pending Read return with an error. " +
			"(traffic) the peer sends 1/8/9/12/40 control pings and 0/3 data messages while the Write is stalled: the data messages are returned by Read meanwhile; after the stall is released the pending Write returns nil and every ping has been answered by a pong. " +
			"(read-fails) the connection's Read fails while the Write is stalled inside it (both loops see one breakage, the read side first): one redial, the pending Write returns nil and is accepted by the new connection, 0/3 messages the peer sends on the new connection are read, and the new connection - on which nothing failed - is not closed by the library, with the peer reachable or unreachable for further dials. " +
			"The grid is enumerated completely. Non-trivial: the stall was reached with a Write pending. Distinct: the case tuple.",
		Assumptions: vtAssumptions}
	vrun.Loop(t, meta, 0, func(c *vrun.Case) vrun.Result {
		sc := cases[c.Index]
		return runBubble(c.T, func() vrun.Result { return runStall(sc) })
	})
}

func runStall(sc stallCase) vrun.Result {
	s, err := openSession(sessCfg{Budget: 5, Interval: 10 * time.Millisecond, GivenTID: sc.GivenTID}, true)
	if err != nil {
		return vrun.Inconcl("initial Dial failed: " + err.Error())
	}
	s.startReader()
	settle(0)
	s.issue(func() { s.rec.write(s.tr, 0, 0) })
	if sc.AfterRed {
		if cur := s.w.live(); cur != nil {
			cur.failReadNow()
			settle(vBound / 2)
		}
	}
	cur := s.w.live()
	if cur == nil {
		return vrun.Inconcl("no live connection to stall")
	}
	cur.stallWrites()
	// one library Write that stays inside the underlying Write
	var pending atomic.Bool
	s.active.Add(1)
	go func() {
		defer s.active.Add(-1)
		s.rec.write(s.tr, 0, 1)
		pending.Store(true)
	}()
	settle(time.Second)
	reached := !pending.Load()
	sig := fmt.Sprintf("%s|%d|%d|%v|%v|%v", sc.Kind, sc.Pings, sc.Data, sc.AfterRed, sc.GivenTID, sc.TailFail)
	switch sc.Kind {
	case "read-fails-behind-stalled-write":
		// the next dial succeeds at once (no sleeping redial while the other loop waits for the transport mutex); what
		// comes after it is the peer's matter
		s.w.push(dialStep{CloseNotice: time.Minute})
		s.w.setTail(sc.TailFail, time.Minute)
		cur.failReadNow()
		settle(0)
		settle(time.Second)
		if nw := s.w.live(); nw != nil && nw != cur {
			for i := 0; i < sc.Data; i++ {
				nw.feed(fmt.Sprintf("after-d-%02d", i))
			}
		}
		settle(vBound / 2)
		if !pending.Load() && s.rec.situation() == "live" {
			s.add(finding{5, clRedial, "write-never-returns:no-close-no-exhaustion", map[string]any{"note": "the Write that was inside the broken connection's Write when its Read failed is still pending", "dials": s.w.snap().Dials}})
		}
	case "close-behind-stalled-write":
		if !s.issue(func() { s.closeNow() }) {
			s.add(finding{6, clBlock, "close-blocks-behind-stalled-write", map[string]any{"virtual_wait": vBound.String()}})
			cur.releaseWrites()
			settle(vBound)
		}
	case "traffic-behind-stalled-write":
		before := s.reads.Load()
		for i := 0; i < sc.Data; i++ {
			cur.feed(fmt.Sprintf("stall-d-%02d", i))
		}
		for i := 0; i < sc.Pings; i++ {
			cur.feed(pingMsg)
		}
		settle(0)
		settle(time.Minute)
		if sc.Data > 0 && int(s.reads.Load()-before) < sc.Data && s.rec.situation() == "live" {
			s.add(finding{4, clReads, "read-stalled-behind-a-stalled-write", map[string]any{"data_messages_fed": sc.Data, "returned_by_read": s.reads.Load() - before}})
		}
		cur.releaseWrites()
		settle(vBound / 2)
		if p, q := countPingPong(s.w.snap()); q < p && s.rec.situation() == "live" {
			s.add(finding{4, clReads, "ping-unanswered", map[string]any{"pings_delivered": p, "pongs_accepted": q, "pings_sent_while_the_write_was_stalled": sc.Pings}})
		}
	}
	res := s.finish(sc, sig, true)
	if res.Verdict == vrun.Held {
		res.NonTrivial = reached
	}
	return res
}
