package c18

import (
	"fmt"
	"math/rand"
	"strings"
	"sync/atomic"
	"testing"
	"time"

	"verif/harness/vrun"
)

// ---------------------------------------------------------------------------------------------------------------------
// Generated histories in virtual time: 1-4 episodes of concurrent traffic, each with a failure and a redial plan.

type episode struct {
	Msgs     int           `json:"msgs_per_writer"`
	Feed     []string      `json:"-"`
	NFeed    int           `json:"peer_messages"`
	NPing    int           `json:"peer_pings"`
	Fault    string        `json:"fault"` // none, read-error, write-error
	At       int           `json:"fault_after_k"`
	Steps    []dialStep    `json:"redial_steps,omitempty"`
	Notice   time.Duration `json:"close_notice,omitempty"`
	Slow     bool          `json:"slow_redial"`
	CloseMid bool          `json:"close_mid_burst,omitempty"`
	CloseOff time.Duration `json:"close_offset,omitempty"`
}

type randCase struct {
	Cfg      sessCfg   `json:"cfg"`
	Writers  int       `json:"writers"`
	Episodes []episode `json:"episodes"`
	Ending   string    `json:"ending"` // live, close-boundary, close-mid, exhaust-forever, exhaust-recover
	// final exhaustion episode
	XTrigger string     `json:"exhaust_trigger,omitempty"`
	XSteps   []dialStep `json:"exhaust_steps,omitempty"`
	XPending int        `json:"exhaust_concurrent_writers,omitempty"`
	CloseAt  int        `json:"close_before_episode,omitempty"`
}

func pick[T any](r *rand.Rand, xs ...T) T { return xs[r.Intn(len(xs))] }

func genRand(r *rand.Rand, closeMid bool) randCase {
	rc := randCase{}
	rc.Cfg = sessCfg{Budget: pick(r, 1, 2, 5), Interval: pick(r, time.Millisecond, 50*time.Millisecond, time.Second, 0), GivenTID: r.Intn(3) != 0, CloseFails: r.Intn(3) == 0}
	if r.Intn(7) == 0 && rc.Cfg.Budget > 1 {
		rc.Cfg.InitFails = 1 + r.Intn(rc.Cfg.Budget-1)
	}
	rc.Writers = 1 + r.Intn(16)
	rc.Ending = pick(r, "live", "live", "live", "close-boundary", "close-boundary", "exhaust-forever", "exhaust-forever", "exhaust-recover")
	if closeMid {
		rc.Ending = "close-mid"
	}
	ne := 1 + r.Intn(4)
	nd := 0
	for e := 0; e < ne; e++ {
		ep := episode{Msgs: 1 + r.Intn(6)}
		ep.NFeed = r.Intn(9)
		for i := 0; i < ep.NFeed; i++ {
			if r.Intn(10) < 3 {
				ep.Feed = append(ep.Feed, pingMsg)
				ep.NPing++
			} else {
				ep.Feed = append(ep.Feed, fmt.Sprintf("d-%d-%03d", e, nd))
				nd++
			}
		}
		ep.Fault = pick(r, "none", "read-error", "read-error", "read-error", "write-error", "write-error", "write-error")
		if ep.Fault != "none" {
			maxFail := rc.Cfg.Budget - 1
			nf := 0
			if maxFail > 0 && r.Intn(2) == 0 {
				nf = 1 + r.Intn(min(maxFail, 3))
			}
			for i := 0; i < nf; i++ {
				if r.Intn(3) == 0 {
					ep.Steps = append(ep.Steps, dialStep{HsErr: true})
				} else {
					ep.Steps = append(ep.Steps, dialStep{Err: true})
				}
			}
			last := dialStep{}
			if r.Intn(4) == 0 {
				last.Latency = pick(r, 5*time.Millisecond, 300*time.Millisecond)
			}
			ep.Steps = append(ep.Steps, last)
			ep.Slow = nf > 0 || last.Latency > 0
			if ep.Slow {
				ep.Notice = slowNotice
			} else {
				ep.Notice = pick(r, 0, 0, time.Millisecond, 7*time.Millisecond)
				total := ep.Msgs * rc.Writers
				if ep.Fault == "read-error" {
					ep.At = r.Intn(ep.NFeed + 1)
				} else {
					ep.At = r.Intn(total)
				}
			}
		}
		rc.Episodes = append(rc.Episodes, ep)
	}
	switch rc.Ending {
	case "close-boundary":
		rc.CloseAt = r.Intn(ne + 1)
	case "close-mid":
		// Close in the middle of a burst whose redial (if any) never sleeps
		var ok []int
		for i, ep := range rc.Episodes {
			if !ep.Slow {
				ok = append(ok, i)
			}
		}
		if len(ok) == 0 {
			// make the last episode's redial immediate
			ep := &rc.Episodes[ne-1]
			ep.Steps, ep.Slow, ep.Notice, ep.At = []dialStep{{}}, false, 0, 0
			ok = append(ok, ne-1)
		}
		{
			i := pick(r, ok...)
			rc.Episodes[i].CloseMid = true
			rc.Episodes[i].CloseOff = time.Duration(r.Intn(1+rc.Episodes[i].Msgs*2000)) * time.Microsecond
		}
	case "exhaust-forever", "exhaust-recover":
		rc.XTrigger = pick(r, "read-error", "write-error")
		rc.XPending = 1 + r.Intn(rc.Writers)
		n := rc.Cfg.Budget
		if rc.Ending == "exhaust-forever" {
			n = r.Intn(rc.Cfg.Budget + 1) // some scripted failures, then the tail fails forever
		}
		for i := 0; i < n; i++ {
			if r.Intn(3) == 0 {
				rc.XSteps = append(rc.XSteps, dialStep{HsErr: true})
			} else {
				rc.XSteps = append(rc.XSteps, dialStep{Err: true})
			}
		}
	}
	return rc
}

func TestC18Random(t *testing.T) {
	e := vrun.LoadEnv()
	meta := vrun.Meta{Property: "C18", Workload: "TestC18Random", Total: e.Pick(4000, 150000),
		Rule: "Each case draws from the case PRNG: budget {1,2,5}, ReconnectInterval {1ms,50ms,1s,default}, 0-(budget-1) failing initial dials, 1-16 concurrent writers with tagged " +
			"messages, 1-4 episodes of concurrent traffic (1-6 messages per writer with 0-2 ms virtual gaps, 0-8 peer messages of which ~30% pings), each episode with a failure " +
			"{none, underlying read error, underlying write error} at a random point of the burst and a redial plan {immediate | 1-3 dial/handshake errors below the budget | dial latency}; " +
			"ending {stay live, Close between episodes, budget exhausted with the dialer failing forever, budget exhausted then dialer recovers} with 1-16 writers " +
			"writing concurrently into the exhaustion. Redials that sleep are injected at a quiescent point (see assumptions). Non-trivial: at least one redial or a Close, and accepted writes. " +
			"Distinct: the generated scenario (writers, budget, interval, per-episode fault/plan/position, ending).",
		Assumptions: vtAssumptions}
	vrun.Loop(t, meta, 0, func(c *vrun.Case) vrun.Result {
		rc := genRand(c.Rng, false)
		seed := c.Rng.Int63()
		return runBubble(c.T, func() vrun.Result { return runRand(rc, seed) })
	})
}

// TestC18CloseMidBurst is the same generator with the ending fixed to "Close in the middle of a burst of concurrent
// writes". It is a workload of its own because on the unchanged tree this input class can kill the process (writeLoop
// reads the result-channel map without its lock while writers mutate it: "concurrent map read and map write").
func TestC18CloseMidBurst(t *testing.T) {
	e := vrun.LoadEnv()
	meta := vrun.Meta{Property: "C18", Workload: "TestC18CloseMidBurst", Total: e.Pick(1200, 30000),
		Rule: "Generator of TestC18Random with the ending fixed: Close is called at a random virtual offset inside a burst of 1-16 concurrent writers (episodes before it as in TestC18Random; " +
			"the redial of the burst that is closed, if any, is immediate). Pending and later calls must fail within the virtual bound, oracles 1-4 apply to the prefix. " +
			"Non-trivial: Close ran and writes were accepted. Distinct: the generated scenario.",
		Assumptions: vtAssumptions}
	vrun.Loop(t, meta, 0, func(c *vrun.Case) vrun.Result {
		rc := genRand(c.Rng, true)
		seed := c.Rng.Int63()
		return runBubble(c.T, func() vrun.Result { return runRand(rc, seed) })
	})
}

func (rc randCase) sig() string {
	var b strings.Builder
	fmt.Fprintf(&b, "w%d b%d i%s t%v f%d %s", rc.Writers, rc.Cfg.Budget, rc.Cfg.Interval, rc.Cfg.GivenTID, rc.Cfg.InitFails, rc.Ending)
	for _, ep := range rc.Episodes {
		fmt.Fprintf(&b, "|m%d f%d p%d %s@%d n%s", ep.Msgs, ep.NFeed, ep.NPing, ep.Fault, ep.At, ep.Notice)
		for _, s := range ep.Steps {
			fmt.Fprintf(&b, " %v%v%s", s.Err, s.HsErr, s.Latency)
		}
		if ep.CloseMid {
			fmt.Fprintf(&b, " close@%s", ep.CloseOff)
		}
	}
	fmt.Fprintf(&b, "|x%s %d %d c%d", rc.XTrigger, len(rc.XSteps), rc.XPending, rc.CloseAt)
	return b.String()
}

// burst runs one episode's concurrent traffic; returns false if it did not complete within the virtual bound.
func (s *session) burst(r *rand.Rand, writers int, next []int, ep episode) bool {
	var running atomic.Int32
	for w := 0; w < writers; w++ {
		delays := make([]time.Duration, ep.Msgs)
		for i := range delays {
			delays[i] = time.Duration(r.Intn(2000)) * time.Microsecond
		}
		from := next[w]
		next[w] += ep.Msgs
		running.Add(1)
		s.active.Add(1)
		go func(w int) {
			defer s.active.Add(-1)
			defer running.Add(-1)
			errs := 0
			for i := 0; i < ep.Msgs && errs < 2; i++ {
				time.Sleep(delays[i])
				if s.rec.write(s.tr, w, from+i) != nil {
					errs++
				}
			}
		}(w)
	}
	fdel := make([]time.Duration, len(ep.Feed))
	for i := range fdel {
		fdel[i] = time.Duration(r.Intn(1500)) * time.Microsecond
	}
	running.Add(1)
	go func() {
		defer running.Add(-1)
		for i, m := range ep.Feed {
			time.Sleep(fdel[i])
			for try := 0; try < 50; try++ {
				if cur := s.w.live(); cur != nil {
					cur.feed(m)
					break
				}
				time.Sleep(time.Millisecond)
			}
		}
	}()
	if ep.CloseMid {
		time.Sleep(ep.CloseOff)
		s.closeNow()
	}
	settle(0)
	for waited := time.Duration(0); running.Load() > 0 && waited < vBound; waited += 20 * time.Millisecond {
		settle(20 * time.Millisecond)
	}
	if running.Load() > 0 {
		return false
	}
	settle(slowNotice + time.Second) // let delayed close notices and pongs drain
	return true
}

func runRand(rc randCase, seed int64) vrun.Result {
	r := rand.New(rand.NewSource(seed))
	s, err := openSession(rc.Cfg, true)
	if err != nil {
		return vrun.Inconcl("initial Dial failed: " + err.Error())
	}
	s.startReader()
	settle(0)
	next := make([]int, rc.Writers)
	recoverable := rc.Ending != "exhaust-forever"
	checkPings := func(where string) {
		if s.rec.situation() != "live" {
			return
		}
		p, q := countPingPong(s.w.snap())
		if q < p {
			s.add(finding{4, clReads, "ping-unanswered", map[string]any{"pings_delivered": p, "pongs_accepted": q, "at": where}})
		}
	}
	stuck := false
	for i, ep := range rc.Episodes {
		if rc.Ending == "close-boundary" && rc.CloseAt == i {
			s.closeNow()
			settle(0)
		}
		cur := s.w.live()
		if ep.Fault != "none" && cur != nil && s.rec.situation() == "live" {
			s.w.push(ep.Steps...)
			cur.setCloseNotice(ep.Notice)
			s.w.setTail(false, 0)
			if !ep.Slow {
				if ep.Fault == "read-error" {
					cur.failReadAfter(ep.At)
				} else {
					cur.failWritesAfter(ep.At)
				}
			}
		}
		if !s.burst(r, rc.Writers, next, ep) {
			stuck = true
			break
		}
		if ep.Fault != "none" && ep.Slow && cur != nil && s.rec.situation() == "live" && s.w.live() == cur {
			// redial that sleeps: injected while nothing else is going on
			checkPings(fmt.Sprintf("before the fault of episode %d", i))
			if ep.Fault == "read-error" {
				cur.failReadNow()
				settle(vBound / 2)
			} else {
				cur.failWritesAfter(0)
				w := r.Intn(rc.Writers)
				s.issue(func() { s.rec.write(s.tr, w, next[w]) })
				next[w]++
				settle(vBound / 2)
			}
		}
		checkPings(fmt.Sprintf("end of episode %d", i))
	}
	if !stuck && rc.Ending == "close-boundary" && rc.CloseAt == len(rc.Episodes) {
		s.closeNow()
		settle(0)
	}
	if !stuck && strings.HasPrefix(rc.Ending, "exhaust") && s.rec.situation() == "live" {
		if cur := s.w.live(); cur != nil {
			s.w.push(rc.XSteps...)
			s.w.setTail(rc.Ending == "exhaust-forever", slowNotice)
			cur.setCloseNotice(slowNotice)
			volley := func() {
				for k := 0; k < rc.XPending; k++ {
					w := k
					from := next[w]
					next[w] += 2
					s.active.Add(1)
					go func() {
						defer s.active.Add(-1)
						s.rec.write(s.tr, w, from)   // pending at (or triggering) the exhaustion
						s.rec.write(s.tr, w, from+1) // a later call
					}()
				}
			}
			if rc.XTrigger == "read-error" {
				cur.failReadNow()
				settle(vBound / 2)
				volley()
			} else {
				cur.failWritesAfter(0)
				volley()
			}
			settle(vBound)
		}
	}
	if strings.HasPrefix(rc.Ending, "close") || s.rec.situation() != "live" {
		// later calls, issued after Close returned / after the budget was exhausted
		w := 0
		s.issue(func() { s.rec.write(s.tr, w, next[w]) })
		next[w]++
		if s.rec.situation() == "closed" || !recoverable {
			s.issue(func() { s.rec.read(s.tr) })
		}
	}
	res := s.finish(rc, rc.sig(), recoverable)
	res.AddSet("ending", rc.Ending)
	res.AddSet("writers", fmt.Sprint(rc.Writers))
	res.AddSet("budget", fmt.Sprint(rc.Cfg.Budget))
	for _, ep := range rc.Episodes {
		k := "immediate"
		if ep.Slow {
			k = "sleeping"
		}
		res.AddSet("episode_fault_x_redial", ep.Fault+"|"+k)
	}
	return res
}
