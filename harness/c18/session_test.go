package c18

import (
	"fmt"
	"regexp"
	"runtime"
	"runtime/debug"
	"strings"
	"sync"
	"sync/atomic"
	"testing"
	"testing/synctest"
	"time"

	"github.com/aptpod/iscp-go/transport"
	"github.com/aptpod/iscp-go/transport/reconnect"

	"verif/harness/vrun"
)

const (
	vBound     = 10 * time.Minute // virtual-time bound for "must have returned"
	slowNotice = 2 * time.Minute  // close notice used around redials that sleep (see assumptions)
	realWatch  = 30 * time.Second // wall-clock watchdog per vt case: firing = inconclusive
	fixedTID   = "c18-fixed-transport-id"
)

var vtAssumptions = []string{
	"Acceptance is judged at the scripted underlying connection: an underlying Write that returned an error accepted nothing.",
	"The peer greets every redialled connection with one ping (as the repository's own test server does); that first message belongs to the redial procedure, needs no pong and must not reach Read.",
	"'Answered' is read as: at quiescence of a live transport at least as many pongs were accepted by connections as pings were handed to the library.",
	"Messages queued on a connection but not yet handed to the library when the connection breaks are outside the statement; 'returned exactly once and in order' is judged on the messages the connections handed to the library.",
	"After Close (or exhaustion) Read may still return messages that were buffered before; only blocking, duplicates, reordering and leaked control messages are judged. 'Later' means issued after Close returned / after the budget-th consecutive failed attempt.",
	"Where the dialer recovers after a loop gave up (exactly budget failures), calls are only required to return (nil or error); where the dialer fails forever they must return an error. Pending Reads are judged only in the latter.",
	"Virtual-time engine: the library holds its transport mutex while it sleeps between redial attempts, and a goroutine waiting for a sync.Mutex is not durably blocked, so inside a bubble no second goroutine may reach for that mutex during a sleeping redial. The vt workloads keep writers idle and delay the old connection's read-side close notice during such redials; redials that overlap with traffic, and Close during a redial, are sampled by the real-time workload.",
	"A Read or Write that returns an error in a history with neither Close nor budget consecutive failed redial attempts is reported under the redial clause (the broken connection was given up, not replaced).",
	"A Write that never returns although neither Close nor budget exhaustion happened is reported under the redial clause (the connection was not effectively replaced).",
}

// session is one reconnect.Transport under test together with its world and recorder.
type session struct {
	w      *world
	rec    *recorder
	tr     *reconnect.Transport
	budget int
	active atomic.Int32 // harness goroutines inside library calls or loops
	reads  atomic.Int32 // reader results so far
	closed atomic.Bool
	virt   bool

	mu       sync.Mutex
	findings []finding
}

type sessCfg struct {
	Budget    int           `json:"budget"`
	Interval  time.Duration `json:"interval"`
	GivenTID  bool          `json:"given_tid"`
	InitFails int           `json:"initial_dial_failures,omitempty"`
	CloseLat  time.Duration `json:"underlying_close_latency,omitempty"`
	WriteLat  time.Duration `json:"underlying_write_latency,omitempty"`
	// CloseFails: the underlying connection's Close reports an error after closing (a closing handshake that a dead
	// peer never completes, a connection that is already broken)
	CloseFails bool `json:"underlying_close_reports_error,omitempty"`
}

func openSession(c sessCfg, virt bool) (*session, error) {
	s := &session{w: newWorld(), budget: c.Budget, virt: virt}
	s.rec = &recorder{w: s.w, sit: "live"}
	s.w.budget = c.Budget
	s.w.closeLatency = c.CloseLat
	s.w.closeFails = c.CloseFails
	s.w.writeLatency = c.WriteLat
	s.w.onExhaust = func() { s.rec.setSituation("exhausted") }
	for i := 0; i < c.InitFails; i++ {
		s.w.push(dialStep{Err: true})
	}
	s.w.push(dialStep{})
	dc := transport.DialConfig{Address: "c18.invalid:0", EncodingName: transport.EncodingNameJSON}
	if c.GivenTID {
		dc.TransportID = fixedTID
	}
	tr, err := reconnect.Dial(reconnect.DialConfig{Dialer: s.w, DialConfig: dc, MaxReconnectAttempts: c.Budget, ReconnectInterval: c.Interval})
	if err != nil {
		return nil, err
	}
	s.tr = tr
	return s, nil
}

func (s *session) add(f finding) {
	s.mu.Lock()
	s.findings = append(s.findings, f)
	s.mu.Unlock()
}

func (s *session) startReader() {
	s.active.Add(1)
	go func() {
		defer s.active.Add(-1)
		errs := 0
		for errs < 3 {
			if _, err := s.rec.read(s.tr); err != nil {
				errs++
			}
			s.reads.Add(1)
		}
	}()
}

func (s *session) closeNow() {
	s.w.appClosing.Store(true)
	_ = s.tr.Close()
	s.rec.setSituation("closed")
	s.closed.Store(true)
}

// settle lets virtual time pass and waits for quiescence (vt only).
func settle(d time.Duration) {
	if d > 0 {
		time.Sleep(d)
	}
	synctest.Wait()
}

// finish evaluates clause 5 on the virtual clock, closes the transport, and assembles the verdict (vt only).
func (s *session) finish(desc any, sig string, recoverable bool) vrun.Result {
	settle(vBound)
	// "reads continue on the new connection": a message the peer queues on the newest usable connection of a live
	// transport has to be read (a read loop still parked on a replaced connection never sees it)
	if s.rec.situation() == "live" {
		if cur := s.w.live(); cur != nil {
			before := s.reads.Load()
			cur.feed("probe-after-the-last-failure")
			settle(0)
			if s.reads.Load() == before {
				settle(vBound)
			}
			cur.mu.Lock()
			queued := len(cur.rq)
			cur.mu.Unlock()
			if queued > 0 && s.rec.situation() == "live" && s.w.live() == cur {
				s.add(finding{4, clReads, "read-stalled:message-queued-on-the-live-connection-never-read", map[string]any{"connection": cur.id, "queued": queued, "virtual_wait": vBound.String(), "dials": s.w.snap().Dials}})
			}
		}
	}
	final := s.rec.situation()
	ws, rs := s.rec.snap()
	sn := s.w.snap()
	fs := judge(sn, ws, rs, endInfo{MustDrain: final == "live"})
	fs = append(fs, s.findings...)
	fs = append(fs, healthyClosedFindings(sn)...)
	openW, openR := 0, 0
	for _, c := range ws {
		if c.Ret == 0 {
			openW++
			pl := "pending"
			if c.Sit == final {
				pl = "later"
			}
			switch final {
			case "live":
				fs = append(fs, finding{5, clRedial, "write-never-returns:no-close-no-exhaustion", map[string]any{"call": c, "virtual_wait": vBound.String()}})
			case "closed":
				fs = append(fs, finding{6, clBlock, "write-blocks-after-close:" + pl, map[string]any{"call": c, "virtual_wait": vBound.String()}})
			case "exhausted":
				fs = append(fs, finding{7, clBlock, "write-blocks-after-budget-exhausted:" + pl, map[string]any{"call": c, "virtual_wait": vBound.String(), "dials": sn.Dials}})
			}
		} else if c.Err == "" && c.Sit == "closed" {
			fs = append(fs, finding{6, clBlock, "write-returns-nil-after-close", map[string]any{"call": c}})
		}
	}
	for _, c := range rs {
		if c.Ret != 0 {
			continue
		}
		openR++
		pl := "pending"
		if c.Sit == final {
			pl = "later"
		}
		switch {
		case final == "closed":
			fs = append(fs, finding{6, clBlock, "read-blocks-after-close:" + pl, map[string]any{"call": c, "virtual_wait": vBound.String()}})
		case final == "exhausted" && !recoverable:
			fs = append(fs, finding{7, clBlock, "read-blocks-after-budget-exhausted:" + pl, map[string]any{"call": c, "virtual_wait": vBound.String(), "dials": sn.Dials}})
		}
	}
	// release everything: Close, then whatever is still inside a call is blocked after Close
	if !s.closed.Load() {
		s.closeNow()
	}
	settle(vBound)
	if n := s.active.Load(); n > 0 {
		ws2, rs2 := s.rec.snap()
		for _, c := range ws2 {
			if c.Ret == 0 {
				fs = append(fs, finding{6, clBlock, "write-blocks-after-close:pending", map[string]any{"call": c, "note": "still blocked 10 virtual minutes after the final Close"}})
			}
		}
		for _, c := range rs2 {
			if c.Ret == 0 {
				fs = append(fs, finding{6, clBlock, "read-blocks-after-close:pending", map[string]any{"call": c, "note": "still blocked 10 virtual minutes after the final Close"}})
			}
		}
	}
	// full goroutine dumps stop the world: sample them; every bubble that ends with goroutines left is detected anyway
	// (synctest panics in the goroutine that started the bubble, see runBubble)
	var left []string
	if censusTick.Add(1)%32 == 0 {
		left = bubbleLeftovers()
	}

	var res vrun.Result
	if len(fs) > 0 {
		best := fs[0]
		for _, f := range fs {
			if f.Rank < best.Rank {
				best = f
			}
		}
		keys := map[string]int{}
		for _, f := range fs {
			keys[f.Key]++
		}
		res = vrun.Violation(best.Clause, best.Key, map[string]any{"scenario": desc, "offending": best.Witness, "all_finding_keys": keys,
			"final_situation": final, "dials": sn.Dials})
		res.Desc = desc
	} else {
		redials := 0
		for _, d := range sn.Dials {
			if d.Redial {
				redials++
			}
		}
		acc := 0
		for _, lg := range sn.Logs {
			acc += len(lg)
		}
		res = vrun.Hold(sig, (redials > 0 || final == "closed") && acc > 0)
		res.Desc = desc
	}
	s.stats(&res, sn, ws, rs, final)
	res.Stat("calls_open_at_bound_write", int64(openW))
	res.Stat("calls_open_at_bound_read", int64(openR))
	if left != nil || censusTick.Load()%32 == 0 {
		res.Stat("bubble_census_taken", 1)
	}
	if len(left) > 0 {
		res.Stat("goroutines_left_in_bubble_after_close", int64(len(left)))
		res.AddSet("leftover_goroutine_sites", left...)
	}
	return res
}

// healthyClosedFindings: the library replaces *broken* connections. A connection on which no Read or Write ever failed,
// closed by the library without the application calling Close, takes whatever the peer sent on it with it and spends the
// redial budget on a link that was up.
func healthyClosedFindings(sn snapshot) []finding {
	if len(sn.HealthyClosed) == 0 {
		return nil
	}
	return []finding{{5, clRedial, "connection-replaced-without-being-broken", map[string]any{"connections": sn.HealthyClosed, "dials": sn.Dials}}}
}

func (s *session) stats(res *vrun.Result, sn snapshot, ws []wcall, rs []rcall, final string) {
	res.Stat("library_writes", int64(len(ws)))
	for _, c := range ws {
		switch {
		case c.Ret == 0:
		case c.Err == "":
			res.Stat("library_writes_nil", 1)
		default:
			res.Stat("library_writes_error", 1)
		}
	}
	for _, c := range rs {
		switch {
		case c.Ret == 0:
		case c.Err == "":
			res.Stat("library_reads_data", 1)
		default:
			res.Stat("library_reads_error", 1)
		}
	}
	for _, lg := range sn.Logs {
		res.Stat("underlying_writes_accepted", int64(len(lg)))
	}
	res.Stat("underlying_writes_rejected", int64(sn.Rejected))
	res.Stat("incarnations", int64(len(sn.Logs)))
	for _, d := range sn.Dials {
		res.Stat("dials_"+d.Outcome, 1)
		if d.Redial {
			res.Stat("redials", 1)
		}
	}
	p, q := countPingPong(sn)
	res.Stat("pings_delivered", int64(p))
	res.Stat("pongs_accepted", int64(q))
	for _, d := range sn.Dlvs {
		if d.Handshake {
			res.Stat("handshake_reads", 1)
		} else if d.Msg != pingMsg {
			res.Stat("data_messages_delivered", 1)
		}
	}
	res.Stat("failed_handshake_connections_never_closed_by_library", int64(sn.UnclosedHsInc))
	res.AddSet("final_situation", final)
	used := 0
	for _, lg := range sn.Logs {
		if len(lg) > 0 {
			used++
		}
	}
	res.AddSet("incarnations_with_accepted_writes", fmt.Sprint(used))
}

var censusTick atomic.Int64
var vtStalled atomic.Int32

var bubbleRe = regexp.MustCompile(`synctest bubble (\d+)`)

// bubbleLeftovers lists goroutines of the current bubble other than the caller and the synctest plumbing.
func bubbleLeftovers() []string {
	buf := make([]byte, 4096)
	buf = buf[:runtime.Stack(buf, false)]
	m := bubbleRe.FindSubmatch(buf)
	if m == nil {
		return nil
	}
	tag := "synctest bubble " + string(m[1]) + "]"
	self := strings.SplitN(string(buf), "\n", 2)[0]
	var res []string
	for _, g := range vrun.ParseStacks(vrun.AllStacks()) {
		if !strings.Contains(g.Header, tag) || g.Header == self {
			continue
		}
		if strings.Contains(g.Text, "testing/synctest.testingSynctestTest") || strings.Contains(g.Text, "internal/synctest.Run") {
			continue
		}
		site := g.InnermostLib()
		if site == "" && len(g.Frames) > 0 {
			site = g.Frames[0]
		}
		res = append(res, site+" <- "+g.CreatedBy)
	}
	return res
}

// runBubble runs f inside its own synctest bubble and returns its result. A stalled bubble (wall-clock watchdog) is
// inconclusive. Goroutines left in the bubble when f returns make synctest panic in the goroutine that called
// synctest.Test; that panic is recovered here and recorded.
func runBubble(t *testing.T, f func() vrun.Result) vrun.Result {
	resCh := make(chan vrun.Result, 1) // created outside the bubble: not bubbled
	endCh := make(chan string, 1)
	go func() {
		defer func() {
			if r := recover(); r != nil {
				endCh <- fmt.Sprint(r)
				return
			}
			endCh <- ""
		}()
		synctest.Test(t, func(t *testing.T) {
			defer func() {
				if r := recover(); r != nil {
					st := string(debug.Stack())
					resCh <- vrun.Result{Verdict: vrun.Violated, Clause: "panic in the calling goroutine", FindingKey: "panic:" + vrun.PanicSite(st),
						Witness: map[string]any{"panic": fmt.Sprint(r), "stack": st}}
				}
			}()
			resCh <- f()
		})
	}()
	watch := realWatch
	if vtStalled.Load() >= 8 {
		watch = 3 * time.Second // several bubbles of this process already stalled: short leash, inconclusive either way
	}
	select {
	case res := <-resCh:
		select {
		case msg := <-endCh:
			if msg != "" {
				res.Note = strings.TrimSpace(res.Note + " bubble end: " + msg)
				res.Stat("bubbles_ended_with_goroutines_left", 1)
			}
		case <-time.After(20 * time.Second):
			res.Note = strings.TrimSpace(res.Note + " bubble did not end within 20 s after the verdict")
		}
		return res
	case <-time.After(watch):
		vtStalled.Add(1)
		dump := vrun.AllStacks()
		if len(dump) > 20000 {
			dump = dump[:20000]
		}
		// a library goroutine that stays parked on a mutex (two dumps 2 s apart) while the bubble cannot advance: the
		// lock is held across a blocking call - Close (or a reader) waits behind a stalled operation for good
		if site, text, ok := vrun.StuckOnMutex(); ok {
			v := vrun.Violation("a library goroutine is parked on a mutex that is held across a blocking call: the transport makes no progress", "stuck-on-mutex:"+site, map[string]any{"goroutine": text})
			return v
		}
		r := vrun.Inconcl("wall-clock watchdog: the bubble made no progress (a goroutine waiting for a sync.Mutex keeps virtual time from advancing)")
		r.Witness = map[string]any{"dump": dump}
		return r
	}
}
