package c18

import (
	"fmt"
	"sync"
	"testing"
	"testing/synctest"
	"time"
)

func TestProbeRecover(t *testing.T) {
	var wg sync.WaitGroup
	for i := 0; i < 4; i++ {
		wg.Add(1)
		go func() {
			defer wg.Done()
			done := make(chan string, 1)
			go func() {
				defer func() {
					if r := recover(); r != nil {
						done <- fmt.Sprint("recovered: ", r)
						return
					}
					done <- "clean"
				}()
				synctest.Test(t, func(t *testing.T) {
					ch := make(chan int)
					go func() { <-ch }()
					time.Sleep(time.Hour)
				})
			}()
			t.Log(i, <-done)
		}()
	}
	wg.Wait()
}

func TestProbeMutex(t *testing.T) {
	synctest.Test(t, func(t *testing.T) {
		var mu sync.Mutex
		go func() { mu.Lock(); time.Sleep(time.Second); mu.Unlock() }()
		synctest.Wait()
		mu.Lock()
		mu.Unlock()
		t.Log("mutex ok")
	})
}
