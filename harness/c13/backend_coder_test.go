//go:build !gorilla && !nhooyr

package c13

import (
	"testing"

	_ "github.com/aptpod/iscp-go/transport/websocket/coder" // registers the default backend, as wire/enable_coder.go does
)

// TestC13BackendCoder: default build. coder/websocket documents that Writer() blocks until the previous writer is
// closed, so concurrent writers are part of the workload. The accepting side speaks gorilla/websocket.
func TestC13BackendCoder(t *testing.T) {
	runBackendWorkload(t, "TestC13BackendCoder", "coder", "gorilla", true, false)
}
