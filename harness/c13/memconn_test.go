package c13

import (
	"context"
	"errors"
	"io"
	"math/rand"
	"sync"

	"github.com/aptpod/iscp-go/transport"
	tws "github.com/aptpod/iscp-go/transport/websocket"
)

// memPipe is one direction of an in-memory WebSocket: a bounded FIFO of complete messages. It is also the tap:
// every message that crosses it is kept, in order.
type memPipe struct {
	mu      sync.Mutex
	cond    *sync.Cond
	queue   [][]byte
	cap     int
	closed  bool
	writing bool // a Writer is open (Writer() serialises like the default backend: the next call blocks)

	frames      [][]byte // tap
	frameBytes  uint64
	msgTypes    map[tws.MessageType]int
	undrained   int // messages the reader abandoned before EOF
	chunkPolicy func(frameLen int) int
}

func newMemPipe(capacity int) *memPipe {
	p := &memPipe{cap: capacity, msgTypes: map[tws.MessageType]int{}}
	p.cond = sync.NewCond(&p.mu)
	return p
}

var errMemClosed = errors.New("memconn: closed")

type memConn struct {
	out, in *memPipe
	rng     *rand.Rand // reader-side chunking; used by the single reading goroutine only
	cur     *memReader
}

// newMemPair returns the two ends of an in-memory WebSocket connection.
func newMemPair(rng *rand.Rand) (a, b *memConn, ab, ba *memPipe) {
	ab, ba = newMemPipe(1+rng.Intn(8)), newMemPipe(1+rng.Intn(8))
	a = &memConn{out: ab, in: ba, rng: rand.New(rand.NewSource(rng.Int63()))}
	b = &memConn{out: ba, in: ab, rng: rand.New(rand.NewSource(rng.Int63()))}
	return
}

func (c *memConn) Close() error { return c.CloseWithStatus(transport.CloseStatusNormal) }

func (c *memConn) CloseWithStatus(transport.CloseStatus) error {
	for _, p := range []*memPipe{c.out, c.in} {
		p.mu.Lock()
		p.closed = true
		p.cond.Broadcast()
		p.mu.Unlock()
	}
	return nil
}

func (c *memConn) Ping(context.Context) error { return nil }

// wait blocks on the pipe's condition until ok() or the pipe is closed or ctx is done. Called with p.mu held.
func (p *memPipe) wait(ctx context.Context, ok func() bool) error {
	if ok() {
		return nil
	}
	stop := context.AfterFunc(ctx, func() {
		p.mu.Lock()
		p.cond.Broadcast()
		p.mu.Unlock()
	})
	defer stop()
	for !ok() {
		if p.closed {
			return errMemClosed
		}
		if err := ctx.Err(); err != nil {
			return err
		}
		p.cond.Wait()
	}
	return nil
}

type memWriter struct {
	p    *memPipe
	tp   tws.MessageType
	buf  []byte
	done bool
}

func (c *memConn) Writer(ctx context.Context, tp tws.MessageType) (io.WriteCloser, error) {
	p := c.out
	p.mu.Lock()
	defer p.mu.Unlock()
	if p.closed {
		return nil, errMemClosed
	}
	if err := p.wait(ctx, func() bool { return !p.writing }); err != nil {
		return nil, err
	}
	p.writing = true
	return &memWriter{p: p, tp: tp}, nil
}

func (w *memWriter) Write(b []byte) (int, error) {
	if w.done {
		return 0, errors.New("memconn: write on closed writer")
	}
	w.buf = append(w.buf, b...) // copy: the caller may reuse b
	return len(b), nil
}

func (w *memWriter) Close() error {
	if w.done {
		return nil
	}
	w.done = true
	p := w.p
	p.mu.Lock()
	defer p.mu.Unlock()
	defer func() {
		p.writing = false
		p.cond.Broadcast()
	}()
	// the message is on the wire as soon as the writer is closed, in the order of the closes
	if w.buf == nil {
		w.buf = []byte{}
	}
	p.frames = append(p.frames, w.buf)
	p.frameBytes += uint64(len(w.buf))
	p.msgTypes[w.tp]++
	if err := p.wait(context.Background(), func() bool { return len(p.queue) < p.cap }); err != nil {
		return err
	}
	p.queue = append(p.queue, w.buf)
	return nil
}

type memReader struct {
	c     *memConn
	data  []byte
	chunk int
	eof   bool
}

func (c *memConn) Reader(ctx context.Context) (tws.MessageType, io.Reader, error) {
	p := c.in
	p.mu.Lock()
	defer p.mu.Unlock()
	if c.cur != nil && !c.cur.eof {
		p.undrained++ // like the real backends: the rest of an abandoned message is discarded
	}
	if err := p.wait(ctx, func() bool { return len(p.queue) > 0 }); err != nil {
		return 0, nil, err
	}
	m := p.queue[0]
	p.queue = p.queue[1:]
	p.cond.Broadcast()
	r := &memReader{c: c, data: m}
	// how the payload is handed out: everything at once, network-sized pieces, or odd small pieces
	switch k := c.rng.Intn(4); {
	case k == 0:
		r.chunk = 0
	case k == 1:
		r.chunk = 4096
	case k == 2:
		r.chunk = 1 + c.rng.Intn(1500)
	default:
		if len(m) <= 4096 {
			r.chunk = 1 + c.rng.Intn(7)
		} else {
			r.chunk = 512 + c.rng.Intn(65536)
		}
	}
	c.cur = r
	return tws.MessageBinary, r, nil
}

func (r *memReader) Read(b []byte) (int, error) {
	if len(r.data) == 0 {
		r.eof = true
		return 0, io.EOF
	}
	if len(b) == 0 {
		return 0, nil
	}
	n := len(b)
	if r.chunk > 0 && n > r.chunk {
		n = r.chunk
	}
	n = copy(b[:n], r.data)
	r.data = r.data[n:]
	return n, nil
}

func (p *memPipe) snapshot() (frames [][]byte, bytes uint64, nonBinary int, undrained int) {
	p.mu.Lock()
	defer p.mu.Unlock()
	for tp, n := range p.msgTypes {
		if tp != tws.MessageBinary {
			nonBinary += n
		}
	}
	return append([][]byte(nil), p.frames...), p.frameBytes, nonBinary, p.undrained
}
