//go:build gorilla

package c13

import (
	"testing"

	_ "github.com/aptpod/iscp-go/transport/websocket/gorilla" // as wire/enable_gorilla.go does with -tags gorilla
)

// TestC13BackendGorilla: -tags gorilla. gorilla/websocket supports one concurrent writer only, so this workload keeps
// to one writer per side; concurrent writers are TestC13GorillaConcurrent. The accepting side speaks coder/websocket.
func TestC13BackendGorilla(t *testing.T) {
	runBackendWorkload(t, "TestC13BackendGorilla", "gorilla", "coder", false, false)
}

// TestC13GorillaConcurrent: concurrent Transport.Write on the gorilla backend, judged on the library's own contract.
func TestC13GorillaConcurrent(t *testing.T) {
	runBackendWorkload(t, "TestC13GorillaConcurrent", "gorilla", "coder", false, true)
}
