// C13 - transports keep message boundaries, bytes and order in every compression mode.
//
// Shared pieces of all C13 workloads: tagged message generation, the independent decoder of the documented
// framing, the exchange driver (writers/readers on two library transports) and the oracle.
package c13

import (
	"bytes"
	"compress/flate"
	"crypto/sha256"
	"encoding/binary"
	"errors"
	"fmt"
	"hash/fnv"
	"io"
	"math/rand"
	"runtime"
	"runtime/debug"
	"strings"
	"sync"
	"sync/atomic"
	"time"

	"github.com/aptpod/iscp-go/transport"
	"github.com/aptpod/iscp-go/transport/compress"

	"verif/harness/vrun"
)

func ip(i int) *int { return &i }

func rand64(seed int64) *rand.Rand { return rand.New(rand.NewSource(seed)) }

// ------------------------------------------------------------------------------------------------
// modes
// ------------------------------------------------------------------------------------------------

const (
	modeOff = "off"
	modePM  = "per-message"
	modeCT  = "context-takeover"
)

var allModes = []string{modeOff, modePM, modeCT}

// negotiated returns the negotiation parameters for a grid point. Mode "off" means "compression was not
// negotiated" (no type, no level); the level/window of the grid point then only go into the LOCAL base
// configuration of one side, which must not matter. Level 0 with a type means "disabled" (negotiation.go).
func negotiated(mode string, level, wbits int) transport.NegotiationParams {
	switch mode {
	case modePM:
		return transport.NegotiationParams{Compress: compress.TypePerMessage, CompressLevel: ip(level), CompressWindowBits: ip(wbits)}
	case modeCT:
		return transport.NegotiationParams{Compress: compress.TypeContextTakeOver, CompressLevel: ip(level), CompressWindowBits: ip(wbits)}
	}
	return transport.NegotiationParams{}
}

// effectiveMode is what the documented framing prescribes for a grid point.
func effectiveMode(mode string, level int) string {
	if mode == modeOff || level == 0 {
		return modeOff
	}
	return mode
}

// junkBase is a local base compression configuration; the negotiated parameters must override all of it.
func junkBase(rng *rand.Rand, level, wbits int, which int) compress.Config {
	if which == 0 {
		return compress.Config{Enable: true, Level: level, WindowBits: wbits, DisableContextTakeover: level%2 == 0}
	}
	return compress.Config{Enable: rng.Intn(2) == 0, Level: rng.Intn(10), WindowBits: rng.Intn(33), DisableContextTakeover: rng.Intn(2) == 0}
}

// ------------------------------------------------------------------------------------------------
// tagged messages
// ------------------------------------------------------------------------------------------------

// Layout of a message of size >= tagLen:
//
//	[0]=0xC1 [1]=side [2]=writer [3]=kind [4:6]=counter [6:10]=total length [10:18]=fnv64a(body) body...
//
// Shorter non-empty messages carry side<<4|writer in byte 0; the empty message carries nothing. The oracle does
// not depend on the tag (it compares with the sender's log); the tag makes witnesses readable.
const tagLen = 18

type tagInfo struct {
	OK      bool   `json:"tagged"`
	Side    int    `json:"side"`
	Writer  int    `json:"writer"`
	Kind    string `json:"kind,omitempty"`
	Counter int    `json:"counter"`
	Length  int    `json:"declared_len"`
	HashOK  bool   `json:"hash_ok"`
	Actual  int    `json:"actual_len"`
}

var kindNames = []string{"rand", "rep", "text", "echo", "zeros", "mixed"}

func parseTag(b []byte) tagInfo {
	ti := tagInfo{Actual: len(b)}
	if len(b) >= tagLen && b[0] == 0xC1 {
		ti.OK = true
		ti.Side, ti.Writer = int(b[1]), int(b[2])
		if int(b[3]) < len(kindNames) {
			ti.Kind = kindNames[b[3]]
		}
		ti.Counter = int(binary.BigEndian.Uint16(b[4:6]))
		ti.Length = int(binary.BigEndian.Uint32(b[6:10]))
		h := fnv.New64a()
		h.Write(b[tagLen:])
		ti.HashOK = h.Sum64() == binary.BigEndian.Uint64(b[10:18])
	} else if len(b) > 0 {
		ti.Side, ti.Writer = int(b[0]>>4), int(b[0]&0xf)
	}
	return ti
}

// gen produces the message sequence of one writer.
type gen struct {
	rng     *rand.Rand
	side    int
	writer  int
	ctr     int
	win     int // window size in bytes when it can be reached by the sizes we send, else 0
	big     int // size of the "big" class
	hist    []byte
	histCap int
	pat     []byte
	single  bool // the only writer of its direction: hist is the direction's byte history
}

var vocabulary = strings.Fields("iscp upstream downstream chunk data point ack metadata session node id stream flush qos reliable " +
	"partial name type time elapsed sequence number result code string alias extension fields base resume token close")

func newGen(rng *rand.Rand, side, writer int, wbits int, big int, single bool) *gen {
	g := &gen{rng: rng, side: side, writer: writer, big: big, single: single}
	if wbits <= 30 && (1<<wbits)+1 <= big {
		g.win = 1 << wbits
	}
	g.histCap = g.win + (1 << 17)
	return g
}

func (g *gen) pushHist(b []byte) {
	g.hist = append(g.hist, b...)
	if len(g.hist) > 2*g.histCap {
		g.hist = append([]byte(nil), g.hist[len(g.hist)-g.histCap:]...)
	}
}

// sizeClass picks a size. The classes are what the property names: around 0, around the window, around 64 KiB, big.
func (g *gen) sizeClass() (int, string) {
	r := g.rng.Intn(100)
	switch {
	case r < 8:
		return 0, "0"
	case r < 13:
		return 1, "1"
	case r < 17:
		return 2, "2"
	case r < 22:
		return tagLen - 1 + g.rng.Intn(3), "tag"
	case r < 40:
		return tagLen + 1 + g.rng.Intn(300), "small"
	case r < 62 && g.win > 0:
		d := []int{-1, 0, 1, -2, 2}[g.rng.Intn(5)]
		m := 1
		if g.win <= 1<<16 && g.rng.Intn(4) == 0 {
			m = 2 + g.rng.Intn(2)
		}
		n := g.win*m + d
		if n < 0 {
			n = 0
		}
		return n, fmt.Sprintf("win*%d%+d", m, d)
	case r < 72:
		d := []int{-1, 0, 1}[g.rng.Intn(3)]
		return 65536 + d, fmt.Sprintf("64K%+d", d)
	case r < 76:
		d := []int{-1, 0, 1}[g.rng.Intn(3)]
		return 32768 + d, fmt.Sprintf("32K%+d", d)
	default:
		return tagLen + 300 + g.rng.Intn(20000), "medium"
	}
}

func (g *gen) fill(kind int, body []byte) {
	switch kind {
	case 0: // rand
		g.rng.Read(body)
	case 1: // rep: a short pattern, kept across messages half of the time so that it sits in the dictionary
		if g.pat == nil || g.rng.Intn(2) == 0 {
			g.pat = make([]byte, 1+g.rng.Intn(1+g.rng.Intn(40)))
			g.rng.Read(g.pat)
		}
		for i := range body {
			body[i] = g.pat[i%len(g.pat)]
		}
	case 2: // text
		i := 0
		for i < len(body) {
			w := vocabulary[g.rng.Intn(len(vocabulary))]
			i += copy(body[i:], w)
			if i < len(body) {
				body[i] = ' '
				i++
			}
		}
	case 3: // echo: starts with a copy of earlier bytes located around the oldest edge of the window (or recent)
		g.fill(2*g.rng.Intn(2), body) // rest: rand or text
		if len(g.hist) < 3 || len(body) < 3 {
			return
		}
		L := 3 + g.rng.Intn(300)
		if L > len(body) {
			L = len(body)
		}
		if L > len(g.hist) {
			L = len(g.hist)
		}
		s := g.rng.Intn(len(g.hist) - L + 1)
		if g.win > 0 && len(g.hist) > g.win && g.rng.Intn(4) != 0 {
			e := len(g.hist) - g.win // first byte still inside the window
			s = e + []int{-L, -L / 2, -1, 0, 1, L / 2, L}[g.rng.Intn(7)]
		} else if g.rng.Intn(3) == 0 {
			s = len(g.hist) - L
		}
		if s < 0 {
			s = 0
		}
		if s > len(g.hist)-L {
			s = len(g.hist) - L
		}
		copy(body, g.hist[s:s+L])
	case 4: // zeros
		for i := range body {
			body[i] = 0
		}
	case 5: // mixed
		h := len(body) / 2
		g.fill(0, body[:h])
		g.fill(1, body[h:])
	}
}

func (g *gen) next(forceBig bool) (msg []byte, class string, kind int) {
	size, class := g.sizeClass()
	if forceBig {
		size, class = g.big+[]int{-1, 0, 1}[g.rng.Intn(3)], "big"
	}
	kind = g.rng.Intn(len(kindNames))
	msg = g.build(size, kind)
	return msg, class, kind
}

func (g *gen) build(size, kind int) []byte {
	msg := make([]byte, size)
	switch {
	case size == 0:
	case size < tagLen:
		g.fill(kind, msg[1:])
		msg[0] = byte(g.side<<4 | g.writer)
	default:
		g.fill(kind, msg[tagLen:])
		msg[0], msg[1], msg[2], msg[3] = 0xC1, byte(g.side), byte(g.writer), byte(kind)
		binary.BigEndian.PutUint16(msg[4:6], uint16(g.ctr))
		binary.BigEndian.PutUint32(msg[6:10], uint32(size))
		h := fnv.New64a()
		h.Write(msg[tagLen:])
		binary.BigEndian.PutUint64(msg[10:18], h.Sum64())
	}
	g.ctr++
	g.pushHist(msg)
	return msg
}

// ------------------------------------------------------------------------------------------------
// the independent decoder of the documented framing
// ------------------------------------------------------------------------------------------------
//
// websocket, one frame (= one WebSocket binary message payload) per message:
//   off              frame = message bytes
//   per-message      frame = one raw DEFLATE stream (RFC 1951) of the message, no preset dictionary
//   context-takeover frame = one raw DEFLATE stream whose preset dictionary is the concatenation of the previously
//                    sent UNCOMPRESSED messages of that direction, cut to its last 2^windowBits bytes after every message
// quic / webtransport, one unidirectional stream per direction: 4-byte big-endian length, then that many bytes which
//   are the message (off) or one raw DEFLATE stream of it.
//
// Only compress/flate's reader is used here - none of the library's code.

type indepDecoder struct {
	mode   string
	wsize  uint64 // 2^windowBits
	window []byte // grows lazily; never allocated ahead of the data
	// observations
	needDict int // frames that do NOT decode to the same bytes without the dictionary
	trailing int // frames with bytes after the end of the DEFLATE stream
}

func newIndepDecoder(mode string, wbits int) *indepDecoder {
	return &indepDecoder{mode: mode, wsize: uint64(1) << uint(wbits)}
}

func (d *indepDecoder) decode(frame []byte) ([]byte, error) {
	switch d.mode {
	case modeOff:
		return append([]byte{}, frame...), nil
	case modePM:
		br := bytes.NewReader(frame) // a ByteReader: flate consumes exactly the stream
		fr := flate.NewReader(br)
		out, err := io.ReadAll(fr)
		if err != nil {
			return nil, err
		}
		if br.Len() > 0 {
			d.trailing++
		}
		return out, nil
	case modeCT:
		br := bytes.NewReader(frame)
		fr := flate.NewReaderDict(br, d.window)
		out, err := io.ReadAll(fr)
		if err != nil {
			return nil, err
		}
		if br.Len() > 0 {
			d.trailing++
		}
		if len(d.window) > 0 {
			plain, perr := io.ReadAll(flate.NewReader(bytes.NewReader(frame)))
			if perr != nil || !bytes.Equal(plain, out) {
				d.needDict++
			}
		}
		d.window = append(d.window, out...)
		if uint64(len(d.window)) > d.wsize {
			cut := uint64(len(d.window)) - d.wsize
			d.window = append([]byte(nil), d.window[cut:]...)
		}
		return out, nil
	}
	return nil, fmt.Errorf("unknown mode %q", d.mode)
}

// splitLengthPrefixed cuts a raw QUIC/WebTransport stream into frames (4-byte big-endian length each).
func splitLengthPrefixed(raw []byte) (frames [][]byte, rest int, err error) {
	for len(raw) > 0 {
		if len(raw) < 4 {
			return frames, len(raw), errors.New("stream ends inside a length prefix")
		}
		n := int(binary.BigEndian.Uint32(raw))
		if len(raw)-4 < n {
			return frames, len(raw), fmt.Errorf("stream ends inside a frame: prefix says %d, %d left", n, len(raw)-4)
		}
		frames = append(frames, raw[4:4+n])
		raw = raw[4+n:]
	}
	return frames, 0, nil
}

// ------------------------------------------------------------------------------------------------
// exchange driver
// ------------------------------------------------------------------------------------------------

type sentMsg struct {
	Data  []byte
	Class string
	Kind  int
}

// plan[side][writer] = messages that writer sends from that side.
type plan [2][][]sentMsg

func (p *plan) total(side int) int {
	n := 0
	for _, w := range p[side] {
		n += len(w)
	}
	return n
}

type failure struct {
	kind string // "read", "write", "panic"
	side int
	err  error
	at   string
}

type exchangeResult struct {
	reads  [2][][]byte // reads[i] = what side i read (sent by side 1-i)
	fails  []failure   // in order of occurrence; after the first one the link is torn down, so later ones are usually consequences
	panics []string
	hung   bool
	dump   string
}

// sentinel is the message each side sends after all its writers have returned. A transport that keeps order delivers
// it after everything else, so the reader can stop there: a LOST message then shows as a short read list instead of a
// reader that waits forever (which only a wall-clock watchdog could end, inconclusively). It is compressible so that
// it never takes the stored-block path.
func sentinel(side int) []byte {
	return append([]byte(fmt.Sprintf("C13-SENTINEL-side-%d-", side)), bytes.Repeat([]byte("z"), 44)...)
}

// exchange runs all writers and one reader per side. It appends the sentinel as one more single-message writer to
// p[side]; the reader of the other side reads until a message ends with the sentinel. wd is a wall-clock watchdog
// against hangs only - its firing is inconclusive. After the first error both transports are closed so that nobody
// waits for data that will never come.
func exchange(tr [2]transport.Transport, p *plan, rng *rand.Rand, wd time.Duration) *exchangeResult {
	res := &exchangeResult{}
	var mu sync.Mutex
	var wg sync.WaitGroup
	var once sync.Once
	fail := func(kind string, side int, err error, at string) {
		mu.Lock()
		res.fails = append(res.fails, failure{kind, side, err, at})
		mu.Unlock()
		once.Do(func() {
			go func() {
				tr[0].Close()
				tr[1].Close()
			}()
		})
	}
	onPanic := func(who string) {
		if r := recover(); r != nil {
			mu.Lock()
			res.panics = append(res.panics, fmt.Sprintf("%s: %v\n%s", who, r, debug.Stack()))
			mu.Unlock()
			fail("panic", 0, fmt.Errorf("%v", r), who)
		}
	}
	var dataTotal [2]int
	for side := 0; side < 2; side++ {
		dataTotal[side] = p.total(side)
	}
	for side := 0; side < 2; side++ {
		side := side
		stop := sentinel(1 - side)
		limit := 2*dataTotal[1-side] + 8
		wg.Add(1)
		go func() {
			defer wg.Done()
			defer onPanic(fmt.Sprintf("reader side %d", side))
			for i := 0; i < limit; i++ {
				m, err := tr[side].Read()
				if err != nil {
					fail("read", side, err, fmt.Sprintf("read #%d (%d data messages were written)", i, dataTotal[1-side]))
					return
				}
				cp := append([]byte{}, m...)
				mu.Lock()
				res.reads[side] = append(res.reads[side], cp)
				mu.Unlock()
				if bytes.HasSuffix(cp, stop) {
					return
				}
			}
		}()
		var dataWriters sync.WaitGroup
		var writeFailed atomic.Bool
		for w := range p[side] {
			w := w
			yield := rng.Intn(3) == 0
			wg.Add(1)
			dataWriters.Add(1)
			go func() {
				defer wg.Done()
				defer dataWriters.Done()
				defer onPanic(fmt.Sprintf("writer side %d #%d", side, w))
				for i, m := range p[side][w] {
					if err := tr[side].Write(m.Data); err != nil {
						writeFailed.Store(true)
						fail("write", side, err, fmt.Sprintf("writer %d message %d (%d bytes, class %s)", w, i, len(m.Data), m.Class))
						return
					}
					if yield {
						runtime.Gosched()
					}
				}
			}()
		}
		sm := sentMsg{Data: sentinel(side), Class: "sentinel", Kind: 1}
		p[side] = append(p[side], []sentMsg{sm})
		wg.Add(1)
		go func() {
			defer wg.Done()
			defer onPanic(fmt.Sprintf("sentinel writer side %d", side))
			dataWriters.Wait()
			if writeFailed.Load() {
				return
			}
			if err := tr[side].Write(sm.Data); err != nil {
				fail("write", side, err, "sentinel")
			}
		}()
	}
	ok, dump := vrun.Watchdog(wd, wg.Wait)
	mu.Lock() // readers/writers may still be running after a watchdog: take a consistent snapshot
	defer mu.Unlock()
	cp := *res
	if !ok {
		cp.hung, cp.dump = true, dump
	}
	for i := range cp.reads {
		cp.reads[i] = append([][]byte(nil), res.reads[i]...)
	}
	cp.fails = append([]failure(nil), res.fails...)
	return &cp
}

// ------------------------------------------------------------------------------------------------
// oracle
// ------------------------------------------------------------------------------------------------

type digest [32]byte

func dg(b []byte) digest { return sha256.Sum256(b) }

type finding struct {
	clause  string
	key     string
	witness map[string]any
}

func head(b []byte) string {
	if len(b) > 48 {
		return fmt.Sprintf("%x...(%d bytes)", b[:48], len(b))
	}
	return fmt.Sprintf("%x", b)
}

func firstDiff(a, b []byte) int {
	n := len(a)
	if len(b) < n {
		n = len(b)
	}
	for i := 0; i < n; i++ {
		if a[i] != b[i] {
			return i
		}
	}
	if len(a) != len(b) {
		return n
	}
	return -1
}

// checkInterleaving decides whether recv is an order-preserving merge of the per-writer sequences (set-of-states
// simulation, exact also when different writers send identical messages).
func checkInterleaving(recv [][]byte, sent [][]sentMsg) (failAt int, states int) {
	type st [10]uint16
	sd := make([][]digest, len(sent))
	for w := range sent {
		for _, m := range sent[w] {
			sd[w] = append(sd[w], dg(m.Data))
		}
	}
	cur := map[st]struct{}{{}: {}}
	maxStates := 1
	for i, r := range recv {
		d := dg(r)
		nxt := map[st]struct{}{}
		for s := range cur {
			for w := range sd {
				if int(s[w]) < len(sd[w]) && sd[w][s[w]] == d {
					n := s
					n[w]++
					nxt[n] = struct{}{}
				}
			}
		}
		if len(nxt) == 0 {
			return i, maxStates
		}
		if len(nxt) > maxStates {
			maxStates = len(nxt)
		}
		cur = nxt
	}
	return -1, maxStates
}

// classifyBadRead explains a received message that does not fit the per-writer order.
func classifyBadRead(r []byte, sent [][]sentMsg, prev [][]byte) (what string, extra map[string]any) {
	d := dg(r)
	var all []sentMsg
	for _, w := range sent {
		all = append(all, w...)
	}
	for _, m := range all {
		if dg(m.Data) == d {
			return "order", map[string]any{"tag": parseTag(r)}
		}
	}
	// dictionary prepended: <tail of the bytes delivered before> + <a sent message>
	for _, a := range all {
		k := len(r) - len(a.Data)
		if k > 0 && bytes.Equal(r[k:], a.Data) {
			var tail []byte
			for i := len(prev) - 1; i >= 0 && len(tail) < k; i-- {
				tail = append(append([]byte{}, prev[i]...), tail...)
			}
			if len(tail) >= k && bytes.Equal(tail[len(tail)-k:], r[:k]) {
				return "dictionary-prepended", map[string]any{"message": parseTag(a.Data), "message_kind": kindNames[a.Kind], "message_len": len(a.Data), "prepended_bytes": k,
					"note": "the prepended bytes are exactly the last bytes of the messages delivered before, i.e. the sliding dictionary"}
			}
		}
	}
	// glued: concatenation of two sent messages
	for _, a := range all {
		if len(a.Data) <= len(r) && bytes.Equal(r[:len(a.Data)], a.Data) {
			restd := dg(r[len(a.Data):])
			for _, b := range all {
				if len(b.Data) > 0 && len(a.Data) > 0 && dg(b.Data) == restd {
					return "glued", map[string]any{"first": parseTag(a.Data), "second": parseTag(b.Data)}
				}
			}
		}
	}
	// split: a proper, non-empty part of a sent message
	for _, a := range all {
		if len(r) > 0 && len(r) < len(a.Data) && (bytes.HasPrefix(a.Data, r) || bytes.HasSuffix(a.Data, r)) {
			return "split", map[string]any{"of": parseTag(a.Data)}
		}
	}
	// same tag, other bytes
	ti := parseTag(r)
	for _, a := range all {
		ta := parseTag(a.Data)
		if ti.OK && ta.OK && ti.Side == ta.Side && ti.Writer == ta.Writer && ti.Counter == ta.Counter {
			return "bytes", map[string]any{"tag": ti, "sent_len": len(a.Data), "first_diff_at": firstDiff(r, a.Data), "sent_head": head(a.Data)}
		}
	}
	return "bytes", map[string]any{"tag": ti}
}

// direction bundles what the oracle needs for the messages flowing from side `from` to the other side.
type direction struct {
	from      int
	sent      [][]sentMsg // per writer
	recv      [][]byte    // what the peer's Read returned
	frames    [][]byte    // frames seen by the tap, in wire order (nil when this direction has no tap)
	haveTap   bool
	framedLen uint64 // bytes that crossed the tap for this direction, including any length prefixes
	tapErr    error  // the raw stream could not be cut into frames
	tx, rx    uint64 // counters: sender's Tx, receiver's Rx
	haveTx    bool
	haveRx    bool
}

type obs struct {
	messages, bytes, frames, frameBytes int64
	compressedFrames                    int64 // frames that differ from their payload
	needDict, trailing                  int64
	maxStates                           int
}

// judgeDirection applies every clause of the property to one direction. prefix identifies transport and mode.
func judgeDirection(prefix string, d *direction, eff string, wbits int, concurrent bool) (*finding, obs) {
	var o obs
	cc := ""
	if concurrent {
		cc = ":concurrent-writers"
	}
	nSent := 0
	for _, w := range d.sent {
		nSent += len(w)
		for _, m := range w {
			o.bytes += int64(len(m.Data))
		}
	}
	o.messages = int64(len(d.recv))
	base := map[string]any{"direction": fmt.Sprintf("side %d -> side %d", d.from, 1-d.from), "messages_sent": nSent, "messages_read": len(d.recv)}
	wit := func(kv ...any) map[string]any {
		m := map[string]any{}
		for k, v := range base {
			m[k] = v
		}
		for i := 0; i+1 < len(kv); i += 2 {
			m[kv[i].(string)] = kv[i+1]
		}
		return m
	}
	// (1) boundaries, bytes, order at the peer's Read
	failAt, states := checkInterleaving(d.recv, d.sent)
	o.maxStates = states
	if failAt >= 0 {
		what, extra := classifyBadRead(d.recv[failAt], d.sent, d.recv[:failAt])
		if what == "dictionary-prepended" {
			// one defect, one key: it does not depend on the Conn implementation or on concurrency
			return &finding{"peer Read returned the sliding dictionary followed by the message instead of the message (context takeover)",
				"websocket:" + eff + ":peer-read-dictionary-prepended", wit("via", prefix, "read_index", failAt, "read_head", head(d.recv[failAt]), "read_len", len(d.recv[failAt]), "detail", extra)}, o
		}
		clause := map[string]string{
			"order": "peer Read skipped a message of a writer, returned one twice, or changed the order within one writer",
			"glued": "peer Read returned two messages glued together",
			"split": "peer Read returned a part of a message",
			"bytes": "peer Read returned a byte string that was never written",
		}[what]
		return &finding{clause, prefix + ":peer-read-" + map[string]string{"order": "order-or-loss", "glued": "glued", "split": "split", "bytes": "bytes"}[what] + cc, wit("read_index", failAt, "read_head", head(d.recv[failAt]), "read_len", len(d.recv[failAt]), "detail", extra)}, o
	}
	if len(d.recv) != nSent {
		return &finding{"peer Read returned fewer messages than were written", prefix + ":peer-read-count" + cc, wit()}, o
	}
	// (2) frames decodable by the independent decoder, one frame per message, reproducing what Read returned
	if d.haveTap {
		if d.tapErr != nil {
			return &finding{"the raw stream cannot be cut into length-prefixed frames", prefix + ":frames-not-framed" + cc, wit("error", d.tapErr.Error())}, o
		}
		o.frames = int64(len(d.frames))
		if len(d.frames) != nSent {
			return &finding{"number of frames on the wire differs from the number of messages written", prefix + ":frame-count" + cc, wit("frames", len(d.frames))}, o
		}
		dec := newIndepDecoder(eff, wbits)
		for i, f := range d.frames {
			o.frameBytes += int64(len(f))
			out, err := dec.decode(f)
			if err != nil {
				return &finding{"a frame on the wire is not decodable by the independent decoder of the documented framing",
					prefix + ":frame-undecodable" + cc, wit("frame_index", i, "frame_len", len(f), "frame_head", head(f), "error", err.Error(), "peer_read", parseTag(d.recv[i]), "dictionary_len", len(dec.window))}, o
			}
			if !bytes.Equal(out, d.recv[i]) {
				return &finding{"the independent decoder reproduces different bytes from the frame than the peer's Read returned",
					prefix + ":frame-decodes-differently" + cc, wit("frame_index", i, "frame_len", len(f), "decoded_len", len(out), "read_len", len(d.recv[i]),
						"first_diff_at", firstDiff(out, d.recv[i]), "decoded_head", head(out), "read_head", head(d.recv[i]), "peer_read", parseTag(d.recv[i]))}, o
			}
			if !bytes.Equal(f, out) {
				o.compressedFrames++
			}
		}
		o.needDict, o.trailing = int64(dec.needDict), int64(dec.trailing)
		// (3) counters equal the bytes actually framed
		if d.haveTx && d.tx != d.framedLen {
			return &finding{"TxBytesCounterValue differs from the bytes actually framed", prefix + ":tx-counter" + cc,
				wit("tx_counter", d.tx, "framed_bytes", d.framedLen, "payload_bytes", o.bytes)}, o
		}
		if d.haveRx && d.rx != d.framedLen {
			return &finding{"RxBytesCounterValue differs from the bytes actually framed", prefix + ":rx-counter" + cc,
				wit("rx_counter", d.rx, "framed_bytes", d.framedLen, "payload_bytes", o.bytes)}, o
		}
	} else if d.haveTx && d.haveRx && d.tx != d.rx {
		// without a tap the only thing both counters can be compared with is each other
		return &finding{"sender's TxBytesCounterValue differs from the receiver's RxBytesCounterValue on a loss-free link", prefix + ":tx-rx-counter-mismatch" + cc,
			wit("tx_counter", d.tx, "rx_counter", d.rx, "payload_bytes", o.bytes)}, o
	}
	return nil, o
}

func (o *obs) add(p obs) {
	o.messages += p.messages
	o.bytes += p.bytes
	o.frames += p.frames
	o.frameBytes += p.frameBytes
	o.compressedFrames += p.compressedFrames
	o.needDict += p.needDict
	o.trailing += p.trailing
	if p.maxStates > o.maxStates {
		o.maxStates = p.maxStates
	}
}

func (o *obs) into(res *vrun.Result) {
	res.Stat("messages_read_and_compared", o.messages)
	res.Stat("payload_bytes", o.bytes)
	res.Stat("frames_decoded_independently", o.frames)
	res.Stat("frame_bytes", o.frameBytes)
	res.Stat("frames_differing_from_payload", o.compressedFrames)
	res.Stat("frames_needing_the_dictionary", o.needDict)
	res.Stat("frames_with_trailing_bytes", o.trailing)
}

// rootCauses: error texts that identify a defect by themselves. When one of them occurs among the failures of a case
// it is the one reported (the other errors are consequences of the connection having been closed by it).
var rootCauses = []struct{ phrase, slug string }{
	{"previous message not read to completion", "previous-message-not-read-to-completion"},
	{"read limited at", "backend-read-limit"},
}

func rootCauseOf(err error) string {
	for _, rc := range rootCauses {
		if strings.Contains(err.Error(), rc.phrase) {
			return rc.slug
		}
	}
	return ""
}

// errIsEnvironmental: errors of real sockets that stem from wall-clock timeouts of the network stack.
func errIsEnvironmental(err error) bool {
	if err == nil {
		return false
	}
	s := strings.ToLower(err.Error())
	for _, k := range []string{"timeout", "deadline", "no recent network activity", "too many open files", "address already in use", "cannot assign requested address"} {
		if strings.Contains(s, k) {
			return true
		}
	}
	return false
}

// sizeClasses returns the sorted distinct size classes of a plan (for signatures).
func classesOf(p *plan) []string {
	seen := map[string]bool{}
	var out []string
	for s := 0; s < 2; s++ {
		for _, w := range p[s] {
			for _, m := range w {
				c := m.Class + "/" + kindNames[m.Kind]
				if !seen[c] {
					seen[c] = true
					out = append(out, c)
				}
			}
		}
	}
	return out
}

// makePlan generates both sides' writers. writers[s] = number of writers of side s; per = messages per writer.
func makePlan(rng *rand.Rand, wbits int, big int, writers [2]int, perMin, perMax int, bigProb float64) *plan {
	var p plan
	for s := 0; s < 2; s++ {
		bigWriter := -1
		if rng.Float64() < bigProb {
			bigWriter = rng.Intn(writers[s])
		}
		for w := 0; w < writers[s]; w++ {
			g := newGen(rand.New(rand.NewSource(rng.Int63())), s, w, wbits, big, writers[s] == 1)
			n := perMin + rng.Intn(perMax-perMin+1)
			bigAt := -1
			if w == bigWriter {
				bigAt = rng.Intn(n)
			}
			var ms []sentMsg
			for i := 0; i < n; i++ {
				m, class, kind := g.next(i == bigAt)
				ms = append(ms, sentMsg{m, class, kind})
			}
			p[s] = append(p[s], ms)
		}
	}
	return &p
}
