//go:build nhooyr

package c13

import (
	"testing"

	_ "github.com/aptpod/iscp-go/transport/websocket/nhooyr" // as wire/enable_nhooyr.go does with -tags nhooyr
)

// TestC13BackendNhooyr: -tags nhooyr. nhooyr.io/websocket serialises writers like coder. The accepting side speaks
// gorilla/websocket.
func TestC13BackendNhooyr(t *testing.T) {
	runBackendWorkload(t, "TestC13BackendNhooyr", "nhooyr", "gorilla", true, false)
}
