package c13

import (
	"fmt"
	"sort"
	"strings"
	"testing"
	"time"

	"github.com/aptpod/iscp-go/transport"
	tws "github.com/aptpod/iscp-go/transport/websocket"

	"verif/harness/vrun"
)

type gridPoint struct {
	Mode  string `json:"mode"`
	Level int    `json:"level"`
	WBits int    `json:"window_bits"`
}

func gridPoints(thorough bool) []gridPoint {
	wb := []int{0, 1, 8, 9, 15, 16, 32}
	if thorough {
		wb = wb[:0]
		for i := 0; i <= 32; i++ {
			wb = append(wb, i)
		}
	}
	var g []gridPoint
	for _, m := range allModes {
		for l := 0; l <= 9; l++ {
			for _, w := range wb {
				g = append(g, gridPoint{m, l, w})
			}
		}
	}
	return g
}

type caseDesc struct {
	Transport string    `json:"transport"`
	Grid      gridPoint `json:"grid"`
	Effective string    `json:"effective_mode"`
	Variant   string    `json:"variant"`
	Writers   [2]int    `json:"writers_per_side"`
	Messages  [2]int    `json:"messages_per_side"`
	Sizes     [2][]int  `json:"first_sizes_per_side"`
	Classes   []string  `json:"size_class/content"`
}

func describe(tr string, gp gridPoint, variant string, p *plan) caseDesc {
	d := caseDesc{Transport: tr, Grid: gp, Effective: effectiveMode(gp.Mode, gp.Level), Variant: variant}
	for s := 0; s < 2; s++ {
		d.Writers[s] = len(p[s])
		d.Messages[s] = p.total(s)
		for _, w := range p[s] {
			for _, m := range w {
				if len(d.Sizes[s]) < 24 {
					d.Sizes[s] = append(d.Sizes[s], len(m.Data))
				}
			}
		}
	}
	d.Classes = classesOf(p)
	sort.Strings(d.Classes)
	return d
}

// TestC13MemGrid: part (a). Two library WebSocket transports on the ends of an in-memory websocket.Conn pair.
func TestC13MemGrid(t *testing.T) {
	env := vrun.LoadEnv()
	grid := gridPoints(env.Thorough())
	variants := env.Pick(6, 16)
	meta := vrun.Meta{
		Property: "C13", Workload: "TestC13MemGrid", Total: len(grid) * variants, Exhaustive: env.Thorough(),
		Rule: "case = (grid point, variant). Grid = every mode {off, per-message, context-takeover} x level 0..9 x windowBits " +
			"(quick {0,1,8,9,15,16,32}; thorough 0..32, enumerated completely - the message sequences are sampled). Even variants: one writer per side; " +
			"odd variants: 1-8 concurrent writers per side. Each writer sends a generated sequence with sizes around 0, 1, 2, 2^windowBits+-1, 32/64 KiB+-1 and, in some cases, " +
			"1 MiB (quick) / 4 MiB (thorough), with random, repeated-pattern, text, zero and 'echo' content (a copy of earlier bytes taken just inside/outside the oldest edge of the window). " +
			"Non-trivial: both directions delivered every message, the tap saw as many frames as messages, and for a compressing grid point at least one frame differs from its payload. " +
			"Distinct: grid point x variant x set of (size class, content kind) used.",
		Assumptions: []string{
			"Documented framing (taken from transport/websocket/transport.go, the only place that documents it): off = raw payload per WebSocket message; per-message = one raw DEFLATE stream per message; context takeover = raw DEFLATE with a preset dictionary equal to the previously sent uncompressed bytes cut to the last 2^windowBits bytes after each message. compress/flate itself looks back at most 32 KiB, on both sides.",
			"Mode 'off' means compression was not negotiated (no type, no level); level 0 with a type also means off (transport/negotiation.go). The local base compress.Config of each side is filled with unrelated values: negotiated parameters decide.",
			"'Bytes actually framed' = bytes handed to the WebSocket message writer (compressed size when compressing); WebSocket's own frame headers are the backend's business and are not counted by the library.",
			"The in-memory Conn serialises Writer() until the previous writer is closed, as the default (coder) backend documents.",
			"With concurrent writers order is judged per writer; a Read result is compared with the frame at the same position of the wire order.",
		},
	}
	vrun.Loop(t, meta, 0, func(c *vrun.Case) vrun.Result {
		gp := grid[c.Index/variants]
		variant := c.Index % variants
		return runMemCase(c, gp, variant)
	})
}

func runMemCase(c *vrun.Case, gp gridPoint, variant int) vrun.Result {
	rng := c.Rng
	big := 1 << 20
	bigProb := 0.10
	if c.Env.Thorough() {
		big = 4 << 20
		bigProb = 0.08
	}
	var writers [2]int
	perMin, perMax := 10, 18
	vname := "single-writer"
	if variant%2 == 1 {
		writers = [2]int{1 + rng.Intn(8), 1 + rng.Intn(8)}
		perMin, perMax = 3, 8
		vname = "concurrent-writers"
	} else {
		writers = [2]int{1, 1}
	}
	p := makePlan(rng, gp.WBits, big, writers, perMin, perMax, bigProb)
	return runMemPlan(c, gp, p, writers, vname)
}

// runMemPlan sends the plan over a pair of websocket transports on the in-memory Conn and judges both directions.
func runMemPlan(c *vrun.Case, gp gridPoint, p *plan, writers [2]int, vname string) vrun.Result {
	rng := c.Rng
	eff := effectiveMode(gp.Mode, gp.Level)

	ca, cb, ab, ba := newMemPair(rng)
	np := negotiated(gp.Mode, gp.Level, gp.WBits)
	ta := tws.New(tws.Config{Conn: ca, CompressConfig: junkBase(rng, gp.Level, gp.WBits, 0), NegotiationParams: tws.NegotiationParams{NegotiationParams: np}})
	tb := tws.New(tws.Config{Conn: cb, CompressConfig: junkBase(rng, gp.Level, gp.WBits, 1), NegotiationParams: tws.NegotiationParams{NegotiationParams: np}})
	defer ta.Close()
	defer tb.Close()

	desc := describe("websocket/in-memory", gp, vname, p)
	prefix := "ws-mem:" + eff
	concurrent := writers[0] > 1 || writers[1] > 1

	ex := exchange([2]transport.Transport{ta, tb}, p, rng, 5*time.Minute)
	if r, done := exchangeFailures(ex, prefix, concurrent, false, desc); done {
		return r
	}
	pipes := [2]*memPipe{ab, ba} // pipes[s] carries what side s sent
	trs := [2]*tws.Transport{ta, tb}
	var total obs
	var undrainedTotal int64
	for s := 0; s < 2; s++ {
		frames, fbytes, nonBinary, undrained := pipes[s].snapshot()
		undrainedTotal += int64(undrained)
		if nonBinary > 0 {
			r := vrun.Violation("a message was sent with a WebSocket message type other than binary", prefix+":non-binary-message", map[string]any{"count": nonBinary})
			r.Desc = desc
			return r
		}
		d := &direction{from: s, sent: p[s], recv: ex.reads[1-s], frames: frames, haveTap: true, framedLen: fbytes,
			tx: trs[s].TxBytesCounterValue(), rx: trs[1-s].RxBytesCounterValue(), haveTx: true, haveRx: true}
		f, o := judgeDirection(prefix, d, eff, gp.WBits, concurrent)
		total.add(o)
		if f != nil {
			f.witness["case"] = desc
			r := vrun.Violation(f.clause, f.key, f.witness)
			r.Desc = desc
			return r
		}
	}
	// mode really in force?
	nontrivial := total.messages > 0 && total.frames == total.messages
	if eff == modeOff && total.compressedFrames != 0 {
		r := vrun.Violation("frames differ from the payload although compression is off", prefix+":compressed-while-off", map[string]any{"case": desc})
		r.Desc = desc
		return r
	}
	if eff != modeOff && total.compressedFrames == 0 {
		nontrivial = false
	}
	sig := fmt.Sprintf("%s/%d/%d/%s/%s", gp.Mode, gp.Level, gp.WBits, vname, strings.Join(desc.Classes, ","))
	res := vrun.Hold(sig, nontrivial)
	res.Desc = desc
	total.into(&res)
	res.Stat("max_merge_states", int64(total.maxStates))
	res.Stat("messages_whose_reader_the_library_abandoned_before_EOF", undrainedTotal)
	res.AddSet("grid_points", fmt.Sprintf("%s/l%d/w%d", gp.Mode, gp.Level, gp.WBits))
	res.AddSet("effective_modes", eff)
	res.AddSet("writers_per_side", fmt.Sprint(writers[0]), fmt.Sprint(writers[1]))
	res.AddSet("size_class/content", desc.Classes...)
	if total.needDict > 0 {
		res.AddSet("context_takeover_points_where_the_dictionary_mattered", fmt.Sprintf("l%d/w%d", gp.Level, gp.WBits))
	}
	return res
}

// exchangeFailures turns driver-level failures into results. realSocket: errors that smell of wall-clock timeouts
// are inconclusive there.
func exchangeFailures(ex *exchangeResult, prefix string, concurrent, realSocket bool, desc any) (vrun.Result, bool) {
	cc := ""
	if concurrent {
		cc = ":concurrent-writers"
	}
	mk := func(r vrun.Result) (vrun.Result, bool) {
		r.Desc = desc
		return r, true
	}
	if len(ex.panics) > 0 {
		st := ex.panics[0]
		return mk(vrun.Violation("panic inside Transport.Read/Write", prefix+":panic:"+vrun.PanicSite(st)+cc, map[string]any{"panic": st[:min(len(st), 6000)], "case": desc}))
	}
	var pick *failure
	for i := range ex.fails {
		f := &ex.fails[i]
		if f.kind == "panic" {
			continue
		}
		if pick == nil {
			pick = f
		}
		if rootCauseOf(f.err) != "" {
			pick = f
			break
		}
	}
	if pick != nil {
		err := pick.err
		var all []string
		for _, f := range ex.fails {
			all = append(all, fmt.Sprintf("%s side %d at %s: %v", f.kind, f.side, f.at, f.err))
		}
		if slug := rootCauseOf(err); slug != "" {
			// one defect, one key: independent of mode and concurrency
			tr := strings.SplitN(prefix, ":", 2)[0]
			if slug == "previous-message-not-read-to-completion" {
				tr = "websocket" // the transport does not drain the message reader; which backends mind is in the witness ("via")
			}
			return mk(vrun.Violation("peer Read failed on a healthy link: "+err.Error(), tr+":"+pick.kind+"-error:"+slug,
				map[string]any{"side": pick.side, "at": pick.at, "error": err.Error(), "all_errors": all, "via": prefix, "case": desc}))
		}
		if strings.Contains(err.Error(), "independent decoder:") {
			return mk(vrun.Violation("a frame on the wire is not decodable by the independent decoder of the documented framing", prefix+":frame-undecodable"+cc,
				map[string]any{"side": pick.side, "at": pick.at, "error": err.Error(), "case": desc}))
		}
		if realSocket && errIsEnvironmental(err) {
			return mk(vrun.Inconcl(pick.kind + " error of environmental kind: " + err.Error()))
		}
		if pick.kind == "write" {
			return mk(vrun.Violation("Transport.Write failed on a healthy link", prefix+":write-error"+cc, map[string]any{"side": pick.side, "at": pick.at, "error": err.Error(), "all_errors": all, "case": desc}))
		}
		return mk(vrun.Violation("peer Read failed although the link is healthy and every earlier message was written successfully", prefix+":read-error"+cc,
			map[string]any{"side": pick.side, "at": pick.at, "error": err.Error(), "all_errors": all, "case": desc}))
	}
	if ex.hung {
		return mk(vrun.Inconcl("wall-clock watchdog fired during the exchange; dump head: " + ex.dump[:min(len(ex.dump), 1500)]))
	}
	return vrun.Result{}, false
}

// TestC13StoredBlock: message sequences aimed at the encoder's second path - a message that compress/flate would emit
// as a stored block together with the preset dictionary is encoded again without dictionary (seeded change C13-7: that
// path recorded the message in the sender's window a second time). Such a message is incompressible and follows a
// SHORT history; what tells a wrong sender window from a right one is a later message that repeats bytes sent BEFORE it.
// Every sequence is: 1-4 tiny messages (history of 1-60 bytes), random noise of 40-6000 bytes, the tiny messages again
// (one by one and glued together), more noise, the history once more, a text message.
func TestC13StoredBlock(t *testing.T) {
	env := vrun.LoadEnv()
	var grid []gridPoint
	for level := 1; level <= 9; level++ {
		for _, wb := range []int{8, 9, 10, 12, 13, 15, 16, 20, 32} {
			grid = append(grid, gridPoint{Mode: modeCT, Level: level, WBits: wb})
		}
	}
	variants := env.Pick(5, 40)
	meta := vrun.Meta{
		Property: "C13", Workload: "TestC13StoredBlock", Total: len(grid) * variants,
		Rule: "case = (context takeover, level 1..9, windowBits {8,9,10,12,13,15,16,20,32}, variant); one writer per side sends: 1-4 tiny messages (1-60 bytes of history in all), " +
			"40-6000 random bytes, each tiny message again, all of them glued together (plus 0-5 fresh bytes), 40-6000 random bytes, the glued history again, a text message - " +
			"incompressible messages behind a short dictionary take the encoder's re-encode path, and the repeats refer back across them. Judged like TestC13MemGrid " +
			"(peer reads, independent decoder of the documented framing on the tapped frames, counters). Non-trivial: everything delivered, one frame per message, some frame compressed. Distinct: grid point x (history bytes, noise bytes).",
	}
	vrun.Loop(t, meta, 0, func(c *vrun.Case) vrun.Result {
		gp := grid[c.Index/variants]
		rng := c.Rng
		var p plan
		sig := ""
		for s := 0; s < 2; s++ {
			var ms []sentMsg
			add := func(b []byte, class string, kind int) { ms = append(ms, sentMsg{append([]byte(nil), b...), class, kind}) }
			k := 1 + rng.Intn(4)
			budget := 1 + rng.Intn(60)
			var tiny [][]byte
			var hist []byte
			for i := 0; i < k && budget > 0; i++ {
				n := 1 + rng.Intn(min(budget, 14))
				b := make([]byte, n)
				for j := range b {
					b[j] = "abcdefghijklmnopqrstuvwxyz0123456789#-_/"[rng.Intn(40)]
				}
				budget -= n
				tiny = append(tiny, b)
				hist = append(hist, b...)
				add(b, "tiny", 2)
			}
			noise := func() []byte {
				n := 40 + rng.Intn(400)
				if rng.Intn(3) == 0 {
					n = 400 + rng.Intn(5600)
				}
				b := make([]byte, n)
				rng.Read(b)
				return b
			}
			n1 := noise()
			add(n1, "noise", 0)
			for _, b := range tiny {
				add(b, "tiny-again", 3)
			}
			glued := append([]byte(nil), hist...)
			for j := rng.Intn(6); j > 0; j-- {
				glued = append(glued, byte('A'+rng.Intn(26)))
			}
			add(glued, "history-again", 3)
			n2 := noise()
			add(n2, "noise", 0)
			add(hist, "history-again", 3)
			add([]byte("iscp upstream downstream chunk data point ack metadata "+string(hist)), "text", 2)
			p[s] = [][]sentMsg{ms}
			sig += fmt.Sprintf("/h%d/n%d", len(hist), len(n1))
		}
		r := runMemPlan(c, gp, &p, [2]int{1, 1}, "stored-block-sequence")
		if r.Verdict == vrun.Held {
			r.Sig = fmt.Sprintf("%d/%d%s", gp.Level, gp.WBits, sig)
		}
		return r
	})
}
