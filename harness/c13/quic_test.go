package c13

// Part (c): QUIC and WebTransport over loopback UDP with an ephemeral self-signed certificate.

import (
	"bytes"
	"compress/flate"
	"context"
	"crypto/ecdsa"
	"crypto/elliptic"
	crand "crypto/rand"
	"crypto/tls"
	"crypto/x509"
	"crypto/x509/pkix"
	"encoding/binary"
	"fmt"
	"io"
	"math/big"
	"net"
	"net/http"
	"sync"
	"sync/atomic"
	"testing"
	"time"

	"github.com/aptpod/iscp-go/transport"
	"github.com/aptpod/iscp-go/transport/compress"
	tquic "github.com/aptpod/iscp-go/transport/quic"
	twt "github.com/aptpod/iscp-go/transport/webtransport"
	quic "github.com/quic-go/quic-go"
	"github.com/quic-go/quic-go/http3"
	wt "github.com/quic-go/webtransport-go"

	"verif/harness/vrun"
)

var (
	certOnce  sync.Once
	srvTLS    *tls.Config
	clientTLS *tls.Config
)

func ephemeralTLS() (server, client *tls.Config) {
	certOnce.Do(func() {
		key, err := ecdsa.GenerateKey(elliptic.P256(), crand.Reader)
		if err != nil {
			panic(err)
		}
		tmpl := &x509.Certificate{
			SerialNumber: big.NewInt(13), Subject: pkix.Name{CommonName: "c13.local"},
			NotBefore: time.Now().Add(-time.Hour), NotAfter: time.Now().Add(48 * time.Hour),
			KeyUsage: x509.KeyUsageDigitalSignature | x509.KeyUsageCertSign, ExtKeyUsage: []x509.ExtKeyUsage{x509.ExtKeyUsageServerAuth},
			BasicConstraintsValid: true, IsCA: true,
			DNSNames: []string{"localhost"}, IPAddresses: []net.IP{net.IPv4(127, 0, 0, 1)},
		}
		der, err := x509.CreateCertificate(crand.Reader, tmpl, tmpl, &key.PublicKey, key)
		if err != nil {
			panic(err)
		}
		leaf, _ := x509.ParseCertificate(der)
		pool := x509.NewCertPool()
		pool.AddCert(leaf)
		srvTLS = &tls.Config{Certificates: []tls.Certificate{{Certificate: [][]byte{der}, PrivateKey: key, Leaf: leaf}}}
		clientTLS = &tls.Config{RootCAs: pool, ServerName: "localhost"}
	})
	return srvTLS.Clone(), clientTLS.Clone()
}

// ---- raw-stream tap around a quic.Connection (accepting side)

type streamTap struct {
	mu       sync.Mutex
	sent     bytes.Buffer // bytes written to our outgoing unidirectional stream
	received bytes.Buffer // bytes read from the peer's unidirectional stream
}

type tapQConn struct {
	quic.Connection
	tap *streamTap
}

type tapSend struct {
	quic.SendStream
	tap *streamTap
}

func (s *tapSend) Write(p []byte) (int, error) {
	s.tap.mu.Lock() // order of records = order of writes on the stream
	defer s.tap.mu.Unlock()
	n, err := s.SendStream.Write(p)
	s.tap.sent.Write(p[:n])
	return n, err
}

type tapRecv struct {
	quic.ReceiveStream
	tap *streamTap
}

func (s *tapRecv) Read(p []byte) (int, error) {
	n, err := s.ReceiveStream.Read(p)
	s.tap.mu.Lock()
	s.tap.received.Write(p[:n])
	s.tap.mu.Unlock()
	return n, err
}

func (c *tapQConn) OpenUniStream() (quic.SendStream, error) {
	s, err := c.Connection.OpenUniStream()
	if err != nil {
		return nil, err
	}
	return &tapSend{s, c.tap}, nil
}

func (c *tapQConn) OpenUniStreamSync(ctx context.Context) (quic.SendStream, error) {
	s, err := c.Connection.OpenUniStreamSync(ctx)
	if err != nil {
		return nil, err
	}
	return &tapSend{s, c.tap}, nil
}

func (c *tapQConn) AcceptUniStream(ctx context.Context) (quic.ReceiveStream, error) {
	s, err := c.Connection.AcceptUniStream(ctx)
	if err != nil {
		return nil, err
	}
	return &tapRecv{s, c.tap}, nil
}

type streamPoint struct {
	Type  compress.Type
	Level int
}

func streamGrid() []streamPoint {
	var g []streamPoint
	for _, tp := range []compress.Type{compress.TypePerMessage, compress.TypeContextTakeOver} {
		for l := 0; l <= 9; l++ {
			g = append(g, streamPoint{tp, l})
		}
	}
	return g
}

var streamAssumptions = []string{
	"Documented framing of the QUIC/WebTransport transports (transport/quic/transport.go, transport/webtransport/transport.go): one unidirectional stream per direction, each message = 4-byte big-endian length + that many bytes, which are the message itself or, when a level > 0 was negotiated, one raw DEFLATE stream of it. These transports implement no context takeover: a negotiated 'context-takeover' is carried out per message on both ends, and that is what the decoder expects.",
	"'Bytes actually framed' = the bytes written to / read from the stream, length prefixes included. Datagrams are not used.",
	"Through the library's Dialers compression can only be switched off by level 0 (the dialled parameters always name a type and a level).",
	"A watchdog firing, and errors naming a timeout/deadline/idle connection, are inconclusive on real sockets.",
}

// TestC13QUIC: library QUIC transport on both ends (tquic.Dialer on the dialing side incl. its negotiation stream;
// tquic.New over the accepted connection on the other), raw-stream tap on the accepting side.
func TestC13QUIC(t *testing.T) {
	env := vrun.LoadEnv()
	grid := streamGrid()
	variants := env.Pick(4, 20)
	meta := vrun.Meta{
		Property: "C13", Workload: "TestC13QUIC", Total: len(grid) * variants,
		Rule: "case = (type {per-message, context-takeover} x level 0..9, variant) over loopback UDP, one QUIC connection per case, ephemeral self-signed certificate. Even variants: one writer per side; odd: 1-8 " +
			"concurrent writers per side (every fourth variant: both ends also send datagrams through the transport's unreliable side meanwhile). Message sequences as in TestC13MemGrid (window bits drawn per case; big = 1 MiB quick / 4 MiB thorough). The accepting side's quic.Connection is wrapped so that " +
			"the raw bytes of both unidirectional streams are kept; the independent decoder cuts them at the length prefixes and inflates each frame. " +
			"Non-trivial: all messages delivered both ways, frames cut = messages, and for level > 0 at least one frame differs from its payload (compression really negotiated). Distinct: grid point x variant x size/content classes.",
		Assumptions: streamAssumptions,
	}
	vrun.Loop(t, meta, 0, func(c *vrun.Case) vrun.Result {
		sp := grid[c.Index/variants]
		return runQUICCase(c, sp, c.Index%variants)
	})
}

func streamPlan(c *vrun.Case, variant int, wbits int) (*plan, [2]int, string) {
	rng := c.Rng
	big, bigProb := 1<<20, 0.2
	if c.Env.Thorough() {
		big = 4 << 20
	}
	writers := [2]int{1, 1}
	perMin, perMax := 10, 18
	vname := "single-writer"
	if variant%2 == 1 {
		writers = [2]int{1 + rng.Intn(8), 1 + rng.Intn(8)}
		perMin, perMax = 3, 8
		vname = "concurrent-writers"
	}
	return makePlan(rng, wbits, big, writers, perMin, perMax, bigProb), writers, vname
}

func runQUICCase(c *vrun.Case, sp streamPoint, variant int) vrun.Result {
	rng := c.Rng
	wbits := []int{0, 8, 10, 15, 16}[rng.Intn(5)]
	p, writers, vname := streamPlan(c, variant, wbits)
	mode := modePM
	if sp.Type == compress.TypeContextTakeOver {
		mode = modeCT
	}
	gp := gridPoint{mode, sp.Level, wbits}
	eff := modeOff
	if sp.Level > 0 {
		eff = modePM // see streamAssumptions
	}
	desc := describe("quic", gp, vname, p)
	prefix := "quic:" + eff
	concurrent := writers[0] > 1 || writers[1] > 1
	inconcl := func(s string) vrun.Result {
		r := vrun.Inconcl(s)
		r.Desc = desc
		return r
	}

	stls, ctls := ephemeralTLS()
	stls.NextProtos = []string{"iscp"}
	ln, err := quic.ListenAddr("127.0.0.1:0", stls, &quic.Config{EnableDatagrams: true, MaxIdleTimeout: 3 * time.Minute})
	if err != nil {
		return inconcl("listen: " + err.Error())
	}
	defer ln.Close()

	type accepted struct {
		tr     *tquic.Transport
		tap    *streamTap
		params tquic.NegotiationParams
		err    error
	}
	accCh := make(chan accepted, 1)
	ctx, cancel := context.WithTimeout(context.Background(), 90*time.Second)
	defer cancel()
	go func() {
		conn, err := ln.Accept(ctx)
		if err != nil {
			accCh <- accepted{err: fmt.Errorf("accept: %w", err)}
			return
		}
		ns, err := conn.AcceptUniStream(ctx)
		if err != nil {
			accCh <- accepted{err: fmt.Errorf("accept negotiation stream: %w", err)}
			return
		}
		nb, err := io.ReadAll(ns)
		if err != nil {
			accCh <- accepted{err: fmt.Errorf("read negotiation stream: %w", err)}
			return
		}
		var np tquic.NegotiationParams
		if err := np.Unmarshal(nb); err != nil {
			accCh <- accepted{err: fmt.Errorf("negotiation parameters not readable: %w", err)}
			return
		}
		tap := &streamTap{}
		tr, err := tquic.New(tquic.Config{Connection: &tapQConn{Connection: conn, tap: tap}, CompressConfig: junkBase(rand64(c.Seed), sp.Level, wbits, 1), NegotiationParams: np})
		accCh <- accepted{tr: tr, tap: tap, params: np, err: err}
	}()

	var client transport.Transport
	var derr error
	okDial, _ := vrun.Watchdog(60*time.Second, func() {
		client, derr = tquic.NewDialer(tquic.DialerConfig{TLSConfig: ctls}).Dial(transport.DialConfig{
			Address:        ln.Addr().String(),
			CompressConfig: compress.Config{Enable: sp.Level != 0, Level: sp.Level, WindowBits: wbits, DisableContextTakeover: sp.Type == compress.TypePerMessage},
		})
	})
	if !okDial {
		return inconcl("dial did not return within 60 s")
	}
	if derr != nil {
		return inconcl("dial failed: " + derr.Error())
	}
	defer client.Close()
	var acc accepted
	select {
	case acc = <-accCh:
	case <-time.After(90 * time.Second):
		return inconcl("accepting side not ready within 90 s")
	}
	if acc.err != nil {
		return inconcl("accepting side: " + acc.err.Error())
	}
	server := acc.tr
	defer server.Close()
	if lv := acc.params.CompressLevel; lv == nil || *lv != sp.Level || acc.params.Compress != sp.Type {
		return inconcl("accepting side did not receive the dialled parameters")
	}

	// every fourth variant: both ends also send datagrams through the transport's unreliable side while the
	// reliable writers run (the datagram path shares the transport's encoder and counters; the byte counters are not
	// compared in this variant)
	noise := variant%4 == 3
	stopNoise := make(chan struct{})
	var noiseWG sync.WaitGroup
	if noise {
		vname += "+datagrams"
		desc = describe("quic", gp, vname, p)
		for side, tr := range []transport.Transport{client, server} {
			u, ok := tr.AsUnreliable()
			if !ok {
				continue
			}
			nr := rand64(c.Seed + int64(side))
			noiseWG.Add(1)
			go func() {
				defer noiseWG.Done()
				buf := make([]byte, 3000)
				for {
					select {
					case <-stopNoise:
						return
					default:
					}
					n := 1 + nr.Intn(len(buf)-1)
					for i := 0; i < n; i++ {
						buf[i] = byte(nr.Intn(7)) // compressible
					}
					_ = u.Write(buf[:n])
					time.Sleep(time.Duration(nr.Intn(300)) * time.Microsecond)
				}
			}()
			go func() { // drain what arrives (errors end the loop: the transport was closed)
				for {
					if _, err := u.Read(); err != nil {
						return
					}
				}
			}()
		}
	}
	ex := exchange([2]transport.Transport{client, server}, p, rng, 4*time.Minute)
	close(stopNoise)
	noiseWG.Wait()
	if r, done := exchangeFailures(ex, prefix, concurrent, true, desc); done {
		return r
	}
	acc.tap.mu.Lock()
	rawIn := append([]byte(nil), acc.tap.received.Bytes()...)
	rawOut := append([]byte(nil), acc.tap.sent.Bytes()...)
	acc.tap.mu.Unlock()
	inFrames, _, inErr := splitLengthPrefixed(rawIn)
	outFrames, _, outErr := splitLengthPrefixed(rawOut)
	dirs := []*direction{
		{from: 0, sent: p[0], recv: ex.reads[1], frames: inFrames, haveTap: true, framedLen: uint64(len(rawIn)), tapErr: inErr,
			tx: client.TxBytesCounterValue(), rx: server.RxBytesCounterValue(), haveTx: !noise, haveRx: !noise},
		{from: 1, sent: p[1], recv: ex.reads[0], frames: outFrames, haveTap: true, framedLen: uint64(len(rawOut)), tapErr: outErr,
			tx: server.TxBytesCounterValue(), rx: client.RxBytesCounterValue(), haveTx: !noise, haveRx: !noise},
	}
	return finishCase(desc, prefix, gp, eff, vname, writers, concurrent, dirs)
}

// ------------------------------------------------------------------------------------------------
// WebTransport
// ------------------------------------------------------------------------------------------------

// rawPeer speaks the documented framing over a pair of unidirectional streams with harness code only; it stands in
// for a transport.Transport in the exchange driver and is its own tap.
type rawPeer struct {
	send  io.WriteCloser
	recv  io.Reader
	level int
	close func()

	wmu       sync.Mutex
	mu        sync.Mutex
	sentRaw   uint64
	sentFr    [][]byte
	recvRaw   uint64
	recvFr    [][]byte
	dec       *indepDecoder
	closeOnce sync.Once
}

func (r *rawPeer) Write(m []byte) error {
	frame := m
	if r.level > 0 {
		var buf bytes.Buffer
		fw, err := flate.NewWriter(&buf, r.level)
		if err != nil {
			return err
		}
		fw.Write(m)
		fw.Close()
		frame = buf.Bytes()
	}
	out := make([]byte, 4+len(frame))
	binary.BigEndian.PutUint32(out, uint32(len(frame)))
	copy(out[4:], frame)
	r.wmu.Lock()
	defer r.wmu.Unlock()
	n, err := r.send.Write(out)
	r.mu.Lock()
	r.sentRaw += uint64(n)
	if err == nil {
		r.sentFr = append(r.sentFr, out[4:])
	}
	r.mu.Unlock()
	return err
}

func (r *rawPeer) Read() ([]byte, error) {
	var hdr [4]byte
	if _, err := io.ReadFull(r.recv, hdr[:]); err != nil {
		return nil, err
	}
	n := binary.BigEndian.Uint32(hdr[:])
	frame := make([]byte, n)
	if _, err := io.ReadFull(r.recv, frame); err != nil {
		return nil, fmt.Errorf("stream ended inside a frame announced with %d bytes: %w", n, err)
	}
	r.mu.Lock()
	r.recvRaw += uint64(4 + n)
	r.recvFr = append(r.recvFr, frame)
	r.mu.Unlock()
	out, err := r.dec.decode(frame)
	if err != nil {
		return nil, fmt.Errorf("independent decoder: frame of %d bytes (head %s) not decodable: %w", n, head(frame), err)
	}
	return out, nil
}

func (r *rawPeer) Close() error {
	r.closeOnce.Do(func() {
		if r.close != nil {
			r.close()
		}
	})
	return nil
}
func (r *rawPeer) RxBytesCounterValue() uint64 { return 0 }
func (r *rawPeer) TxBytesCounterValue() uint64 { return 0 }
func (r *rawPeer) AsUnreliable() (transport.UnreliableTransport, bool) {
	return nil, false
}
func (r *rawPeer) NegotiationParams() transport.NegotiationParams {
	return transport.NegotiationParams{}
}
func (r *rawPeer) Name() transport.Name { return "raw" }

func newRawPeerWT(sess *wt.Session, level int, eff string) (*rawPeer, error) {
	ss, err := sess.OpenUniStream()
	if err != nil {
		return nil, err
	}
	rp := &rawPeer{send: ss, level: level, dec: newIndepDecoder(eff, 0), close: func() { sess.CloseWithError(0, "") }}
	rp.recv = &lazyWTRecv{sess: sess}
	return rp, nil
}

// lazyWTRecv accepts the peer's unidirectional stream at the first read (the library opens it in New).
type lazyWTRecv struct {
	sess *wt.Session
	rs   wt.ReceiveStream
}

func (l *lazyWTRecv) Read(p []byte) (int, error) {
	if l.rs == nil {
		ctx, cancel := context.WithTimeout(context.Background(), 3*time.Minute)
		defer cancel()
		rs, err := l.sess.AcceptUniStream(ctx)
		if err != nil {
			return 0, err
		}
		l.rs = rs
	}
	return l.rs.Read(p)
}

type wtEnd struct {
	sess   *wt.Session
	params twt.NegotiationParams
	query  string
	err    error
	done   chan struct{}
}

type wtServer struct {
	srv     *wt.Server
	addr    string
	mu      sync.Mutex
	waiting map[string]chan *wtEnd
	err     error
}

var (
	wtSrvOnce sync.Once
	wtSrv     *wtServer
)

func theWTServer() *wtServer {
	wtSrvOnce.Do(func() {
		s := &wtServer{waiting: map[string]chan *wtEnd{}}
		wtSrv = s
		stls, _ := ephemeralTLS()
		stls.NextProtos = []string{http3.NextProtoH3}
		pc, err := net.ListenUDP("udp", &net.UDPAddr{IP: net.IPv4(127, 0, 0, 1)})
		if err != nil {
			s.err = err
			return
		}
		s.addr = "localhost:" + fmt.Sprint(pc.LocalAddr().(*net.UDPAddr).Port)
		s.srv = &wt.Server{
			CheckOrigin: func(*http.Request) bool { return true },
			H3:          http3.Server{TLSConfig: stls, QUICConfig: &quic.Config{EnableDatagrams: true, MaxIdleTimeout: 3 * time.Minute}},
		}
		s.srv.H3.Handler = http.HandlerFunc(s.handle)
		go s.srv.Serve(pc)
	})
	return wtSrv
}

func (s *wtServer) handle(w http.ResponseWriter, r *http.Request) {
	var p twt.NegotiationParams
	perr := p.UnmarshalURLValues(r.URL.Query())
	tid := string(p.TransportID)
	s.mu.Lock()
	ch := s.waiting[tid]
	delete(s.waiting, tid)
	s.mu.Unlock()
	if ch == nil {
		http.Error(w, "unknown case", http.StatusBadRequest)
		return
	}
	end := &wtEnd{params: p, query: r.URL.RawQuery, done: make(chan struct{})}
	if perr != nil {
		end.err = perr
		ch <- end
		http.Error(w, "bad params", http.StatusBadRequest)
		return
	}
	sess, err := s.srv.Upgrade(w, r)
	if err != nil {
		end.err = err
		ch <- end
		return
	}
	end.sess = sess
	ch <- end
	<-end.done
}

func (s *wtServer) expect(tid string) chan *wtEnd {
	ch := make(chan *wtEnd, 1)
	s.mu.Lock()
	s.waiting[tid] = ch
	s.mu.Unlock()
	return ch
}

var wtKinds = []string{"library<->library", "library-client<->raw-server", "raw-client<->library-server"}

// TestC13WebTransport: the WebTransport transport takes a concrete *webtransport.Session, so no tap can be slipped
// underneath. Three arrangements instead: library on both ends (Read oracle, Tx of one side against Rx of the
// other), and the library against a raw peer that implements the documented framing with harness code only, in
// either role (independent decoder/encoder, counters against the raw byte totals).
func TestC13WebTransport(t *testing.T) {
	env := vrun.LoadEnv()
	grid := streamGrid()
	variants := env.Pick(6, 24)
	meta := vrun.Meta{
		Property: "C13", Workload: "TestC13WebTransport", Total: len(grid) * variants,
		Rule: "case = (type x level 0..9, variant) over loopback UDP against one shared webtransport-go server (ephemeral self-signed certificate, one session per case). variant mod 3 selects the arrangement: " +
			"library on both ends (twt.Dialer / twt.New over the upgraded session), library client against a raw harness peer, raw harness client against a library server; variants >= 3 use 1-8 concurrent writers per side. " +
			"Message sequences as in TestC13MemGrid (big = 1 MiB quick / 4 MiB thorough). Non-trivial: all messages delivered both ways; with a raw peer also: frames = messages and for level > 0 a frame that differs from its payload. " +
			"Distinct: grid point x arrangement x size/content classes.",
		Assumptions: streamAssumptions,
	}
	vrun.Loop(t, meta, 0, func(c *vrun.Case) vrun.Result {
		sp := grid[c.Index/variants]
		return runWTCase(c, sp, c.Index%variants)
	})
}

var wtNonce atomic.Int64

func runWTCase(c *vrun.Case, sp streamPoint, variant int) vrun.Result {
	rng := c.Rng
	kind := variant % 3
	wbits := []int{0, 8, 10, 15, 16}[rng.Intn(5)]
	pv := 0
	if variant >= 3 {
		pv = 1
	}
	p, writers, vname := streamPlan(c, pv, wbits)
	mode := modePM
	if sp.Type == compress.TypeContextTakeOver {
		mode = modeCT
	}
	gp := gridPoint{mode, sp.Level, wbits}
	eff := modeOff
	if sp.Level > 0 {
		eff = modePM
	}
	desc := describe("webtransport/"+wtKinds[kind], gp, vname, p)
	prefix := "webtransport:" + eff
	concurrent := writers[0] > 1 || writers[1] > 1
	inconcl := func(s string) vrun.Result {
		r := vrun.Inconcl(s)
		r.Desc = desc
		return r
	}
	srv := theWTServer()
	if srv.err != nil {
		return inconcl("webtransport server: " + srv.err.Error())
	}
	_, ctls := ephemeralTLS()
	tid := fmt.Sprintf("c13-wt-%d-%d-%d", c.Index, c.Seed, wtNonce.Add(1))
	ch := srv.expect(tid)
	cc := compress.Config{Enable: sp.Level != 0, Level: sp.Level, WindowBits: wbits, DisableContextTakeover: sp.Type == compress.TypePerMessage}

	var client transport.Transport
	var clientRaw *rawPeer
	var derr error
	okDial, _ := vrun.Watchdog(60*time.Second, func() {
		if kind != 2 {
			client, derr = twt.NewDialer(twt.DialerConfig{TLSConfig: ctls}).Dial(transport.DialConfig{Address: srv.addr, CompressConfig: cc, TransportID: transport.TransportID(tid)})
			return
		}
		// raw client: the same URL the library's dialer would use
		np := twt.NegotiationParams{NegotiationParams: transport.DialConfig{CompressConfig: cc, TransportID: transport.TransportID(tid)}.NegotiationParams()}
		vals, err := np.MarshalURLValues()
		if err != nil {
			derr = err
			return
		}
		ctls.NextProtos = []string{http3.NextProtoH3}
		d := &wt.Dialer{TLSClientConfig: ctls, QUICConfig: &quic.Config{EnableDatagrams: true, MaxIdleTimeout: 3 * time.Minute}}
		ctx, cancel := context.WithTimeout(context.Background(), 50*time.Second)
		defer cancel()
		_, sess, err := d.Dial(ctx, "https://"+srv.addr+"/?"+vals.Encode(), nil)
		if err != nil {
			derr = err
			return
		}
		clientRaw, derr = newRawPeerWT(sess, sp.Level, eff)
		client = clientRaw
	})
	if !okDial {
		return inconcl("dial did not return within 60 s")
	}
	if derr != nil {
		return inconcl("dial failed: " + derr.Error())
	}
	defer client.Close()
	var end *wtEnd
	select {
	case end = <-ch:
	case <-time.After(60 * time.Second):
		return inconcl("server side never saw the session")
	}
	defer close(end.done)
	if end.err != nil {
		return inconcl("server side: " + end.err.Error())
	}
	if lv := end.params.CompressLevel; lv == nil || *lv != sp.Level || end.params.Compress != sp.Type {
		return inconcl("server did not receive the dialled parameters: " + end.query)
	}
	var server transport.Transport
	var serverRaw *rawPeer
	if kind == 1 {
		rp, err := newRawPeerWT(end.sess, sp.Level, eff)
		if err != nil {
			return inconcl("raw server peer: " + err.Error())
		}
		server, serverRaw = rp, rp
	} else {
		tr, err := twt.New(twt.Config{Connection: end.sess, CompressConfig: junkBase(rng, sp.Level, wbits, 1), NegotiationParams: end.params})
		if err != nil {
			return inconcl("twt.New on the server side: " + err.Error())
		}
		server = tr
	}
	defer server.Close()

	ex := exchange([2]transport.Transport{client, server}, p, rng, 4*time.Minute)
	if r, done := exchangeFailures(ex, prefix, concurrent, true, desc); done {
		return r
	}
	d0 := &direction{from: 0, sent: p[0], recv: ex.reads[1]}
	d1 := &direction{from: 1, sent: p[1], recv: ex.reads[0]}
	switch kind {
	case 0:
		d0.tx, d0.rx, d0.haveTx, d0.haveRx = client.TxBytesCounterValue(), server.RxBytesCounterValue(), true, true
		d1.tx, d1.rx, d1.haveTx, d1.haveRx = server.TxBytesCounterValue(), client.RxBytesCounterValue(), true, true
	case 1: // raw server: it received the library's frames (d0) and produced the frames the library read (d1)
		serverRaw.mu.Lock()
		d0.frames, d0.framedLen, d0.haveTap = append([][]byte(nil), serverRaw.recvFr...), serverRaw.recvRaw, true
		d1.frames, d1.framedLen, d1.haveTap = append([][]byte(nil), serverRaw.sentFr...), serverRaw.sentRaw, true
		serverRaw.mu.Unlock()
		d0.tx, d0.haveTx = client.TxBytesCounterValue(), true
		d1.rx, d1.haveRx = client.RxBytesCounterValue(), true
	case 2:
		clientRaw.mu.Lock()
		d0.frames, d0.framedLen, d0.haveTap = append([][]byte(nil), clientRaw.sentFr...), clientRaw.sentRaw, true
		d1.frames, d1.framedLen, d1.haveTap = append([][]byte(nil), clientRaw.recvFr...), clientRaw.recvRaw, true
		clientRaw.mu.Unlock()
		d0.rx, d0.haveRx = server.RxBytesCounterValue(), true
		d1.tx, d1.haveTx = server.TxBytesCounterValue(), true
	}
	return finishCase(desc, prefix, gp, eff, vname, writers, concurrent, []*direction{d0, d1})
}
