package c13

// Part (b): the library's real WebSocket backends (selected by build tag) over loopback TCP.
//
// Client side: tws.Dialer.Dial - the registered backend (coder / gorilla / nhooyr wrapper of the library) and the
// real negotiation path (parameters in the URL query). Server side: an HTTP server that upgrades with a DIFFERENT
// WebSocket implementation than the client's (so that the bytes on the wire are read by an independent RFC 6455
// implementation), adapted to the library's Conn interface by the harness, and a library Transport built from the
// parameters found in the request URL. The adapter is the tap: it keeps every message payload that it hands to / gets
// from the WebSocket implementation, in wire order.

import (
	"context"
	"fmt"
	"io"
	"net/http"
	"net/http/httptest"
	"strings"
	"sync"
	"sync/atomic"
	"testing"
	"time"

	"github.com/aptpod/iscp-go/transport"
	"github.com/aptpod/iscp-go/transport/compress"
	tws "github.com/aptpod/iscp-go/transport/websocket"
	cws "github.com/coder/websocket"
	gws "github.com/gorilla/websocket"

	"verif/harness/vrun"
)

// rawWS is what the adapter needs from a server-side WebSocket implementation.
type rawWS interface {
	nextReader(ctx context.Context) (binary bool, r io.Reader, err error)
	nextWriter(ctx context.Context) (io.WriteCloser, error)
	close() error
}

type gorillaRaw struct{ c *gws.Conn }

func (g gorillaRaw) nextReader(context.Context) (bool, io.Reader, error) {
	tp, r, err := g.c.NextReader()
	return tp == gws.BinaryMessage, r, err
}
func (g gorillaRaw) nextWriter(context.Context) (io.WriteCloser, error) {
	return g.c.NextWriter(gws.BinaryMessage)
}
func (g gorillaRaw) close() error { return g.c.Close() }

type coderRaw struct{ c *cws.Conn }

func (g coderRaw) nextReader(ctx context.Context) (bool, io.Reader, error) {
	tp, r, err := g.c.Reader(ctx)
	return tp == cws.MessageBinary, r, err
}
func (g coderRaw) nextWriter(ctx context.Context) (io.WriteCloser, error) {
	return g.c.Writer(ctx, cws.MessageBinary)
}
func (g coderRaw) close() error { return g.c.CloseNow() }

// srvConn adapts rawWS to the library's Conn and taps the message payloads.
type srvConn struct {
	raw rawWS
	wmu sync.Mutex // one open writer at a time, like the default backend

	mu        sync.Mutex
	out, in   [][]byte
	outBytes  uint64
	inBytes   uint64
	nonBinary int
	cur       *srvReader
	closed    atomic.Bool
}

func (c *srvConn) Close() error { return c.CloseWithStatus(transport.CloseStatusNormal) }
func (c *srvConn) CloseWithStatus(transport.CloseStatus) error {
	if c.closed.Swap(true) {
		return nil
	}
	return c.raw.close()
}
func (c *srvConn) Ping(context.Context) error { return nil }

type srvWriter struct {
	c    *srvConn
	w    io.WriteCloser
	buf  []byte
	done bool
}

func (c *srvConn) Writer(ctx context.Context, tp tws.MessageType) (io.WriteCloser, error) {
	c.wmu.Lock()
	w, err := c.raw.nextWriter(ctx)
	if err != nil {
		c.wmu.Unlock()
		return nil, err
	}
	if tp != tws.MessageBinary {
		c.mu.Lock()
		c.nonBinary++
		c.mu.Unlock()
	}
	return &srvWriter{c: c, w: w}, nil
}

func (w *srvWriter) Write(b []byte) (int, error) {
	n, err := w.w.Write(b)
	w.buf = append(w.buf, b[:n]...)
	return n, err
}

func (w *srvWriter) Close() error {
	if w.done {
		return nil
	}
	w.done = true
	defer w.c.wmu.Unlock()
	if w.buf == nil {
		w.buf = []byte{}
	}
	w.c.mu.Lock() // recorded while the write lock is still held: tap order = wire order
	w.c.out = append(w.c.out, w.buf)
	w.c.outBytes += uint64(len(w.buf))
	w.c.mu.Unlock()
	return w.w.Close()
}

type srvReader struct {
	c   *srvConn
	r   io.Reader
	buf []byte
	fin bool
}

func (c *srvConn) finishReader() {
	if r := c.cur; r != nil && !r.fin {
		r.fin = true
		// take the rest of the message so that the tap has the complete frame even if the library stopped early
		rest, _ := io.ReadAll(r.r)
		r.buf = append(r.buf, rest...)
		if r.buf == nil {
			r.buf = []byte{}
		}
		c.mu.Lock()
		c.in = append(c.in, r.buf)
		c.inBytes += uint64(len(r.buf))
		c.mu.Unlock()
	}
}

func (c *srvConn) Reader(ctx context.Context) (tws.MessageType, io.Reader, error) {
	c.finishReader()
	c.cur = nil
	bin, r, err := c.raw.nextReader(ctx)
	if err != nil {
		return 0, nil, err
	}
	if !bin {
		c.mu.Lock()
		c.nonBinary++
		c.mu.Unlock()
	}
	c.cur = &srvReader{c: c, r: r}
	return tws.MessageBinary, c.cur, nil
}

func (r *srvReader) Read(b []byte) (int, error) {
	n, err := r.r.Read(b)
	r.buf = append(r.buf, b[:n]...)
	if err == io.EOF && !r.fin {
		r.fin = true
		if r.buf == nil {
			r.buf = []byte{}
		}
		r.c.mu.Lock()
		r.c.in = append(r.c.in, r.buf)
		r.c.inBytes += uint64(len(r.buf))
		r.c.mu.Unlock()
	}
	return n, err
}

// ---- the shared loopback server

type srvEnd struct {
	conn   *srvConn
	params tws.NegotiationParams
	query  string
	err    error
	done   chan struct{} // closed by the case when the handler may return
}

type wsServer struct {
	srv     *httptest.Server
	mu      sync.Mutex
	waiting map[string]chan *srvEnd
	kind    string
}

var (
	wsSrvOnce sync.Once
	wsSrv     *wsServer
)

func theWSServer(kind string) *wsServer {
	wsSrvOnce.Do(func() {
		s := &wsServer{waiting: map[string]chan *srvEnd{}, kind: kind}
		s.srv = httptest.NewServer(http.HandlerFunc(s.handle))
		wsSrv = s
	})
	return wsSrv
}

func (s *wsServer) handle(w http.ResponseWriter, r *http.Request) {
	var p tws.NegotiationParams
	perr := p.UnmarshalURLValues(r.URL.Query())
	tid := string(p.TransportID)
	s.mu.Lock()
	ch := s.waiting[tid]
	delete(s.waiting, tid)
	s.mu.Unlock()
	if ch == nil {
		http.Error(w, "unknown case", http.StatusBadRequest)
		return
	}
	end := &srvEnd{params: p, query: r.URL.RawQuery, done: make(chan struct{})}
	if perr != nil {
		end.err = fmt.Errorf("negotiation parameters in the URL not readable: %w", perr)
		ch <- end
		http.Error(w, "bad params", http.StatusBadRequest)
		return
	}
	var raw rawWS
	switch s.kind {
	case "gorilla":
		up := gws.Upgrader{CheckOrigin: func(*http.Request) bool { return true }}
		c, err := up.Upgrade(w, r, nil)
		if err != nil {
			end.err = err
			ch <- end
			return
		}
		raw = gorillaRaw{c}
	default:
		c, err := cws.Accept(w, r, &cws.AcceptOptions{InsecureSkipVerify: true, CompressionMode: cws.CompressionDisabled})
		if err != nil {
			end.err = err
			ch <- end
			return
		}
		c.SetReadLimit(-1)
		raw = coderRaw{c}
	}
	end.conn = &srvConn{raw: raw}
	ch <- end
	<-end.done
}

func (s *wsServer) expect(tid string) chan *srvEnd {
	ch := make(chan *srvEnd, 1)
	s.mu.Lock()
	s.waiting[tid] = ch
	s.mu.Unlock()
	return ch
}

type backendPoint struct {
	Type  compress.Type
	Level int
	WBits int
}

func backendGrid(thorough bool) []backendPoint {
	levels, wbs := []int{0, 1, 5, 9}, []int{0, 8, 15}
	if thorough {
		levels = []int{0, 1, 2, 3, 4, 5, 6, 7, 8, 9}
		wbs = []int{0, 1, 8, 9, 15, 16, 32}
	}
	var g []backendPoint
	for _, tp := range []compress.Type{compress.TypePerMessage, compress.TypeContextTakeOver} {
		for _, l := range levels {
			for _, w := range wbs {
				g = append(g, backendPoint{tp, l, w})
			}
		}
	}
	return g
}

// runBackendWorkload is the body of TestC13Backend<Name>. concurrentOK: the backend documents that concurrent
// writers are serialised (coder, nhooyr); forceConcurrent: every case uses concurrent writers on the client.
func runBackendWorkload(t *testing.T, workload, backend, serverKind string, concurrentOK, forceConcurrent bool) {
	env := vrun.LoadEnv()
	grid := backendGrid(env.Thorough())
	variants := env.Pick(2, 4)
	meta := vrun.Meta{
		Property: "C13", Workload: workload, Total: len(grid) * variants,
		Rule: "case = (grid point, variant) over loopback TCP with the '" + backend + "' backend of the library on the dialing side (tws.Dialer, parameters travel in the URL query) and a " +
			"harness adapter over the independent '" + serverKind + "' WebSocket implementation plus a library Transport on the accepting side. Grid: type {per-message, context-takeover} x level " +
			"(quick {0,1,5,9}, thorough 0..9) x windowBits (quick {0,8,15}, thorough {0,1,8,9,15,16,32}); level 0 = compression off. Even variants: one writer per side; odd variants: " +
			"1-8 concurrent writers per side (only where the backend serialises writers; otherwise one writer with another sequence). Message sequences as in TestC13MemGrid " +
			"(big = 1 MiB quick / 4 MiB thorough). Non-trivial/distinct as in TestC13MemGrid.",
		Assumptions: []string{
			"The server-side tap records WebSocket message payloads as delivered by / handed to an RFC 6455 implementation different from the client's; WebSocket frame headers, masking and fragmentation are that implementation's business.",
			"A Read/Write error whose text names a timeout or deadline, and a watchdog firing, are inconclusive on real sockets.",
		},
	}
	if forceConcurrent {
		meta.Rule = "as TestC13BackendGorilla, but every case uses 2-8 concurrent writers on the DIALING side (the library's gorilla wrapper) - the library itself calls Transport.Write from several goroutines " +
			"(wire.ClientConn has no write lock), so Transport.Write must tolerate it whatever the backend documents. The accepting side uses one writer."
	}
	srv := theWSServer(serverKind)
	addr := strings.TrimPrefix(srv.srv.URL, "http://")
	runCase := func(c *vrun.Case) vrun.Result {
		return runBackendCase(c, srv, addr, workload, backend, serverKind, grid, variants, concurrentOK, forceConcurrent)
	}
	vrun.Loop(t, meta, 0, func(c *vrun.Case) vrun.Result {
		r := runCase(c)
		if forceConcurrent && r.Verdict == vrun.Violated && !strings.HasPrefix(r.FindingKey, "websocket:") && !strings.Contains(r.FindingKey, "-counter") &&
			!strings.Contains(r.FindingKey, "compressed-while-off") && !strings.Contains(r.FindingKey, "non-binary") {
			// one defect, one key: whatever breaks first (panic in gorilla's "concurrent write" guard, a frame torn
			// apart, a write or read error) is a manifestation of unserialised writers
			r.Witness = map[string]any{"manifestation": r.FindingKey, "clause": r.Clause, "detail": r.Witness}
			r.Clause = "concurrent Transport.Write calls on the gorilla backend are not serialised: " + r.Clause
			r.FindingKey = "ws-gorilla:concurrent-transport-write-not-serialised"
		}
		return r
	})
}

func runBackendCase(c *vrun.Case, srv *wsServer, addr, workload, backend, serverKind string, grid []backendPoint, variants int, concurrentOK, forceConcurrent bool) vrun.Result {
	{
		bp := grid[c.Index/variants]
		variant := c.Index % variants
		rng := c.Rng
		mode := modePM
		if bp.Type == compress.TypeContextTakeOver {
			mode = modeCT
		}
		gp := gridPoint{mode, bp.Level, bp.WBits}
		eff := effectiveMode(mode, bp.Level)
		big, bigProb := 1<<20, 0.15
		if c.Env.Thorough() {
			big = 4 << 20
		}
		writers := [2]int{1, 1}
		perMin, perMax := 10, 18
		vname := "single-writer"
		switch {
		case forceConcurrent:
			writers = [2]int{2 + rng.Intn(7), 1}
			perMin, perMax = 3, 8
			vname = "concurrent-writers"
		case variant%2 == 1 && concurrentOK:
			writers = [2]int{1 + rng.Intn(8), 1 + rng.Intn(8)}
			perMin, perMax = 3, 8
			vname = "concurrent-writers"
		}
		p := makePlan(rng, bp.WBits, big, writers, perMin, perMax, bigProb)
		desc := describe("websocket/"+backend+"-client/"+serverKind+"-server", gp, vname, p)
		prefix := "ws-" + backend + ":" + eff
		concurrent := writers[0] > 1 || writers[1] > 1

		tid := fmt.Sprintf("c13-%s-%d-%d", workload, c.Index, c.Seed)
		ch := srv.expect(tid)
		var client transport.Transport
		var derr error
		okDial, _ := vrun.Watchdog(60*time.Second, func() {
			client, derr = tws.NewDialer(tws.DialerConfig{}).Dial(transport.DialConfig{
				Address:        addr,
				CompressConfig: compress.Config{Enable: bp.Level != 0, Level: bp.Level, WindowBits: bp.WBits, DisableContextTakeover: bp.Type == compress.TypePerMessage},
				TransportID:    transport.TransportID(tid),
			})
		})
		if !okDial {
			r := vrun.Inconcl("dial did not return within 60 s")
			r.Desc = desc
			return r
		}
		if derr != nil {
			r := vrun.Inconcl("dial failed: " + derr.Error())
			r.Desc = desc
			return r
		}
		defer client.Close()
		var end *srvEnd
		select {
		case end = <-ch:
		case <-time.After(60 * time.Second):
			r := vrun.Inconcl("server side never saw the connection")
			r.Desc = desc
			return r
		}
		defer close(end.done)
		if end.err != nil {
			r := vrun.Inconcl("server side: " + end.err.Error())
			r.Desc = desc
			return r
		}
		// both peers must have derived the same parameters from the URL (C17's business; here only a precondition)
		if lv := end.params.CompressLevel; lv == nil || *lv != bp.Level || end.params.Compress != bp.Type || end.params.CompressWindowBits == nil || *end.params.CompressWindowBits != bp.WBits {
			r := vrun.Inconcl("server did not receive the dialled parameters: " + end.query)
			r.Desc = desc
			return r
		}
		server := tws.New(tws.Config{Conn: end.conn, CompressConfig: junkBase(rng, bp.Level, bp.WBits, 1), NegotiationParams: end.params})
		defer server.Close()

		ex := exchange([2]transport.Transport{client, server}, p, rng, 4*time.Minute)
		if r, done := exchangeFailures(ex, prefix, concurrent, true, desc); done {
			return r
		}
		if ok, _ := vrun.Watchdog(60*time.Second, end.conn.finishReader); !ok {
			r := vrun.Inconcl("the end of the last WebSocket message did not arrive within 60 s")
			r.Desc = desc
			return r
		}
		end.conn.mu.Lock()
		in, out := append([][]byte(nil), end.conn.in...), append([][]byte(nil), end.conn.out...)
		inB, outB, nonBin := end.conn.inBytes, end.conn.outBytes, end.conn.nonBinary
		end.conn.mu.Unlock()
		if nonBin > 0 {
			r := vrun.Violation("a message crossed the wire with a WebSocket message type other than binary", prefix+":non-binary-message", map[string]any{"count": nonBin, "case": desc})
			r.Desc = desc
			return r
		}
		dirs := []*direction{
			{from: 0, sent: p[0], recv: ex.reads[1], frames: in, haveTap: true, framedLen: inB, tx: client.TxBytesCounterValue(), rx: server.RxBytesCounterValue(), haveTx: true, haveRx: true},
			{from: 1, sent: p[1], recv: ex.reads[0], frames: out, haveTap: true, framedLen: outB, tx: server.TxBytesCounterValue(), rx: client.RxBytesCounterValue(), haveTx: true, haveRx: true},
		}
		return finishCase(desc, prefix, gp, eff, vname, writers, concurrent, dirs)
	}
}

// finishCase judges both directions and builds the result (shared by the socket workloads).
func finishCase(desc caseDesc, prefix string, gp gridPoint, eff, vname string, writers [2]int, concurrent bool, dirs []*direction) vrun.Result {
	var total obs
	taps := 0
	for _, d := range dirs {
		f, o := judgeDirection(prefix, d, eff, gp.WBits, concurrent)
		total.add(o)
		if d.haveTap {
			taps++
		}
		if f != nil {
			f.witness["case"] = desc
			r := vrun.Violation(f.clause, f.key, f.witness)
			r.Desc = desc
			return r
		}
	}
	nontrivial := total.messages > 0
	if taps > 0 {
		if eff == modeOff && total.compressedFrames != 0 {
			r := vrun.Violation("frames differ from the payload although compression is off", prefix+":compressed-while-off", map[string]any{"case": desc})
			r.Desc = desc
			return r
		}
		if eff != modeOff && total.compressedFrames == 0 {
			nontrivial = false // compression was supposed to be negotiated but no frame shows it
		}
		if total.frames == 0 {
			nontrivial = false
		}
	}
	sig := fmt.Sprintf("%s/%s/%d/%d/%s/%s", desc.Transport, gp.Mode, gp.Level, gp.WBits, vname, strings.Join(desc.Classes, ","))
	res := vrun.Hold(sig, nontrivial)
	res.Desc = desc
	total.into(&res)
	res.AddSet("grid_points", fmt.Sprintf("%s:%s/l%d/w%d", desc.Transport, gp.Mode, gp.Level, gp.WBits))
	res.AddSet("effective_modes", eff)
	res.AddSet("transports", desc.Transport)
	res.AddSet("writers_per_side", fmt.Sprint(writers[0]), fmt.Sprint(writers[1]))
	res.AddSet("size_class/content", desc.Classes...)
	if total.needDict > 0 {
		res.AddSet("context_takeover_points_where_the_dictionary_mattered", fmt.Sprintf("l%d/w%d", gp.Level, gp.WBits))
	}
	return res
}
