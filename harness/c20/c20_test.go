// C20 - Flush is a barrier and flush policies cut chunks exactly where they promise.
package c20

import (
	"context"
	"fmt"
	"math/rand"
	"sort"
	"sync"
	"sync/atomic"
	"testing"
	"testing/synctest"
	"time"

	"github.com/aptpod/iscp-go/iscp"
	"github.com/aptpod/iscp-go/message"

	"verif/harness/broker"
	"verif/harness/memnet"
	"verif/harness/uplib"
	"verif/harness/vrun"
	"verif/harness/world"
)

type scenario struct {
	Policy    string `json:"policy"`
	Threshold uint32 `json:"threshold,omitempty"`
	Writers   int    `json:"writers"`
	Flushers  int    `json:"extra_flushers"`
	Ops       int    `json:"ops_per_writer"`
	IDPool    int    `json:"id_pool"`
	Sizes     []int  `json:"payload_sizes"`
	CancelPct int    `json:"flush_ctx_cancel_pct"`
	Sampler   bool   `json:"state_sampler"`
}

func gen(r *rand.Rand) scenario {
	s := scenario{}
	s.Policy = []string{"none", "size", "size", "immediate", "size"}[r.Intn(5)]
	if s.Policy == "size" {
		s.Threshold = []uint32{0, 1, 64, 1000}[r.Intn(4)]
	}
	if r.Intn(2) == 0 {
		s.Writers = 1
	} else {
		s.Writers = 2 + r.Intn(3)
	}
	s.Flushers = []int{0, 0, 1, 3}[r.Intn(4)]
	s.Ops = 8 + r.Intn(40)
	s.IDPool = 1 + r.Intn(5)
	th := int(s.Threshold)
	s.Sizes = []int{0, 1, th / 2, th, th + 1, th - 1, 2*th + 3, 7}
	for i, v := range s.Sizes {
		if v < 0 {
			s.Sizes[i] = 0
		}
	}
	s.CancelPct = []int{0, 0, 20}[r.Intn(3)]
	s.Sampler = r.Intn(2) == 0
	return s
}

type opRec struct {
	Kind   string // "write" / "flush"
	Write  int    // index into recorder writes for kind write (per writer order)
	Sizes  []int
	Err    string
	SeqAt  uint32 // State().LastIssuedSequenceNumber right after a nil Flush
	BufAt  int    // points visible in State().DataPointsBuffer right after a nil Flush
	TotAt  uint64
	Call   int64
	Return int64
}

func TestC20Policies(t *testing.T) {
	e := vrun.LoadEnv()
	meta := vrun.Meta{Property: "C20", Workload: "TestC20Policies", Total: e.Pick(300, 40000),
		Rule: "each case draws a policy (none / size with threshold 0,1,64,1000 / immediate), 1-4 writers, 0-3 extra flusher goroutines, 8-47 operations per writer (Write of 0-4 points with payload sizes straddling the threshold, zero-length payloads, 1-5 data ids; Flush and Write with contexts cancelled in 20% of some cases), optional State() sampler. Oracles: barrier (points of writes that returned before a nil Flush was called sit in chunks numbered <= the last issued number read right after the Flush; visible buffer empty after a quiescent Flush), policy 'none' transmits nothing before the first Flush/Close, single-writer histories: chunk boundaries equal a sequential reference model of the buffer, multi-writer: every over-threshold chunk must drop to <= threshold when one of its writes is removed and no write is split, immediate: one write per chunk, State(): sent+buffered <= points of writes started, == accepted after a quiescent Flush, no chunk without a data point group. non-trivial = >=3 chunks and >=1 nil Flush; distinct = scenario tuple x boundary signature",
		Assumptions: []string{"'cut into a chunk with sequence number at most the last issued one' is observed as: the broker received the point in a chunk whose number is <= State().LastIssuedSequenceNumber read immediately after Flush returned (a later read can only be larger, so the check is sound)",
			"the size-policy boundary model uses the sum of payload lengths, as documented for IsFlush"}}
	vrun.Loop(t, meta, 0, func(c *vrun.Case) vrun.Result {
		s := gen(c.Rng)
		var res vrun.Result
		ok, dump := vrun.Watchdog(120*time.Second, func() { res = runCase(c, s) })
		if !ok {
			r := vrun.WatchdogVerdict("the case never finished")
			r.Desc = s
			if r.Verdict == vrun.Inconclusive {
				r.Witness = map[string]any{"dump_head": dump[:min(len(dump), 6000)]}
			}
			return r
		}
		res.Desc = s
		return res
	})
}

func runCase(c *vrun.Case, s scenario) vrun.Result {
	w := world.New()
	defer w.Close()
	w.Start()
	conn, err := w.Connect(iscp.WithConnPingInterval(time.Hour))
	if err != nil {
		return vrun.Inconcl("connect: " + err.Error())
	}
	defer conn.Close(context.Background())
	rec := uplib.NewRecorder(w.Clock)
	opts := append(rec.Options(), iscp.WithUpstreamQoS(message.QoSReliable), iscp.WithUpstreamCloseTimeout(60*time.Second))
	switch s.Policy {
	case "none":
		opts = append(opts, iscp.WithUpstreamFlushPolicyNone())
	case "size":
		opts = append(opts, iscp.WithUpstreamFlushPolicyBufferSizeOnly(s.Threshold))
	case "immediate":
		opts = append(opts, iscp.WithUpstreamFlushPolicyImmediately())
	}
	ctx := context.Background()
	up, err := conn.OpenUpstream(ctx, "s", opts...)
	if err != nil {
		return vrun.Inconcl("open: " + err.Error())
	}
	pool := make([]message.DataID, s.IDPool)
	for i := range pool {
		pool[i] = message.DataID{Name: fmt.Sprintf("d%d", i), Type: "t"}
	}
	var started, returnedOK atomic.Int64 // points in writes started / returned nil
	var chunksAtFirstFlush atomic.Int64
	chunksAtFirstFlush.Store(-1)
	countChunks := func() int64 {
		n := int64(0)
		for _, l := range w.Net.Links() {
			for _, r := range l.Log() {
				if r.Dir == memnet.C2S && r.Class == "UpstreamChunk" {
					n++
				}
			}
		}
		return n
	}
	firstFlush := func() {
		if chunksAtFirstFlush.Load() < 0 {
			chunksAtFirstFlush.CompareAndSwap(-1, countChunks())
		}
	}
	ops := make([][]*opRec, s.Writers+s.Flushers)
	var wg sync.WaitGroup
	var mu sync.Mutex
	var stateViol *vrun.Result
	stopSampler := make(chan struct{})
	var swg sync.WaitGroup
	var samples atomic.Int64
	if s.Sampler {
		swg.Add(1)
		go func() {
			defer swg.Done()
			for {
				select {
				case <-stopSampler:
					return
				default:
				}
				st := up.State()
				hi := started.Load() // read after the snapshot: accepted-so-far <= started
				buffered := 0
				for _, g := range st.DataPointsBuffer {
					buffered += len(g.DataPoints)
				}
				samples.Add(1)
				if int64(st.TotalDataPoints)+int64(buffered) > hi {
					mu.Lock()
					if stateViol == nil {
						v := vrun.Violation("a State() snapshot reports more points (sent + buffered) than were accepted", "state-invents-points",
							map[string]any{"total_data_points": st.TotalDataPoints, "buffered": buffered, "points_in_writes_started": hi})
						stateViol = &v
					}
					mu.Unlock()
					return
				}
				time.Sleep(50 * time.Microsecond)
			}
		}()
	}
	doFlush := func(r *rand.Rand, quiescent bool) *opRec {
		o := &opRec{Kind: "flush"}
		fctx := ctx
		var cancel context.CancelFunc
		if s.CancelPct > 0 && r.Intn(100) < s.CancelPct {
			fctx, cancel = context.WithCancel(ctx)
			if r.Intn(2) == 0 {
				cancel()
			} else {
				d := time.Duration(r.Intn(200)) * time.Microsecond
				go func() { time.Sleep(d); cancel() }()
			}
		}
		firstFlush()
		o.Call = w.Clock.Tick()
		err := up.Flush(fctx)
		st := up.State()
		o.Return = w.Clock.Tick()
		if cancel != nil {
			cancel()
		}
		if err != nil {
			o.Err = err.Error()
			return o
		}
		o.SeqAt = st.LastIssuedSequenceNumber
		o.TotAt = st.TotalDataPoints
		for _, g := range st.DataPointsBuffer {
			o.BufAt += len(g.DataPoints)
		}
		return o
	}
	seeds := make([]int64, s.Writers+s.Flushers)
	for i := range seeds {
		seeds[i] = c.Rng.Int63()
	}
	for wi := 0; wi < s.Writers; wi++ {
		wg.Add(1)
		go func(wi int) {
			defer wg.Done()
			r := rand.New(rand.NewSource(seeds[wi]))
			counter := 0
			for i := 0; i < s.Ops; i++ {
				if r.Intn(10) < 8 {
					n := []int{0, 1, 1, 2, 4}[r.Intn(5)]
					var cs, sz []int
					for j := 0; j < n; j++ {
						counter++
						cs = append(cs, counter)
						sz = append(sz, s.Sizes[r.Intn(len(s.Sizes))])
					}
					o := &opRec{Kind: "write", Sizes: sz}
					started.Add(int64(n))
					o.Call = w.Clock.Tick()
					wctx := ctx
					if s.CancelPct > 0 && r.Intn(100) < s.CancelPct {
						// the writer's context is already cancelled, or ends while the call waits for the flush loop: the call
						// either accepts the points (nil) or it does not (error) - an error must not leave them in the stream
						var wcancel context.CancelFunc
						wctx, wcancel = context.WithCancel(ctx)
						if r.Intn(2) == 0 {
							wcancel()
						} else {
							go func() { wcancel() }()
						}
						defer wcancel()
					}
					err := rec.Write(wctx, up, wi+1, pool[r.Intn(len(pool))], cs, sz)
					o.Return = w.Clock.Tick()
					if err != nil {
						o.Err = err.Error()
					} else {
						returnedOK.Add(int64(n))
					}
					ops[wi] = append(ops[wi], o)
				} else {
					ops[wi] = append(ops[wi], doFlush(r, s.Writers == 1 && s.Flushers == 0))
				}
			}
		}(wi)
	}
	for fi := 0; fi < s.Flushers; fi++ {
		wg.Add(1)
		go func(fi int) {
			defer wg.Done()
			r := rand.New(rand.NewSource(seeds[s.Writers+fi]))
			for i := 0; i < s.Ops/2; i++ {
				ops[s.Writers+fi] = append(ops[s.Writers+fi], doFlush(r, false))
				time.Sleep(time.Duration(r.Intn(300)) * time.Microsecond)
			}
		}(fi)
	}
	wg.Wait()
	// quiescent flush: nobody else is writing or flushing now
	firstFlush()
	qf := doFlush(rand.New(rand.NewSource(1)), true)
	accepted := returnedOK.Load()
	close(stopSampler)
	swg.Wait()
	if stateViol != nil {
		return *stateViol
	}
	if qf.Err != "" {
		return vrun.Inconcl("quiescent Flush failed: " + qf.Err)
	}
	if qf.BufAt != 0 {
		return vrun.Violation("visible buffer not empty after a quiescent Flush returned nil", "buffer-not-empty-after-flush", map[string]any{"buffered_points": qf.BufAt})
	}
	if int64(qf.TotAt) != accepted {
		return vrun.Violation("after a quiescent Flush the points reported sent differ from the points accepted", "state-total-after-flush", map[string]any{"total_data_points": qf.TotAt, "accepted": accepted})
	}
	if err := up.Close(ctx); err != nil {
		return vrun.Inconcl("close: " + err.Error())
	}
	select {
	case <-rec.ClosedCh:
	case <-time.After(30 * time.Second):
		return vrun.Inconcl("closed notification missing")
	}
	time.Sleep(time.Millisecond)
	writes, _, _, _ := rec.Snapshot()
	ups := w.B.Ups()
	if len(ups) != 1 {
		return vrun.Inconcl("broker saw no upstream")
	}
	w.B.Lock()
	us := *ups[0]
	us.Chunks = append([]broker.ChunkRec(nil), ups[0].Chunks...)
	w.B.Unlock()
	mk := func(f *uplib.Finding) vrun.Result {
		return vrun.Violation(f.Clause, f.Key, map[string]any{"detail": f.Detail})
	}
	if f := uplib.CheckConservation(writes, &us, uplib.Opts{RequireAll: true, CheckClose: true}); f != nil {
		return mk(f)
	}
	bySeq, _ := uplib.BySeq(us.Chunks)
	// index: point -> seq ; point -> write
	seqOf := map[time.Duration]uint32{}
	for sq, sc := range bySeq {
		for _, p := range sc.Points {
			seqOf[p.Elapsed] = sq
		}
	}
	// policy none: nothing before the first Flush/Close
	if s.Policy == "none" && chunksAtFirstFlush.Load() > 0 {
		return vrun.Violation("policy 'none' transmitted a chunk before the first Flush or Close", "none-policy-early-chunk", map[string]any{"chunks_before_first_flush": chunksAtFirstFlush.Load()})
	}
	// barrier
	nilFlushes := 0
	all := append([]*opRec{}, qf)
	for _, l := range ops {
		all = append(all, l...)
	}
	for _, o := range all {
		if o.Kind != "flush" || o.Err != "" {
			continue
		}
		nilFlushes++
		for _, wr := range writes {
			if wr.Err != "" || wr.Return == 0 || wr.Return >= o.Call {
				continue
			}
			for _, p := range wr.Points {
				sq, ok := seqOf[p.Elapsed]
				if !ok || sq > o.SeqAt {
					return vrun.Violation("Flush returned nil but a point accepted before the call was not yet cut into a chunk numbered <= the last issued number", "flush-not-a-barrier",
						map[string]any{"point": p.String(), "point_seq": sq, "last_issued_after_flush": o.SeqAt, "write_return_t": wr.Return, "flush_call_t": o.Call})
				}
			}
		}
	}
	// chunk composition in terms of writes
	type wref struct{ writer, idx int }
	writeOf := map[time.Duration]wref{}
	wsize := map[wref]int{}
	perWriter := map[int]int{}
	for _, wr := range writes {
		k := wref{wr.Writer, perWriter[wr.Writer]}
		perWriter[wr.Writer]++
		for _, p := range wr.Points {
			writeOf[p.Elapsed] = k
			wsize[k] += p.Len
		}
	}
	var seqs []uint32
	for sq := range bySeq {
		seqs = append(seqs, sq)
	}
	sort.Slice(seqs, func(i, j int) bool { return seqs[i] < seqs[j] })
	wchunk := map[wref]uint32{}
	for _, sq := range seqs {
		for _, p := range bySeq[sq].Points {
			k := writeOf[p.Elapsed]
			if prev, ok := wchunk[k]; ok && prev != sq {
				return vrun.Violation("one write's points were split over two chunks (a cut must contain everything buffered)", "write-split", map[string]any{"writer": k.writer, "write_index": k.idx, "seqs": []uint32{prev, sq}})
			}
			wchunk[k] = sq
		}
	}
	switch s.Policy {
	case "immediate":
		for _, sq := range seqs {
			set := map[wref]bool{}
			for _, p := range bySeq[sq].Points {
				set[writeOf[p.Elapsed]] = true
			}
			if len(set) > 1 {
				return vrun.Violation("immediate policy: a chunk holds more than one write", "immediate-merged-writes", map[string]any{"seq": sq, "writes": len(set)})
			}
		}
	case "size":
		for _, sq := range seqs {
			set := map[wref]bool{}
			total := 0
			for _, p := range bySeq[sq].Points {
				set[writeOf[p.Elapsed]] = true
				total += p.Len
			}
			if total > int(s.Threshold) {
				ok := false
				for k := range set {
					if total-wsize[k] <= int(s.Threshold) {
						ok = true
					}
				}
				if !ok {
					return vrun.Violation("size policy: a chunk kept growing after the buffered payload had exceeded the threshold", "size-policy-late-cut", map[string]any{"seq": sq, "payload": total, "threshold": s.Threshold})
				}
			}
		}
	}
	// single writer, no extra flushers: exact boundaries from the reference model
	modelChecked := false
	if s.Writers == 1 && s.Flushers == 0 && (s.Policy == "size" || s.Policy == "none" || s.Policy == "immediate") {
		var want [][]wref
		var cur []wref
		sum := 0
		wi := 0
		pending := false // zero-point writes make the buffer non-empty too (a group without points)
		cut := func() {
			if pending {
				want = append(want, cur)
				cur, sum, pending = nil, 0, false
			}
		}
		for _, o := range append(ops[0], qf) {
			if o.Kind == "write" {
				if o.Err != "" {
					wi++
					continue
				}
				k := wref{1, wi}
				wi++
				cur = append(cur, k)
				pending = true
				for _, z := range o.Sizes {
					sum += z
				}
				switch s.Policy {
				case "size":
					if sum > int(s.Threshold) {
						cut()
					}
				case "immediate":
					cut()
				}
			} else if o.Err == "" {
				cut()
			} else {
				// a failed Flush (cancelled context) may or may not have cut: the model cannot predict - skip the exact check
				want = nil
				goto skipModel
			}
		}
		cut()
		{
			var got [][]wref
			for _, sq := range seqs {
				seen := map[wref]bool{}
				var l []wref
				for _, p := range bySeq[sq].Points {
					k := writeOf[p.Elapsed]
					if !seen[k] {
						seen[k] = true
						l = append(l, k)
					}
				}
				sort.Slice(l, func(i, j int) bool { return l[i].idx < l[j].idx })
				got = append(got, l)
			}
			// zero-point writes are invisible at the broker as points; compare on writes that have points
			strip := func(x [][]wref) [][]int {
				var res [][]int
				for _, ch := range x {
					var l []int
					for _, k := range ch {
						if hasPoints(writes, k.idx) {
							l = append(l, k.idx)
						}
					}
					res = append(res, l)
				}
				return res
			}
			g, wnt := strip(got), strip(want)
			// chunks consisting only of zero-point writes carry a group without points; keep them in both lists
			if fmt.Sprint(g) != fmt.Sprint(wnt) {
				return vrun.Violation("chunk boundaries differ from the sequential reference model of the buffer", "boundaries-differ-from-model:"+s.Policy,
					map[string]any{"policy": s.Policy, "threshold": s.Threshold, "got_writes_per_chunk": g, "model_writes_per_chunk": wnt})
			}
			modelChecked = true
		}
	}
skipModel:
	boundary := uint64(1469598103934665603)
	for _, sq := range seqs {
		boundary = (boundary ^ uint64(len(bySeq[sq].Points)+1)) * 1099511628211
	}
	r := vrun.Hold(fmt.Sprintf("%s/%d|w%d|f%d|c%d|s%v|%x", s.Policy, s.Threshold, s.Writers, s.Flushers, s.CancelPct, s.Sampler, boundary), len(seqs) >= 3 && nilFlushes >= 1)
	r.Stat("chunks", int64(len(seqs)))
	r.Stat("writes", int64(len(writes)))
	r.Stat("nil_flushes_judged_as_barrier", int64(nilFlushes))
	r.Stat("state_snapshots_checked", samples.Load())
	if modelChecked {
		r.Stat("cases_with_exact_boundary_model", 1)
	}
	r.AddSet("policies", fmt.Sprintf("%s/%d", s.Policy, s.Threshold))
	return r
}

func hasPoints(writes []uplib.WriteRec, idx int) bool {
	n := -1
	for _, w := range writes {
		if w.Writer == 1 {
			n++
			if n == idx {
				return len(w.Points) > 0
			}
		}
	}
	return false
}

// ---- interval clause on the virtual clock

type ivScenario struct {
	Policy       string `json:"policy"`
	IntervalMs   int    `json:"interval_ms"`
	Threshold    uint32 `json:"threshold,omitempty"`
	Writes       int    `json:"writes"`
	GapsMs       []int  `json:"gaps_ms"`
	Outages      int    `json:"outages_before_the_writes,omitempty"`
	ZeroPayloads bool   `json:"zero_length_payloads,omitempty"`
	AllZero      bool   `json:"all_payloads_empty,omitempty"`
}

func TestC20Interval(t *testing.T) {
	e := vrun.LoadEnv()
	meta := vrun.Meta{Property: "C20", Workload: "TestC20Interval", Total: e.Pick(200, 20000),
		Rule:        "virtual time (testing/synctest bubble): policy interval or interval-or-size with interval 1ms..5s, in a third of the cases 1-2 outages (link severed, stream resumed) first, then 3-30 writes (in half of the cases some or all with zero-length payloads) separated by gaps drawn around the interval (0, interval/3, interval-1ms, interval, interval+1ms, 3*interval); oracle: every accepted point is handed to the transport no later than one interval + 1 ms (virtual) after its write returned, and conservation holds at close; non-trivial = >=2 chunks cut by the ticker; distinct = (policy, interval, gap pattern signature)",
		Assumptions: []string{"'sent' is judged at the transport boundary: the virtual time at which the library's transport Write of the chunk was recorded"}}
	vrun.Loop(t, meta, 0, func(c *vrun.Case) vrun.Result {
		s := ivScenario{Policy: []string{"interval", "interval-or-size"}[c.Rng.Intn(2)]}
		s.IntervalMs = []int{1, 2, 10, 50, 100, 1000, 5000}[c.Rng.Intn(7)]
		if s.Policy == "interval-or-size" {
			s.Threshold = []uint32{64, 1000, 100000}[c.Rng.Intn(3)]
		}
		s.Writes = 3 + c.Rng.Intn(28)
		iv := s.IntervalMs
		for i := 0; i < s.Writes; i++ {
			s.GapsMs = append(s.GapsMs, []int{0, iv / 3, iv - 1, iv, iv + 1, 3 * iv, 0, 0}[c.Rng.Intn(8)])
		}
		if c.Rng.Intn(3) == 0 {
			s.Outages = 1 + c.Rng.Intn(2)
		}
		switch c.Rng.Intn(4) {
		case 0:
			s.ZeroPayloads = true
		case 1:
			s.ZeroPayloads, s.AllZero = true, true // every payload empty: the buffered payload size stays 0
		}
		var res vrun.Result
		func() {
			defer func() {
				if r := recover(); r != nil {
					// bubble ended with blocked goroutines: a leak is C10's matter; the verdict formed inside stands
					if res.Verdict == "" {
						res = vrun.Inconcl(fmt.Sprint("bubble aborted: ", r))
					} else {
						res.Note = fmt.Sprint("bubble ended with blocked goroutines: ", r)
					}
				}
			}()
			synctest.Test(c.T, func(t *testing.T) { res = runInterval(s) })
		}()
		res.Desc = s
		return res
	})
}

func runInterval(s ivScenario) vrun.Result {
	w := world.New()
	w.Start()
	defer w.Close()
	pingIv := time.Hour
	if s.Outages > 0 {
		pingIv = time.Second
	}
	conn, err := w.Connect(iscp.WithConnPingInterval(pingIv), iscp.WithConnPingTimeout(time.Second))
	if err != nil {
		return vrun.Inconcl("connect: " + err.Error())
	}
	rec := uplib.NewRecorder(w.Clock)
	opts := append(rec.Options(), iscp.WithUpstreamQoS(message.QoSReliable))
	iv := time.Duration(s.IntervalMs) * time.Millisecond
	if s.Policy == "interval" {
		opts = append(opts, iscp.WithUpstreamFlushPolicyIntervalOnly(iv))
	} else {
		opts = append(opts, iscp.WithUpstreamFlushPolicyIntervalOrBufferSize(iv, s.Threshold))
	}
	ctx := context.Background()
	up, err := conn.OpenUpstream(ctx, "s", opts...)
	if err != nil {
		conn.Close(ctx)
		return vrun.Inconcl("open: " + err.Error())
	}
	id := message.DataID{Name: "d", Type: "t"}
	// outages before the judged writes: the policy must keep cutting on every later incarnation of the stream
	for k := 1; k <= s.Outages; k++ {
		rec.Write(ctx, up, 2, id, []int{k}, []int{10})
		time.Sleep(iv + 2*time.Millisecond)
		if cur := w.Net.Current(); cur != nil {
			cur.Fail(memnet.Sever)
		}
		resumed := false
		for i := 0; i < 600 && !resumed; i++ {
			time.Sleep(100 * time.Millisecond)
			_, _, _, _ = rec.Snapshot()
			resumed = rec.ResumedCount() >= k
		}
		if !resumed {
			conn.Close(ctx)
			return vrun.Inconcl("the upstream did not resume within 60 virtual seconds after the link was severed")
		}
	}
	for i := 0; i < s.Writes; i++ {
		// a third of the writes carries a zero-length payload (such points are data too)
		size := 100
		if s.ZeroPayloads && ((i+s.IntervalMs)%3 == 0 || s.AllZero) {
			size = 0
		}
		rec.Write(ctx, up, 1, id, []int{i + 1}, []int{size})
		time.Sleep(time.Duration(s.GapsMs[i]) * time.Millisecond)
	}
	time.Sleep(iv + 2*time.Millisecond)
	synctest.Wait()
	// where did each point go, and when (virtual)?
	sentAt := map[time.Duration]time.Time{}
	tickerChunks := 0
	for _, l := range w.Net.Links() {
		for _, r := range l.Log() {
			if r.Dir != memnet.C2S || r.Class != "UpstreamChunk" || !r.OK {
				continue
			}
			tickerChunks++
			ch := r.Msg.(*message.UpstreamChunk)
			for _, g := range ch.StreamChunk.DataPointGroups {
				for _, p := range g.DataPoints {
					if _, ok := sentAt[p.ElapsedTime]; !ok {
						sentAt[p.ElapsedTime] = r.VT
					}
				}
			}
		}
	}
	writes, _, _, _ := rec.Snapshot()
	var viol *vrun.Result
	for _, wr := range writes {
		if wr.Err != "" {
			continue
		}
		for _, p := range wr.Points {
			at, ok := sentAt[p.Elapsed]
			late := !ok || at.Sub(wr.ReturnVT) > iv+time.Millisecond
			if late && viol == nil {
				d := "never"
				if ok {
					d = at.Sub(wr.ReturnVT).String()
				}
				v := vrun.Violation("interval policy held an accepted point longer than one interval (+1 ms virtual)", "interval-policy-holds-data",
					map[string]any{"point": p.String(), "held_for": d, "interval": iv.String()})
				viol = &v
			}
		}
	}
	cerr := up.Close(ctx)
	conn.Close(ctx)
	synctest.Wait()
	if viol != nil {
		return *viol
	}
	if cerr != nil {
		return vrun.Inconcl("close: " + cerr.Error())
	}
	ups := w.B.Ups()
	if len(ups) == 1 {
		w.B.Lock()
		us := *ups[0]
		us.Chunks = append([]broker.ChunkRec(nil), ups[0].Chunks...)
		w.B.Unlock()
		if f := uplib.CheckConservation(writes, &us, uplib.Opts{RequireAll: true, CheckClose: true}); f != nil {
			return vrun.Violation(f.Clause, f.Key, map[string]any{"detail": f.Detail})
		}
	}
	h := uint64(1469598103934665603)
	for _, g := range s.GapsMs {
		h = (h ^ uint64(g+1)) * 1099511628211
	}
	r := vrun.Hold(fmt.Sprintf("%s/%d/%d/%x/o%d/z%v%v", s.Policy, s.IntervalMs, s.Threshold, h, s.Outages, s.ZeroPayloads, s.AllZero), tickerChunks >= 2)
	if s.Outages > 0 {
		r.Stat("cases_with_outages_before_the_writes", 1)
	}
	r.Stat("chunks_before_close", int64(tickerChunks))
	r.Stat("points_timed", int64(len(sentAt)))
	return r
}

// TestC20StoreFault: the sent storage fails on some chunks (a persistent storage can). One writer goroutine, a State()
// snapshot after every operation: a snapshot never invents or double-counts data, whatever the storage does.
func TestC20StoreFault(t *testing.T) {
	e := vrun.LoadEnv()
	meta := vrun.Meta{Property: "C20", Workload: "TestC20StoreFault", Total: e.Pick(100, 8000),
		Rule:        "one goroutine, policy none / size (threshold 1, 64, 1000) / immediate, 10-60 operations (Write of 0-4 points, Flush), the sent storage's Store fails for a drawn subset of sequence numbers; State() is read after every operation. Oracle: points reported sent + points reported buffered never exceed the points of the writes that returned nil, equal them after a Flush that returned nil, and the buffer is empty then. non-trivial = at least one Store failed and at least one later Flush returned nil; distinct = scenario tuple",
		Assumptions: []string{"what happens to the points of a chunk whose Store failed (they are dropped and the flush reports the error) is not judged here: the statement is about the state snapshot"}}
	vrun.Loop(t, meta, 0, func(c *vrun.Case) vrun.Result {
		var res vrun.Result
		ok, dump := vrun.Watchdog(120*time.Second, func() { res = runStoreFault(c) })
		if !ok {
			res = vrun.WatchdogVerdict("the case never finished")
			if res.Verdict == vrun.Inconclusive {
				res.Witness = map[string]any{"dump_head": dump[:min(len(dump), 4000)]}
			}
		}
		return res
	})
}

func runStoreFault(c *vrun.Case) vrun.Result {
	r := c.Rng
	policy := []string{"none", "size", "immediate"}[r.Intn(3)]
	threshold := []uint32{1, 64, 1000}[r.Intn(3)]
	nops := 10 + r.Intn(51)
	failEvery := 2 + r.Intn(4)
	failOff := r.Intn(failEvery)
	desc := map[string]any{"policy": policy, "threshold": threshold, "operations": nops, "store_fails_for_seq_mod": failEvery, "offset": failOff}
	done := func(v vrun.Result) vrun.Result { v.Desc = desc; return v }
	w := world.New()
	defer w.Close()
	w.Start()
	var failed atomic.Int64
	st := uplib.NewFailingStorage(func(seq uint32) bool {
		if int(seq)%failEvery == failOff {
			failed.Add(1)
			return true
		}
		return false
	})
	conn, err := w.Connect(iscp.WithConnPingInterval(time.Hour), iscp.VerifWithSentStorage(st))
	if err != nil {
		return done(vrun.Inconcl("connect: " + err.Error()))
	}
	defer conn.Close(context.Background())
	opts := []iscp.UpstreamOption{iscp.WithUpstreamQoS(message.QoSReliable), iscp.WithUpstreamCloseTimeout(time.Second)}
	switch policy {
	case "none":
		opts = append(opts, iscp.WithUpstreamFlushPolicyNone())
	case "size":
		opts = append(opts, iscp.WithUpstreamFlushPolicyBufferSizeOnly(threshold))
	case "immediate":
		opts = append(opts, iscp.WithUpstreamFlushPolicyImmediately())
	}
	ctx, cancel := context.WithTimeout(context.Background(), 60*time.Second)
	defer cancel()
	up, err := conn.OpenUpstream(ctx, "s", opts...)
	if err != nil {
		return done(vrun.Inconcl("open: " + err.Error()))
	}
	id := &message.DataID{Name: "d", Type: "t"}
	accepted := 0
	nilFlushAfterFailure := 0
	snapshots := 0
	check := func(after string, afterNilFlush bool) *vrun.Result {
		s := up.State()
		buffered := 0
		for _, g := range s.DataPointsBuffer {
			buffered += len(g.DataPoints)
		}
		snapshots++
		if int(s.TotalDataPoints)+buffered > accepted {
			v := vrun.Violation("a State() snapshot reports more points (sent + buffered) than were accepted", "state-invents-points:store-fault",
				map[string]any{"after": after, "total_data_points": s.TotalDataPoints, "buffered": buffered, "accepted": accepted, "stores_failed_so_far": failed.Load()})
			return &v
		}
		if afterNilFlush && (buffered != 0 || int(s.TotalDataPoints) != accepted) {
			v := vrun.Violation("after a Flush that returned nil the snapshot does not account for exactly the accepted points with an empty buffer", "state-total-after-flush:store-fault",
				map[string]any{"after": after, "total_data_points": s.TotalDataPoints, "buffered": buffered, "accepted": accepted, "stores_failed_so_far": failed.Load()})
			return &v
		}
		return nil
	}
	for i := 0; i < nops; i++ {
		if r.Intn(10) < 7 {
			n := r.Intn(5)
			var dps []*message.DataPoint
			for j := 0; j < n; j++ {
				dps = append(dps, &message.DataPoint{ElapsedTime: time.Duration(i*10 + j), Payload: make([]byte, []int{0, 1, 40, 200}[r.Intn(4)])})
			}
			if err := up.WriteDataPoints(ctx, id, dps...); err == nil {
				accepted += n
			}
			// the hand-off to the flush loop is asynchronous: give the loop a moment before looking
			time.Sleep(200 * time.Microsecond)
			if v := check(fmt.Sprintf("write #%d", i), false); v != nil {
				return done(*v)
			}
		} else {
			err := up.Flush(ctx)
			if err == nil && failed.Load() > 0 {
				nilFlushAfterFailure++
			}
			if v := check(fmt.Sprintf("flush #%d (err=%v)", i, err), err == nil); v != nil {
				return done(*v)
			}
		}
	}
	res := vrun.Hold(fmt.Sprintf("%s|%d|%d|%d/%d", policy, threshold, nops, failEvery, failOff), failed.Load() > 0 && nilFlushAfterFailure > 0)
	res.Stat("state_snapshots_checked", int64(snapshots))
	res.Stat("stores_failed", failed.Load())
	return done(res)
}
