package c05

import (
	"fmt"
	"math/rand"
	"os"
	"strings"
	"testing"
	"testing/synctest"

	"verif/harness/reconlib"
	"verif/harness/vrun"
)

// TestDebugDoubleDial replays a generated case until two links are dialled at the same virtual instant and prints the
// dial stacks (development aid; needs VERIF_DEBUG_DIAL=1 and C05_CASE / C05_SEED).
func TestDebugDoubleDial(t *testing.T) {
	if os.Getenv("VERIF_DEBUG_DIAL") == "" {
		t.Skip()
	}
	var seed int64 = 3
	idx := 0
	fmt.Sscan(os.Getenv("C05_SEED"), &seed)
	fmt.Sscan(os.Getenv("C05_CASE"), &idx)
	for i := 0; i < 400; i++ {
		r := rand.New(rand.NewSource(vrun.CaseSeed(seed, "TestC05Reconnect", idx)))
		s := baseScenario(r)
		nf := []int{1, 1, 1, 2, 3}[r.Intn(5)]
		for k := 0; k < nf; k++ {
			s.Faults = append(s.Faults, genFault(r, s))
		}
		found := false
		synctest.Test(t, func(t *testing.T) {
			o := reconlib.Run(s)
			healthy := 0
			for _, li := range o.LinkInfos {
				if li.Mode.String() == "healthy" {
					healthy++
				}
			}
			if healthy >= 2 {
				found = true
				for k, st := range o.DialStacks {
					var keep []string
					for _, ln := range strings.Split(st, "\n") {
						if strings.Contains(ln, "iscp-go/iscp.") || strings.Contains(ln, "iscp-go/wire.") {
							keep = append(keep, strings.TrimSpace(ln))
						}
					}
					fmt.Printf("DIAL %d: %s\n", k+1, strings.Join(keep, " <- "))
				}
				fmt.Println(strings.Join(lifecycleTrace(o), "\n"))
			}
		})
		if found {
			return
		}
	}
	fmt.Println("not reproduced")
}
