package c05

import (
	"fmt"
	"testing"
	"time"

	"github.com/aptpod/iscp-go/message"

	"verif/harness/memnet"
	"verif/harness/reconlib"
	"verif/harness/uplib"
	"verif/harness/vrun"
)

// TestC05CloseAcrossOutage: an upstream whose Close is waiting for acknowledgements is still an open stream. When the
// transport dies during that wait the stream has to be resumed like any other (under its original id), the chunks the
// broker never saw have to arrive, and Close has to complete - "every open upstream ... resumes ... and keeps working"
// for a stream in its last phase. The close timeout (60 s) is far longer than the outage, nothing refuses or cuts the
// resume, so neither a failing Close nor a closed notification carrying an error is a legal way out.
func TestC05CloseAcrossOutage(t *testing.T) {
	type pos struct {
		dir    memnet.Dir
		class  string
		ord    int
		after  bool
		mode   memnet.Mode
		hold   int
		redial int
		qos    string
	}
	var grid []pos
	for _, cl := range []struct {
		dir   memnet.Dir
		class string
		max   int
	}{{memnet.C2S, "UpstreamChunk", 5}, {memnet.S2C, "UpstreamChunkAck", 3}, {memnet.C2S, "Ping", 2}, {memnet.S2C, "Pong", 2}} {
		for ord := 1; ord <= cl.max; ord++ {
			for _, after := range []bool{false, true} {
				for _, mode := range []memnet.Mode{memnet.Sever, memnet.WFail, memnet.REOF, memnet.Blackhole} {
					for _, hold := range []int{0, 2} {
						for _, redial := range []int{0, 3000} {
							for _, q := range []string{"reliable", "partial"} {
								grid = append(grid, pos{cl.dir, cl.class, ord, after, mode, hold, redial, q})
							}
						}
					}
				}
			}
		}
	}
	meta := vrun.Meta{Property: "C05", Workload: "TestC05CloseAcrossOutage", Total: len(grid), Exhaustive: true,
		Rule: "virtual time; complete grid: one upstream (reliable or partial, immediate flush, 5 chunks, close timeout 60 s), Close called right after the fifth write while the broker withholds the acks of every 2nd chunk (or none); one transport failure before/after the n-th chunk (1-5), ack (1-3), ping or pong (1-2) in 4 failure modes, redial instant or 3 s; the broker accepts the resume and acknowledges what it receives. " +
			"Oracle: if the failure hit before Close had sent its close request, a resume request under the original stream id reaches the new link, Close returns nil, no closed notification carries an error, for a reliable stream every accepted point reached the broker and the close request's totals equal what it received (a partial stream does not retransmit). non-trivial = the fault fired before Close returned; all cases distinct",
		Assumptions: []string{"withheld acks are released 35 virtual seconds after recovery at the latest (cooperative broker), well inside the close timeout"}}
	vrun.Loop(t, meta, 0, func(c *vrun.Case) vrun.Result {
		g := grid[c.Index]
		s := reconlib.Scenario{PingMs: 200, Storage: "payload", WritesB: 0, DuringWrites: 0, AckHoldMod: g.hold}
		s.Ups = []reconlib.UpSpec{{QoS: g.qos, Flush: "immediate", Writes: 5, CloseEarly: true, CloseTimeoutMs: 60000}}
		s.Faults = []reconlib.Fault{{Trigger: memnet.Trigger{Dir: g.dir, Class: g.class, Ordinal: g.ord, After: g.after, Mode: g.mode}, DialDelayMs: g.redial}}
		return runCase(c, s, judgeCloseAcross)
	})
}

func judgeCloseAcross(o *reconlib.Outcome) vrun.Result {
	s := o.S
	if len(o.Ups) != 1 {
		return vrun.Inconcl("the stream could not be opened: " + fmt.Sprint(o.Notes))
	}
	u := o.Ups[0]
	f := s.Faults[0]
	sig := fmt.Sprintf("close-across|%s|%s-%s#%d-%v-%s|hold%d|redial%d", u.Spec.QoS, f.Trigger.Dir, f.Trigger.Class, f.Trigger.Ordinal, f.Trigger.After, f.Trigger.Mode, s.AckHoldMod, f.DialDelayMs)
	if o.FaultsFired == 0 {
		r := vrun.Hold(sig, false)
		r.Note = "fault position never reached"
		return r
	}
	if !o.Recovered {
		return vrun.Violation("the connection did not re-establish itself within 120 virtual seconds (plus six keepalive periods) after the transport failed", "no-recovery:"+faultKey(s), map[string]any{"note": o.RecoverNote})
	}
	if !u.ClosedEarly {
		return vrun.Violation("Close, called while the stream waited for acknowledgements across an outage, has not returned 10 virtual minutes later", "close-across-outage-never-returns", map[string]any{"trace": lifecycleTrace(o)})
	}
	writes, _, _, closed := u.Rec.Snapshot()
	wit := map[string]any{"close_err": u.CloseErr, "close_took_virtual_s": u.EarlyCloseSecs, "closed_events": u.ClosedErrs, "resume_requests_on_links": u.State.Resumes, "links": o.Links, "trace": lifecycleTrace(o)}
	// did the outage begin while the stream was still open? (the close request reached the broker on the first link: no)
	closedOnFirstLink := u.State.CloseReq != nil && len(u.State.Resumes) == 0 && u.CloseErr == ""
	if closedOnFirstLink {
		r := vrun.Hold(sig, false)
		r.Note = "Close completed before the failure"
		return r
	}
	if closeExchangeInterrupted(o) {
		// the close request itself was on its way when the link died (sent before the client had a new connection):
		// Close fails with a connection error and the stream is torn down locally - the statement lists open, metadata
		// and call requests as the ones that are sent again, not close requests. Not judged.
		r := vrun.Hold(sig, false)
		r.Note = "the failure hit the close exchange itself"
		r.Stat("close_exchange_interrupted", 1)
		return r
	}
	if len(u.State.Resumes) == 0 {
		return vrun.Violation("an upstream whose Close was waiting for acknowledgements when the transport died was never resumed", "draining-upstream-not-resumed", wit)
	}
	for _, c := range closed {
		if c.Err != "" {
			return vrun.Violation("an upstream was reported closed with an error although the broker accepted its resume", "upstream-closed-despite-recovery:close-across-outage", wit)
		}
	}
	if u.CloseErr != "" {
		return vrun.Violation("Close failed although the connection recovered and the broker accepted the resume well inside the close timeout", "close-fails-across-outage", wit)
	}
	st := u.State
	if fd := uplib.CheckConservation(writes, &st, uplib.Opts{AllowRetransmit: true, RequireAll: u.Spec.QoS == "reliable", CheckClose: u.Spec.QoS == "reliable"}); fd != nil {
		wit["detail"] = fd.Detail
		return vrun.Violation("a stream resumed during its Close did not keep working: "+fd.Clause, "close-across-outage:"+fd.Key, wit)
	}
	r := vrun.Hold(sig, true)
	r.Stat("close_took_virtual_ms", int64(u.EarlyCloseSecs*1000))
	r.Stat("resume_requests", int64(len(u.State.Resumes)))
	return r
}

// closeExchangeInterrupted: an UpstreamCloseRequest was written to the first link before the second link's connect
// request went out.
func closeExchangeInterrupted(o *reconlib.Outcome) bool {
	var closeAt, nextConnectAt time.Time
	for _, li := range o.LinkInfos {
		for _, r := range li.Log {
			if r.Dir != memnet.C2S {
				continue
			}
			switch r.Msg.(type) {
			case *message.UpstreamCloseRequest:
				if li.ID == 1 && closeAt.IsZero() {
					closeAt = r.VT
				}
			case *message.ConnectRequest:
				if li.ID == 2 && nextConnectAt.IsZero() {
					nextConnectAt = r.VT
				}
			}
		}
	}
	return !closeAt.IsZero() && (nextConnectAt.IsZero() || !closeAt.After(nextConnectAt))
}
