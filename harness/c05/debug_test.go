package c05

import (
	"encoding/json"
	"fmt"
	"os"
	"testing"
	"testing/synctest"

	"github.com/aptpod/iscp-go/message"

	"verif/harness/reconlib"
)

// TestDebugReplay prints the broker-side view of every upstream for a replay file (development aid).
func TestDebugReplay(t *testing.T) {
	p := os.Getenv("C05_REPLAY")
	if p == "" {
		t.Skip()
	}
	b, _ := os.ReadFile(p)
	var rp struct {
		Result struct {
			Desc reconlib.Scenario `json:"desc"`
		} `json:"result"`
	}
	if err := json.Unmarshal(b, &rp); err != nil {
		t.Fatal(err)
	}
	synctest.Test(t, func(t *testing.T) {
		o := reconlib.Run(rp.Result.Desc)
		for i, u := range o.Ups {
			fmt.Printf("UP %d %s qos=%s probe=%v %q resumed=%d closed=%v resumes=%v\n", i, u.ID, u.Spec.QoS, u.ProbeOK, u.ProbeErr, u.Resumed, u.ClosedErrs, u.State.Resumes)
			for _, c := range u.State.Chunks {
				fmt.Printf("   chunk link=%d alias=%d seq=%d\n", c.Link, c.Alias, c.Seq)
			}
			for _, a := range u.State.AcksSent {
				fmt.Printf("   ack link=%d ok=%v results=%v\n", a.Link, a.OK, a.Results)
			}
			_, _, acks, _ := u.Rec.Snapshot()
			fmt.Printf("   hook acks: %v\n", acks)
		}
		for _, li := range o.LinkInfos {
			fmt.Printf("LINK %d mode=%s\n", li.ID, li.Mode)
			for _, r := range li.Log {
				if r.Class == "Ping" || r.Class == "Pong" || r.Class == "UpstreamChunkAck" {
					continue
				}
				extra := ""
				if ch, ok := r.Msg.(*message.UpstreamChunk); ok {
					extra = fmt.Sprintf("alias=%d seq=%d", ch.StreamIDAlias, ch.StreamChunk.SequenceNumber)
				}
				if rr, ok := r.Msg.(*message.UpstreamResumeResponse); ok {
					extra = fmt.Sprintf("alias=%d code=%d req=%d", rr.AssignedStreamIDAlias, rr.ResultCode, rr.RequestID)
				}
				if rr, ok := r.Msg.(*message.UpstreamResumeRequest); ok {
					extra = fmt.Sprintf("id=%s req=%d", rr.StreamID, rr.RequestID)
				}
				fmt.Printf("   %s %s ok=%v reached=%v %s t=%s\n", r.Dir, r.Class, r.OK, r.Reached, extra, r.VT.Format("04:05.000"))
			}
		}
		fmt.Println("notes", o.Notes)
		r := Judge(o)
		fmt.Println("verdict", r.Verdict, r.Clause)
	})
}
