// C05 - a lost transport is survived: reconnect, fresh token, every stream resumed (virtual time, fault enumeration).
package c05

import (
	"fmt"
	"math/rand"
	"strconv"
	"strings"
	"testing"
	"testing/synctest"
	"time"

	"github.com/aptpod/iscp-go/message"
	"github.com/google/uuid"

	"verif/harness/memnet"
	"verif/harness/reconlib"
	"verif/harness/vrun"
)

var classesC2S = []string{"UpstreamChunk", "Ping", "DownstreamChunkAck"}
var classesS2C = []string{"UpstreamChunkAck", "Pong", "DownstreamChunk", "DownstreamChunkAckComplete"}

func baseScenario(r *rand.Rand) reconlib.Scenario {
	s := reconlib.Scenario{PingMs: []int{200, 500, 200, 500, 30000}[r.Intn(5)], Storage: "payload", WritesB: 3, DuringWrites: 2, AckHoldMod: []int{0, 2, 3}[r.Intn(3)]}
	// (30 s keepalive: unless the transport reports the failure itself, a request of the application notices the outage first)
	nu := r.Intn(4)
	nd := r.Intn(3)
	if nu+nd == 0 {
		nu = 1
	}
	for i := 0; i < nu; i++ {
		s.Ups = append(s.Ups, reconlib.UpSpec{QoS: []string{"reliable", "unreliable", "partial"}[r.Intn(3)], Flush: []string{"immediate", "size64"}[r.Intn(2)], Writes: 12})
	}
	for i := 0; i < nd; i++ {
		s.Downs = append(s.Downs, reconlib.DownSpec{QoS: []string{"reliable", "unreliable", "partial"}[r.Intn(3)]})
	}
	all := []string{"open-up", "open-down", "metadata", "call", "call-wait"}
	for _, c := range all {
		if r.Intn(3) == 0 {
			s.OutageCalls = append(s.OutageCalls, c)
		}
	}
	return s
}

func genFault(r *rand.Rand, s reconlib.Scenario) reconlib.Fault {
	f := reconlib.Fault{}
	var dir memnet.Dir
	var class string
	if r.Intn(2) == 0 {
		dir, class = memnet.C2S, classesC2S[r.Intn(len(classesC2S))]
	} else {
		dir, class = memnet.S2C, classesS2C[r.Intn(len(classesS2C))]
	}
	// classes that the scenario never produces would never fire: map them to keepalive
	if len(s.Ups) == 0 && strings.HasPrefix(class, "Upstream") {
		class = map[memnet.Dir]string{memnet.C2S: "Ping", memnet.S2C: "Pong"}[dir]
	}
	if len(s.Downs) == 0 && strings.HasPrefix(class, "Downstream") {
		class = map[memnet.Dir]string{memnet.C2S: "Ping", memnet.S2C: "Pong"}[dir]
	}
	f.Trigger = memnet.Trigger{Dir: dir, Class: class, Ordinal: 1 + r.Intn(4), After: r.Intn(2) == 0, Mode: []memnet.Mode{memnet.Sever, memnet.WFail, memnet.REOF, memnet.Blackhole}[r.Intn(4)]}
	switch r.Intn(5) {
	case 1:
		f.DialDelayMs = 1
	case 2:
		f.DialDelayMs = 3000
	case 3:
		f.DialErrors = 1 + r.Intn(3)
	}
	switch r.Intn(6) {
	case 0:
		f.ResumeConflicts = 1
	case 1:
		f.ResumeConflicts = 3
	}
	// failures inside the connect handshake of the retry / inside the resume exchange
	switch r.Intn(8) {
	case 0:
		f.NextLink = []memnet.Trigger{{Dir: memnet.C2S, Class: "ConnectRequest", Ordinal: 1, After: r.Intn(2) == 0, Mode: memnet.Sever}}
	case 1:
		f.NextLink = []memnet.Trigger{{Dir: memnet.S2C, Class: "ConnectResponse", Ordinal: 1, After: false, Mode: memnet.Sever}}
	case 2:
		if len(s.Ups) > 0 {
			f.CutResumeOf = 1 + r.Intn(len(s.Ups))
		}
	case 3:
		if len(s.Ups) > 0 {
			f.RefuseResumeOf = 1 + r.Intn(len(s.Ups))
		}
	case 4:
		// the retry's link dies the moment a stream has completed its resume on it
		cl := "UpstreamResumeResponse"
		if len(s.Ups) == 0 || (len(s.Downs) > 0 && r.Intn(2) == 0) {
			cl = "DownstreamResumeResponse"
		}
		f.NextLink = []memnet.Trigger{{Dir: memnet.S2C, Class: cl, Ordinal: 1, After: true, Mode: []memnet.Mode{memnet.Sever, memnet.REOF}[r.Intn(2)]}}
	}
	if len(s.Downs) > 0 && r.Intn(5) == 0 {
		// the broker has not yet noticed that the downstreams' old connection is gone: "conflict, ask again"
		f.DownConflicts = 1 + 2*r.Intn(2)
	}
	return f
}

func tokNum(t string) int {
	n, _ := strconv.Atoi(strings.TrimPrefix(t, "tok-"))
	return n
}

// Judge applies the C05 oracle.
func Judge(o *reconlib.Outcome) vrun.Result {
	s := o.S
	if len(o.Ups)+len(o.Downs) != len(s.Ups)+len(s.Downs) {
		return vrun.Inconcl("streams could not be opened before the first fault: " + fmt.Sprint(o.Notes))
	}
	if o.FaultsFired == 0 {
		r := vrun.Hold("nofault", false)
		r.Note = "fault position never reached"
		return r
	}
	if !o.Recovered {
		return vrun.Violation("the connection did not re-establish itself within 120 virtual seconds (plus six keepalive periods) after the transport failed", "no-recovery:"+faultKey(s), map[string]any{"note": o.RecoverNote, "dials": o.Dials, "links": o.Links})
	}
	// fresh token on every connect
	prev := 0
	for i, t := range o.ConnectTokens {
		n := tokNum(t)
		if n <= prev {
			return vrun.Violation("a connect request did not carry a token newer than the previous connect", "stale-token", map[string]any{"connect_tokens": o.ConnectTokens, "index": i})
		}
		prev = n
	}
	if len(o.Tokens) < o.Dials {
		return vrun.Violation("the token source was not asked on every connect attempt", "token-not-refreshed", map[string]any{"tokens": len(o.Tokens), "dials": o.Dials})
	}
	if o.Disconnected != o.Reconnected {
		return vrun.Violation("disconnected and reconnected notifications do not pair up (once per outage)", "notification-count", map[string]any{"disconnected": o.Disconnected, "reconnected": o.Reconnected})
	}
	// resume requests must name known streams / original aliases
	knownUp := map[string]bool{}
	for _, id := range o.AllUpIDs {
		knownUp[id.String()] = true
	}
	aliasOf := map[string]uint32{}
	for id, a := range o.AllDownAlias {
		aliasOf[id.String()] = a
	}
	for _, e := range o.Ledger {
		if e.Dir != memnet.C2S {
			continue
		}
		switch m := e.Msg.(type) {
		case *message.UpstreamResumeRequest:
			if !knownUp[m.StreamID.String()] {
				return vrun.Violation("an upstream resume request carries a stream id that is not the original one", "resume-wrong-stream-id", map[string]any{"id": m.StreamID.String()})
			}
		case *message.DownstreamResumeRequest:
			if a, ok := aliasOf[m.StreamID.String()]; !ok || a != m.DesiredStreamIDAlias {
				return vrun.Violation("a downstream resume request does not use the original stream id and alias", "resume-wrong-alias", map[string]any{"id": m.StreamID.String(), "alias": m.DesiredStreamIDAlias, "original": a})
			}
		}
	}
	closedWithErr := func(errs []string) bool {
		for _, e := range errs {
			if e != "" {
				return true
			}
		}
		return false
	}
	// streams whose resume was really refused or cut by the scenario
	victims := map[string]string{}
	for _, id := range o.RefusedUps {
		victims[id.String()] = "refused"
	}
	for _, id := range o.CutUps {
		victims[id.String()] = "cut"
	}
	for i, u := range o.Ups {
		// "reported closed": a closed notification carrying an error, or the stream's calls failing with the stream-closed error
		reported := closedWithErr(u.ClosedErrs) || u.WriteStreamClosed
		why, isVictim := victims[u.ID.String()]
		// a link that died while this stream had not finished resuming on it cut the stream's resume exchange as well
		mayBeClosed := isVictim || o.ResumeInterrupted(u.ID)
		if u.ProbeOK {
			if want, atMost := completedResumes(o, u.ID); u.Resumed < want || u.Resumed > atMost || atMost < 1 {
				return vrun.Violation("an upstream that stayed open was not notified as resumed exactly once per completed resume", "upstream-resumed-count", map[string]any{"upstream": i, "resumed_events": u.Resumed, "resumes_completed_on_the_wire": want, "resume_responses_read": atMost, "reconnected": o.Reconnected})
			}
			if isVictim && why == "refused" {
				return vrun.Violation("an upstream whose resume the broker refused keeps working silently", "refused-resume-not-closed", map[string]any{"upstream": i})
			}
			continue
		}
		if !reported {
			return vrun.Violation("an upstream is left silently detached: it neither works after recovery nor was it reported closed", "upstream-silently-detached:"+faultKey(s),
				map[string]any{"upstream": i, "qos": u.Spec.QoS, "probe": u.ProbeErr, "resumed_events": u.Resumed, "resume_requests_on_links": u.State.Resumes, "closed_events": u.ClosedErrs, "write_stream_closed": u.WriteStreamClosed})
		}
		if !mayBeClosed {
			if len(victims) > 0 {
				return vrun.Violation("a refused or cut resume closed another stream than the one concerned", "resume-failure-closed-other-stream", map[string]any{"upstream": i, "victims": victims, "closed_events": u.ClosedErrs})
			}
			// closed although every resume could have succeeded
			return vrun.Violation("an upstream was closed although the broker accepted its resume", "upstream-closed-despite-recovery:"+faultKey(s),
				map[string]any{"upstream": i, "id": u.ID.String()[:8], "qos": u.Spec.QoS, "closed_events": u.ClosedErrs, "resume_requests_on_links": u.State.Resumes, "probe": u.ProbeErr, "trace": lifecycleTrace(o)})
		}
	}
	for i, d := range o.Downs {
		reported := closedWithErr(d.ClosedErrs) || d.ReadStreamClosed
		mayBeClosed := o.ResumeInterrupted(d.ID)
		if d.ProbeOK {
			if want, atMost := completedResumes(o, d.ID); d.Resumed < want || d.Resumed > atMost || atMost < 1 {
				return vrun.Violation("a downstream that stayed open was not notified as resumed exactly once per completed resume", "downstream-resumed-count", map[string]any{"downstream": i, "resumed_events": d.Resumed, "resumes_completed_on_the_wire": want, "resume_responses_read": atMost, "reconnected": o.Reconnected})
			}
			continue
		}
		if !reported {
			return vrun.Violation("a downstream is left silently detached: it neither works after recovery nor was it reported closed", "downstream-silently-detached:"+faultKey(s),
				map[string]any{"downstream": i, "qos": d.Spec.QoS, "probe": d.ProbeErr, "resumed_events": d.Resumed, "resume_requests_on_links": d.State.Resumes})
		}
		if !mayBeClosed {
			return vrun.Violation("a downstream was closed although the broker did not refuse its resume and the exchange was not cut", "downstream-closed-despite-recovery:"+faultKey(s),
				map[string]any{"downstream": i, "id": d.ID.String()[:8], "qos": d.Spec.QoS, "closed_events": d.ClosedErrs, "resume_requests_on_links": d.State.Resumes, "read_stream_closed": d.ReadStreamClosed, "resumed_events": d.Resumed, "trace": lifecycleTrace(o)})
		}
	}
	fast := true
	for _, sec := range o.RecoverySecs {
		if sec > 30 {
			fast = false
		}
	}
	// a later link that died silently (a second failure armed on the retry's link) is only noticed by the keepalive: the
	// whole sequence of outages counts, not just the time to the first new connection
	if len(o.LinkInfos) > 1 {
		var firstFail, lastConnect time.Time
		for _, li := range o.LinkInfos {
			if firstFail.IsZero() && !li.FailedVT.IsZero() {
				firstFail = li.FailedVT
			}
			for _, r := range li.Log {
				if _, ok := r.Msg.(*message.ConnectRequest); ok && r.Dir == memnet.C2S {
					lastConnect = r.VT
				}
			}
		}
		if !firstFail.IsZero() && lastConnect.Sub(firstFail) > 30*time.Second {
			fast = false
		}
	}
	for _, c := range o.Calls {
		if c.ConnClosedErr {
			return vrun.Violation("an API call issued during the outage failed with a connection error instead of being sent again after recovery", "outage-call-connection-error:"+c.Name, map[string]any{"call": c})
		}
		if c.Name == "call-wait" && c.CtxErr && replyLostWithLink(o) {
			// the call was delivered and acknowledged; the peer's reply was lost with the link: nothing the client can resend
			continue
		}
		if c.Err != "" && c.CtxErr && fast {
			return vrun.Violation("an API call issued during the outage was dropped: it ended with its 60 s context although the connection had recovered within 30 s", "outage-call-dropped:"+c.Name, map[string]any{"call": c, "recovery_secs": o.RecoverySecs, "trace": append(lifecycleTrace(o), callTrace(o)...)})
		}
		if c.Err != "" && !c.CtxErr {
			return vrun.Violation("an API call issued during the outage failed", "outage-call-failed:"+c.Name, map[string]any{"call": c})
		}
	}
	sig := fmt.Sprintf("u%d d%d %v | %s", len(s.Ups), len(s.Downs), s.OutageCalls, faultKey(s))
	for _, f := range s.Faults {
		sig += fmt.Sprintf("|#%d/%v/d%d/e%d/c%d", f.Trigger.Ordinal, f.Trigger.After, f.DialDelayMs, f.DialErrors, f.ResumeConflicts+10*f.DownConflicts)
	}
	r := vrun.Hold(sig, true)
	r.Stat("faults_fired", int64(o.FaultsFired))
	r.Stat("links", int64(o.Links))
	r.Stat("dials", int64(o.Dials))
	r.Stat("outage_calls", int64(len(o.Calls)))
	r.Stat("streams_probed", int64(len(o.Ups)+len(o.Downs)))
	for _, f := range s.Faults {
		r.AddSet("fault_positions", fmt.Sprintf("%s/%s#%d/%v/%s", f.Trigger.Dir, f.Trigger.Class, f.Trigger.Ordinal, f.Trigger.After, f.Trigger.Mode))
	}
	return r
}

// replyLostWithLink: some 'wait' call's ack was read by the client, but the reply the broker sent for it was either never
// read or was read only on a link incarnation that died (a message handed to a connection that is being torn down can
// be dropped inside the client just as it can be lost on the wire; replies are not acknowledged, so nothing can be resent).
func replyLostWithLink(o *reconlib.Outcome) bool {
	acked := map[string]bool{}
	repliedOnSurvivingLink := map[string]bool{}
	for _, li := range o.LinkInfos {
		for _, r := range li.Log {
			if r.Dir != memnet.S2C || !r.OK {
				continue
			}
			switch m := r.Msg.(type) {
			case *message.UpstreamCallAck:
				acked[m.CallID] = true
			case *message.DownstreamCall:
				if li.Mode == memnet.Healthy {
					repliedOnSurvivingLink[m.RequestCallID] = true
				}
			}
		}
	}
	for id := range acked {
		if !repliedOnSurvivingLink[id] {
			for _, e := range o.Ledger {
				if uc, ok := e.Msg.(*message.UpstreamCall); ok && uc.CallID == id && uc.Name == "wait" {
					return true
				}
			}
		}
	}
	return false
}

// completedResumes counts the link incarnations on which the stream's resume exchange completed successfully: at least
// those where the response was read before the link died, at most those where it was read at all (a response read at the
// instant the link died may or may not have been processed by the client).
func completedResumes(o *reconlib.Outcome, id uuid.UUID) (atLeast, atMost int) {
	for _, li := range o.LinkInfos {
		if li.ID >= 2 && o.ResumeCompleted(id, li.ID) {
			atLeast++
		}
		if li.ID >= 2 && o.ResumeResponseRead(id, li.ID) {
			atMost++
		}
	}
	return atLeast, atMost
}

// callTrace lists the request/call related transport records (for witnesses).
func callTrace(o *reconlib.Outcome) []string {
	var res []string
	for _, li := range o.LinkInfos {
		for _, r := range li.Log {
			switch m := r.Msg.(type) {
			case *message.UpstreamCall:
				res = append(res, fmt.Sprintf("link %d %s UpstreamCall id=%.8s name=%s ok=%v reached=%v t=%s", li.ID, r.Dir, m.CallID, m.Name, r.OK, r.Reached, r.VT.Format("04:05.000")))
			case *message.UpstreamCallAck:
				res = append(res, fmt.Sprintf("link %d %s UpstreamCallAck id=%.8s ok=%v t=%s", li.ID, r.Dir, m.CallID, r.OK, r.VT.Format("04:05.000")))
			case *message.DownstreamCall:
				res = append(res, fmt.Sprintf("link %d %s DownstreamCall req=%.8s ok=%v t=%s", li.ID, r.Dir, m.RequestCallID, r.OK, r.VT.Format("04:05.000")))
			case *message.UpstreamOpenRequest, *message.UpstreamOpenResponse, *message.DownstreamOpenRequest, *message.DownstreamOpenResponse, *message.UpstreamMetadata, *message.UpstreamMetadataAck:
				res = append(res, fmt.Sprintf("link %d %s %s ok=%v reached=%v t=%s", li.ID, r.Dir, r.Class, r.OK, r.Reached, r.VT.Format("04:05.000")))
			}
		}
	}
	return res
}

// lifecycleTrace is a compact transport-boundary trace of connection and stream lifecycle messages (for witnesses).
func lifecycleTrace(o *reconlib.Outcome) []string {
	var res []string
	for _, li := range o.LinkInfos {
		res = append(res, fmt.Sprintf("link %d mode=%s", li.ID, li.Mode))
		for _, r := range li.Log {
			switch m := r.Msg.(type) {
			case *message.ConnectRequest, *message.ConnectResponse, *message.Disconnect:
				res = append(res, fmt.Sprintf("  %s %s ok=%v t=%s", r.Dir, r.Class, r.OK, r.VT.Format("04:05.000")))
			case *message.UpstreamResumeRequest:
				res = append(res, fmt.Sprintf("  %s %s stream=%s req=%d ok=%v t=%s", r.Dir, r.Class, m.StreamID.String()[:8], m.RequestID, r.OK, r.VT.Format("04:05.000")))
			case *message.UpstreamResumeResponse:
				res = append(res, fmt.Sprintf("  %s %s req=%d code=%d ok=%v t=%s", r.Dir, r.Class, m.RequestID, m.ResultCode, r.OK, r.VT.Format("04:05.000")))
			case *message.DownstreamResumeRequest:
				res = append(res, fmt.Sprintf("  %s %s stream=%s alias=%d req=%d ok=%v t=%s", r.Dir, r.Class, m.StreamID.String()[:8], m.DesiredStreamIDAlias, m.RequestID, r.OK, r.VT.Format("04:05.000")))
			case *message.DownstreamResumeResponse:
				res = append(res, fmt.Sprintf("  %s %s req=%d code=%d ok=%v t=%s", r.Dir, r.Class, m.RequestID, m.ResultCode, r.OK, r.VT.Format("04:05.000")))
			case *message.UpstreamCloseRequest:
				res = append(res, fmt.Sprintf("  %s %s stream=%s ok=%v t=%s", r.Dir, r.Class, m.StreamID.String()[:8], r.OK, r.VT.Format("04:05.000")))
			case *message.DownstreamCloseRequest:
				res = append(res, fmt.Sprintf("  %s %s stream=%s ok=%v t=%s", r.Dir, r.Class, m.StreamID.String()[:8], r.OK, r.VT.Format("04:05.000")))
			}
		}
	}
	return res
}

func faultKey(s reconlib.Scenario) string {
	var parts []string
	for _, f := range s.Faults {
		p := fmt.Sprintf("%s-%s-%s", f.Trigger.Mode, f.Trigger.Dir, f.Trigger.Class)
		if len(f.NextLink) > 0 {
			p += "+handshake-" + f.NextLink[0].Class
		}
		if f.CutResumeOf > 0 {
			p += "+cut-resume"
		}
		if f.RefuseResumeOf > 0 {
			p += "+refused-resume"
		}
		parts = append(parts, p)
	}
	return strings.Join(parts, ",")
}

func runCase(c *vrun.Case, s reconlib.Scenario, judge func(*reconlib.Outcome) vrun.Result) vrun.Result {
	var res vrun.Result
	ok, dump := vrun.Watchdog(120*time.Second, func() {
		func() {
			defer func() {
				if r := recover(); r != nil {
					if res.Verdict == "" {
						res = vrun.Inconcl(fmt.Sprint("bubble aborted: ", r))
					} else if res.Note == "" {
						res.Note = fmt.Sprint("bubble end: ", r)
					}
				}
			}()
			synctest.Test(c.T, func(t *testing.T) { res = judge(reconlib.Run(s)) })
		}()
	})
	if !ok {
		res = vrun.Inconcl("real-time watchdog fired (bubble stalled)")
		res.Witness = map[string]any{"dump_head": dump[:min(len(dump), 4000)]}
	}
	res.Desc = s
	return res
}

func TestC05Reconnect(t *testing.T) {
	e := vrun.LoadEnv()
	meta := vrun.Meta{Property: "C05", Workload: "TestC05Reconnect", Total: e.Pick(300, 40000),
		Rule: "virtual time: base scenario (0-3 upstreams and 0-2 downstreams of all QoS with continuous traffic, acks partly withheld, a drawn subset of {OpenUpstream, OpenDownstream, SendMetadata, SendCall, SendCallAndWaitReplayCall} issued the moment the link dies, writes continuing during the outage) x 1-3 transport failures, each at a message boundary (direction, message class, ordinal, before/after) in one of 4 failure modes, with redial instant / 1 ms / 3 s / after 1-3 dial errors, resume conflicts 0/1/3 (upstreams and, separately, downstreams), optionally a second failure inside the connect handshake of the retry, a resume exchange that is cut, a resume the broker refuses, or a link that dies the moment a stream has resumed on it; in a quarter of the cases the application's logger blocks 0.3-10 s at one step of the reconnect / resume procedure, in a fifth its disconnected or reconnected handler takes 0.3-10 s. Oracle: recovery within 120 virtual seconds (plus six keepalive periods); strictly newer token on every connect; resume requests under the original stream id / alias; every stream either passes a probe after recovery (write+flush+ack, or a pushed chunk read) or was reported closed with an error - and only the stream whose resume was refused or cut may be; notifications pair up once per outage; outage calls succeed (or end with their own context), never with a connection error. non-trivial = at least one fault fired; distinct = (stream mix, outage calls, fault keys)",
		Assumptions: []string{"bounded restatement of 'keeps working': within 120 virtual seconds (plus six keepalive periods) after the last fault, with a cooperative broker",
			"'once per outage' is counted on the client's own notifications (disconnected == reconnected); a stream's resumed notifications must equal the number of resume exchanges it completed on the wire (an outage that hits before a stream has resumed merges with the previous one for that stream)",
			"'reported closed with an error' is read as: a closed notification carrying an error OR the stream's own calls failing with the stream-closed error (the weaker reading; the stream is not SILENTLY detached then)"}}
	vrun.Loop(t, meta, 0, func(c *vrun.Case) vrun.Result {
		s := baseScenario(c.Rng)
		nf := []int{1, 1, 1, 2, 3}[c.Rng.Intn(5)]
		for i := 0; i < nf; i++ {
			s.Faults = append(s.Faults, genFault(c.Rng, s))
		}
		if c.Rng.Intn(4) == 0 {
			// the application's logger blocks for a while at one step of the reconnect / resume procedure
			s.SlowLog = reconlib.SlowLogSites[c.Rng.Intn(len(reconlib.SlowLogSites))]
			s.SlowLogMs = []int{300, 3000, 10000}[c.Rng.Intn(3)]
		}
		if c.Rng.Intn(5) == 0 {
			// the application's disconnected / reconnected handler (called inline by the reconnect loop) takes a while
			s.SlowHandler = []string{"disconnected", "reconnected"}[c.Rng.Intn(2)]
			s.SlowHandlerMs = []int{300, 3000, 10000}[c.Rng.Intn(3)]
		}
		if c.Rng.Intn(4) == 0 {
			s.CloseFails = "broken" // closing a transport whose link is already broken reports an error
		}
		if c.Rng.Intn(3) == 0 {
			s.AliasFromZero = true // stream alias 0 is in use on every connection
		}
		for _, f := range s.Faults {
			if f.RefuseResumeOf > 0 && len(s.Ups) >= 2 {
				// directed: a refused response carries alias 0 - the alias another stream legitimately holds
				s.AliasFromZero = true
			}
		}
		if s.PingMs >= 10000 {
			// the slow keepalive is combined with plain outages only: every further silent failure (a second failure
			// armed on the retry's link, a cut resume) adds a full minute of detection time to the history, and the
			// harness' waits between its phases are laid out for outages that are noticed within a second
			plain := len(s.Faults) == 1 && s.SlowLog == "" && s.SlowHandler == ""
			for _, f := range s.Faults {
				if len(f.NextLink) > 0 || f.CutResumeOf > 0 || f.RefuseResumeOf > 0 {
					plain = false
				}
			}
			if !plain {
				s.PingMs = 500
			}
		}
		return runCase(c, s, Judge)
	})
}

// TestC05Enumerate: the complete single-fault grid of one base scenario (fault enumeration proper).
func TestC05Enumerate(t *testing.T) {
	type pos struct {
		dir    memnet.Dir
		class  string
		ord    int
		after  bool
		mode   memnet.Mode
		redial int // 0 instant, 1 = 3 s dial delay, 2 = two dial errors
	}
	var grid []pos
	classes := []struct {
		dir   memnet.Dir
		class string
		max   int
	}{{memnet.C2S, "UpstreamChunk", 4}, {memnet.S2C, "UpstreamChunkAck", 4}, {memnet.S2C, "DownstreamChunk", 4}, {memnet.C2S, "DownstreamChunkAck", 3}, {memnet.S2C, "DownstreamChunkAckComplete", 3}, {memnet.C2S, "Ping", 3}, {memnet.S2C, "Pong", 3}}
	for _, cl := range classes {
		for ord := 1; ord <= cl.max; ord++ {
			for _, after := range []bool{false, true} {
				for _, mode := range []memnet.Mode{memnet.Sever, memnet.WFail, memnet.REOF, memnet.Blackhole} {
					for redial := 0; redial < 3; redial++ {
						grid = append(grid, pos{cl.dir, cl.class, ord, after, mode, redial})
					}
				}
			}
		}
	}
	meta := vrun.Meta{Property: "C05", Workload: "TestC05Enumerate", Total: len(grid), Exhaustive: true,
		Rule: "complete single-fault grid of one base scenario (a reliable and an unreliable upstream, a reliable downstream, continuous traffic, every API call kind issued when the link dies): failure before/after the n-th chunk, ack, downstream chunk, downstream ack, ack-complete, ping, pong x 4 failure modes x redial {instant, 3 s, after two dial errors}; same oracle as TestC05Reconnect. non-trivial = the fault fired; all cases distinct"}
	vrun.Loop(t, meta, 0, func(c *vrun.Case) vrun.Result {
		g := grid[c.Index]
		s := reconlib.Scenario{PingMs: 200, Storage: "payload", WritesB: 3, DuringWrites: 2, AckHoldMod: 3}
		s.Ups = []reconlib.UpSpec{{QoS: "reliable", Flush: "immediate", Writes: 12}, {QoS: "unreliable", Flush: "size64", Writes: 12}}
		s.Downs = []reconlib.DownSpec{{QoS: "reliable"}}
		s.OutageCalls = []string{"open-up", "open-down", "metadata", "call", "call-wait"}
		f := reconlib.Fault{Trigger: memnet.Trigger{Dir: g.dir, Class: g.class, Ordinal: g.ord, After: g.after, Mode: g.mode}}
		switch g.redial {
		case 1:
			f.DialDelayMs = 3000
		case 2:
			f.DialErrors = 2
		}
		s.Faults = []reconlib.Fault{f}
		return runCase(c, s, Judge)
	})
}
