// Package broker is a programmable iSCP peer for the harness: a real protocol endpoint written against
// message.* and the library's encodings, running on memnet links. It is cooperative by default; property
// workloads change its behaviour through policies and the OnMsg hook. It keeps a ledger of every message it
// received and sent (link incarnation, logical timestamp) and stream tables that survive link incarnations.
package broker

import (
	"bytes"
	"crypto/sha1"
	"fmt"
	"sync"
	"time"

	"github.com/aptpod/iscp-go/message"
	"github.com/google/uuid"

	"verif/harness/memnet"
)

// Entry is one ledger line.
type Entry struct {
	T     int64
	VT    time.Time
	Link  int
	Dir   memnet.Dir
	Class string
	Msg   message.Message
	Unrel bool
	Sent  bool // s2c: the message was put on a live link
}

// Point is a decoded data point as the broker understood it.
type Point struct {
	ID      message.DataID
	Elapsed time.Duration
	Payload []byte
}

// ChunkRec is one upstream chunk as received, resolved through the alias table the broker issued.
type ChunkRec struct {
	T        int64
	Link     int
	Alias    uint32
	Seq      uint32
	Groups   [][]Point // one slice per data point group, in message order
	GroupIDs []message.DataID
	Unknown  []uint32 // data id aliases the broker never issued
	Raw      *message.UpstreamChunk
	Unrel    bool
}

// UpState is the broker's view of one upstream.
type UpState struct {
	ID              uuid.UUID
	SessionID       string
	QoS             message.QoS
	OpenReq         *message.UpstreamOpenRequest
	Aliases         map[uint32]message.DataID // issued by the broker (open response + acks)
	RevAlias        map[message.DataID]uint32
	nextAlias       uint32
	LinkAlias       map[int]uint32 // stream alias per link incarnation
	Chunks          []ChunkRec
	CloseReq        *message.UpstreamCloseRequest
	CloseT          int64
	CloseLink       int
	Resumes         []int // links on which a resume request arrived
	AcksSent        []AckRec
	pending         []*message.UpstreamChunkResult // batched results
	IDsSeen         map[message.DataID]int         // chunks in which the id was seen in full form
	ResumeConflicts int                            // remaining conflict answers
}

type AckRec struct {
	T       int64
	Link    int
	Results []message.UpstreamChunkResult
	Aliases map[uint32]message.DataID
	OK      bool
}

// DownState is the broker's view of one downstream.
type DownState struct {
	ID        uuid.UUID
	Alias     uint32
	QoS       message.QoS
	OpenReq   *message.DownstreamOpenRequest
	DataIDs   map[uint32]message.DataID       // announced by the client (open request + acks)
	Upstreams map[uint32]message.UpstreamInfo // announced by the client (acks)
	Acks      []DownAckRec
	MetaAcks  []message.DownstreamMetadataAck
	CloseReq  *message.DownstreamCloseRequest
	CloseT    int64
	Resumes   []int
	Links     []int
	// ResumeConflicts: remaining RESUME_REQUEST_CONFLICT answers (the broker has not yet noticed that the stream's old
	// connection is gone - "ask again")
	ResumeConflicts int
}

type DownAckRec struct {
	T    int64
	Link int
	Ack  *message.DownstreamChunkAck
}

// LinkCtx is the broker side of one link.
type LinkCtx struct {
	B         *Broker
	L         *memnet.Link
	mu        sync.Mutex
	upAlias   map[uint32]*UpState
	nextUp    uint32
	freeUp    []uint32 // aliases of closed upstreams (Policy.RecycleUpAlias)
	downs     map[uint32]*DownState
	Connect   *message.ConnectRequest
	ConnectT  int64
	ConnectVT time.Time
	sendMu    sync.Mutex
}

// AckMode selects how upstream chunks are acknowledged.
type AckMode int

const (
	AckImmediate AckMode = iota
	AckBatch             // every K chunks (and on Flush)
	AckWithhold          // never
	AckManual            // the workload calls AckChunks itself
)

// AliasMode selects when the broker hands out data id aliases to an upstream.
type AliasMode int

const (
	AliasNever    AliasMode = iota
	AliasAtOpen             // for the ids listed in the open request
	AliasAfterNth           // after an id was seen in full form in N chunks
)

type Policy struct {
	Ack        AckMode
	AckBatchK  int
	AckCodes   []message.ResultCode // cycled over chunks; empty = SUCCEEDED
	AckDup     bool                 // every ack is sent twice
	AckReverse bool                 // results inside a batched ack are listed in reverse order
	// UpAliasFromZero: upstream stream aliases are handed out from 0 instead of 1.
	// RecycleUpAlias: the alias of a closed upstream is given to the next upstream opened on the link.
	RecycleUpAlias  bool
	UpAliasFromZero bool
	Alias           AliasMode
	AliasN          int
	AnswerPing      bool
	PongDelay       time.Duration
}

// Broker is the peer.
type Broker struct {
	Net   *memnet.Net
	Clock *memnet.Clock
	P     Policy
	// OnMsg is called for every client message before the default handling; returning true consumes it.
	OnMsg func(lc *LinkCtx, m message.Message, unrel bool) bool
	// OnLink is called when a link has been accepted (before the connect exchange).
	OnLink func(lc *LinkCtx)

	mu        sync.Mutex
	ledger    []Entry
	ups       map[uuid.UUID]*UpState
	upOrder   []*UpState
	downs     map[uuid.UUID]*DownState
	downOrder []*DownState
	links     []*LinkCtx
	wg        sync.WaitGroup
	stop      chan struct{}
	Errors    []string // protocol oddities noticed by the broker itself (unknown alias...)
}

func New(n *memnet.Net) *Broker {
	b := &Broker{Net: n, Clock: n.Clock, ups: map[uuid.UUID]*UpState{}, downs: map[uuid.UUID]*DownState{}, stop: make(chan struct{})}
	b.P.AnswerPing = true
	return b
}

// Start runs the accept loop.
func (b *Broker) Start() {
	b.wg.Add(1)
	go func() {
		defer b.wg.Done()
		for {
			select {
			case l := <-b.Net.Accept():
				lc := &LinkCtx{B: b, L: l, upAlias: map[uint32]*UpState{}, downs: map[uint32]*DownState{}}
				b.mu.Lock()
				b.links = append(b.links, lc)
				b.mu.Unlock()
				if b.OnLink != nil {
					b.OnLink(lc)
				}
				b.wg.Add(1)
				go func() {
					defer b.wg.Done()
					lc.loop()
				}()
			case <-b.stop:
				return
			}
		}
	}()
}

// Stop ends the accept loop, fails every link and waits for the broker goroutines.
func (b *Broker) Stop() {
	select {
	case <-b.stop:
	default:
		close(b.stop)
	}
	b.Net.Shutdown()
	b.wg.Wait()
}

func (b *Broker) note(format string, a ...any) {
	b.mu.Lock()
	b.Errors = append(b.Errors, fmt.Sprintf(format, a...))
	b.mu.Unlock()
}

// Ledger returns a copy of the ledger.
func (b *Broker) Ledger() []Entry {
	b.mu.Lock()
	defer b.mu.Unlock()
	return append([]Entry(nil), b.ledger...)
}

// Ups returns the upstreams in order of creation.
func (b *Broker) Ups() []*UpState {
	b.mu.Lock()
	defer b.mu.Unlock()
	return append([]*UpState(nil), b.upOrder...)
}

// Downs returns the downstreams in order of creation.
func (b *Broker) Downs() []*DownState {
	b.mu.Lock()
	defer b.mu.Unlock()
	return append([]*DownState(nil), b.downOrder...)
}

// LinkCtxs returns the broker side of every link so far.
func (b *Broker) LinkCtxs() []*LinkCtx {
	b.mu.Lock()
	defer b.mu.Unlock()
	return append([]*LinkCtx(nil), b.links...)
}

// CurrentLink returns the newest link context (nil if none).
func (b *Broker) CurrentLink() *LinkCtx {
	b.mu.Lock()
	defer b.mu.Unlock()
	if len(b.links) == 0 {
		return nil
	}
	return b.links[len(b.links)-1]
}

// Lock/Unlock give workloads consistent access to stream states.
func (b *Broker) Lock()   { b.mu.Lock() }
func (b *Broker) Unlock() { b.mu.Unlock() }

func className(m message.Message) string {
	s := fmt.Sprintf("%T", m)
	for i := len(s) - 1; i >= 0; i-- {
		if s[i] == '.' {
			return s[i+1:]
		}
	}
	return s
}

// StreamIDFor derives the stream id the broker assigns for a session id (so callers can check correlation).
func StreamIDFor(kind, session string, n int) uuid.UUID {
	h := sha1.Sum([]byte(fmt.Sprintf("%s/%s/%d", kind, session, n)))
	var u uuid.UUID
	copy(u[:], h[:16])
	return u
}

// Send encodes and delivers a message to the client. ok=false when the link is dead.
func (lc *LinkCtx) Send(m message.Message) bool { return lc.send(m, false) }

// SendUnreliable delivers over the datagram pipe.
func (lc *LinkCtx) SendUnreliable(m message.Message) bool { return lc.send(m, true) }

func (lc *LinkCtx) send(m message.Message, unrel bool) bool {
	var buf bytes.Buffer
	if _, err := lc.L.Encoding().EncodeTo(&buf, m); err != nil {
		lc.B.note("broker cannot encode %T: %v", m, err)
		return false
	}
	lc.sendMu.Lock()
	defer lc.sendMu.Unlock()
	ok := lc.L.Inject(buf.Bytes(), unrel)
	lc.B.mu.Lock()
	lc.B.ledger = append(lc.B.ledger, Entry{T: lc.B.Clock.Tick(), VT: time.Now(), Link: lc.L.ID, Dir: memnet.S2C, Class: className(m), Msg: m, Unrel: unrel, Sent: ok})
	lc.B.mu.Unlock()
	return ok
}

func (lc *LinkCtx) loop() {
	for {
		raw, unrel, ok := lc.L.Recv()
		if !ok {
			return
		}
		_, m, err := lc.L.Encoding().DecodeFrom(bytes.NewReader(raw))
		if err != nil {
			lc.B.note("broker cannot decode a client frame on link %d: %v", lc.L.ID, err)
			continue
		}
		lc.B.mu.Lock()
		lc.B.ledger = append(lc.B.ledger, Entry{T: lc.B.Clock.Tick(), VT: time.Now(), Link: lc.L.ID, Dir: memnet.C2S, Class: className(m), Msg: m, Unrel: unrel})
		lc.B.mu.Unlock()
		if lc.B.OnMsg != nil && lc.B.OnMsg(lc, m, unrel) {
			continue
		}
		lc.Default(m, unrel)
	}
}

// Connected reports whether the link's connect request has been seen.
func (lc *LinkCtx) Connected() bool {
	lc.mu.Lock()
	defer lc.mu.Unlock()
	return lc.Connect != nil
}

// Default is the cooperative handling of a client message.
func (lc *LinkCtx) Default(m message.Message, unrel bool) {
	b := lc.B
	switch t := m.(type) {
	case *message.ConnectRequest:
		lc.mu.Lock()
		lc.Connect = t
		lc.ConnectT = b.Clock.Now()
		lc.ConnectVT = time.Now()
		lc.mu.Unlock()
		lc.Send(&message.ConnectResponse{RequestID: t.RequestID, ProtocolVersion: t.ProtocolVersion, ResultCode: message.ResultCodeSucceeded, ResultString: "OK"})
	case *message.Ping:
		if b.P.AnswerPing {
			if b.P.PongDelay > 0 {
				d := b.P.PongDelay
				go func() {
					time.Sleep(d)
					lc.Send(&message.Pong{RequestID: t.RequestID})
				}()
			} else {
				lc.Send(&message.Pong{RequestID: t.RequestID})
			}
		}
	case *message.Pong:
	case *message.Disconnect:
	case *message.UpstreamOpenRequest:
		lc.Send(lc.OpenUpstream(t))
	case *message.UpstreamResumeRequest:
		lc.Send(lc.ResumeUpstream(t))
	case *message.UpstreamChunk:
		us, rec := lc.RecordChunk(t, unrel)
		if us == nil {
			return
		}
		lc.autoAck(us, rec)
	case *message.UpstreamCloseRequest:
		lc.Send(lc.CloseUpstream(t))
	case *message.UpstreamMetadata:
		lc.Send(&message.UpstreamMetadataAck{RequestID: t.RequestID, ResultCode: message.ResultCodeSucceeded, ResultString: "OK"})
	case *message.DownstreamOpenRequest:
		lc.Send(lc.OpenDownstream(t))
	case *message.DownstreamResumeRequest:
		lc.Send(lc.ResumeDownstream(t))
	case *message.DownstreamChunkAck:
		if lc.RecordDownAck(t) {
			lc.Send(&message.DownstreamChunkAckComplete{StreamIDAlias: t.StreamIDAlias, AckID: t.AckID, ResultCode: message.ResultCodeSucceeded, ResultString: "OK"})
		}
	case *message.DownstreamMetadataAck:
		lc.RecordMetaAck(t)
	case *message.DownstreamCloseRequest:
		lc.Send(lc.CloseDownstream(t))
	case *message.UpstreamCall:
		lc.Send(&message.UpstreamCallAck{CallID: t.CallID, ResultCode: message.ResultCodeSucceeded, ResultString: "OK"})
	}
}

// Reply builds (and registers the state for) the cooperative response to a request message without sending it.
// It returns nil for messages that have no single response (chunks, acks, pings are handled by Default).
func (lc *LinkCtx) Reply(m message.Message) message.Message {
	switch t := m.(type) {
	case *message.UpstreamOpenRequest:
		return lc.OpenUpstream(t)
	case *message.UpstreamResumeRequest:
		return lc.ResumeUpstream(t)
	case *message.UpstreamCloseRequest:
		return lc.CloseUpstream(t)
	case *message.UpstreamMetadata:
		return &message.UpstreamMetadataAck{RequestID: t.RequestID, ResultCode: message.ResultCodeSucceeded, ResultString: "OK"}
	case *message.DownstreamOpenRequest:
		return lc.OpenDownstream(t)
	case *message.DownstreamResumeRequest:
		return lc.ResumeDownstream(t)
	case *message.DownstreamCloseRequest:
		return lc.CloseDownstream(t)
	case *message.UpstreamCall:
		return &message.UpstreamCallAck{CallID: t.CallID, ResultCode: message.ResultCodeSucceeded, ResultString: "OK"}
	case *message.Ping:
		return &message.Pong{RequestID: t.RequestID}
	}
	return nil
}

// OpenUpstream registers a new upstream and builds the response.
func (lc *LinkCtx) OpenUpstream(t *message.UpstreamOpenRequest) *message.UpstreamOpenResponse {
	b := lc.B
	b.mu.Lock()
	defer b.mu.Unlock()
	same := 0
	for _, o := range b.upOrder {
		if o.SessionID == t.SessionID {
			same++
		}
	}
	// the id is a function of the session id (and of how many earlier streams used it): callers can check correlation
	us := &UpState{ID: StreamIDFor("up", t.SessionID, same), SessionID: t.SessionID, QoS: t.QoS, OpenReq: t,
		Aliases: map[uint32]message.DataID{}, RevAlias: map[message.DataID]uint32{}, LinkAlias: map[int]uint32{}, IDsSeen: map[message.DataID]int{}}
	b.ups[us.ID] = us
	b.upOrder = append(b.upOrder, us)
	lc.mu.Lock()
	var alias uint32
	if n := len(lc.freeUp); b.P.RecycleUpAlias && n > 0 {
		alias = lc.freeUp[n-1] // the alias of a stream that was closed on this link is handed out again at once
		lc.freeUp = lc.freeUp[:n-1]
	} else {
		lc.nextUp++
		alias = lc.nextUp
		if b.P.UpAliasFromZero {
			alias-- // the first upstream of a link gets stream alias 0 (a legal value)
		}
	}
	lc.upAlias[alias] = us
	lc.mu.Unlock()
	us.LinkAlias[lc.L.ID] = alias
	resp := &message.UpstreamOpenResponse{RequestID: t.RequestID, AssignedStreamID: us.ID, AssignedStreamIDAlias: alias,
		ResultCode: message.ResultCodeSucceeded, ResultString: "OK", ServerTime: time.Unix(1700000000, 0).UTC(), DataIDAliases: map[uint32]*message.DataID{}}
	if b.P.Alias == AliasAtOpen {
		for _, id := range t.DataIDs {
			if _, ok := us.RevAlias[*id]; ok {
				continue
			}
			us.nextAlias++
			us.Aliases[us.nextAlias] = *id
			us.RevAlias[*id] = us.nextAlias
			cp := *id
			resp.DataIDAliases[us.nextAlias] = &cp
		}
	}
	return resp
}

// ResumeUpstream handles a resume request according to the stream's remaining conflict budget.
func (lc *LinkCtx) ResumeUpstream(t *message.UpstreamResumeRequest) *message.UpstreamResumeResponse {
	b := lc.B
	b.mu.Lock()
	defer b.mu.Unlock()
	us, ok := b.ups[t.StreamID]
	if !ok {
		return &message.UpstreamResumeResponse{RequestID: t.RequestID, ResultCode: message.ResultCodeStreamNotFound, ResultString: "unknown stream"}
	}
	us.Resumes = append(us.Resumes, lc.L.ID)
	if us.ResumeConflicts > 0 {
		us.ResumeConflicts--
		return &message.UpstreamResumeResponse{RequestID: t.RequestID, ResultCode: message.ResultCodeResumeRequestConflict, ResultString: "conflict"}
	}
	lc.mu.Lock()
	lc.nextUp++
	alias := lc.nextUp
	if b.P.UpAliasFromZero {
		alias-- // the first upstream of a link gets stream alias 0 (a legal value)
	}
	lc.upAlias[alias] = us
	lc.mu.Unlock()
	us.LinkAlias[lc.L.ID] = alias
	return &message.UpstreamResumeResponse{RequestID: t.RequestID, AssignedStreamIDAlias: alias, ResultCode: message.ResultCodeSucceeded, ResultString: "OK"}
}

// RecordChunk decodes a chunk through the alias table the broker issued and stores it.
func (lc *LinkCtx) RecordChunk(t *message.UpstreamChunk, unrel bool) (*UpState, *ChunkRec) {
	b := lc.B
	lc.mu.Lock()
	us := lc.upAlias[t.StreamIDAlias]
	lc.mu.Unlock()
	if us == nil {
		b.note("chunk for unknown stream alias %d on link %d", t.StreamIDAlias, lc.L.ID)
		return nil, nil
	}
	b.mu.Lock()
	defer b.mu.Unlock()
	rec := ChunkRec{T: b.Clock.Now(), Link: lc.L.ID, Alias: t.StreamIDAlias, Raw: t, Unrel: unrel}
	if t.StreamChunk != nil {
		rec.Seq = t.StreamChunk.SequenceNumber
		for _, g := range t.StreamChunk.DataPointGroups {
			var id message.DataID
			switch v := g.DataIDOrAlias.(type) {
			case *message.DataID:
				id = *v
				us.IDsSeen[id]++
			case message.DataIDAlias:
				got, ok := us.Aliases[uint32(v)]
				if !ok {
					rec.Unknown = append(rec.Unknown, uint32(v))
					id = message.DataID{Name: fmt.Sprintf("?unknown-alias-%d", uint32(v))}
				} else {
					id = got
				}
			}
			var pts []Point
			for _, p := range g.DataPoints {
				pts = append(pts, Point{ID: id, Elapsed: p.ElapsedTime, Payload: p.Payload})
			}
			rec.Groups = append(rec.Groups, pts)
			rec.GroupIDs = append(rec.GroupIDs, id)
		}
	}
	us.Chunks = append(us.Chunks, rec)
	return us, &us.Chunks[len(us.Chunks)-1]
}

func (lc *LinkCtx) resultFor(us *UpState, seq uint32, n int) *message.UpstreamChunkResult {
	code := message.ResultCodeSucceeded
	if k := len(lc.B.P.AckCodes); k > 0 {
		code = lc.B.P.AckCodes[n%k]
	}
	return &message.UpstreamChunkResult{SequenceNumber: seq, ResultCode: code, ResultString: fmt.Sprintf("r%d", seq)}
}

// newAliases decides which data ids get an alias now (policy AliasAfterNth). Caller holds b.mu.
func (lc *LinkCtx) newAliases(us *UpState) map[uint32]*message.DataID {
	res := map[uint32]*message.DataID{}
	if lc.B.P.Alias != AliasAfterNth {
		return res
	}
	for id, n := range us.IDsSeen {
		if n >= lc.B.P.AliasN {
			if _, ok := us.RevAlias[id]; !ok {
				us.nextAlias++
				us.Aliases[us.nextAlias] = id
				us.RevAlias[id] = us.nextAlias
				cp := id
				res[us.nextAlias] = &cp
			}
		}
	}
	return res
}

func (lc *LinkCtx) autoAck(us *UpState, rec *ChunkRec) {
	b := lc.B
	b.mu.Lock()
	n := len(us.Chunks) - 1
	switch b.P.Ack {
	case AckWithhold, AckManual:
		b.mu.Unlock()
		return
	case AckBatch:
		us.pending = append(us.pending, lc.resultFor(us, rec.Seq, n))
		if len(us.pending) < b.P.AckBatchK {
			b.mu.Unlock()
			return
		}
		res := us.pending
		us.pending = nil
		b.mu.Unlock()
		lc.SendAck(us, res)
		return
	}
	r := lc.resultFor(us, rec.Seq, n)
	b.mu.Unlock()
	lc.SendAck(us, []*message.UpstreamChunkResult{r})
}

// FlushAcks sends the batched results of every upstream that is bound to this link.
func (lc *LinkCtx) FlushAcks() {
	b := lc.B
	for _, us := range b.Ups() {
		b.mu.Lock()
		res := us.pending
		us.pending = nil
		_, here := us.LinkAlias[lc.L.ID]
		b.mu.Unlock()
		if len(res) > 0 && here {
			lc.SendAck(us, res)
		}
	}
}

// SendAck sends one UpstreamChunkAck with the given results (plus any alias assignments that are due).
func (lc *LinkCtx) SendAck(us *UpState, results []*message.UpstreamChunkResult) bool {
	b := lc.B
	b.mu.Lock()
	alias, ok := us.LinkAlias[lc.L.ID]
	if !ok {
		b.mu.Unlock()
		return false
	}
	if b.P.AckReverse {
		r2 := make([]*message.UpstreamChunkResult, 0, len(results))
		for i := len(results) - 1; i >= 0; i-- {
			r2 = append(r2, results[i])
		}
		results = r2
	}
	al := lc.newAliases(us)
	ack := &message.UpstreamChunkAck{StreamIDAlias: alias, Results: results, DataIDAliases: al}
	rec := AckRec{T: b.Clock.Now(), Link: lc.L.ID, Aliases: map[uint32]message.DataID{}}
	for _, r := range results {
		rec.Results = append(rec.Results, *r)
	}
	for a, id := range al {
		rec.Aliases[a] = *id
	}
	dup := b.P.AckDup
	b.mu.Unlock()
	sent := lc.Send(ack)
	rec.OK = sent
	b.mu.Lock()
	us.AcksSent = append(us.AcksSent, rec)
	b.mu.Unlock()
	if dup && sent {
		ack2 := &message.UpstreamChunkAck{StreamIDAlias: alias, Results: results, DataIDAliases: map[uint32]*message.DataID{}}
		s2 := lc.Send(ack2)
		rec2 := AckRec{T: b.Clock.Now(), Link: lc.L.ID, Results: rec.Results, Aliases: map[uint32]message.DataID{}, OK: s2}
		b.mu.Lock()
		us.AcksSent = append(us.AcksSent, rec2)
		b.mu.Unlock()
	}
	return sent
}

// CloseUpstream records a close request and builds the response.
func (lc *LinkCtx) CloseUpstream(t *message.UpstreamCloseRequest) *message.UpstreamCloseResponse {
	b := lc.B
	b.mu.Lock()
	defer b.mu.Unlock()
	us, ok := b.ups[t.StreamID]
	if !ok {
		return &message.UpstreamCloseResponse{RequestID: t.RequestID, ResultCode: message.ResultCodeStreamNotFound, ResultString: "unknown stream"}
	}
	if us.CloseReq == nil {
		us.CloseReq = t
		us.CloseT = b.Clock.Now()
		us.CloseLink = lc.L.ID
		if a, ok := us.LinkAlias[lc.L.ID]; ok && b.P.RecycleUpAlias {
			lc.mu.Lock()
			if lc.upAlias[a] == us {
				delete(lc.upAlias, a)
				lc.freeUp = append(lc.freeUp, a)
			}
			lc.mu.Unlock()
		}
	}
	return &message.UpstreamCloseResponse{RequestID: t.RequestID, ResultCode: message.ResultCodeSucceeded, ResultString: "OK"}
}

// OpenDownstream registers a new downstream and builds the response.
func (lc *LinkCtx) OpenDownstream(t *message.DownstreamOpenRequest) *message.DownstreamOpenResponse {
	b := lc.B
	b.mu.Lock()
	defer b.mu.Unlock()
	ds := &DownState{ID: StreamIDFor("down", fmt.Sprint(t.DesiredStreamIDAlias), len(b.downOrder)), Alias: t.DesiredStreamIDAlias, QoS: t.QoS, OpenReq: t,
		DataIDs: map[uint32]message.DataID{}, Upstreams: map[uint32]message.UpstreamInfo{}, Links: []int{lc.L.ID}}
	for a, id := range t.DataIDAliases {
		ds.DataIDs[a] = *id
	}
	b.downs[ds.ID] = ds
	b.downOrder = append(b.downOrder, ds)
	lc.mu.Lock()
	lc.downs[ds.Alias] = ds
	lc.mu.Unlock()
	return &message.DownstreamOpenResponse{RequestID: t.RequestID, AssignedStreamID: ds.ID, ResultCode: message.ResultCodeSucceeded, ResultString: "OK", ServerTime: time.Unix(1700000000, 0).UTC()}
}

// ResumeDownstream handles a downstream resume request.
func (lc *LinkCtx) ResumeDownstream(t *message.DownstreamResumeRequest) *message.DownstreamResumeResponse {
	b := lc.B
	b.mu.Lock()
	defer b.mu.Unlock()
	ds, ok := b.downs[t.StreamID]
	if !ok {
		return &message.DownstreamResumeResponse{RequestID: t.RequestID, ResultCode: message.ResultCodeStreamNotFound, ResultString: "unknown stream"}
	}
	ds.Resumes = append(ds.Resumes, lc.L.ID)
	if ds.ResumeConflicts > 0 {
		ds.ResumeConflicts--
		return &message.DownstreamResumeResponse{RequestID: t.RequestID, ResultCode: message.ResultCodeResumeRequestConflict, ResultString: "conflict"}
	}
	ds.Links = append(ds.Links, lc.L.ID)
	lc.mu.Lock()
	lc.downs[t.DesiredStreamIDAlias] = ds
	lc.mu.Unlock()
	return &message.DownstreamResumeResponse{RequestID: t.RequestID, ResultCode: message.ResultCodeSucceeded, ResultString: "OK"}
}

// Down returns the downstream bound to an alias on this link.
func (lc *LinkCtx) Down(alias uint32) *DownState {
	lc.mu.Lock()
	defer lc.mu.Unlock()
	return lc.downs[alias]
}

// Up returns the upstream bound to an alias on this link.
func (lc *LinkCtx) Up(alias uint32) *UpState {
	lc.mu.Lock()
	defer lc.mu.Unlock()
	return lc.upAlias[alias]
}

// RecordDownAck stores a DownstreamChunkAck and learns the aliases it announces.
func (lc *LinkCtx) RecordDownAck(t *message.DownstreamChunkAck) bool {
	ds := lc.Down(t.StreamIDAlias)
	if ds == nil {
		lc.B.note("downstream ack for unknown alias %d on link %d", t.StreamIDAlias, lc.L.ID)
		return false
	}
	b := lc.B
	b.mu.Lock()
	defer b.mu.Unlock()
	ds.Acks = append(ds.Acks, DownAckRec{T: b.Clock.Now(), Link: lc.L.ID, Ack: t})
	for a, id := range t.DataIDAliases {
		if _, ok := ds.DataIDs[a]; !ok {
			ds.DataIDs[a] = *id
		}
	}
	for a, info := range t.UpstreamAliases {
		if _, ok := ds.Upstreams[a]; !ok {
			ds.Upstreams[a] = *info
		}
	}
	return true
}

func (lc *LinkCtx) RecordMetaAck(t *message.DownstreamMetadataAck) {
	b := lc.B
	b.mu.Lock()
	defer b.mu.Unlock()
	// metadata acks carry no stream alias: keep them on every downstream of the link is wrong; keep a global list on the first
	for _, ds := range b.downOrder {
		ds.MetaAcks = append(ds.MetaAcks, *t)
		break
	}
}

// CloseDownstream records the close request and builds the response.
func (lc *LinkCtx) CloseDownstream(t *message.DownstreamCloseRequest) *message.DownstreamCloseResponse {
	b := lc.B
	b.mu.Lock()
	defer b.mu.Unlock()
	ds, ok := b.downs[t.StreamID]
	if !ok {
		return &message.DownstreamCloseResponse{RequestID: t.RequestID, ResultCode: message.ResultCodeStreamNotFound, ResultString: "unknown stream"}
	}
	if ds.CloseReq == nil {
		ds.CloseReq = t
		ds.CloseT = b.Clock.Now()
	}
	return &message.DownstreamCloseResponse{RequestID: t.RequestID, ResultCode: message.ResultCodeSucceeded, ResultString: "OK"}
}
