// C11 - the oracle: canonical-form comparison (written from the wire schema, not from the converters), the counted
// encode/decode round trip through both codecs, and witness rendering.
package c11

import (
	"bytes"
	"encoding/hex"
	"fmt"
	"io"
	"reflect"
	"time"

	"github.com/aptpod/iscp-go/encoding"
	ijson "github.com/aptpod/iscp-go/encoding/json"
	"github.com/aptpod/iscp-go/encoding/protobuf"
	"github.com/aptpod/iscp-go/message"
	uuid "github.com/google/uuid"
)

type codec struct {
	Name string
	Enc  encoding.Encoding
}

var codecs = []codec{{"protobuf", protobuf.NewEncoding()}, {"json", ijson.NewEncoding()}}

// ---- canonical comparison

type diff struct {
	Pattern string `json:"field"`
	Path    string `json:"path"`
	Want    string `json:"want"`
	Got     string `json:"got"`
	Why     string `json:"why"`
}

// cmp compares an original message with a decoded one up to the canonical form:
//   - a duration comes back at the wire resolution of its field: a multiple of the unit less than one unit away from
//     the original (truncation and rounding are both accepted); durations the wire integer cannot hold are not judged;
//   - a time comes back as the same instant in UTC; instants outside the 64-bit UNIX-nanosecond range (which includes
//     the zero time.Time) are not judged;
//   - nil and empty collections / byte strings are the same; an absent non-extension sub-message (*StreamChunk) is the
//     same as an empty one; extension-field pointers keep their nil-ness exactly;
//   - ResultCodeSucceeded and ResultCodeNormalClosure share wire value 0 and are the same;
//   - interface fields keep their dynamic type; everything else is compared with ==.
//
// strict (used between the protobuf-decoded and the JSON-decoded message): durations, times and result codes must be
// identical too.
type cmp struct {
	strict   bool
	compared int
	skipped  int
	patterns map[string]bool
}

func show(v reflect.Value) string {
	if !v.IsValid() {
		return "<invalid>"
	}
	switch v.Type() {
	case durType:
		return fmt.Sprintf("%dns", v.Int())
	case timeType:
		t := v.Interface().(time.Time)
		return t.Format(time.RFC3339Nano) + " loc=" + t.Location().String()
	case uuidType:
		return v.Interface().(uuid.UUID).String()
	case bytesType:
		b := v.Bytes()
		if len(b) > 24 {
			return fmt.Sprintf("%d bytes %s...", len(b), hex.EncodeToString(b[:24]))
		}
		return fmt.Sprintf("%d bytes %s", len(b), hex.EncodeToString(b))
	}
	switch v.Kind() {
	case reflect.Ptr, reflect.Interface, reflect.Slice, reflect.Map:
		if v.IsNil() {
			return "nil " + v.Type().String()
		}
		if v.Kind() == reflect.Slice || v.Kind() == reflect.Map {
			return fmt.Sprintf("%s len=%d", v.Type(), v.Len())
		}
		if v.Kind() == reflect.Interface {
			return "(" + v.Elem().Type().String() + ")"
		}
		return "non-nil " + v.Type().String()
	case reflect.String:
		s := v.String()
		if len(s) > 80 {
			return fmt.Sprintf("%q...(%d bytes)", s[:80], len(s))
		}
		return fmt.Sprintf("%q", s)
	}
	return fmt.Sprintf("%v", v.Interface())
}

func (c *cmp) d(s site, w, g reflect.Value, why string) *diff {
	return &diff{Pattern: s.Pattern, Path: s.Path, Want: show(w), Got: show(g), Why: why}
}

func (c *cmp) leaf(s site) {
	c.compared++
	if c.patterns != nil {
		c.patterns[s.Pattern] = true
	}
}

func isSuccessAlias(v int64) bool {
	return v == int64(message.ResultCodeSucceeded) || v == int64(message.ResultCodeNormalClosure)
}

func (c *cmp) eq(w, g reflect.Value, s site) *diff {
	t := w.Type()
	if g.Type() != t {
		return &diff{s.Pattern, s.Path, t.String(), g.Type().String(), "type differs"}
	}
	switch t {
	case durType:
		wd, gd := time.Duration(w.Int()), time.Duration(g.Int())
		if c.strict {
			c.leaf(s)
			if wd != gd {
				return c.d(s, w, g, "durations differ")
			}
			return nil
		}
		r := resOf(s.Parent, s.Field)
		if !r.inDomain(wd) {
			c.skipped++
			return nil
		}
		c.leaf(s)
		if gd < 0 || gd%r.Unit != 0 {
			return c.d(s, w, g, fmt.Sprintf("not a non-negative multiple of the wire resolution %v", r.Unit))
		}
		df := wd - gd
		if df < 0 {
			df = -df
		}
		if df >= r.Unit {
			return c.d(s, w, g, fmt.Sprintf("more than one wire resolution step (%v) away", r.Unit))
		}
		return nil
	case timeType:
		wt, gt := w.Interface().(time.Time), g.Interface().(time.Time)
		if c.strict {
			c.leaf(s)
			if !wt.Equal(gt) || wt.Location().String() != gt.Location().String() {
				return c.d(s, w, g, "times differ")
			}
			return nil
		}
		if !timeInDomain(wt) {
			c.skipped++
			return nil
		}
		c.leaf(s)
		if !gt.Equal(wt) {
			return c.d(s, w, g, "not the same instant")
		}
		if gt.Location() != time.UTC {
			return c.d(s, w, g, "not in UTC")
		}
		return nil
	case uuidType:
		c.leaf(s)
		if w.Interface().(uuid.UUID) != g.Interface().(uuid.UUID) {
			return c.d(s, w, g, "uuid differs")
		}
		return nil
	case bytesType:
		c.leaf(s)
		if !bytes.Equal(w.Bytes(), g.Bytes()) {
			return c.d(s, w, g, "bytes differ")
		}
		return nil
	}
	switch t.Kind() {
	case reflect.Bool:
		c.leaf(s)
		if w.Bool() != g.Bool() {
			return c.d(s, w, g, "differs")
		}
	case reflect.String:
		c.leaf(s)
		if w.String() != g.String() {
			return c.d(s, w, g, "differs")
		}
	case reflect.Int, reflect.Int8, reflect.Int16, reflect.Int32, reflect.Int64:
		c.leaf(s)
		if w.Int() != g.Int() {
			if !c.strict && t == st[message.ResultCode]() && isSuccessAlias(w.Int()) && isSuccessAlias(g.Int()) {
				return nil
			}
			return c.d(s, w, g, "differs")
		}
	case reflect.Uint, reflect.Uint8, reflect.Uint16, reflect.Uint32, reflect.Uint64:
		c.leaf(s)
		if w.Uint() != g.Uint() {
			return c.d(s, w, g, "differs")
		}
	case reflect.Float32, reflect.Float64:
		c.leaf(s)
		if w.Float() != g.Float() {
			return c.d(s, w, g, "differs")
		}
	case reflect.Ptr:
		if c.strict || isExtPtr(t) {
			if w.IsNil() != g.IsNil() {
				return c.d(s, w, g, "presence differs")
			}
			if w.IsNil() {
				c.leaf(s)
				return nil
			}
			return c.eq(w.Elem(), g.Elem(), s)
		}
		if w.IsNil() {
			if g.IsNil() {
				c.leaf(s)
				return nil
			}
			// absent sub-message == empty sub-message
			z := reflect.New(t.Elem()).Elem()
			sub := &cmp{strict: false}
			if df := sub.eqZero(z, g.Elem(), s); df != nil {
				return c.d(s, w, g, "absent sub-message came back non-empty: "+df.Path+" = "+df.Got)
			}
			c.leaf(s)
			return nil
		}
		if g.IsNil() {
			return c.d(s, w, g, "sub-message lost")
		}
		return c.eq(w.Elem(), g.Elem(), s)
	case reflect.Struct:
		for i := 0; i < t.NumField(); i++ {
			f := t.Field(i)
			if !f.IsExported() {
				if !reflect.DeepEqual(w.Interface(), g.Interface()) {
					return c.d(s, w, g, "differs (opaque struct)")
				}
				c.leaf(s)
				return nil
			}
		}
		for i := 0; i < t.NumField(); i++ {
			if df := c.eq(w.Field(i), g.Field(i), s.child(t, t.Field(i).Name)); df != nil {
				return df
			}
		}
	case reflect.Slice:
		if w.Len() != g.Len() {
			return c.d(s, w, g, "length differs")
		}
		if w.Len() == 0 {
			c.leaf(s)
		}
		for i := 0; i < w.Len(); i++ {
			if df := c.eq(w.Index(i), g.Index(i), s.elem(fmt.Sprint(i))); df != nil {
				return df
			}
		}
	case reflect.Map:
		if w.Len() != g.Len() {
			return c.d(s, w, g, "size differs")
		}
		if w.Len() == 0 {
			c.leaf(s)
		}
		it := w.MapRange()
		for it.Next() {
			gv := g.MapIndex(it.Key())
			es := s.elem(fmt.Sprint(it.Key().Interface()))
			if !gv.IsValid() {
				return &diff{es.Pattern, es.Path, "present", "missing key", "map entry lost"}
			}
			if df := c.eq(it.Value(), gv, es); df != nil {
				return df
			}
		}
	case reflect.Interface:
		if w.IsNil() {
			if c.strict {
				if !g.IsNil() {
					return c.d(s, w, g, "presence differs")
				}
				return nil
			}
			c.skipped++ // a nil interface is not a value of the field
			return nil
		}
		if g.IsNil() {
			return c.d(s, w, g, "variant lost")
		}
		if w.Elem().Type() != g.Elem().Type() {
			return c.d(s, w, g, "variant differs")
		}
		return c.eq(w.Elem(), g.Elem(), s.variant(w.Elem().Type()))
	default:
		panic(harnessGap{fmt.Sprintf("cannot compare kind %v at %s", t.Kind(), s.Pattern)})
	}
	return nil
}

// eqZero: g is "empty" (every leaf zero, every collection empty, every pointer nil or empty).
func (c *cmp) eqZero(z, g reflect.Value, s site) *diff {
	switch g.Kind() {
	case reflect.Ptr, reflect.Interface:
		if g.IsNil() {
			return nil
		}
		if g.Kind() == reflect.Interface {
			return c.d(s, z, g, "non-nil")
		}
		return c.eqZero(reflect.New(g.Type().Elem()).Elem(), g.Elem(), s)
	case reflect.Slice, reflect.Map:
		if g.Len() != 0 {
			return c.d(s, z, g, "non-empty")
		}
		return nil
	case reflect.Struct:
		if g.Type() == timeType || g.Type() == uuidType {
			if !g.IsZero() {
				return c.d(s, z, g, "non-zero")
			}
			return nil
		}
		for i := 0; i < g.NumField(); i++ {
			if df := c.eqZero(z, g.Field(i), s.child(g.Type(), g.Type().Field(i).Name)); df != nil {
				return df
			}
		}
		return nil
	}
	if !g.IsZero() {
		return c.d(s, z, g, "non-zero")
	}
	return nil
}

func canonEqual(want, got message.Message, strict bool, patterns map[string]bool) (*diff, int, int) {
	c := &cmp{strict: strict, patterns: patterns}
	w, g := reflect.ValueOf(want), reflect.ValueOf(got)
	if w.Type() != g.Type() {
		return &diff{"", "", w.Type().String(), g.Type().String(), "message type differs"}, 0, 0
	}
	df := c.eq(w.Elem(), g.Elem(), site{})
	return df, c.compared, c.skipped
}

// ---- counted encode / decode

type countWriter struct {
	buf    bytes.Buffer
	calls  int
	total  int
	pieces []int
}

func (w *countWriter) Write(p []byte) (int, error) {
	w.calls++
	w.total += len(p)
	return w.buf.Write(p)
}

// countReader hands out the data in pieces of at most chunk bytes (0: whatever the caller asks for) and counts what it
// handed out. It deliberately implements io.Reader only.
type countReader struct {
	data     []byte
	off      int
	chunk    int
	consumed int
	calls    int
}

func (r *countReader) Read(p []byte) (int, error) {
	r.calls++
	if r.off >= len(r.data) {
		return 0, io.EOF
	}
	n := len(p)
	if r.chunk > 0 && n > r.chunk {
		n = r.chunk
	}
	if n > len(r.data)-r.off {
		n = len(r.data) - r.off
	}
	copy(p, r.data[r.off:r.off+n])
	r.off += n
	r.consumed += n
	return n, nil
}

type failure struct {
	Clause  string
	Key     string
	Witness map[string]any
}

type rtStats struct {
	Bytes    map[string]int
	Compared int
	Skipped  int
}

type rtOpts struct {
	Judge    bool // compare contents (false: the message is outside the wire domain - only "no panic" and byte counts)
	Chunk    int  // reader piece size
	Patterns map[string]bool
	// finding-key overrides of the enumeration workload: KeyEncodeErr for a refused encode, KeyOther for a refused decode
	// and for a difference at the field path EnumPath (differences elsewhere keep their ordinary key)
	KeyEncodeErr, KeyOther, EnumPath string
}

// roundTrip sends one message through both codecs: EncodeTo into a counting writer, DecodeFrom out of a counting reader,
// canonical comparison with the original, and strict comparison of the two decoded messages with each other.
func roundTrip(m message.Message, o rtOpts) (rtStats, *failure) {
	stt := rtStats{Bytes: map[string]int{}}
	tn := typeName(reflect.TypeOf(m))
	decoded := map[string]message.Message{}
	for _, cd := range codecs {
		w := &countWriter{}
		n, err := cd.Enc.EncodeTo(w, m)
		if err != nil {
			if !o.Judge {
				continue
			}
			key := "encode-error:" + cd.Name + ":" + tn
			if o.KeyEncodeErr != "" {
				key = o.KeyEncodeErr
			}
			return stt, &failure{"a message of the grammar is refused by the " + cd.Name + " encoder", key,
				map[string]any{"codec": cd.Name, "error": err.Error(), "message": render(m)}}
		}
		data := w.buf.Bytes()
		if n != w.total {
			return stt, &failure{"EncodeTo reports a byte count different from the bytes it wrote", "bytecount:encode:" + cd.Name,
				map[string]any{"codec": cd.Name, "reported": n, "written": w.total, "writes": w.calls, "message": render(m)}}
		}
		stt.Bytes[cd.Name] = len(data)
		// history: the same codec has just failed on a truncated input (codecs share pooled buffers; a decode must not
		// depend on what an earlier, failed decode left behind)
		if len(data) >= 2 {
			_, _, _ = cd.Enc.DecodeFrom(&countReader{data: data[:len(data)/2], chunk: o.Chunk})
		}
		r := &countReader{data: data, chunk: o.Chunk}
		n2, m2, err := cd.Enc.DecodeFrom(r)
		if err != nil {
			if !o.Judge {
				continue
			}
			key := "decode-error:" + cd.Name + ":" + tn
			if o.KeyOther != "" {
				key = o.KeyOther
			}
			return stt, &failure{"the " + cd.Name + " decoder refuses what the " + cd.Name + " encoder produced", key,
				map[string]any{"codec": cd.Name, "error": err.Error(), "encoded_len": len(data), "encoded_head": head(data), "message": render(m)}}
		}
		if n2 != r.consumed {
			return stt, &failure{"DecodeFrom reports a byte count different from the bytes it consumed", "bytecount:decode:" + cd.Name,
				map[string]any{"codec": cd.Name, "reported": n2, "consumed": r.consumed, "available": len(data), "chunk": o.Chunk, "message": render(m)}}
		}
		if cd.Name == "json" {
			// the same document as another JSON writer frames it (json.Encoder appends a newline, some peers pad with
			// blanks): whatever the decoder pulls out of the reader has to be in its count
			for _, trailer := range []string{"\n", "\r\n", "  \n"} {
				rt := &countReader{data: append(append([]byte(nil), data...), trailer...), chunk: o.Chunk}
				nt, _, errT := cd.Enc.DecodeFrom(rt)
				if errT == nil && nt != rt.consumed {
					return stt, &failure{"DecodeFrom reports a byte count different from the bytes it consumed (frame with trailing white space)", "bytecount:decode-with-trailer:" + cd.Name,
						map[string]any{"codec": cd.Name, "reported": nt, "consumed": rt.consumed, "frame": len(data) + len(trailer), "trailer": fmt.Sprintf("%q", trailer), "message": render(m)}}
				}
			}
		}
		if !o.Judge {
			continue
		}
		df, cn, sk := canonEqual(m, m2, false, o.Patterns)
		stt.Compared += cn
		stt.Skipped += sk
		if df != nil {
			key := "roundtrip:" + cd.Name + ":" + tn + ":" + df.Pattern
			if o.KeyOther != "" && df.Path == o.EnumPath {
				key = o.KeyOther
			}
			return stt, &failure{"decode(encode(m)) differs from canon(m) under " + cd.Name + " at " + tn + "." + df.Pattern, key,
				map[string]any{"codec": cd.Name, "diff": df, "message": render(m), "decoded": render(m2), "encoded_head": head(data)}}
		}
		decoded[cd.Name] = m2
	}
	if o.Judge && len(decoded) == 2 {
		df, _, _ := canonEqual(decoded["protobuf"], decoded["json"], true, nil)
		if df != nil {
			key := "pb-json-differ:" + tn + ":" + df.Pattern
			return stt, &failure{"the protobuf-decoded and the JSON-decoded message differ at " + tn + "." + df.Pattern, key,
				map[string]any{"diff_want_is_protobuf_got_is_json": df, "message": render(m)}}
		}
	}
	return stt, nil
}

func head(b []byte) string {
	if len(b) > 400 {
		return fmt.Sprintf("%q...(%d bytes)", b[:400], len(b))
	}
	return fmt.Sprintf("%q", b)
}

// ---- witness rendering (bounded)

func render(m any) any {
	budget := 400
	return dump(reflect.ValueOf(m), &budget)
}

func dump(v reflect.Value, budget *int) any {
	if *budget <= 0 {
		return "..."
	}
	*budget--
	if !v.IsValid() {
		return nil
	}
	switch v.Type() {
	case durType, timeType, uuidType, bytesType:
		return show(v)
	}
	switch v.Kind() {
	case reflect.Ptr:
		if v.IsNil() {
			return nil
		}
		return dump(v.Elem(), budget)
	case reflect.Interface:
		if v.IsNil() {
			return "nil interface"
		}
		return map[string]any{"(" + v.Elem().Type().String() + ")": dump(v.Elem(), budget)}
	case reflect.Struct:
		res := map[string]any{}
		for i := 0; i < v.NumField(); i++ {
			if v.Type().Field(i).IsExported() {
				res[v.Type().Field(i).Name] = dump(v.Field(i), budget)
			}
		}
		if v.NumField() == 0 {
			return "{}"
		}
		return res
	case reflect.Slice:
		if v.IsNil() {
			return "nil slice"
		}
		res := []any{}
		for i := 0; i < v.Len(); i++ {
			if i >= 4 {
				res = append(res, fmt.Sprintf("...(%d elements)", v.Len()))
				break
			}
			res = append(res, dump(v.Index(i), budget))
		}
		return res
	case reflect.Map:
		if v.IsNil() {
			return "nil map"
		}
		res := map[string]any{}
		n := 0
		it := v.MapRange()
		for it.Next() {
			if n >= 4 {
				res["..."] = fmt.Sprintf("%d entries", v.Len())
				break
			}
			n++
			res[fmt.Sprint(it.Key().Interface())] = dump(it.Value(), budget)
		}
		return res
	case reflect.String:
		return show(v)
	}
	return v.Interface()
}
