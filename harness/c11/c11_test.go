// C11 - every message survives encode/decode in both encodings, field by field.
//
// Workloads (each a vrun.Loop):
//
//	TestC11Sweep        exhaustive: message types x variant assignments x {all fields, one field at a time, all zero,
//	                    minimal, every pointer nil, every collection nil/empty/1/3} through both codecs
//	TestC11EnumTotality exhaustive: every library enumeration constant at every enumeration-typed field (library -> wire
//	                    -> library) and every wire enumerator at every wire enumeration field (wire -> library -> wire)
//	TestC11Random       generated contents (non-ASCII strings, payloads up to 1 MiB, extreme integers, durations/times at
//	                    and between resolution steps, collections of 0..50), plus values outside the wire domain (no panic)
//	TestC11Transport    encoding.Transport counters against a counting transport.ReadWriter
package c11

import (
	"bytes"
	"fmt"
	"hash/fnv"
	"io"
	"math"
	"math/rand"
	"reflect"
	"sort"
	"strings"
	"testing"
	"time"
	"unicode/utf8"

	"github.com/aptpod/iscp-go/encoding"
	"github.com/aptpod/iscp-go/message"
	autogen "github.com/aptpod/iscp-proto/gen/gogofast/iscp2/v1"
	"github.com/gogo/protobuf/jsonpb"
	gogoproto "github.com/gogo/protobuf/proto"
	uuid "github.com/google/uuid"

	"verif/harness/vrun"
)

var commonAssumptions = []string{
	"wire resolution is taken from the iSCP wire schema (iscp-proto): ping_interval/ping_timeout/expiry_interval = uint32 seconds, ack_interval = uint32 milliseconds, elapsed_time = 64-bit nanoseconds, base_time/server_time = sint64 UNIX nanoseconds",
	"'at wire resolution' is read weakly: the decoded duration is a non-negative multiple of the unit less than one unit away from the original (truncation and rounding both pass)",
	"durations that are negative or beyond the largest wire step, and instants outside the 64-bit UNIX-nanosecond range (including the zero time.Time), are not values of the field: they are generated only to check that nothing panics and that byte counts stay right",
	"nil and empty collections/byte strings are equal; an absent *StreamChunk equals an empty one; extension-field pointers keep their nil-ness exactly; ResultCodeSucceeded and ResultCodeNormalClosure (both wire value 0) are equal",
	"strings are valid UTF-8 (the wire type is a protobuf string); invalid UTF-8 is generated for 'no panic' only",
	"a nil interface field, a nil element inside a collection and a number that is no enumeration constant are outside the grammar ('no panic' only)",
	"the byte count of DecodeFrom is compared with the bytes a counting io.Reader handed out",
}

func guarded(fn func(c *vrun.Case) vrun.Result) func(c *vrun.Case) vrun.Result {
	return func(c *vrun.Case) (res vrun.Result) {
		defer func() {
			if r := recover(); r != nil {
				if g, ok := r.(harnessGap); ok {
					res = vrun.Inconcl("harness gap: " + g.msg)
					return
				}
				panic(r)
			}
		}()
		return fn(c)
	}
}

func fail(f *failure) vrun.Result { return vrun.Violation(f.Clause, f.Key, f.Witness) }

func patternList(m map[string]bool, prefix string) []string {
	var res []string
	for p := range m {
		res = append(res, prefix+"."+p)
	}
	sort.Strings(res)
	return res
}

// addSet: the runner cannot digest an empty set.
func addSet(res *vrun.Result, name string, vals []string) {
	if len(vals) > 0 {
		res.AddSet(name, vals...)
	}
}

func addRT(res *vrun.Result, st rtStats) {
	res.Stat("messages", 1)
	res.Stat("encode_decode_round_trips", int64(len(st.Bytes)))
	res.Stat("bytes_protobuf", int64(st.Bytes["protobuf"]))
	res.Stat("bytes_json", int64(st.Bytes["json"]))
	res.Stat("leaves_compared", int64(st.Compared))
	res.Stat("leaves_outside_wire_domain_not_judged", int64(st.Skipped))
}

// =====================================================================================================================
// TestC11Sweep

type sweepCase struct {
	T      reflect.Type
	Assign map[string]int
	AStr   string
	Kind   string
	Leaf   int
	Pat    string
	N      int
}

func (sc sweepCase) chooser() *sweepChooser {
	c := newSweep(sc.Assign)
	switch sc.Kind {
	case "only":
		c.only = sc.Leaf
	case "zero":
		c.only = -2
	case "minimal":
		c.only, c.nilPtr, c.allNil = -2, "*all", true
	case "allextnil":
		c.nilPtr = "*ext"
	case "nilptr":
		c.nilPtr = sc.Pat
	case "len":
		c.lenAt, c.lenN = sc.Pat, sc.N
	}
	return c
}

func sweepCases() []sweepCase {
	var res []sweepCase
	for _, t := range messageTypes {
		seen := map[string]bool{}
		for _, a := range assignments(t) {
			as := assignString(t, a)
			probe := newSweep(a)
			buildMessage(probe, t)
			for _, k := range []string{"full", "zero", "minimal", "allextnil"} {
				res = append(res, sweepCase{T: t, Assign: a, AStr: as, Kind: k})
			}
			for i, l := range probe.leaves {
				if !seen["l"+l.Site.Path] {
					seen["l"+l.Site.Path] = true
					res = append(res, sweepCase{T: t, Assign: a, AStr: as, Kind: "only", Leaf: i, Pat: l.Site.Path})
				}
			}
			for _, p := range probe.ptrSites {
				if !seen["p"+p] {
					seen["p"+p] = true
					res = append(res, sweepCase{T: t, Assign: a, AStr: as, Kind: "nilptr", Pat: p})
				}
			}
			for _, p := range probe.collSites {
				if !seen["c"+p] {
					seen["c"+p] = true
					for _, n := range []int{-1, 0, 1, 3} {
						res = append(res, sweepCase{T: t, Assign: a, AStr: as, Kind: "len", Pat: p, N: n})
					}
				}
			}
		}
	}
	return res
}

func TestC11Sweep(t *testing.T) {
	cases := sweepCases()
	meta := vrun.Meta{Property: "C11", Workload: "TestC11Sweep", Total: len(cases) + 1, Exhaustive: true,
		Rule:        "exhaustive over the message grammar: 29 message types x variant assignments (default + every single deviation: metadata x9, upstream-or-alias x2, data-id-or-alias x2) x {every leaf non-zero & distinct; exactly one leaf non-zero (one case per field path, found by reflection); all zero; minimal (all pointers and collections nil); every extension pointer nil; each pointer field nil; each collection nil/empty/1/3 elements}; collections hold 2 elements otherwise. Each message goes through EncodeTo/DecodeFrom of both codecs. All cases are distinct (type|assignment|shape|field); non-trivial = both codecs produced bytes, decoded them, and at least one leaf was compared. The last case compares the harness's type list with the isMessage types declared in package message.",
		Assumptions: commonAssumptions}
	vrun.Loop(t, meta, 0, guarded(func(c *vrun.Case) vrun.Result {
		if c.Index == len(cases) {
			return typeListCase()
		}
		sc := cases[c.Index]
		ch := sc.chooser()
		m := buildMessage(ch, sc.T)
		pats := map[string]bool{}
		st, f := roundTrip(m, rtOpts{Judge: true, Patterns: pats})
		if f != nil {
			f.Witness["case"] = fmt.Sprintf("%s assignment{%s} %s leaf=%d site=%s n=%d", sc.T.Name(), sc.AStr, sc.Kind, sc.Leaf, sc.Pat, sc.N)
			return fail(f)
		}
		res := vrun.Hold(fmt.Sprintf("%s|%s|%s|%d|%s|%d", sc.T.Name(), sc.AStr, sc.Kind, sc.Leaf, sc.Pat, sc.N), st.Compared > 0 && len(st.Bytes) == 2)
		res.Desc = map[string]any{"type": sc.T.Name(), "variants": sc.AStr, "shape": sc.Kind, "field": sc.Pat, "len": sc.N, "leaves_in_message": len(ch.leaves),
			"bytes_protobuf": st.Bytes["protobuf"], "bytes_json": st.Bytes["json"]}
		addRT(&res, st)
		res.AddSet("message_types", sc.T.Name())
		addSet(&res, "field_paths_compared", patternList(pats, sc.T.Name()))
		res.AddSet("variant_assignments", sc.T.Name()+"{"+sc.AStr+"}")
		res.AddSet("shapes", sc.Kind)
		return res
	}))
}

func typeListCase() vrun.Result {
	d := discover()
	if d.Err != nil {
		return vrun.Inconcl("cannot read the declarations of package message: " + d.Err.Error())
	}
	have := map[string]bool{}
	for _, t := range messageTypes {
		have[t.Name()] = true
	}
	var missing []string
	for _, n := range d.MsgTypes {
		if !have[n] {
			missing = append(missing, n)
		}
	}
	if len(missing) > 0 {
		return vrun.Inconcl("package message declares message types the harness does not list (extend messageTypes): " + strings.Join(missing, ","))
	}
	res := vrun.Hold("type-list", len(d.MsgTypes) > 0)
	res.Desc = map[string]any{"declared_message_types": len(d.MsgTypes), "listed": len(messageTypes), "source": d.Dir}
	res.Stat("declared_message_types", int64(len(d.MsgTypes)))
	return res
}

// =====================================================================================================================
// TestC11EnumTotality

type enumCase struct {
	Dir    string // "lib" or "wire"
	T      reflect.Type
	Assign map[string]int
	AStr   string
	// lib direction
	Leaf     int
	LeafPath string
	Const    enumConst
	// wire direction
	Site     string
	EnumType string
	Name     string
	Num      int32
	Setup    string // non-empty: the case list could not be built for this type
}

var jsonNames = jsonpb.Marshaler{OrigName: true, EmitDefaults: true}
var jsonInts = jsonpb.Marshaler{OrigName: true, EmitDefaults: true, EnumsAsInts: true}

func wireBase(t reflect.Type, a map[string]int) (*autogen.Message, error) {
	m := buildMessage(newSweep(a), t)
	var buf bytes.Buffer
	if _, err := codecs[0].Enc.EncodeTo(&buf, m); err != nil {
		return nil, err
	}
	var pb autogen.Message
	if err := pb.Unmarshal(buf.Bytes()); err != nil {
		return nil, err
	}
	return &pb, nil
}

type wireEnumSite struct {
	Path string
	V    reflect.Value
}

func isWireEnum(t reflect.Type) bool {
	if t.Kind() != reflect.Int32 || t.PkgPath() == "" {
		return false
	}
	_, ok := t.MethodByName("EnumDescriptor")
	return ok
}

func walkWireEnums(v reflect.Value, path string, out *[]wireEnumSite) {
	switch v.Kind() {
	case reflect.Ptr:
		if !v.IsNil() {
			walkWireEnums(v.Elem(), path, out)
		}
	case reflect.Interface:
		if !v.IsNil() {
			walkWireEnums(v.Elem(), path+"("+typeName(v.Elem().Type())+")", out)
		}
	case reflect.Struct:
		for i := 0; i < v.NumField(); i++ {
			f := v.Type().Field(i)
			if strings.HasPrefix(f.Name, "XXX_") || !f.IsExported() {
				continue
			}
			walkWireEnums(v.Field(i), path+"."+f.Name, out)
		}
	case reflect.Slice:
		if v.Type().Elem().Kind() == reflect.Uint8 {
			return
		}
		for i := 0; i < v.Len(); i++ {
			walkWireEnums(v.Index(i), fmt.Sprintf("%s[%d]", path, i), out)
		}
	case reflect.Map:
		keys := v.MapKeys()
		sort.Slice(keys, func(i, j int) bool { return fmt.Sprint(keys[i].Interface()) < fmt.Sprint(keys[j].Interface()) })
		for _, k := range keys {
			walkWireEnums(v.MapIndex(k), fmt.Sprintf("%s[%v]", path, k.Interface()), out)
		}
	case reflect.Int32:
		if isWireEnum(v.Type()) {
			*out = append(*out, wireEnumSite{path, v})
		}
	}
}

func wireEnumValues(t reflect.Type) map[string]int32 {
	return gogoproto.EnumValueMap("iscp2.v1." + t.Name())
}

func wireCanonicalName(t reflect.Type, num int32) string {
	x := reflect.New(t).Elem()
	x.SetInt(int64(num))
	return fmt.Sprint(x.Interface())
}

func enumCases() []enumCase {
	var res []enumCase
	d := discover()
	if d.Err != nil {
		res = append(res, enumCase{Dir: "lib", Setup: "cannot list the library's enumeration constants: " + d.Err.Error()})
	}
	for _, t := range messageTypes {
		seenL, seenW := map[string]bool{}, map[string]bool{}
		for _, a := range assignments(t) {
			as := assignString(t, a)
			probe := newSweep(a)
			buildMessage(probe, t)
			if d.Err == nil {
				for i, l := range probe.leaves {
					cs := enumOf(l.Type)
					if len(cs) == 0 || seenL[l.Site.Path] {
						continue
					}
					seenL[l.Site.Path] = true
					for _, cst := range cs {
						res = append(res, enumCase{Dir: "lib", T: t, Assign: a, AStr: as, Leaf: i, LeafPath: l.Site.Path, Const: cst, EnumType: l.Type.Name()})
					}
				}
			}
			base, err := wireBase(t, a)
			if err != nil {
				res = append(res, enumCase{Dir: "wire", T: t, Assign: a, AStr: as, Setup: "the fully populated message does not encode: " + err.Error()})
				continue
			}
			var sites []wireEnumSite
			walkWireEnums(reflect.ValueOf(base), "", &sites)
			for _, s := range sites {
				if seenW[s.Path] {
					continue
				}
				seenW[s.Path] = true
				vals := wireEnumValues(s.V.Type())
				var names []string
				for n := range vals {
					names = append(names, n)
				}
				sort.Slice(names, func(i, j int) bool {
					if vals[names[i]] != vals[names[j]] {
						return vals[names[i]] < vals[names[j]]
					}
					return names[i] < names[j]
				})
				if len(names) == 0 {
					res = append(res, enumCase{Dir: "wire", T: t, Assign: a, AStr: as, Site: s.Path, Setup: "no enumerator table registered for wire enumeration " + s.V.Type().String()})
				}
				for _, n := range names {
					res = append(res, enumCase{Dir: "wire", T: t, Assign: a, AStr: as, Site: s.Path, EnumType: s.V.Type().Name(), Name: n, Num: vals[n]})
				}
			}
		}
	}
	return res
}

func TestC11EnumTotality(t *testing.T) {
	cases := enumCases()
	meta := vrun.Meta{Property: "C11", Workload: "TestC11EnumTotality", Total: len(cases), Exhaustive: true,
		Rule:        "exhaustive: (a) every constant of every enumeration type declared in package message (listed from the package's declarations: ResultCode, QoS) at every enumeration-typed field path of every message type/variant, inside an otherwise fully populated message, through both codecs: it must encode and decode back to itself; (b) every enumerator name of the generated wire package's value tables (ResultCode incl. the alias NORMAL_CLOSURE, QoS) at every wire enumeration field, presented as protobuf bytes, as JSON with enumerator names and as JSON with numbers: the library must decode it, and re-encoding must give the same wire number; the three decoded messages must be identical. Distinct = (direction, type, field, enumerator); non-trivial = the codecs were actually run on the value.",
		Assumptions: commonAssumptions}
	vrun.Loop(t, meta, 0, guarded(func(c *vrun.Case) vrun.Result {
		ec := cases[c.Index]
		if ec.Setup != "" {
			return vrun.Inconcl(ec.Setup)
		}
		if ec.Dir == "lib" {
			return enumLibCase(ec)
		}
		return enumWireCase(ec)
	}))
}

func enumLibCase(ec enumCase) vrun.Result {
	ch := newSweep(ec.Assign)
	ch.enumAt, ch.enumVal = ec.Leaf, ec.Const.Value
	m := buildMessage(ch, ec.T)
	where := fmt.Sprintf("%s{%s}.%s = %s(%d)", ec.T.Name(), ec.AStr, ec.LeafPath, ec.Const.Name, ec.Const.Value)
	st, f := roundTrip(m, rtOpts{Judge: true, KeyEncodeErr: "enum:lib->wire:" + ec.Const.Name, KeyOther: "enum:lib->wire->lib:" + ec.Const.Name, EnumPath: ec.LeafPath})
	if f != nil {
		if strings.HasPrefix(f.Key, "enum:lib->wire:") {
			f.Clause = "library enumeration constant " + ec.Const.Name + " has no wire mapping (the encoder refuses it)"
		} else if strings.HasPrefix(f.Key, "enum:") {
			f.Clause = "library enumeration constant " + ec.Const.Name + " does not come back from the wire as itself"
		}
		f.Witness["where"] = where
		return fail(f)
	}
	res := vrun.Hold("lib|"+ec.T.Name()+"|"+ec.LeafPath+"|"+ec.Const.Name, st.Compared > 0 && len(st.Bytes) == 2)
	res.Desc = map[string]any{"direction": "library->wire->library", "where": where}
	addRT(&res, st)
	res.AddSet("library_enum_constants", ec.EnumType+"."+ec.Const.Name)
	res.AddSet("library_enum_fields", ec.T.Name()+"."+ch.leaves[ec.Leaf].Site.Pattern)
	return res
}

func findWireSite(pb *autogen.Message, path string) (reflect.Value, bool) {
	var sites []wireEnumSite
	walkWireEnums(reflect.ValueOf(pb), "", &sites)
	for _, s := range sites {
		if s.Path == path {
			return s.V, true
		}
	}
	return reflect.Value{}, false
}

func enumWireCase(ec enumCase) vrun.Result {
	base, err := wireBase(ec.T, ec.Assign)
	if err != nil {
		return vrun.Inconcl("base message does not encode: " + err.Error())
	}
	fv, ok := findWireSite(base, ec.Site)
	if !ok {
		return vrun.Inconcl("wire enumeration field " + ec.Site + " not found again")
	}
	fv.SetInt(int64(ec.Num))
	where := fmt.Sprintf("%s{%s} wire field %s = %s(%d)", ec.T.Name(), ec.AStr, ec.Site, ec.Name, ec.Num)
	keyIn := "enum:wire->lib:" + ec.EnumType + ":" + ec.Name
	keyBack := "enum:wire->lib->wire:" + ec.EnumType + ":" + ec.Name

	pbBytes, err := gogoproto.Marshal(base)
	if err != nil {
		return vrun.Inconcl("harness-side protobuf marshal failed: " + err.Error())
	}
	jn, err1 := jsonNames.MarshalToString(base)
	ji, err2 := jsonInts.MarshalToString(base)
	if err1 != nil || err2 != nil {
		return vrun.Inconcl(fmt.Sprintf("harness-side JSON marshal failed: %v %v", err1, err2))
	}
	canonical := wireCanonicalName(fv.Type(), ec.Num)
	if canonical != ec.Name { // alias name: put it into the JSON text by hand
		if strings.Count(jn, `"`+canonical+`"`) != 1 {
			return vrun.Inconcl("cannot place alias enumerator " + ec.Name + " into the JSON text unambiguously")
		}
		jn = strings.Replace(jn, `"`+canonical+`"`, `"`+ec.Name+`"`, 1)
	}
	forms := []struct {
		name string
		cd   codec
		data []byte
	}{{"protobuf", codecs[0], pbBytes}, {"json-by-name", codecs[1], []byte(jn)}, {"json-by-number", codecs[1], []byte(ji)}}
	var decoded []message.Message
	res := vrun.Hold("wire|"+ec.T.Name()+"|"+ec.Site+"|"+ec.Name, true)
	for _, fm := range forms {
		r := &countReader{data: fm.data}
		n, m2, err := fm.cd.Enc.DecodeFrom(r)
		if err != nil {
			return vrun.Violation("wire enumerator "+ec.EnumType+"."+ec.Name+" has no library mapping (the decoder refuses it)", keyIn,
				map[string]any{"where": where, "form": fm.name, "error": err.Error(), "input_head": head(fm.data)})
		}
		if n != r.consumed {
			return vrun.Violation("DecodeFrom reports a byte count different from the bytes it consumed", "bytecount:decode:"+fm.cd.Name,
				map[string]any{"where": where, "form": fm.name, "reported": n, "consumed": r.consumed})
		}
		w := &countWriter{}
		if _, err := fm.cd.Enc.EncodeTo(w, m2); err != nil {
			return vrun.Violation("the library value decoded from wire enumerator "+ec.EnumType+"."+ec.Name+" does not encode", keyBack,
				map[string]any{"where": where, "form": fm.name, "error": err.Error(), "decoded": render(m2)})
		}
		var back autogen.Message
		if fm.cd.Name == "protobuf" {
			err = back.Unmarshal(w.buf.Bytes())
		} else {
			err = jsonpb.Unmarshal(bytes.NewReader(w.buf.Bytes()), &back)
		}
		if err != nil {
			return vrun.Inconcl("harness-side unmarshal of the re-encoded message failed: " + err.Error())
		}
		bv, ok := findWireSite(&back, ec.Site)
		if !ok || bv.Int() != int64(ec.Num) {
			got := "field missing"
			if ok {
				got = fmt.Sprint(bv.Interface())
			}
			return vrun.Violation("wire enumerator "+ec.EnumType+"."+ec.Name+" does not come back as the same wire value", keyBack,
				map[string]any{"where": where, "form": fm.name, "want": ec.Num, "got": got, "decoded": render(m2)})
		}
		decoded = append(decoded, m2)
		res.Stat("wire_inputs_decoded", 1)
		res.Stat("bytes_"+fm.cd.Name, int64(len(fm.data)))
	}
	for i := 1; i < len(decoded); i++ {
		if df, _, _ := canonEqual(decoded[0], decoded[i], true, nil); df != nil {
			return vrun.Violation("the same wire message decodes differently from protobuf and from JSON", "pb-json-differ:"+ec.T.Name()+":"+df.Pattern,
				map[string]any{"where": where, "form": forms[i].name, "diff_want_is_protobuf": df})
		}
	}
	res.Desc = map[string]any{"direction": "wire->library->wire", "where": where, "forms": "protobuf, json-by-name, json-by-number"}
	res.Stat("messages", 1)
	res.AddSet("wire_enumerators", ec.EnumType+"."+ec.Name)
	res.AddSet("wire_enum_fields", ec.T.Name()+ec.Site)
	return res
}

// =====================================================================================================================
// TestC11Random

const (
	classDomain  = "in-domain"
	classEdge    = "edge"    // durations/times outside the wire domain; everything else is judged
	classHostile = "hostile" // invalid UTF-8, nil interfaces, nil elements, non-constant enum numbers: no panic only
)

type randChooser struct {
	rng       *rand.Rand
	class     string
	elems     int // remaining element budget
	byteBud   int // remaining payload budget
	big       bool
	usedBig   int
	maxLen    int
	nonASCII  int
	between   int // durations between resolution steps
	atStep    int
	outDomain int
	shape     []string
}

var fixedZones = []*time.Location{time.UTC, time.FixedZone("JST", 9*3600), time.FixedZone("NST", -(3*3600 + 1800)), time.FixedZone("", 14*3600), time.FixedZone("W", -12*3600)}

var stringPool = []string{"", "a", "node-1", "データ/型:名前", "Ünïcödé", "😀👩\u200d👩\u200d👧\u200d👦", "\x00", "a\x00b", "\n\t\r", "\"quoted\" \\ back/slash", "<script>&amp;</script>",
	"\u2028\u2029", "\ufffd", "\ufeffbom", "\U0010ffff", "e\u0301", "مرحبا بالعالم", "%00%ff%fe", "\\ud800", "\\x80\\xff", "null", "{\"a\":[1,2]}", "0", "-1", "true",
	" leading and trailing ", "#", "+", "group/+/name", "a:b:c", "\x7f\x1b[31m", strings.Repeat("長", 100), strings.Repeat("x", 300), "00000000-0000-0000-0000-000000000000"}

var invalidUTF8 = []string{"\xff\xfe", "\xc0\x80", "abc\x80", "\xed\xa0\x80", "\xf8\x88\x80\x80\x80", "ok\xe3\x81"}

func (c *randChooser) randString() string {
	r := c.rng
	if c.class == classHostile && r.Intn(4) == 0 {
		return invalidUTF8[r.Intn(len(invalidUTF8))]
	}
	var s string
	switch r.Intn(3) {
	case 0:
		s = stringPool[r.Intn(len(stringPool))]
	default:
		n := r.Intn(40)
		var b strings.Builder
		for i := 0; i < n; i++ {
			switch r.Intn(7) {
			case 0:
				b.WriteRune(rune(r.Intn(0x20))) // control
			case 1:
				b.WriteRune(rune(0xa0 + r.Intn(0x160))) // Latin-1 / Latin extended
			case 2:
				b.WriteRune(rune(0x3040 + r.Intn(0xc0))) // kana
			case 3:
				b.WriteRune(rune(0x4e00 + r.Intn(0x5000))) // CJK
			case 4:
				b.WriteRune(rune(0x1f300 + r.Intn(0x300))) // pictographs (4-byte UTF-8)
			default:
				b.WriteRune(rune(0x20 + r.Intn(0x5f))) // printable ASCII
			}
		}
		s = b.String()
	}
	if !utf8.ValidString(s) {
		s = strings.ToValidUTF8(s, "?")
	}
	for i := 0; i < len(s); i++ {
		if s[i] >= 0x80 {
			c.nonASCII++
			break
		}
	}
	return s
}

func (c *randChooser) randUint(bits int) uint64 {
	r := c.rng
	max := uint64(math.MaxUint64)
	if bits < 64 {
		max = 1<<uint(bits) - 1
	}
	switch r.Intn(10) {
	case 0:
		return 0
	case 1:
		return 1
	case 2:
		return max
	case 3:
		return max - 1
	case 4:
		return (max >> 1) + 1 // sign bit
	case 5:
		return max >> 1
	case 6:
		p := uint64(1) << uint(r.Intn(bits))
		return (p + uint64(r.Intn(3)) - 1) & max
	case 7:
		return uint64(r.Intn(300))
	}
	return r.Uint64() & max
}

func (c *randChooser) randDuration(s site) time.Duration {
	r := c.rng
	res := resOf(s.Parent, s.Field)
	if c.class != classDomain && r.Intn(3) == 0 {
		c.outDomain++
		switch r.Intn(6) {
		case 0:
			return -1
		case 1:
			return -res.Unit
		case 2:
			return math.MinInt64
		case 3:
			return math.MaxInt64
		case 4:
			if res.MaxSteps < math.MaxInt64 {
				return time.Duration(res.MaxSteps*uint64(res.Unit)) + 1 + time.Duration(r.Int63n(int64(res.Unit)))
			}
			return -time.Duration(r.Int63())
		default:
			return -time.Duration(r.Int63())
		}
	}
	var k uint64
	switch r.Intn(6) {
	case 0:
		k = 0
	case 1:
		k = 1
	case 2:
		k = res.MaxSteps
	case 3:
		k = res.MaxSteps - 1
	case 4:
		k = uint64(r.Intn(100000))
	default:
		k = uint64(r.Int63n(int64(res.MaxSteps>>1))) * 2
		if k > res.MaxSteps {
			k = res.MaxSteps
		}
	}
	d := time.Duration(k * uint64(res.Unit))
	if !res.Known || res.Unit == time.Nanosecond {
		c.atStep++
		return d
	}
	var off time.Duration
	switch r.Intn(6) {
	case 0, 1:
		off = 0
	case 2:
		off = 1
	case 3:
		off = res.Unit / 2
	case 4:
		off = res.Unit - 1
	case 5:
		off = -1
	}
	if k == res.MaxSteps && off > 0 {
		off = 0
	}
	if k == 0 && off < 0 {
		off = 0
	}
	if off == 0 {
		c.atStep++
	} else {
		c.between++
	}
	return d + off
}

func (c *randChooser) randTime() time.Time {
	r := c.rng
	if c.class != classDomain && r.Intn(3) == 0 {
		c.outDomain++
		switch r.Intn(5) {
		case 0:
			return time.Time{}
		case 1:
			return time.Date(9999, 12, 31, 23, 59, 59, 999999999, time.UTC)
		case 2:
			return time.Date(1600, 1, 1, 0, 0, 0, 0, fixedZones[1])
		case 3:
			return maxWireTime.Add(1)
		default:
			return minWireTime.Add(-1)
		}
	}
	var ns int64
	switch r.Intn(8) {
	case 0:
		ns = 0
	case 1:
		ns = 1
	case 2:
		ns = -1
	case 3:
		ns = math.MaxInt64
	case 4:
		ns = math.MinInt64
	case 5:
		ns = 1_700_000_000_000_000_000 + r.Int63n(1_000_000_000_000_000)
	default:
		ns = int64(r.Uint64())
	}
	return time.Unix(0, ns).In(fixedZones[r.Intn(len(fixedZones))])
}

func (c *randChooser) randBytes() []byte {
	r := c.rng
	var n int
	switch x := r.Intn(100); {
	case x < 10:
		return nil
	case x < 15:
		return []byte{}
	case x < 55:
		n = 1 + r.Intn(16)
	case x < 80:
		n = 17 + r.Intn(284)
	case x < 86:
		n = 4000 + r.Intn(200) // around the protobuf encoder's pooled 4096-byte buffer
	case x < 94:
		n = 300 + r.Intn(70000)
	default:
		n = 1 + r.Intn(64)
	}
	if c.big && c.usedBig == 0 {
		c.usedBig = 1
		n = []int{1 << 20, 1<<20 - 1, 1<<19 + r.Intn(1<<19), 65536, 65535}[r.Intn(5)]
	} else if n > c.byteBud {
		n = 1 + r.Intn(8)
	} else {
		c.byteBud -= n
	}
	b := make([]byte, n)
	switch r.Intn(4) {
	case 0: // zeros
	case 1:
		for i := range b {
			b[i] = 0xff
		}
	default:
		r.Read(b)
	}
	return b
}

func (c *randChooser) Leaf(s site, t reflect.Type) reflect.Value {
	r := c.rng
	switch t {
	case durType:
		return reflect.ValueOf(c.randDuration(s))
	case timeType:
		return reflect.ValueOf(c.randTime())
	case uuidType:
		var u uuid.UUID
		switch r.Intn(4) {
		case 0:
		case 1:
			for i := range u {
				u[i] = 0xff
			}
		default:
			r.Read(u[:])
		}
		return reflect.ValueOf(u)
	case bytesType:
		return reflect.ValueOf(c.randBytes())
	}
	if cs := enumPool(t); len(cs) > 0 {
		if c.class == classHostile && r.Intn(4) == 0 {
			return setInt(t, []int64{0, cs[len(cs)-1].Value + 2, 100, 255}[r.Intn(4)])
		}
		return setInt(t, cs[r.Intn(len(cs))].Value)
	}
	v := reflect.New(t).Elem()
	switch t.Kind() {
	case reflect.Bool:
		v.SetBool(r.Intn(2) == 0)
	case reflect.String:
		v.SetString(c.randString())
	case reflect.Uint8, reflect.Uint16, reflect.Uint32, reflect.Uint64, reflect.Uint:
		bits := t.Bits()
		v.SetUint(c.randUint(bits))
	case reflect.Int8, reflect.Int16, reflect.Int32, reflect.Int64, reflect.Int:
		bits := t.Bits()
		u := c.randUint(bits)
		v.SetInt(int64(u<<(64-uint(bits))) >> (64 - uint(bits)))
	case reflect.Float32, reflect.Float64:
		v.SetFloat(r.NormFloat64())
	}
	return v
}

func (c *randChooser) Variant(s site, iface reflect.Type, opts []reflect.Type) reflect.Type {
	if c.class == classHostile && c.rng.Intn(8) == 0 {
		return nil
	}
	vt := opts[c.rng.Intn(len(opts))]
	c.shape = append(c.shape, typeName(vt))
	return vt
}

func (c *randChooser) PtrNil(s site, t reflect.Type) bool {
	if !ptrIsField(s) {
		return false
	}
	if isExtPtr(t) {
		return c.rng.Intn(2) == 0
	}
	return c.rng.Intn(10) == 0
}

func (c *randChooser) ElemNil(s site, t reflect.Type) bool {
	return c.class == classHostile && c.rng.Intn(20) == 0
}

func (c *randChooser) Len(s site, t reflect.Type) int {
	r := c.rng
	nested := strings.Contains(s.Pattern, "[]")
	var n int
	x := r.Intn(100)
	if !nested {
		switch {
		case x < 10:
			n = -1
		case x < 22:
			n = 0
		case x < 37:
			n = 1
		case x < 67:
			n = 2 + r.Intn(4)
		case x < 93:
			n = 6 + r.Intn(45)
		default:
			n = 50
		}
	} else {
		switch {
		case x < 10:
			n = -1
		case x < 20:
			n = 0
		case x < 75:
			n = 1 + r.Intn(3)
		case x < 95:
			n = 4 + r.Intn(20)
		default:
			n = 50
		}
	}
	if n > c.elems {
		n = r.Intn(2)
	}
	if n > 0 {
		c.elems -= n
	}
	if n > c.maxLen {
		c.maxLen = n
	}
	c.shape = append(c.shape, fmt.Sprint(n))
	return n
}

func (c *randChooser) MapKey(s site, i int) uint64 {
	switch c.rng.Intn(5) {
	case 0:
		return uint64(i)
	case 1:
		return math.MaxUint32 - uint64(i)
	}
	return uint64(c.rng.Uint32())
}

var payloadTypes = []reflect.Type{st[message.UpstreamCall](), st[message.DownstreamCall](), st[message.UpstreamChunk](), st[message.DownstreamChunk]()}

func randMessage(rng *rand.Rand, class string, big bool, elems int) (message.Message, *randChooser) {
	ch := &randChooser{rng: rng, class: class, elems: elems, byteBud: 256 << 10, big: big}
	t := messageTypes[rng.Intn(len(messageTypes))]
	if big {
		t = payloadTypes[rng.Intn(len(payloadTypes))]
		if ch.elems > 40 {
			ch.elems = 40 // few data points so that one of them is certain to carry the big payload... budget only
		}
	}
	m := buildMessage(ch, t)
	return m, ch
}

const randBatch = 10

func TestC11Random(t *testing.T) {
	env := vrun.LoadEnv()
	meta := vrun.Meta{Property: "C11", Workload: "TestC11Random", Total: env.Pick(500, 20000),
		Rule:        fmt.Sprintf("each case draws %d messages from the case PRNG: uniformly chosen message type, every struct field filled by reflection with random contents (strings: empty/ASCII/Japanese/emoji/control/JSON-special/escape-looking text and random runes, all valid UTF-8; integers: 0,1,max,max-1,sign bit, powers of two +-1, random; durations at, one ns beside, half-way and one ns before wire resolution steps incl. the largest step; instants 0,+-1ns,min,max,random in five zones; uuids; payloads nil/empty/1..300/~4096/up to 70 kB, and in every 25th case one payload of 64 KiB..1 MiB; collections nil/empty/1..50; random variants and extension presence); the reader hands the bytes out in random piece sizes. 80%% of the cases are in-domain, 10%% 'edge' (some durations/instants outside the wire domain: those fields are not judged, all others are), 10%% 'hostile' (invalid UTF-8, nil interfaces, nil elements, non-constant enum numbers: only 'no panic' and byte counts are judged). Distinct = (class, types, encoded sizes); non-trivial = every message of the batch went through both codecs and had leaves compared (in hostile cases: at least one encode was attempted and returned).", randBatch),
		Assumptions: commonAssumptions}
	vrun.Loop(t, meta, 0, guarded(func(c *vrun.Case) vrun.Result {
		class := classDomain
		switch c.Index % 10 {
		case 3:
			class = classEdge
		case 7:
			class = classHostile
		}
		big := c.Index%25 == 0
		res := vrun.Hold("", true)
		h := fnv.New64a()
		var types []string
		for i := 0; i < randBatch; i++ {
			m, ch := randMessage(c.Rng, class, big && i == 0, 3000)
			chunk := []int{0, 0, 1, 7, 512, 4096, 1 + c.Rng.Intn(100000)}[c.Rng.Intn(7)]
			if big && i == 0 && chunk > 0 && chunk < 512 {
				chunk = 4096
			}
			pats := map[string]bool{}
			st, f := roundTrip(m, rtOpts{Judge: class != classHostile, Chunk: chunk, Patterns: pats})
			tn := typeName(reflect.TypeOf(m))
			if f != nil {
				f.Witness["class"] = class
				f.Witness["message_index_in_case"] = i
				return fail(f)
			}
			if class != classHostile && (st.Compared == 0 || len(st.Bytes) != 2) {
				res.NonTrivial = false
			}
			addRT(&res, st)
			fmt.Fprintf(h, "%s/%d/%d/%s;", tn, st.Bytes["protobuf"], st.Bytes["json"], strings.Join(ch.shape, ","))
			types = append(types, tn)
			res.AddSet("message_types", tn)
			addSet(&res, "field_paths_compared", patternList(pats, tn))
			res.Stat("strings_non_ascii", int64(ch.nonASCII))
			res.Stat("durations_between_resolution_steps", int64(ch.between))
			res.Stat("durations_at_resolution_steps", int64(ch.atStep))
			res.Stat("values_outside_wire_domain", int64(ch.outDomain))
			res.Stat("payloads_64KiB_to_1MiB", int64(ch.usedBig))
			if ch.maxLen >= 50 {
				res.Stat("messages_with_a_50_element_collection", 1)
			}
			if st.Bytes["protobuf"] > 4096 {
				res.Stat("messages_beyond_4096_encoded_bytes", 1)
			}
		}
		res.Stat("cases_"+class, 1)
		res.Sig = fmt.Sprintf("%s|%x", class, h.Sum64())
		res.Desc = map[string]any{"class": class, "types": types, "big_payload": big}
		return res
	}))
}

// =====================================================================================================================
// TestC11Transport

type loopRW struct {
	queue     [][]byte
	wrote     []int // length of every write, in order
	delivered []int // length of every message handed to Read, in order
	tx, rx    uint64
}

func (l *loopRW) Read() ([]byte, error) {
	if len(l.queue) == 0 {
		return nil, io.EOF
	}
	b := l.queue[0]
	l.queue = l.queue[1:]
	l.delivered = append(l.delivered, len(b))
	l.rx += uint64(len(b))
	return b, nil
}

func (l *loopRW) Write(b []byte) error {
	cp := append([]byte(nil), b...)
	l.queue = append(l.queue, cp)
	l.wrote = append(l.wrote, len(b))
	l.tx += uint64(len(b))
	return nil
}
func (l *loopRW) Close() error                { return nil }
func (l *loopRW) RxBytesCounterValue() uint64 { return l.rx }
func (l *loopRW) TxBytesCounterValue() uint64 { return l.tx }

func countsEqual(got map[reflect.Type]uint64, want map[reflect.Type]uint64) string {
	for k, v := range want {
		if got[k] != v {
			return fmt.Sprintf("%v: counter %d, transport saw %d", k, got[k], v)
		}
	}
	for k, v := range got {
		if _, ok := want[k]; !ok && v != 0 {
			return fmt.Sprintf("%v: counter %d, transport saw none", k, v)
		}
	}
	return ""
}

func TestC11Transport(t *testing.T) {
	env := vrun.LoadEnv()
	meta := vrun.Meta{Property: "C11", Workload: "TestC11Transport", Total: env.Pick(300, 3000),
		Rule:        "each case pushes a generated sequence of 5..40 in-domain messages (random contents, all message types) through encoding.Transport over a counting in-memory transport.ReadWriter, once per codec, with reads interleaved at random; after every operation the message counters, and at the end the per-type message and byte counters of TxCount/RxCount, must equal the number and the lengths of the writes/reads the ReadWriter saw; every message read must equal the canonical form of the one written. Distinct = (codec order, types, sizes); non-trivial = at least 5 writes and 5 reads per codec were observed.",
		Assumptions: commonAssumptions}
	vrun.Loop(t, meta, 0, guarded(func(c *vrun.Case) vrun.Result {
		res := vrun.Hold("", true)
		h := fnv.New64a()
		n := 5 + c.Rng.Intn(36)
		var msgs []message.Message
		for i := 0; i < n; i++ {
			m, _ := randMessage(c.Rng, classDomain, false, 300)
			msgs = append(msgs, m)
		}
		for _, cd := range codecs {
			rw := &loopRW{}
			tr := encoding.NewTransport(&encoding.TransportConfig{Transport: rw, Encoding: cd.Enc, MaxMessageSize: 0})
			wantTxMsg, wantTxBytes := map[reflect.Type]uint64{}, map[reflect.Type]uint64{}
			wantRxMsg, wantRxBytes := map[reflect.Type]uint64{}, map[reflect.Type]uint64{}
			wi, ri := 0, 0
			for ri < n {
				doWrite := wi < n && (wi == ri || c.Rng.Intn(2) == 0)
				if doWrite {
					m := msgs[wi]
					before := len(rw.wrote)
					if err := tr.Write(m); err != nil {
						return vrun.Violation("encoding.Transport refuses a message of the grammar", "transport:write-error:"+cd.Name+":"+typeName(reflect.TypeOf(m)),
							map[string]any{"codec": cd.Name, "error": err.Error(), "message": render(m)})
					}
					if len(rw.wrote) != before+1 {
						return vrun.Violation("one Transport.Write did not result in exactly one transport write", "transport:write-count:"+cd.Name,
							map[string]any{"codec": cd.Name, "transport_writes": len(rw.wrote) - before})
					}
					wantTxMsg[reflect.TypeOf(m)]++
					wantTxBytes[reflect.TypeOf(m)] += uint64(rw.wrote[before])
					wi++
					if got := tr.TxMessageCounterValue(); got != uint64(len(rw.wrote)) {
						return vrun.Violation("TxMessageCounterValue differs from the writes the transport saw", "transport-counter:tx-messages:"+cd.Name,
							map[string]any{"codec": cd.Name, "counter": got, "transport_saw": len(rw.wrote)})
					}
					continue
				}
				before := len(rw.delivered)
				m2, err := tr.Read()
				if err != nil {
					return vrun.Violation("encoding.Transport cannot read back what it wrote", "transport:read-error:"+cd.Name+":"+typeName(reflect.TypeOf(msgs[ri])),
						map[string]any{"codec": cd.Name, "error": err.Error(), "message": render(msgs[ri])})
				}
				if df, _, _ := canonEqual(msgs[ri], m2, false, nil); df != nil {
					tn := typeName(reflect.TypeOf(msgs[ri]))
					return vrun.Violation("a message read from encoding.Transport differs from canon(written) at "+tn+"."+df.Pattern, "transport:roundtrip:"+cd.Name+":"+tn+":"+df.Pattern,
						map[string]any{"codec": cd.Name, "diff": df, "message": render(msgs[ri])})
				}
				wantRxMsg[reflect.TypeOf(m2)]++
				wantRxBytes[reflect.TypeOf(m2)] += uint64(rw.delivered[before])
				ri++
				if got := tr.RxMessageCounterValue(); got != uint64(len(rw.delivered)) {
					return vrun.Violation("RxMessageCounterValue differs from the reads the transport served", "transport-counter:rx-messages:"+cd.Name,
						map[string]any{"codec": cd.Name, "counter": got, "transport_saw": len(rw.delivered)})
				}
			}
			tx, rx := tr.TxCount(), tr.RxCount()
			for _, chk := range []struct {
				what string
				got  map[reflect.Type]uint64
				want map[reflect.Type]uint64
			}{{"tx-messages", tx.MessageCount, wantTxMsg}, {"tx-bytes", tx.ByteCount, wantTxBytes}, {"rx-messages", rx.MessageCount, wantRxMsg}, {"rx-bytes", rx.ByteCount, wantRxBytes}} {
				if d := countsEqual(chk.got, chk.want); d != "" {
					return vrun.Violation("encoding.Transport's per-type "+chk.what+" counter differs from what the counting ReadWriter saw", "transport-counter:"+chk.what+":"+cd.Name,
						map[string]any{"codec": cd.Name, "difference": d, "writes": len(rw.wrote), "reads": len(rw.delivered)})
				}
			}
			if len(rw.wrote) < 5 || len(rw.delivered) < 5 {
				res.NonTrivial = false
			}
			res.Stat("transport_writes_seen", int64(len(rw.wrote)))
			res.Stat("transport_reads_served", int64(len(rw.delivered)))
			res.Stat("transport_bytes_seen_"+cd.Name, int64(rw.tx))
			res.Stat("counter_types_checked", int64(len(wantTxMsg)))
			fmt.Fprintf(h, "%s:%v;", cd.Name, rw.wrote)
		}
		var types []string
		for _, m := range msgs {
			types = append(types, typeName(reflect.TypeOf(m)))
			res.AddSet("message_types", typeName(reflect.TypeOf(m)))
		}
		res.Sig = fmt.Sprintf("%x", h.Sum64())
		res.Desc = map[string]any{"messages": n, "types": types}
		return res
	}))
}
