// C11 - message grammar: the list of message types, the variants of every interface-typed field, the
// enumerations (discovered from the message package's source so that an added constant is swept without
// touching the harness), the wire resolution of every duration field, and a reflection-driven builder that
// fills ANY struct of the message package field by field.
package c11

import (
	"fmt"
	"go/ast"
	"go/constant"
	"go/parser"
	"go/token"
	"go/types"
	"io/fs"
	"math"
	"path/filepath"
	"reflect"
	"runtime"
	"sort"
	"strings"
	"sync"
	"time"

	"github.com/aptpod/iscp-go/message"
	uuid "github.com/google/uuid"
)

// ---- the message types, listed once (everything encoding/convert's two switch statements handle)

func st[T any]() reflect.Type { return reflect.TypeOf((*T)(nil)).Elem() }

var messageTypes = []reflect.Type{
	st[message.ConnectRequest](), st[message.ConnectResponse](), st[message.Disconnect](),
	st[message.UpstreamOpenRequest](), st[message.UpstreamOpenResponse](),
	st[message.UpstreamResumeRequest](), st[message.UpstreamResumeResponse](),
	st[message.UpstreamCloseRequest](), st[message.UpstreamCloseResponse](),
	st[message.DownstreamOpenRequest](), st[message.DownstreamOpenResponse](),
	st[message.DownstreamResumeRequest](), st[message.DownstreamResumeResponse](),
	st[message.DownstreamCloseRequest](), st[message.DownstreamCloseResponse](),
	st[message.UpstreamCall](), st[message.UpstreamCallAck](), st[message.DownstreamCall](),
	st[message.Ping](), st[message.Pong](),
	st[message.UpstreamChunk](), st[message.UpstreamChunkAck](),
	st[message.DownstreamChunk](), st[message.DownstreamChunkAck](), st[message.DownstreamChunkAckComplete](),
	st[message.UpstreamMetadata](), st[message.UpstreamMetadataAck](),
	st[message.DownstreamMetadata](), st[message.DownstreamMetadataAck](),
}

// ---- interface-typed fields and their implementing variants

var variants = map[reflect.Type][]reflect.Type{
	st[message.Metadata](): {
		reflect.TypeOf(&message.BaseTime{}), reflect.TypeOf(&message.UpstreamOpen{}), reflect.TypeOf(&message.UpstreamAbnormalClose{}),
		reflect.TypeOf(&message.UpstreamResume{}), reflect.TypeOf(&message.UpstreamNormalClose{}), reflect.TypeOf(&message.DownstreamOpen{}),
		reflect.TypeOf(&message.DownstreamAbnormalClose{}), reflect.TypeOf(&message.DownstreamResume{}), reflect.TypeOf(&message.DownstreamNormalClose{}),
	},
	st[message.SendableMetadata](): {reflect.TypeOf(&message.BaseTime{})},
	st[message.UpstreamOrAlias]():  {reflect.TypeOf(&message.UpstreamInfo{}), reflect.TypeOf(message.UpstreamAlias(0))},
	st[message.DataIDOrAlias]():    {reflect.TypeOf(&message.DataID{}), reflect.TypeOf(message.DataIDAlias(0))},
}

func init() {
	for it, vs := range variants {
		for _, v := range vs {
			if !v.Implements(it) {
				panic(fmt.Sprintf("harness: %v does not implement %v", v, it))
			}
		}
	}
}

var (
	durType   = reflect.TypeOf(time.Duration(0))
	timeType  = reflect.TypeOf(time.Time{})
	uuidType  = reflect.TypeOf(uuid.UUID{})
	bytesType = reflect.TypeOf([]byte(nil))
	msgPkg    = st[message.ConnectRequest]().PkgPath()
)

func typeName(t reflect.Type) string {
	if t.Kind() == reflect.Ptr {
		return t.Elem().Name()
	}
	return t.Name()
}

func isExtPtr(t reflect.Type) bool {
	return t.Kind() == reflect.Ptr && t.Elem().Kind() == reflect.Struct && strings.HasSuffix(t.Elem().Name(), "ExtensionFields")
}

// ---- wire resolution of duration fields.
// Source: the iSCP 2.0 wire schema (github.com/aptpod/iscp-proto, proto/iscp2/v1/*.proto): ping_interval, ping_timeout
// and expiry_interval are uint32 seconds, ack_interval is uint32 milliseconds, elapsed_time is a 64-bit nanosecond count
// (sint64 in DataPoint, uint64 in BaseTime). A duration field that is not listed here (added later) is generated with
// whole seconds below 4e6 s only - such values survive any of the three resolutions - and must come back unchanged.
type resolution struct {
	Unit     time.Duration
	MaxSteps uint64 // largest wire integer
	Known    bool
}

var resolutions = map[string]resolution{
	"ConnectRequest.PingInterval":          {time.Second, math.MaxUint32, true},
	"ConnectRequest.PingTimeout":           {time.Second, math.MaxUint32, true},
	"UpstreamOpenRequest.AckInterval":      {time.Millisecond, math.MaxUint32, true},
	"UpstreamOpenRequest.ExpiryInterval":   {time.Second, math.MaxUint32, true},
	"DownstreamOpenRequest.ExpiryInterval": {time.Second, math.MaxUint32, true},
	"DataPoint.ElapsedTime":                {time.Nanosecond, math.MaxInt64, true},
	"BaseTime.ElapsedTime":                 {time.Nanosecond, math.MaxInt64, true},
}

func resOf(parent reflect.Type, field string) resolution {
	if parent != nil {
		if r, ok := resolutions[parent.Name()+"."+field]; ok {
			return r
		}
	}
	return resolution{time.Second, 4_000_000, false}
}

// inDomain: the duration is a value the wire integer can hold (non-negative, not beyond the largest step).
func (r resolution) inDomain(d time.Duration) bool {
	return d >= 0 && uint64(d) <= r.MaxSteps*uint64(r.Unit)
}

var (
	minWireTime = time.Unix(0, math.MinInt64).UTC()
	maxWireTime = time.Unix(0, math.MaxInt64).UTC()
)

// timeInDomain: the instant is representable as a 64-bit UNIX nanosecond count (the wire form of every time field).
func timeInDomain(t time.Time) bool { return !t.Before(minWireTime) && !t.After(maxWireTime) }

// ---- enumerations, discovered from the source of package message

type enumConst struct {
	Name  string
	Value int64
}

type discovery struct {
	Dir      string
	Enums    map[string][]enumConst // type name -> constants sorted by value
	MsgTypes []string               // types with an isMessage method
	Err      error
}

var (
	discOnce sync.Once
	disc     discovery
)

type fakeImporter struct{}

func (fakeImporter) Import(path string) (*types.Package, error) {
	name := path
	if i := strings.LastIndex(path, "/"); i >= 0 {
		name = path[i+1:]
	}
	p := types.NewPackage(path, name)
	p.MarkComplete()
	return p, nil
}

// discover reads the declarations of package message (the source the test binary was built from) to LIST the
// library's enumeration constants and message types. It decides nothing: every listed value is then run through the codecs.
func discover() discovery {
	discOnce.Do(func() {
		disc.Enums = map[string][]enumConst{}
		f := runtime.FuncForPC(reflect.ValueOf(message.MustParseDataID).Pointer())
		if f == nil {
			disc.Err = fmt.Errorf("no function info for the message package")
			return
		}
		file, _ := f.FileLine(f.Entry())
		disc.Dir = filepath.Dir(file)
		fset := token.NewFileSet()
		pkgs, err := parser.ParseDir(fset, disc.Dir, func(fi fs.FileInfo) bool { return !strings.HasSuffix(fi.Name(), "_test.go") }, 0)
		if err != nil {
			disc.Err = err
			return
		}
		pkg, ok := pkgs["message"]
		if !ok {
			disc.Err = fmt.Errorf("package message not found in %s", disc.Dir)
			return
		}
		var files []*ast.File
		var names []string
		for n := range pkg.Files {
			names = append(names, n)
		}
		sort.Strings(names)
		for _, n := range names {
			files = append(files, pkg.Files[n])
		}
		conf := types.Config{Importer: fakeImporter{}, Error: func(error) {}, DisableUnusedImportCheck: true}
		tp, _ := conf.Check(msgPkg, fset, files, nil)
		if tp == nil {
			disc.Err = fmt.Errorf("type information unavailable for %s", disc.Dir)
			return
		}
		for _, n := range tp.Scope().Names() {
			switch o := tp.Scope().Lookup(n).(type) {
			case *types.Const:
				nt, ok := o.Type().(*types.Named)
				if !ok || nt.Obj().Pkg() != tp {
					continue
				}
				v, exact := constant.Int64Val(constant.ToInt(o.Val()))
				if !exact {
					continue
				}
				disc.Enums[nt.Obj().Name()] = append(disc.Enums[nt.Obj().Name()], enumConst{n, v})
			case *types.TypeName:
				if nt, ok := o.Type().(*types.Named); ok && !o.IsAlias() {
					ms := types.NewMethodSet(types.NewPointer(nt))
					if ms.Lookup(tp, "isMessage") != nil {
						if _, isIface := nt.Underlying().(*types.Interface); !isIface {
							disc.MsgTypes = append(disc.MsgTypes, n)
						}
					}
				}
			}
		}
		for k := range disc.Enums {
			cs := disc.Enums[k]
			sort.Slice(cs, func(i, j int) bool { return cs[i].Value < cs[j].Value })
		}
		if len(disc.Enums["ResultCode"]) == 0 || len(disc.Enums["QoS"]) == 0 {
			disc.Err = fmt.Errorf("no ResultCode/QoS constants found in %s", disc.Dir)
		}
	})
	return disc
}

// enumOf: the constants of an enumeration type of package message (nil when the type is a plain integer).
// Without source the two enumerations known today keep the other workloads running.
func enumOf(t reflect.Type) []enumConst {
	if t.PkgPath() != msgPkg {
		return nil
	}
	switch t.Kind() {
	case reflect.Int, reflect.Int8, reflect.Int16, reflect.Int32, reflect.Int64, reflect.Uint, reflect.Uint8, reflect.Uint16, reflect.Uint32, reflect.Uint64:
	default:
		return nil
	}
	d := discover()
	if cs := d.Enums[t.Name()]; len(cs) > 0 {
		return cs
	}
	if d.Err != nil {
		switch t {
		case st[message.ResultCode]():
			return []enumConst{{"ResultCodeSucceeded", int64(message.ResultCodeSucceeded)}, {"ResultCodeNormalClosure", int64(message.ResultCodeNormalClosure)}, {"ResultCodeAuthFailed", int64(message.ResultCodeAuthFailed)}}
		case st[message.QoS]():
			return []enumConst{{"QoSUnreliable", 0}, {"QoSReliable", 1}, {"QoSPartial", 2}}
		}
	}
	return nil
}

// judgedElsewhere: constants whose (missing) wire mapping is judged by TestC11EnumTotality only. The other workloads do
// not draw them, so that one unmapped enumerator does not drown every other clause.
var judgedElsewhere = map[string]bool{"ResultCodeTooShortPingInterval": true}

func enumPool(t reflect.Type) []enumConst {
	var res []enumConst
	for _, c := range enumOf(t) {
		if !judgedElsewhere[c.Name] {
			res = append(res, c)
		}
	}
	return res
}

func setInt(t reflect.Type, v int64) reflect.Value {
	x := reflect.New(t).Elem()
	switch t.Kind() {
	case reflect.Int, reflect.Int8, reflect.Int16, reflect.Int32, reflect.Int64:
		x.SetInt(v)
	default:
		x.SetUint(uint64(v))
	}
	return x
}

// ---- the reflective builder

type site struct {
	Path, Pattern string
	Parent        reflect.Type // struct type that holds the field
	Field         string
}

func (s site) child(t reflect.Type, f string) site {
	if s.Path == "" {
		return site{f, f, t, f}
	}
	return site{s.Path + "." + f, s.Pattern + "." + f, t, f}
}
func (s site) elem(key string) site {
	return site{s.Path + "[" + key + "]", s.Pattern + "[]", s.Parent, s.Field}
}
func (s site) variant(vt reflect.Type) site {
	n := "(" + typeName(vt) + ")"
	return site{s.Path + n, s.Pattern + n, s.Parent, s.Field}
}

type chooser interface {
	Leaf(s site, t reflect.Type) reflect.Value
	Variant(s site, iface reflect.Type, opts []reflect.Type) reflect.Type // nil: leave the interface nil
	PtrNil(s site, t reflect.Type) bool
	Len(s site, t reflect.Type) int // -1: nil collection, 0: empty non-nil
	MapKey(s site, i int) uint64
	ElemNil(s site, t reflect.Type) bool // nil element inside a collection (outside the grammar; no-panic class only)
}

// harnessGap is raised when the grammar contains something the harness cannot generate (an interface type without
// registered variants, an unknown kind). The case is then inconclusive - never held, never violated.
type harnessGap struct{ msg string }

func isLeaf(t reflect.Type) bool {
	switch t {
	case durType, timeType, uuidType, bytesType:
		return true
	}
	switch t.Kind() {
	case reflect.Bool, reflect.String, reflect.Float32, reflect.Float64,
		reflect.Int, reflect.Int8, reflect.Int16, reflect.Int32, reflect.Int64,
		reflect.Uint, reflect.Uint8, reflect.Uint16, reflect.Uint32, reflect.Uint64:
		return true
	}
	return false
}

func build(c chooser, t reflect.Type, s site) reflect.Value {
	if isLeaf(t) {
		v := c.Leaf(s, t)
		if v.Type() != t {
			v = v.Convert(t)
		}
		return v
	}
	switch t.Kind() {
	case reflect.Ptr:
		if c.PtrNil(s, t) {
			return reflect.Zero(t)
		}
		p := reflect.New(t.Elem())
		p.Elem().Set(build(c, t.Elem(), s))
		return p
	case reflect.Struct:
		v := reflect.New(t).Elem()
		for i := 0; i < t.NumField(); i++ {
			f := t.Field(i)
			if !f.IsExported() {
				panic(harnessGap{fmt.Sprintf("unexported field %s.%s", t.Name(), f.Name)})
			}
			v.Field(i).Set(build(c, f.Type, s.child(t, f.Name)))
		}
		return v
	case reflect.Slice:
		n := c.Len(s, t)
		if n < 0 {
			return reflect.Zero(t)
		}
		v := reflect.MakeSlice(t, n, n)
		for i := 0; i < n; i++ {
			es := s.elem(fmt.Sprint(i))
			if t.Elem().Kind() == reflect.Ptr && c.ElemNil(es, t.Elem()) {
				continue
			}
			v.Index(i).Set(build(c, t.Elem(), es))
		}
		return v
	case reflect.Map:
		n := c.Len(s, t)
		if n < 0 {
			return reflect.Zero(t)
		}
		v := reflect.MakeMapWithSize(t, n)
		for i := 0; i < n; i++ {
			k := setInt(t.Key(), int64(c.MapKey(s, i)))
			if v.MapIndex(k).IsValid() {
				continue
			}
			es := s.elem(fmt.Sprint(k.Interface()))
			if t.Elem().Kind() == reflect.Ptr && c.ElemNil(es, t.Elem()) {
				v.SetMapIndex(k, reflect.Zero(t.Elem()))
				continue
			}
			v.SetMapIndex(k, build(c, t.Elem(), es))
		}
		return v
	case reflect.Interface:
		opts := variants[t]
		if len(opts) == 0 {
			panic(harnessGap{fmt.Sprintf("interface type %v at %s has no registered variants", t, s.Pattern)})
		}
		vt := c.Variant(s, t, opts)
		if vt == nil {
			return reflect.Zero(t)
		}
		x := reflect.New(t).Elem()
		x.Set(build(c, vt, s.variant(vt)))
		return x
	}
	panic(harnessGap{fmt.Sprintf("cannot generate kind %v (%v) at %s", t.Kind(), t, s.Pattern)})
}

func buildMessage(c chooser, t reflect.Type) message.Message {
	p := reflect.New(t)
	p.Elem().Set(build(c, t, site{}))
	return p.Interface().(message.Message)
}

// ---- deterministic chooser of the exhaustive sweeps

type leafInfo struct {
	Site site
	Type reflect.Type
}

type sweepChooser struct {
	assign    map[string]int // variant site pattern -> option index (default 0)
	only      int            // >=0: only this leaf is non-zero; -1: every leaf non-zero; -2: every leaf zero
	nilPtr    string         // pointer site pattern to leave nil ("*ext": every extension pointer, "*all": every pointer)
	lenAt     string         // collection site pattern with overridden length
	lenN      int
	allNil    bool // every collection nil
	enumAt    int  // leaf index whose enum value is overridden (-1: none)
	enumVal   int64
	leaves    []leafInfo
	vsites    map[string]reflect.Type // variant site pattern -> interface type
	vorder    []string
	ptrSites  []string
	collSites []string
	seenP     map[string]bool
}

func newSweep(assign map[string]int) *sweepChooser {
	return &sweepChooser{assign: assign, only: -1, enumAt: -1, lenN: 2, vsites: map[string]reflect.Type{}, seenP: map[string]bool{}}
}

func zeroLeaf(t reflect.Type) reflect.Value {
	if cs := enumOf(t); len(cs) > 0 {
		return setInt(t, cs[0].Value) // the zero of an enumeration is its first constant (ResultCode has no constant 0)
	}
	return reflect.Zero(t)
}

func nonZeroLeaf(s site, t reflect.Type, idx int) reflect.Value {
	switch t {
	case durType:
		r := resOf(s.Parent, s.Field)
		d := time.Duration(idx+2) * r.Unit
		if r.Unit == time.Nanosecond {
			d = time.Duration(idx+2)*time.Second + time.Duration(123456789+idx)
		}
		return reflect.ValueOf(d)
	case timeType:
		return reflect.ValueOf(time.Unix(1_600_000_000+int64(idx), int64(123456789+idx)).UTC())
	case uuidType:
		var u uuid.UUID
		for i := range u {
			u[i] = byte(idx + 1 + i*7)
		}
		return reflect.ValueOf(u)
	case bytesType:
		return reflect.ValueOf([]byte{byte(idx + 1), 0x00, 0xff, byte(idx + 2), 'p'})
	}
	if cs := enumPool(t); len(cs) > 0 {
		return setInt(t, cs[len(cs)-1].Value)
	}
	v := reflect.New(t).Elem()
	switch t.Kind() {
	case reflect.Bool:
		v.SetBool(true)
	case reflect.String:
		v.SetString(fmt.Sprintf("%s#%d-é", s.Field, idx))
	case reflect.Uint8:
		v.SetUint(uint64(idx%250 + 1))
	case reflect.Int8:
		v.SetInt(int64(idx%120 + 1))
	case reflect.Uint16, reflect.Uint32, reflect.Uint:
		v.SetUint(uint64(1000 + idx))
	case reflect.Uint64:
		v.SetUint(1<<40 + uint64(idx))
	case reflect.Int16, reflect.Int32, reflect.Int:
		v.SetInt(int64(1000 + idx))
	case reflect.Int64:
		v.SetInt(1<<40 + int64(idx))
	case reflect.Float32, reflect.Float64:
		v.SetFloat(float64(idx) + 1.5)
	}
	return v
}

func (c *sweepChooser) Leaf(s site, t reflect.Type) reflect.Value {
	idx := len(c.leaves)
	c.leaves = append(c.leaves, leafInfo{s, t})
	if idx == c.enumAt {
		return setInt(t, c.enumVal)
	}
	if c.only == -1 || c.only == idx {
		return nonZeroLeaf(s, t, idx)
	}
	return zeroLeaf(t)
}

func (c *sweepChooser) Variant(s site, iface reflect.Type, opts []reflect.Type) reflect.Type {
	if _, ok := c.vsites[s.Pattern]; !ok {
		c.vsites[s.Pattern] = iface
		c.vorder = append(c.vorder, s.Pattern)
	}
	i := c.assign[s.Pattern]
	if i >= len(opts) {
		i = 0
	}
	return opts[i]
}

func (c *sweepChooser) PtrNil(s site, t reflect.Type) bool {
	if !ptrIsField(s) {
		return false // a variant reached through an interface or an element of a collection: never nil in the sweep
	}
	if !c.seenP["p"+s.Pattern] {
		c.seenP["p"+s.Pattern] = true
		c.ptrSites = append(c.ptrSites, s.Pattern)
	}
	switch c.nilPtr {
	case "*all":
		return true
	case "*ext":
		return isExtPtr(t)
	case "":
		return false
	}
	return s.Pattern == c.nilPtr
}

func (c *sweepChooser) Len(s site, t reflect.Type) int {
	if !c.seenP["c"+s.Pattern] {
		c.seenP["c"+s.Pattern] = true
		c.collSites = append(c.collSites, s.Pattern)
	}
	if c.allNil {
		return -1
	}
	if s.Pattern == c.lenAt {
		return c.lenN
	}
	return 2
}

func (c *sweepChooser) MapKey(s site, i int) uint64     { return []uint64{7, 0, 4294967295, 1, 2, 3}[i%6] }
func (c *sweepChooser) ElemNil(site, reflect.Type) bool { return false }

// ptrIsField: the pointer is a struct FIELD (not the value of an interface field - a variant - and not an element of a
// collection; those sites end in ")" or "]").
func ptrIsField(s site) bool {
	return !strings.HasSuffix(s.Pattern, ")") && !strings.HasSuffix(s.Pattern, "]")
}

// assignments enumerates, for one message type, the default variant assignment and every single deviation from it
// (recursively: a variant may itself contain interface fields).
func assignments(t reflect.Type) []map[string]int {
	key := func(a map[string]int) string {
		var ks []string
		for k, v := range a {
			if v != 0 {
				ks = append(ks, fmt.Sprintf("%s=%d", k, v))
			}
		}
		sort.Strings(ks)
		return strings.Join(ks, ",")
	}
	seen := map[string]bool{"": true}
	res := []map[string]int{{}}
	for i := 0; i < len(res); i++ {
		c := newSweep(res[i])
		buildMessage(c, t)
		for _, p := range c.vorder {
			for o := range variants[c.vsites[p]] {
				a := map[string]int{}
				for k, v := range res[i] {
					a[k] = v
				}
				a[p] = o
				if k := key(a); !seen[k] {
					seen[k] = true
					res = append(res, a)
				}
			}
		}
	}
	return res
}

func assignString(t reflect.Type, a map[string]int) string {
	c := newSweep(a)
	buildMessage(c, t)
	var parts []string
	for _, p := range c.vorder {
		parts = append(parts, p+"="+typeName(variants[c.vsites[p]][a[p]%len(variants[c.vsites[p]])]))
	}
	return strings.Join(parts, ",")
}
