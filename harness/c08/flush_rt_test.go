package c08

import (
	"context"
	"fmt"
	"math/rand"
	"runtime"
	"sync"
	"sync/atomic"
	"testing"
	"time"

	"github.com/aptpod/iscp-go/iscp"
	"github.com/aptpod/iscp-go/message"

	"verif/harness/vrun"
	"verif/harness/world"
)

// TestC08ConcurrentFlushRT: real time. Several goroutines write and Flush one healthy upstream; some Flush calls are made
// with a context that has already ended or ends at once (a caller that gives up), the others have no deadline at all -
// nothing but the library itself governs how long they take. A Flush that has not returned after 10 s on a link whose
// broker acknowledges everything at once is blocked for good.
func TestC08ConcurrentFlushRT(t *testing.T) {
	e := vrun.LoadEnv()
	meta := vrun.Meta{Property: "C08", Workload: "TestC08ConcurrentFlushRT", Total: e.Pick(250, 6000),
		Rule:        "real time: one upstream (flush policy none or size 1) on a healthy link, the broker acknowledges every chunk at once; 2-6 goroutines run 30-150 rounds of WriteDataPoints + Flush, 10-50 % of the Flush calls with a context that is already cancelled or is cancelled 0-200 us later, the others with context.Background(); the process runs 4 x cores scheduler threads with 3 x cores spinning goroutines (the kernel time-slices them: any goroutine can lose milliseconds between two steps of a call) and a goroutine running the garbage collector continuously; then Close. Oracle: every call has returned 10 s after it was issued. non-trivial = at least one Flush of each kind returned; distinct = scenario tuple",
		Assumptions: []string{"the 10 s bound is a wall-clock watchdog: with a broker that answers at once, a Flush without a deadline that is still pending then is blocked for good, not slow"}}
	// Oversubscription: four times as many scheduler threads as cores, three quarters of them spinning. The kernel then
	// time-slices the threads, so any goroutine can lose milliseconds between two instructions - the delay that a loaded
	// machine injects by itself, made reproducible.
	ncpu := runtime.NumCPU()
	prev := runtime.GOMAXPROCS(4 * ncpu)
	stopSpin := make(chan struct{})
	var spinWG sync.WaitGroup
	for i := 0; i < 3*ncpu; i++ {
		spinWG.Add(1)
		go func() {
			defer spinWG.Done()
			x := 0
			for {
				select {
				case <-stopSpin:
					return
				default:
					for k := 0; k < 1000; k++ {
						x += k
					}
				}
			}
		}()
	}
	defer func() { close(stopSpin); spinWG.Wait(); runtime.GOMAXPROCS(prev) }()
	vrun.Loop(t, meta, 0, func(c *vrun.Case) vrun.Result {
		var res vrun.Result
		ok, dump := vrun.Watchdog(120*time.Second, func() { res = runConcurrentFlush(c) })
		if !ok {
			res = vrun.WatchdogVerdict("the case never finished")
			if res.Verdict == vrun.Inconclusive {
				res.Witness = map[string]any{"dump_head": dump[:min(len(dump), 4000)]}
			}
		}
		return res
	})
}

func runConcurrentFlush(c *vrun.Case) vrun.Result {
	r := c.Rng
	workers := 2 + r.Intn(5)
	rounds := 30 + r.Intn(121)
	cancelPct := []int{10, 20, 50}[r.Intn(3)]
	policy := []string{"none", "size1"}[r.Intn(2)]
	desc := map[string]any{"goroutines": workers, "rounds": rounds, "flushes_with_an_ended_context_pct": cancelPct, "flush_policy": policy}
	done := func(v vrun.Result) vrun.Result { v.Desc = desc; return v }
	w := world.New()
	defer w.Close()
	w.Start()
	conn, err := w.Connect(iscp.WithConnPingInterval(time.Hour))
	if err != nil {
		return done(vrun.Inconcl("connect: " + err.Error()))
	}
	defer func() {
		ctx, cn := context.WithTimeout(context.Background(), 5*time.Second)
		conn.Close(ctx)
		cn()
	}()
	opts := []iscp.UpstreamOption{iscp.WithUpstreamQoS(message.QoSReliable), iscp.WithUpstreamCloseTimeout(time.Second)}
	if policy == "none" {
		opts = append(opts, iscp.WithUpstreamFlushPolicyNone())
	} else {
		opts = append(opts, iscp.WithUpstreamFlushPolicyBufferSizeOnly(1))
	}
	octx, ocn := context.WithTimeout(context.Background(), 10*time.Second)
	up, err := conn.OpenUpstream(octx, "flushers", opts...)
	ocn()
	if err != nil {
		return done(vrun.Inconcl("open upstream: " + err.Error()))
	}
	var pending sync.Map // call id -> description of a call that has not returned yet
	var ids atomic.Int64
	var okPlain, okEnded atomic.Int64
	call := func(name string, f func()) {
		id := ids.Add(1)
		pending.Store(id, name)
		f()
		pending.Delete(id)
	}
	seeds := make([]int64, workers)
	for i := range seeds {
		seeds[i] = r.Int63()
	}
	var wg sync.WaitGroup
	for wi := 0; wi < workers; wi++ {
		wg.Add(1)
		go func(wi int) {
			defer wg.Done()
			rr := rand.New(rand.NewSource(seeds[wi]))
			id := &message.DataID{Name: fmt.Sprintf("d%d", wi), Type: "t"}
			for k := 0; k < rounds; k++ {
				wctx, wcn := context.WithCancel(context.Background())
				if rr.Intn(100) < cancelPct {
					// a writer that gives up as well
					if rr.Intn(2) == 0 {
						wcn()
					} else {
						go wcn()
					}
				}
				call("WriteDataPoints", func() {
					up.WriteDataPoints(wctx, id, &message.DataPoint{ElapsedTime: time.Duration(k), Payload: []byte("x")[:rr.Intn(2)]})
				})
				wcn()
				if rr.Intn(100) < cancelPct {
					fctx, cn := context.WithCancel(context.Background())
					if rr.Intn(3) == 0 {
						cn()
					} else {
						// the caller gives up a little later: typically while its request waits for, or has just been taken
						// by, the flush loop
						d := time.Duration(rr.Intn(200)) * time.Microsecond
						go func() { time.Sleep(d); cn() }()
					}
					call("Flush(ended context)", func() { up.Flush(fctx) })
					cn()
					okEnded.Add(1)
				} else {
					call("Flush(no deadline)", func() { up.Flush(context.Background()) })
					okPlain.Add(1)
				}
				_ = up.State()
			}
		}(wi)
	}
	fin := make(chan struct{})
	go func() { wg.Wait(); close(fin) }()
	// garbage-collector churn: every collection suspends each goroutine for its stack scan while the others keep
	// running - a caller can lose microseconds between two steps of a call, which is what separates the interleavings
	go func() {
		for {
			select {
			case <-fin:
				return
			default:
				runtime.GC()
			}
		}
	}()
	stuck := func(phase string) *vrun.Result {
		var names []string
		pending.Range(func(_, v any) bool { names = append(names, v.(string)); return true })
		st := ""
		if site, text, ok := vrun.StuckOnMutex(); ok {
			st = site + "\n" + text
		}
		key := "unknown"
		if len(names) > 0 {
			key = names[0]
		}
		v := vrun.Violation("a call on a healthy stream has not returned although nothing but the library governs its duration", "hang-rt:"+key+":concurrent-flush",
			map[string]any{"phase": phase, "pending_calls": names, "flushes_returned_no_deadline": okPlain.Load(), "flushes_returned_ended_context": okEnded.Load(), "parked_on_mutex": st, "stacks": head(vrun.AllStacks(), 6000)})
		return &v
	}
	// progress watchdog: 10 s without a single call returning
	last := int64(-1)
	for {
		select {
		case <-fin:
		case <-time.After(10 * time.Second):
			now := okPlain.Load() + okEnded.Load()
			if now == last {
				return done(*stuck("write/flush rounds"))
			}
			last = now
			continue
		}
		break
	}
	cch := make(chan error, 1)
	go func() { cch <- up.Close(context.Background()) }()
	select {
	case <-cch:
	case <-time.After(11 * time.Second):
		pending.Store(int64(-1), "Upstream.Close(no deadline)")
		return done(*stuck("close"))
	}
	res := vrun.Hold(fmt.Sprintf("cflush|%d|%d|%d|%s", workers, rounds, cancelPct, policy), okPlain.Load() > 0 && okEnded.Load() > 0)
	res.Stat("flushes_returned_no_deadline", okPlain.Load())
	res.Stat("flushes_returned_ended_context", okEnded.Load())
	return done(res)
}
