package c08

import (
	"context"
	"fmt"
	"sync"
	"testing"
	"time"

	"github.com/aptpod/iscp-go/iscp"
	"github.com/aptpod/iscp-go/message"
	"github.com/google/uuid"

	"verif/harness/broker"
	"verif/harness/vrun"
	"verif/harness/world"
)

// slowStorage wraps the library's in-memory sent storage and stretches its operations (REAL time). A storage is
// a pluggable component: it may be as slow as a disk. Slow operations move the library's deadlines into the
// middle of its critical sections - where a wake-up sent without the waiter's lock, or a check made before a
// blocking step, gets lost.
type slowStorage struct {
	in                  iscp.VerifSentStorage
	store, remove, list time.Duration
}

func (s *slowStorage) Store(ctx context.Context, id uuid.UUID, seq uint32, d iscp.DataPointGroups) error {
	time.Sleep(s.store)
	return s.in.Store(ctx, id, seq, d)
}

func (s *slowStorage) Remove(ctx context.Context, id uuid.UUID, seq uint32) (iscp.DataPointGroups, error) {
	time.Sleep(s.remove)
	return s.in.Remove(ctx, id, seq)
}

func (s *slowStorage) List(ctx context.Context, id uuid.UUID) (map[uint32]iscp.DataPointGroups, error) {
	time.Sleep(s.list)
	return s.in.List(ctx, id)
}

func (s *slowStorage) Clear(ctx context.Context, id uuid.UUID) error { return s.in.Clear(ctx, id) }

// TestC08SlowStorageRT: real time. Upstream write / flush / close against a broker that withholds or delays acks,
// with a sent storage whose operations take as long as the close timeout and the call deadlines. Verdicts do not
// depend on scheduling: a call whose context allows at most 400 ms counts as blocked only when it has not
// returned after 10 s.
func TestC08SlowStorageRT(t *testing.T) {
	e := vrun.LoadEnv()
	meta := vrun.Meta{Property: "C08", Workload: "TestC08SlowStorageRT", Total: e.Pick(60, 3000),
		Rule:        "real time: one reliable upstream (flush policy immediate or none) on a healthy link; sent-storage operations stretched (List 0-60 ms, Store/Remove 0-5 ms); the broker acknowledges every chunk, none, or every second one, immediately or after 0-80 ms; close timeout 5-80 ms, call contexts 100-400 ms; 3-12 writes, 0/1/3 Flush calls whose caller gives up at once (context cancelled or 1 ms), an optional Flush, then Close (in half of the cases without a deadline of its own). Oracle: every call has returned 10 s after its context expired at the latest. non-trivial = Close ran with at least one chunk unacknowledged or the storage List took longer than the close timeout; distinct = scenario tuple",
		Assumptions: []string{"the 10 s bound is a wall-clock watchdog two orders of magnitude above every configured deadline: a call counted as blocked is blocked for good, not slow"}}
	vrun.Loop(t, meta, 0, func(c *vrun.Case) vrun.Result {
		var res vrun.Result
		ok, dump := vrun.Watchdog(120*time.Second, func() { res = runSlowStorage(c) })
		if !ok {
			res = vrun.WatchdogVerdict("the case never finished")
			if res.Verdict == vrun.Inconclusive {
				res.Witness = map[string]any{"dump_head": dump[:min(len(dump), 4000)]}
			}
		}
		return res
	})
}

func runSlowStorage(c *vrun.Case) vrun.Result {
	r := c.Rng
	ms := func(n int) time.Duration { return time.Duration(n) * time.Millisecond }
	listD, storeD := ms(r.Intn(61)), ms(r.Intn(6))
	ackMode := []string{"all", "none", "every-second"}[r.Intn(3)]
	ackDelay := ms([]int{0, 0, 10, 80}[r.Intn(4)])
	closeTo := ms(5 + r.Intn(76))
	callTo := ms(100 + r.Intn(301))
	writes := 3 + r.Intn(10)
	policy := []string{"immediate", "none"}[r.Intn(2)]
	doFlush := r.Intn(2) == 0
	// abandoned: Flush calls whose caller gives up (context already cancelled, or 1 ms) while the flush loop is busy
	// with the request; bgClose: the final Close has no deadline of its own (its waits are bounded by the close timeout)
	abandoned := []int{0, 0, 1, 3}[r.Intn(4)]
	bgClose := r.Intn(2) == 0
	desc := map[string]any{"storage_list_ms": listD.Milliseconds(), "storage_store_remove_ms": storeD.Milliseconds(), "acks": ackMode, "ack_delay_ms": ackDelay.Milliseconds(),
		"close_timeout_ms": closeTo.Milliseconds(), "call_context_ms": callTo.Milliseconds(), "writes": writes, "flush_policy": policy, "explicit_flush": doFlush, "flushes_abandoned_by_their_caller": abandoned, "close_without_deadline": bgClose}
	done := func(v vrun.Result) vrun.Result { v.Desc = desc; return v }
	w := world.New()
	defer w.Close()
	nChunks := 0
	w.B.OnMsg = func(lc *broker.LinkCtx, m message.Message, unrel bool) bool {
		ch, ok := m.(*message.UpstreamChunk)
		if !ok {
			return false
		}
		lc.RecordChunk(ch, unrel)
		nChunks++
		if ackMode == "none" || (ackMode == "every-second" && nChunks%2 == 1) {
			return true
		}
		ack := &message.UpstreamChunkAck{StreamIDAlias: ch.StreamIDAlias, Results: []*message.UpstreamChunkResult{{SequenceNumber: ch.StreamChunk.SequenceNumber, ResultCode: message.ResultCodeSucceeded, ResultString: "OK"}}}
		if ackDelay > 0 {
			go func() { time.Sleep(ackDelay); lc.Send(ack) }()
		} else {
			lc.Send(ack)
		}
		return true
	}
	w.Start()
	st := &slowStorage{in: iscp.VerifNewInmemSentStorage(), store: storeD, remove: storeD, list: listD}
	conn, err := w.Connect(iscp.WithConnPingInterval(time.Hour), iscp.VerifWithSentStorage(st))
	if err != nil {
		return done(vrun.Inconcl("connect: " + err.Error()))
	}
	defer func() {
		ctx, cn := context.WithTimeout(context.Background(), 5*time.Second)
		conn.Close(ctx)
		cn()
	}()
	octx, ocn := context.WithTimeout(context.Background(), 10*time.Second)
	opts := []iscp.UpstreamOption{iscp.WithUpstreamQoS(message.QoSReliable), iscp.WithUpstreamCloseTimeout(closeTo)}
	if policy == "immediate" {
		opts = append(opts, iscp.WithUpstreamFlushPolicyImmediately())
	} else {
		opts = append(opts, iscp.WithUpstreamFlushPolicyNone())
	}
	up, err := conn.OpenUpstream(octx, "slow", opts...)
	ocn()
	if err != nil {
		return done(vrun.Inconcl("open upstream: " + err.Error()))
	}
	// bounded runs a call whose context allows callTo; "blocked" only if it has not returned 10 s after that
	bounded := func(name string, f func(ctx context.Context) error) *vrun.Result {
		ctx, cn := context.WithTimeout(context.Background(), callTo)
		defer cn()
		ch := make(chan error, 1)
		go func() { ch <- f(ctx) }()
		select {
		case <-ch:
			return nil
		case <-time.After(callTo + 10*time.Second):
			st := ""
			if site, text, ok := vrun.StuckOnMutex(); ok {
				st = site + "\n" + text
			}
			v := vrun.Violation(name+" has not returned 10 s after its context expired", "hang-rt:"+name+":slow-storage", map[string]any{"context": callTo.String(), "close_timeout": closeTo.String(), "parked_on_mutex": st, "stacks": head(vrun.AllStacks(), 6000)})
			return &v
		}
	}
	id := &message.DataID{Name: "d", Type: "t"}
	for k := 0; k < writes; k++ {
		k := k
		if v := bounded("WriteDataPoints", func(ctx context.Context) error {
			return up.WriteDataPoints(ctx, id, &message.DataPoint{ElapsedTime: time.Duration(k), Payload: []byte("x")})
		}); v != nil {
			return done(*v)
		}
	}
	for k := 0; k < abandoned; k++ {
		actx, acn := context.WithTimeout(context.Background(), time.Millisecond)
		if k%2 == 1 {
			acn() // already cancelled
		}
		_ = up.WriteDataPoints(context.Background(), id, &message.DataPoint{ElapsedTime: time.Duration(1000 + k), Payload: []byte("a")})
		_ = up.Flush(actx)
		acn()
	}
	if doFlush {
		if v := bounded("Flush", func(ctx context.Context) error { return up.Flush(ctx) }); v != nil {
			return done(*v)
		}
	}
	if v := bounded("Upstream.Close", func(ctx context.Context) error {
		if bgClose {
			return up.Close(context.Background())
		}
		return up.Close(ctx)
	}); v != nil {
		return done(*v)
	}
	res := vrun.Hold(fmt.Sprintf("%v|%v|%s|%v|%v|%v|%d|%s|%v|%d|%v", listD, storeD, ackMode, ackDelay, closeTo, callTo, writes, policy, doFlush, abandoned, bgClose), ackMode != "all" || ackDelay > 0 || listD > closeTo)
	res.Stat("calls_bounded", int64(writes+1+map[bool]int{true: 1, false: 0}[doFlush]))
	return done(res)
}

func head(s string, n int) string {
	if len(s) > n {
		return s[:n]
	}
	return s
}

// TestC08CloseRacingRequestsRT: real time. Many goroutines issue requests in tight loops while the connection is closed:
// every call and Close itself return (a request path that takes a lock twice deadlocks against the Disconnect's writer
// lock only when the Close arrives between the two acquisitions - repetition finds it).
func TestC08CloseRacingRequestsRT(t *testing.T) {
	e := vrun.LoadEnv()
	meta := vrun.Meta{Property: "C08", Workload: "TestC08CloseRacingRequestsRT", Total: e.Pick(500, 10000),
		Rule:        "real time: 8-64 goroutines issue SendBaseTime / SendCall / OpenUpstream(+Close) / OpenDownstream(+Close) in tight loops with 300 ms contexts against a cooperative broker; after 0-5 ms Conn.Close (context 2 s) is called from 1-3 goroutines. Oracle: Close and every request call have returned 10 s after their context expired at the latest. non-trivial = at least 5 requests were answered before the close; distinct = scenario tuple",
		Assumptions: []string{"the 10 s bound is a wall-clock watchdog far above every configured deadline: a call counted as blocked is blocked for good"}}
	vrun.Loop(t, meta, 0, func(c *vrun.Case) vrun.Result {
		var res vrun.Result
		ok, dump := vrun.Watchdog(120*time.Second, func() { res = runCloseRacing(c) })
		if !ok {
			res = vrun.WatchdogVerdict("the case never finished")
			if res.Verdict == vrun.Inconclusive {
				res.Witness = map[string]any{"dump_head": dump[:min(len(dump), 4000)]}
			}
		}
		return res
	})
}

func runCloseRacing(c *vrun.Case) vrun.Result {
	r := c.Rng
	workers, closers := []int{8, 16, 32, 64}[r.Intn(4)], 1+r.Intn(3)
	closeAfter := time.Duration(r.Intn(5000)) * time.Microsecond
	desc := map[string]any{"request_goroutines": workers, "closers": closers, "close_after_us": closeAfter.Microseconds()}
	done := func(v vrun.Result) vrun.Result { v.Desc = desc; return v }
	w := world.New()
	defer w.Close()
	w.Start()
	conn, err := w.Connect(iscp.WithConnPingInterval(time.Hour))
	if err != nil {
		return done(vrun.Inconcl("connect: " + err.Error()))
	}
	var answered, active atomicCounter
	stop := make(chan struct{})
	finished := make(chan struct{}, workers)
	for i := 0; i < workers; i++ {
		go func(i int) {
			defer func() { recover(); finished <- struct{}{} }()
			for k := 0; ; k++ {
				select {
				case <-stop:
					return
				default:
				}
				ctx, cancel := context.WithTimeout(context.Background(), 300*time.Millisecond)
				active.add(1)
				var err error
				switch (i + k) % 4 {
				case 0:
					err = conn.SendBaseTime(ctx, &message.BaseTime{Name: "b", BaseTime: time.Unix(1, 0).UTC()})
				case 1:
					_, err = conn.SendCall(ctx, &iscp.UpstreamCall{DestinationNodeID: "n", Name: "c", Type: "t"})
				case 2:
					var up *iscp.Upstream
					up, err = conn.OpenUpstream(ctx, fmt.Sprintf("w%d-%d", i, k), iscp.WithUpstreamFlushPolicyImmediately(), iscp.WithUpstreamCloseTimeout(50*time.Millisecond))
					if err == nil {
						up.Close(ctx)
					}
				case 3:
					var d *iscp.Downstream
					d, err = conn.OpenDownstream(ctx, []*message.DownstreamFilter{{SourceNodeID: "s", DataFilters: []*message.DataFilter{{Name: "#", Type: "#"}}}})
					if err == nil {
						d.Close(ctx)
					}
				}
				active.add(-1)
				cancel()
				if err == nil {
					answered.add(1)
				} else {
					time.Sleep(100 * time.Microsecond)
				}
			}
		}(i)
	}
	time.Sleep(closeAfter)
	before := answered.get()
	closed := make(chan struct{}, closers)
	for i := 0; i < closers; i++ {
		go func() {
			ctx, cancel := context.WithTimeout(context.Background(), 2*time.Second)
			conn.Close(ctx)
			cancel()
			closed <- struct{}{}
		}()
	}
	deadline := time.After(12 * time.Second)
	for i := 0; i < closers; i++ {
		select {
		case <-closed:
		case <-deadline:
			st := ""
			if site, text, ok := vrun.StuckOnMutex(); ok {
				st = site + "\n" + text
			}
			return done(vrun.Violation("Conn.Close has not returned 10 s after its context expired", "hang-rt:Conn.Close:racing-requests", map[string]any{"parked_on_mutex": st, "stacks": head(vrun.AllStacks(), 6000)}))
		}
	}
	close(stop)
	deadline = time.After(11 * time.Second)
	for i := 0; i < workers; i++ {
		select {
		case <-finished:
		case <-deadline:
			st := ""
			if site, text, ok := vrun.StuckOnMutex(); ok {
				st = site + "\n" + text
			}
			return done(vrun.Violation("a request call has not returned 10 s after its context expired (the connection was closed meanwhile)", "hang-rt:request:racing-close", map[string]any{"still_active": active.get(), "parked_on_mutex": st, "stacks": head(vrun.AllStacks(), 6000)}))
		}
	}
	res := vrun.Hold(fmt.Sprintf("%d|%d|%d", workers, closers, closeAfter/time.Millisecond), before >= 5)
	res.Stat("requests_answered_before_close", before)
	return done(res)
}

type atomicCounter struct {
	mu sync.Mutex
	n  int64
}

func (a *atomicCounter) add(d int64) { a.mu.Lock(); a.n += d; a.mu.Unlock() }
func (a *atomicCounter) get() int64  { a.mu.Lock(); defer a.mu.Unlock(); return a.n }
