// C08 - no API call blocks forever: context, close timeout and keepalive bound every wait (virtual time,
// fault enumeration over API scenario x message position x broker behaviour).
package c08

import (
	"context"
	"fmt"
	"math/rand"
	"strings"
	"sync"
	"testing"
	"testing/synctest"
	"time"

	"github.com/aptpod/iscp-go/iscp"
	"github.com/aptpod/iscp-go/message"

	"verif/harness/broker"
	"verif/harness/memnet"
	"verif/harness/vrun"
	"verif/harness/world"
)

const (
	callT     = 5 * time.Second // context deadline of every call in a scenario
	slack     = time.Millisecond
	pingIv    = time.Second
	pingTo    = time.Second
	closeTo   = 2 * time.Second
	lateDelay = callT + 5*time.Second
	probeT    = 120 * time.Second
)

type callRec struct {
	Name     string `json:"name"`
	Returned bool   `json:"returned"`
	After    string `json:"after"`
	Err      string `json:"err,omitempty"`
}

type env struct {
	w     *world.World
	conn  *iscp.Conn
	calls []callRec
	hung  *callRec
}

// call runs f with a context deadline d and decides on the virtual clock whether it returned by d + slack.
func (e *env) call(name string, d time.Duration, f func(ctx context.Context) error) (returned bool, err error) {
	if e.hung != nil {
		return false, fmt.Errorf("skipped: an earlier call hangs")
	}
	ctx, cancel := context.WithTimeout(context.Background(), d)
	done := make(chan error, 1)
	start := time.Now()
	go func() {
		defer func() {
			if p := recover(); p != nil {
				done <- fmt.Errorf("PANIC: %v", p)
			}
		}()
		done <- f(ctx)
	}()
	rec := callRec{Name: name}
	select {
	case err = <-done:
		rec.Returned = true
		rec.After = time.Since(start).String()
		if err != nil {
			rec.Err = err.Error()
		}
		cancel()
	case <-time.After(d + slack):
		rec.After = "> " + (d + slack).String()
		e.hung = &rec
		// leave the context alive a little longer, then cancel: the call stays abandoned
		cancel()
	}
	e.calls = append(e.calls, rec)
	return rec.Returned, err
}

type scenarioFn func(e *env)

var dataID = &message.DataID{Name: "d", Type: "t"}

func filters(src string) []*message.DownstreamFilter {
	return []*message.DownstreamFilter{{SourceNodeID: src, DataFilters: []*message.DataFilter{{Name: "#", Type: "#"}}}}
}

var scenarios = map[string]scenarioFn{
	"open-up": func(e *env) {
		var up *iscp.Upstream
		e.call("OpenUpstream", callT, func(ctx context.Context) (err error) { up, err = e.conn.OpenUpstream(ctx, "s", upOpts()...); return })
		if up != nil {
			e.call("Upstream.Close", callT, func(ctx context.Context) error { return up.Close(ctx) })
		}
	},
	"write-flush": func(e *env) {
		var up *iscp.Upstream
		e.call("OpenUpstream", callT, func(ctx context.Context) (err error) { up, err = e.conn.OpenUpstream(ctx, "s", upOpts()...); return })
		if up == nil {
			return
		}
		for i := 0; i < 2; i++ {
			e.call("WriteDataPoints", callT, func(ctx context.Context) error {
				return up.WriteDataPoints(ctx, dataID, &message.DataPoint{ElapsedTime: time.Duration(i), Payload: []byte("p")})
			})
			e.call("Flush", callT, func(ctx context.Context) error { return up.Flush(ctx) })
		}
		e.call("Upstream.Close", callT, func(ctx context.Context) error { return up.Close(ctx) })
	},
	"up-close-unflushed": func(e *env) {
		var up *iscp.Upstream
		e.call("OpenUpstream", callT, func(ctx context.Context) (err error) {
			up, err = e.conn.OpenUpstream(ctx, "s", append(upOpts(), iscp.WithUpstreamFlushPolicyNone())...)
			return
		})
		if up == nil {
			return
		}
		e.call("WriteDataPoints", callT, func(ctx context.Context) error {
			return up.WriteDataPoints(ctx, dataID, &message.DataPoint{ElapsedTime: 1, Payload: []byte("p")})
		})
		e.call("Upstream.Close", callT, func(ctx context.Context) error { return up.Close(ctx) })
	},
	"open-down": func(e *env) {
		var down *iscp.Downstream
		e.call("OpenDownstream", callT, func(ctx context.Context) (err error) {
			down, err = e.conn.OpenDownstream(ctx, filters("src"), iscp.WithDownstreamQoS(message.QoSReliable))
			return
		})
		if down != nil {
			e.call("Downstream.Close", callT, func(ctx context.Context) error { return down.Close(ctx) })
		}
	},
	"read-points": func(e *env) {
		var down *iscp.Downstream
		e.call("OpenDownstream", callT, func(ctx context.Context) (err error) {
			down, err = e.conn.OpenDownstream(ctx, filters("src"), iscp.WithDownstreamQoS(message.QoSReliable), iscp.WithDownstreamAckFlushInterval(10*time.Millisecond))
			return
		})
		if down == nil {
			return
		}
		if lc := e.w.B.CurrentLink(); lc != nil {
			if ds := firstDown(e.w); ds != nil {
				lc.Send(&message.DownstreamChunk{StreamIDAlias: ds.Alias, UpstreamOrAlias: &message.UpstreamInfo{SessionID: "x", SourceNodeID: "src", StreamID: broker.StreamIDFor("u", "x", 0)},
					StreamChunk: &message.StreamChunk{SequenceNumber: 1, DataPointGroups: []*message.DataPointGroup{{DataIDOrAlias: dataID, DataPoints: []*message.DataPoint{{ElapsedTime: 1, Payload: []byte("q")}}}}}})
			}
		}
		e.call("ReadDataPoints", callT, func(ctx context.Context) error { _, err := down.ReadDataPoints(ctx); return err })
		e.call("ReadDataPoints(empty)", time.Second, func(ctx context.Context) error { _, err := down.ReadDataPoints(ctx); return err })
		e.call("Downstream.Close", callT, func(ctx context.Context) error { return down.Close(ctx) })
	},
	"read-points-unknown-aliases": func(e *env) {
		// the peer refers to a data id alias and to an upstream alias it never announced: the reads may fail, but
		// every later call on the stream (the good chunk, the ack flush, Close) has to return
		var down *iscp.Downstream
		e.call("OpenDownstream", callT, func(ctx context.Context) (err error) {
			down, err = e.conn.OpenDownstream(ctx, filters("src"), iscp.WithDownstreamQoS(message.QoSReliable), iscp.WithDownstreamAckFlushInterval(10*time.Millisecond))
			return
		})
		if down == nil {
			return
		}
		if lc := e.w.B.CurrentLink(); lc != nil {
			if ds := firstDown(e.w); ds != nil {
				info := &message.UpstreamInfo{SessionID: "x", SourceNodeID: "src", StreamID: broker.StreamIDFor("u", "x", 0)}
				pts := []*message.DataPoint{{ElapsedTime: 1, Payload: []byte("q")}}
				lc.Send(&message.DownstreamChunk{StreamIDAlias: ds.Alias, UpstreamOrAlias: info,
					StreamChunk: &message.StreamChunk{SequenceNumber: 1, DataPointGroups: []*message.DataPointGroup{{DataIDOrAlias: message.DataIDAlias(777), DataPoints: pts}}}})
				lc.Send(&message.DownstreamChunk{StreamIDAlias: ds.Alias, UpstreamOrAlias: message.UpstreamAlias(888),
					StreamChunk: &message.StreamChunk{SequenceNumber: 2, DataPointGroups: []*message.DataPointGroup{{DataIDOrAlias: dataID, DataPoints: pts}}}})
				lc.Send(&message.DownstreamChunk{StreamIDAlias: ds.Alias, UpstreamOrAlias: info,
					StreamChunk: &message.StreamChunk{SequenceNumber: 3, DataPointGroups: []*message.DataPointGroup{{DataIDOrAlias: dataID, DataPoints: pts}}}})
			}
		}
		for i := 0; i < 3; i++ {
			e.call("ReadDataPoints", callT, func(ctx context.Context) error { _, err := down.ReadDataPoints(ctx); return err })
		}
		e.call("ReadDataPoints(empty)", time.Second, func(ctx context.Context) error { _, err := down.ReadDataPoints(ctx); return err })
		e.call("Downstream.Close", callT, func(ctx context.Context) error { return down.Close(ctx) })
	},
	"read-metadata": func(e *env) {
		var down *iscp.Downstream
		e.call("OpenDownstream", callT, func(ctx context.Context) (err error) {
			down, err = e.conn.OpenDownstream(ctx, filters("src"), iscp.WithDownstreamQoS(message.QoSReliable))
			return
		})
		if down == nil {
			return
		}
		if lc := e.w.B.CurrentLink(); lc != nil {
			if ds := firstDown(e.w); ds != nil {
				lc.Send(&message.DownstreamMetadata{RequestID: 7001, StreamIDAlias: ds.Alias, SourceNodeID: "src", Metadata: &message.BaseTime{Name: "b", BaseTime: time.Unix(1, 0).UTC()}})
			}
		}
		e.call("ReadMetadata", callT, func(ctx context.Context) error { _, err := down.ReadMetadata(ctx); return err })
		e.call("Downstream.Close", callT, func(ctx context.Context) error { return down.Close(ctx) })
	},
	"send-metadata": func(e *env) {
		e.call("SendBaseTime", callT, func(ctx context.Context) error {
			return e.conn.SendBaseTime(ctx, &message.BaseTime{Name: "b", BaseTime: time.Unix(1, 0).UTC()})
		})
		e.call("SendBaseTime", callT, func(ctx context.Context) error {
			return e.conn.SendBaseTime(ctx, &message.BaseTime{Name: "c", BaseTime: time.Unix(2, 0).UTC()})
		})
	},
	"call": func(e *env) {
		e.call("SendCall", callT, func(ctx context.Context) error {
			_, err := e.conn.SendCall(ctx, &iscp.UpstreamCall{DestinationNodeID: "n", Name: "c", Type: "t", Payload: []byte("x")})
			return err
		})
		e.call("SendReplyCall", callT, func(ctx context.Context) error {
			_, err := e.conn.SendReplyCall(ctx, &iscp.UpstreamReplyCall{RequestCallID: "r", DestinationNodeID: "n", Name: "c", Type: "t", Payload: []byte("x")})
			return err
		})
	},
	"call-wait-reply": func(e *env) {
		e.call("SendCallAndWaitReplayCall", callT, func(ctx context.Context) error {
			_, err := e.conn.SendCallAndWaitReplayCall(ctx, &iscp.UpstreamCall{DestinationNodeID: "n", Name: "wait", Type: "t", Payload: []byte("x")})
			return err
		})
	},
	"receive-calls": func(e *env) {
		e.call("ReceiveCall(empty)", time.Second, func(ctx context.Context) error { _, err := e.conn.ReceiveCall(ctx); return err })
		e.call("ReceiveReplyCall(empty)", time.Second, func(ctx context.Context) error { _, err := e.conn.ReceiveReplyCall(ctx); return err })
	},
	"two-streams-then-conn-close": func(e *env) {
		var up *iscp.Upstream
		var down *iscp.Downstream
		e.call("OpenUpstream", callT, func(ctx context.Context) (err error) { up, err = e.conn.OpenUpstream(ctx, "s", upOpts()...); return })
		e.call("OpenDownstream", callT, func(ctx context.Context) (err error) {
			down, err = e.conn.OpenDownstream(ctx, filters("src"), iscp.WithDownstreamQoS(message.QoSReliable))
			return
		})
		if up != nil {
			e.call("WriteDataPoints", callT, func(ctx context.Context) error {
				return up.WriteDataPoints(ctx, dataID, &message.DataPoint{ElapsedTime: 1, Payload: []byte("p")})
			})
		}
		_ = down
		e.call("Conn.Close", callT, func(ctx context.Context) error { return e.conn.Close(ctx) })
	},
}

func firstDown(w *world.World) *broker.DownState {
	ds := w.B.Downs()
	if len(ds) == 0 {
		return nil
	}
	return ds[len(ds)-1]
}

func upOpts() []iscp.UpstreamOption {
	return []iscp.UpstreamOption{iscp.WithUpstreamQoS(message.QoSReliable), iscp.WithUpstreamFlushPolicyImmediately(), iscp.WithUpstreamCloseTimeout(closeTo)}
}

var scenarioNames = []string{"open-up", "write-flush", "up-close-unflushed", "open-down", "read-points", "read-points-unknown-aliases", "read-metadata", "send-metadata", "call", "call-wait-reply", "receive-calls", "two-streams-then-conn-close"}

var behaviours = []string{"answer", "drop", "delay", "misaddress-request-id", "misaddress-stream-alias", "misaddress-source-node", "disconnect-sever", "disconnect-wfail", "disconnect-reof", "disconnect-blackhole", "duplicate-reply-no-ack"}

type fault struct {
	Scenario  string `json:"scenario"`
	Position  int    `json:"position"` // 1-based index of the client message (pings excluded) the behaviour applies to
	Behaviour string `json:"behaviour"`
	Class     string `json:"message_class,omitempty"`
	// thorough tier: a second fault at a later position of the same scenario
	Position2  int    `json:"position2,omitempty"`
	Behaviour2 string `json:"behaviour2,omitempty"`
}

func isPing(m message.Message) bool {
	switch m.(type) {
	case *message.Ping, *message.Pong, *message.ConnectRequest:
		return true
	}
	return false
}

// runScenario executes one scenario with one fault inside a bubble and returns the env plus the client message trace.
func runScenario(f fault) (e *env, trace []string, probeErr string, censusLeft []string) {
	w := world.New()
	e = &env{w: w}
	var mu sync.Mutex
	pos := 0
	fired, fired2 := false, false
	probing := false // set when the scenario is over: faults and the trace belong to the scenario phase only
	// a call WITHOUT a deadline, issued the moment the link is made to die: its bound is the recovery of the connection
	// (the request is sent again after the reconnect), judged after the probe phase
	var connRef *iscp.Conn
	noDeadlineDone := make(chan error, 4)
	noDeadlineIssued := 0
	noDeadline := func() {
		if f.Position2 > 0 {
			// two-fault cases: the second scripted fault (a dropped or misaddressed response) may hit this request when it
			// is sent again - without a deadline it then legitimately waits for good
			return
		}
		mu.Lock()
		cn := connRef
		if cn != nil {
			noDeadlineIssued++
		}
		mu.Unlock()
		if cn != nil {
			go func() {
				noDeadlineDone <- cn.SendBaseTime(context.Background(), &message.BaseTime{Name: "no-deadline", BaseTime: time.Unix(2, 0).UTC()})
			}()
		}
	}
	w.B.OnMsg = func(lc *broker.LinkCtx, m message.Message, unrel bool) bool {
		if isPing(m) {
			return false
		}
		mu.Lock()
		if probing {
			mu.Unlock()
			return false
		}
		pos++
		p := pos
		trace = append(trace, fmt.Sprintf("%T", m)[len("*message."):])
		behaviour := f.Behaviour
		hit := !fired && p == f.Position && f.Behaviour != "answer"
		if hit {
			fired = true
		} else if !fired2 && f.Position2 > 0 && p == f.Position2 {
			hit, fired2, behaviour = true, true, f.Behaviour2
		}
		mu.Unlock()
		if !hit {
			// reply calls for the wait-reply scenario
			if uc, ok := m.(*message.UpstreamCall); ok && uc.Name == "wait" {
				lc.Send(&message.UpstreamCallAck{CallID: uc.CallID, ResultCode: message.ResultCodeSucceeded, ResultString: "OK"})
				lc.Send(&message.DownstreamCall{CallID: "rep", RequestCallID: uc.CallID, SourceNodeID: "n", Name: "r", Type: "t", Payload: []byte("y")})
				return true
			}
			return false
		}
		switch behaviour {
		case "drop":
			return true
		case "delay":
			go func() {
				time.Sleep(lateDelay)
				lc.Default(m, unrel)
			}()
			return true
		case "misaddress-request-id":
			resp := lc.Reply(m)
			switch r := resp.(type) {
			case *message.UpstreamOpenResponse:
				r.RequestID += 100000
			case *message.UpstreamCloseResponse:
				r.RequestID += 100000
			case *message.UpstreamMetadataAck:
				r.RequestID += 100000
			case *message.DownstreamOpenResponse:
				r.RequestID += 100000
			case *message.DownstreamCloseResponse:
				r.RequestID += 100000
			case *message.UpstreamCallAck:
				r.CallID = "nobody-" + r.CallID
			case nil:
				// chunks, acks: nothing to misaddress by request id - behave like drop
				if ch, ok := m.(*message.UpstreamChunk); ok {
					lc.RecordChunk(ch, unrel)
				}
				return true
			}
			lc.Send(resp)
			return true
		case "misaddress-stream-alias":
			switch t := m.(type) {
			case *message.UpstreamChunk:
				lc.RecordChunk(t, unrel)
				lc.Send(&message.UpstreamChunkAck{StreamIDAlias: t.StreamIDAlias + 1000, Results: []*message.UpstreamChunkResult{{SequenceNumber: t.StreamChunk.SequenceNumber, ResultCode: message.ResultCodeSucceeded, ResultString: "OK"}}})
			default:
				// a stray chunk / ack-complete for a stream alias nobody owns, then the normal answer
				lc.Send(&message.DownstreamChunk{StreamIDAlias: 4242, UpstreamOrAlias: message.UpstreamAlias(1), StreamChunk: &message.StreamChunk{SequenceNumber: 9}})
				lc.Send(&message.DownstreamChunkAckComplete{StreamIDAlias: 4242, AckID: 1, ResultCode: message.ResultCodeSucceeded})
				lc.Send(&message.UpstreamChunkAck{StreamIDAlias: 4242})
				lc.Default(m, unrel)
			}
			return true
		case "misaddress-source-node":
			alias := uint32(1)
			if ds := firstDown(w); ds != nil {
				alias = ds.Alias
			}
			if t, ok := m.(*message.DownstreamOpenRequest); ok {
				alias = t.DesiredStreamIDAlias
			}
			lc.Default(m, unrel)
			lc.Send(&message.DownstreamMetadata{RequestID: 9001, StreamIDAlias: alias, SourceNodeID: "node-nobody-subscribed", Metadata: &message.BaseTime{Name: "stray", BaseTime: time.Unix(1, 0).UTC()}})
			return true
		case "duplicate-reply-no-ack":
			// (only planned for calls) the peer answers a call twice and never acknowledges it
			if uc, ok := m.(*message.UpstreamCall); ok {
				for k := 0; k < 2; k++ {
					lc.Send(&message.DownstreamCall{CallID: fmt.Sprintf("dup-%d", k), RequestCallID: uc.CallID, SourceNodeID: "n", Name: "r", Type: "t", Payload: []byte("y")})
				}
			}
			return true
		case "disconnect-sever":
			noDeadline()
			lc.L.Fail(memnet.Sever)
		case "disconnect-wfail":
			noDeadline()
			lc.L.Fail(memnet.WFail)
		case "disconnect-reof":
			noDeadline()
			lc.L.Fail(memnet.REOF)
		case "disconnect-blackhole":
			noDeadline()
			lc.L.Fail(memnet.Blackhole)
		}
		return true
	}
	// closing a transport whose link is already broken reports an error (after closing), as real transports do
	w.Net.CloseFails = "broken"
	w.Start()
	conn, err := w.Connect(iscp.WithConnPingInterval(pingIv), iscp.WithConnPingTimeout(pingTo))
	if err != nil {
		probeErr = "connect: " + err.Error()
		w.Close()
		return
	}
	e.conn = conn
	mu.Lock()
	connRef = conn
	mu.Unlock()
	scenarios[f.Scenario](e)
	mu.Lock()
	probing = true
	mu.Unlock()
	if f.Behaviour == "delay" || f.Behaviour2 == "delay" {
		// let the withheld answer arrive (late) before probing: a late answer must not disturb later calls
		time.Sleep(lateDelay + time.Second)
	}
	closedByScenario := strings.Contains(f.Scenario, "conn-close")
	if e.hung == nil && !closedByScenario {
		// the broker is cooperative from here on; later calls must still work (bounded progress: 120 virtual seconds)
		pe := &env{w: w, conn: conn}
		var up *iscp.Upstream
		var down *iscp.Downstream
		if ok, err := pe.call("probe:OpenUpstream", probeT, func(ctx context.Context) (err error) { up, err = conn.OpenUpstream(ctx, "probe", upOpts()...); return }); !ok || err != nil {
			probeErr = fmt.Sprintf("probe OpenUpstream: returned=%v err=%v", ok, err)
		}
		if up != nil && probeErr == "" {
			if ok, err := pe.call("probe:Write+Close", probeT, func(ctx context.Context) error {
				if err := up.WriteDataPoints(ctx, dataID, &message.DataPoint{ElapsedTime: 5, Payload: []byte("z")}); err != nil {
					return err
				}
				return up.Close(ctx)
			}); !ok || err != nil {
				probeErr = fmt.Sprintf("probe Upstream write+close: returned=%v err=%v", ok, err)
			}
		}
		if probeErr == "" {
			if ok, err := pe.call("probe:OpenDownstream", probeT, func(ctx context.Context) (err error) {
				down, err = conn.OpenDownstream(ctx, filters("probe-src"), iscp.WithDownstreamQoS(message.QoSReliable))
				return
			}); !ok || err != nil {
				probeErr = fmt.Sprintf("probe OpenDownstream: returned=%v err=%v", ok, err)
			}
		}
		if down != nil && probeErr == "" {
			if ok, err := pe.call("probe:Downstream.Close", probeT, func(ctx context.Context) error { return down.Close(ctx) }); !ok || err != nil {
				probeErr = fmt.Sprintf("probe Downstream.Close: returned=%v err=%v", ok, err)
			}
		}
		if probeErr == "" {
			if ok, err := pe.call("probe:SendBaseTime", probeT, func(ctx context.Context) error {
				return conn.SendBaseTime(ctx, &message.BaseTime{Name: "probe", BaseTime: time.Unix(3, 0).UTC()})
			}); !ok || err != nil {
				probeErr = fmt.Sprintf("probe SendBaseTime: returned=%v err=%v", ok, err)
			}
		}
		if probeErr == "" {
			// the connection's call dispatcher still delivers: an incoming call sent now comes out of ReceiveCall
			if lc := w.B.CurrentLink(); lc != nil {
				lc.Send(&message.DownstreamCall{CallID: "probe-call", SourceNodeID: "n", Name: "probe", Type: "t", Payload: []byte("p")})
			}
			if ok, err := pe.call("probe:ReceiveCall", probeT, func(ctx context.Context) error {
				for i := 0; i < 64; i++ {
					dc, err := conn.ReceiveCall(ctx)
					if err != nil {
						return err
					}
					if dc.CallID == "probe-call" {
						return nil
					}
				}
				return fmt.Errorf("64 other calls came first")
			}); !ok || err != nil {
				probeErr = fmt.Sprintf("probe ReceiveCall: returned=%v err=%v", ok, err)
			}
		}
		if pe.hung != nil {
			e.hung = pe.hung
		}
		// the calls without a deadline that were in flight when the link died have returned by now
		mu.Lock()
		n := noDeadlineIssued
		mu.Unlock()
		if probeErr == "" && e.hung == nil {
			for i := 0; i < n; i++ {
				select {
				case <-noDeadlineDone:
				case <-time.After(probeT):
					probeErr = fmt.Sprintf("a request without a deadline that was issued when the link died has not returned %v after the broker became cooperative again", probeT)
				}
			}
		}
	}
	if e.hung == nil {
		cctx, cancel := context.WithTimeout(context.Background(), callT)
		conn.Close(cctx)
		cancel()
	}
	w.Close()
	return
}

type plan struct {
	faults []fault
}

func buildPlan(t *testing.T) []fault {
	// fault-free traces give the number of positions per scenario
	var res []fault
	for _, name := range scenarioNames {
		var trace []string
		// a tree that leaks a lock can stall the fault-free run itself: the case at position 0 then reports it
		got := make(chan []string, 1)
		done, _ := vrun.Watchdog(90*time.Second, func() {
			var tr []string
			defer func() { recover(); got <- tr }()
			synctest.Test(t, func(t *testing.T) { _, tr, _, _ = runScenario(fault{Scenario: name, Behaviour: "answer"}) })
		})
		if done {
			trace = <-got
		}
		res = append(res, fault{Scenario: name, Position: 0, Behaviour: "answer"})
		for p := 1; p <= len(trace); p++ {
			for _, b := range behaviours[1:] {
				if b == "duplicate-reply-no-ack" && trace[p-1] != "UpstreamCall" {
					continue
				}
				res = append(res, fault{Scenario: name, Position: p, Behaviour: b, Class: trace[p-1]})
			}
		}
	}
	return res
}

func TestC08NoHang(t *testing.T) {
	faults := buildPlan(t)
	if env := vrun.LoadEnv(); env.Thorough() {
		// pairs of faults inside one scenario, drawn from the seed (the single-fault grid above stays complete)
		base := append([]fault(nil), faults...)
		byScenario := map[string][]fault{}
		for _, f := range base {
			if f.Position > 0 {
				byScenario[f.Scenario] = append(byScenario[f.Scenario], f)
			}
		}
		r := rand.New(rand.NewSource(vrun.CaseSeed(env.Seed, "c08-pairs", 0)))
		for len(faults) < len(base)+6000 {
			name := scenarioNames[r.Intn(len(scenarioNames))]
			l := byScenario[name]
			if len(l) < 2 {
				continue
			}
			a, b := l[r.Intn(len(l))], l[r.Intn(len(l))]
			if a.Position == b.Position {
				continue
			}
			if a.Position > b.Position {
				a, b = b, a
			}
			if strings.HasPrefix(a.Behaviour, "disconnect") && strings.HasPrefix(b.Behaviour, "disconnect") {
				continue // positions after a disconnect belong to another link incarnation: keep the first fault non-fatal or the second
			}
			a.Position2, a.Behaviour2 = b.Position, b.Behaviour
			faults = append(faults, a)
		}
	}
	meta := vrun.Meta{Property: "C08", Workload: "TestC08NoHang", Total: len(faults), Exhaustive: !vrun.LoadEnv().Thorough(),
		Rule: "fault enumeration: 12 API scenarios (open/write/flush/close of both stream kinds, reads, reads of chunks that refer to aliases the peer never announced, metadata, the three call APIs, receive inboxes, connection close with streams open) x every position of the scenario's fault-free client message trace x broker behaviour {drop, delay beyond the bound, misaddress by request id, by stream alias, by unsubscribed source node, disconnect in 4 modes (sever, write-fail, read-EOF, blackhole), for calls also: answered twice and never acknowledged}; every call carries a 5 s context deadline (virtual), close timeout 2 s, keepalive 1 s + 1 s; with the disconnect behaviours one further request WITHOUT a deadline is issued the moment the link dies (closing a transport whose link is broken reports an error). Oracle on the virtual clock: each call returns no later than its deadline + 1 ms; afterwards, with a cooperative broker, a probe set (open/write/close upstream, open/close downstream, metadata, an incoming call through ReceiveCall) completes within 120 virtual seconds; a case that stalls in real time with a library goroutine parked on a mutex is a leaked lock. the thorough tier adds 6000 seed-drawn PAIRS of faults at two positions of one scenario to the complete single-fault grid. non-trivial = the fault fired (position reached); distinct = (scenario, positions, behaviours)",
		Assumptions: []string{"the governing bound of every judged call is its own context deadline (calls without a deadline on a live connection have no bound and are not judged)",
			"the path-complete lock-release lemma of the statement is out of reach of runtime monitoring: only locks leaked on executed paths are detected"}}
	vrun.Loop(t, meta, 0, func(c *vrun.Case) vrun.Result {
		f := faults[c.Index]
		var res vrun.Result
		ok, dump := vrun.Watchdog(90*time.Second, func() {
			func() {
				defer func() {
					if r := recover(); r != nil {
						if res.Verdict == "" {
							res = vrun.Inconcl(fmt.Sprint("bubble aborted: ", r))
						} else if res.Note == "" {
							res.Note = fmt.Sprint("bubble ended with blocked goroutines: ", r)
						}
					}
				}()
				synctest.Test(c.T, func(t *testing.T) { res = judge(f) })
			}()
		})
		if !ok {
			// real-time stall: is a library goroutine parked on a mutex?
			for _, g := range vrun.ParseStacks(dump) {
				txt := g.Text
				if (strings.Contains(txt, "sync.(*RWMutex).Lock") || strings.Contains(txt, "sync.(*RWMutex).RLock") || strings.Contains(txt, "sync.(*Mutex).Lock")) && strings.Contains(txt, vrun.LibPrefix) &&
					(strings.Contains(g.Header, "sync.Mutex.Lock") || strings.Contains(g.Header, "sync.RWMutex")) {
					res = vrun.Violation("the client holds a lock it never releases: a library goroutine is parked on a mutex while nothing else can run", "lock-leak:"+g.InnermostLib()+":"+f.Scenario+":"+f.Behaviour,
						map[string]any{"goroutine": g.Text})
					res.Desc = f
					return res
				}
			}
			res = vrun.Inconcl("real-time watchdog fired without a parked-on-mutex library goroutine")
			res.Witness = map[string]any{"dump_head": dump[:min(len(dump), 4000)]}
		}
		res.Desc = f
		return res
	})
}

func judge(f fault) vrun.Result {
	e, trace, probeErr, _ := runScenario(f)
	if e.conn == nil {
		return vrun.Inconcl(probeErr)
	}
	if e.hung != nil {
		return vrun.Violation(fmt.Sprintf("%s did not return by its context deadline (+1 ms virtual)", e.hung.Name), "hang:"+e.hung.Name+":"+f.Scenario+":"+f.Behaviour+":"+f.Class,
			map[string]any{"fault": f, "calls": e.calls, "client_trace": trace})
	}
	if probeErr != "" {
		return vrun.Violation("after the fault, later calls do not work although the broker is cooperative again", "probe-failed:"+f.Scenario+":"+f.Behaviour+":"+f.Class,
			map[string]any{"fault": f, "probe": probeErr, "calls": e.calls})
	}
	reached := f.Behaviour == "answer" || len(trace) >= f.Position
	r := vrun.Hold(fmt.Sprintf("%s|%d|%s|%d|%s", f.Scenario, f.Position, f.Behaviour, f.Position2, f.Behaviour2), reached)
	r.Stat("api_calls_judged", int64(len(e.calls)))
	r.Stat("client_messages", int64(len(trace)))
	r.AddSet("message_classes_faulted", f.Class)
	r.AddSet("api_calls", func() []string {
		var l []string
		for _, c := range e.calls {
			l = append(l, c.Name)
		}
		return l
	}()...)
	return r
}
