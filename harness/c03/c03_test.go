// C03 - downstream returns each broker chunk/metadata once, in order, correctly resolved.
package c03

import (
	"fmt"
	"strings"
	"testing"
	"time"

	"verif/harness/downlib"
	"verif/harness/vrun"
)

func TestC03Delivery(t *testing.T) {
	e := vrun.LoadEnv()
	meta := vrun.Meta{Property: "C03", Workload: "TestC03Delivery", Total: e.Pick(200, 20000),
		Rule: "each case: 1-6 upstreams, 1-8 data ids (0..n pre-registered), 20-400 chunks sent by the broker; per chunk the broker chooses full or alias form (alias only once the client announced it; full form stays allowed afterwards), 0/2/5% poisoned chunks (never-announced upstream or data-id alias), QoS reliable/unreliable(with and without datagram side channel)/partial, both encodings, reader eager or bursty (broker keeps < 256 unconsumed items in flight), 0-29 metadata items over 1-3 source nodes. Oracle: the sequence of ReadDataPoints results equals the broker's intended sequence (upstream info, sequence number, data ids, elapsed times, payload hashes), poisoned chunks yield an error; metadata per source in order exactly once with one DownstreamMetadataAck per item. non-trivial = >=20 chunks read and at least one chunk in alias form resolved; distinct = scenario tuple x alias-form pattern hash",
		Assumptions: []string{"the in-memory datagram side channel is loss-free and ordered, so the full once/in-order oracle applies to unreliable QoS as well",
			"the broker's alias table is built only from what the client announced (open request, DownstreamChunkAck)"}}
	vrun.Loop(t, meta, 0, func(c *vrun.Case) vrun.Result {
		s := downlib.Gen(c.Rng, 380)
		s.CloseAfter = -1
		var out *downlib.Outcome
		var why string
		ok, dump := vrun.Watchdog(60*time.Second, func() { out, why = downlib.Run(s) })
		if !ok {
			r := vrun.WatchdogVerdict("ReadDataPoints never returned")
			r.Desc = s
			if r.Verdict == vrun.Inconclusive {
				r.Witness = map[string]any{"dump_head": dump[:min(len(dump), 5000)]}
			}
			return r
		}
		if out == nil {
			if strings.HasPrefix(why, "LOCKLEAK:") {
				site := strings.SplitN(strings.TrimPrefix(why, "LOCKLEAK:"), "\n", 2)[0]
				r := vrun.Violation("ReadDataPoints never returns an item the broker sent: library goroutines are parked on a stream lock that is never released", "read-blocked-by-leaked-lock:"+site, map[string]any{"goroutine": why})
				r.Desc = s
				return r
			}
			r := vrun.Inconcl(why)
			r.Desc = s
			return r
		}
		if f := downlib.CheckC03(out); f != nil {
			r := vrun.Violation(f.Clause, f.Key, map[string]any{"detail": f.Detail, "broker_notes": out.Notes})
			r.Desc = s
			return r
		}
		aliasUp, aliasID, poison := 0, 0, 0
		h := uint64(1469598103934665603)
		for _, sc := range out.Sent {
			b := 0
			if sc.UpAlias {
				aliasUp++
				b |= 1
			}
			for _, g := range sc.Groups {
				if g.AsAlias {
					aliasID++
					b |= 2
				}
			}
			if sc.Poison != "" {
				poison++
				b |= 4
			}
			h = (h ^ uint64(b+1)) * 1099511628211
		}
		r := vrun.Hold(fmt.Sprintf("%s|%v|%s|u%d|d%d|p%d|%s|%x", s.QoS, s.Datagram, s.Encoding, s.Upstreams, s.DataIDs, s.PreReg, s.Pacing, h), len(out.Reads) >= 20 && aliasUp+aliasID > 0)
		r.Desc = s
		r.Stat("chunks_read", int64(len(out.Reads)))
		r.Stat("chunks_with_upstream_alias", int64(aliasUp))
		r.Stat("groups_with_data_id_alias", int64(aliasID))
		r.Stat("poisoned_chunks", int64(poison))
		r.Stat("metadata_read", int64(len(out.MetaRead)))
		r.AddSet("qos_x_channel_x_encoding", fmt.Sprintf("%s|%v|%s", s.QoS, s.Datagram, s.Encoding))
		return r
	})
}
