// C07 - streams that share a connection are isolated from each other.
package c07

import (
	"context"
	"fmt"
	"math/rand"
	"sort"
	"strings"
	"sync"
	"sync/atomic"
	"testing"
	"testing/synctest"
	"time"

	"github.com/anishathalye/porcupine"
	"github.com/aptpod/iscp-go/iscp"
	"github.com/aptpod/iscp-go/message"
	"github.com/google/uuid"

	"verif/harness/broker"
	"verif/harness/memnet"
	"verif/harness/reconlib"
	"verif/harness/uplib"
	"verif/harness/vrun"
	"verif/harness/world"
)

// ---------- sequential model of one stream's store

type sop struct {
	Op     string
	Stream int
	Seq    uint32
	Tag    string
}

type sout struct {
	Err  bool
	Tag  string            // Remove
	List map[uint32]string // List
}

func encState(m map[uint32]string) string {
	var ks []int
	for k := range m {
		ks = append(ks, int(k))
	}
	sort.Ints(ks)
	var b strings.Builder
	for _, k := range ks {
		fmt.Fprintf(&b, "%d=%s;", k, m[uint32(k)])
	}
	return b.String()
}

func decState(s string) map[uint32]string {
	m := map[uint32]string{}
	for _, p := range strings.Split(s, ";") {
		if p == "" {
			continue
		}
		var k uint32
		var v string
		i := strings.Index(p, "=")
		fmt.Sscanf(p[:i], "%d", &k)
		v = p[i+1:]
		m[k] = v
	}
	return m
}

// storeModel: the store of ONE stream is a map sequence number -> value. A missing stream is the same as an empty one
// (List may answer with an error or with an empty map), Remove of an absent sequence number must fail.
var storeModel = porcupine.Model{
	Partition: func(history []porcupine.Operation) [][]porcupine.Operation {
		by := map[int][]porcupine.Operation{}
		for _, o := range history {
			by[o.Input.(sop).Stream] = append(by[o.Input.(sop).Stream], o)
		}
		var res [][]porcupine.Operation
		for _, v := range by {
			res = append(res, v)
		}
		return res
	},
	Init: func() interface{} { return "" },
	Step: func(state, input, output interface{}) (bool, interface{}) {
		st := decState(state.(string))
		in := input.(sop)
		out := output.(sout)
		switch in.Op {
		case "store":
			if out.Err {
				return false, state
			}
			st[in.Seq] = in.Tag
			return true, encState(st)
		case "remove":
			v, ok := st[in.Seq]
			if !ok {
				return out.Err, state
			}
			if out.Err || (out.Tag != "" && out.Tag != v) {
				return false, state
			}
			delete(st, in.Seq)
			return true, encState(st)
		case "list":
			if out.Err {
				return len(st) == 0, state
			}
			if len(out.List) != len(st) {
				return false, state
			}
			for k, v := range st {
				if got, ok := out.List[k]; !ok || (got != "" && got != v) {
					return false, state
				}
			}
			return true, state
		case "clear":
			return !out.Err, ""
		}
		return false, state
	},
	DescribeOperation: func(input, output interface{}) string {
		return fmt.Sprintf("%+v -> %+v", input, output)
	},
}

func TestC07StorageLin(t *testing.T) {
	e := vrun.LoadEnv()
	meta := vrun.Meta{Property: "C07", Workload: "TestC07StorageLin", Total: e.Pick(2000, 200000),
		Rule:        "the two real in-memory sent storages (through the verif constructors): 2-8 goroutines x 2-3 stream ids x 20-60 operations (Store of a uniquely tagged chunk under sequence numbers 1-4, Remove, List, Clear); every call is recorded with call/return times from one atomic clock and the history is checked with porcupine against a per-stream sequential map model, PARTITIONED BY STREAM ID - partitioning is sound exactly when one stream's store is unaffected by operations on another's, so an illegal partition is the isolation violation. non-trivial = >= 2 streams had overlapping operations and at least one Clear; distinct = history hash",
		Assumptions: []string{"a missing stream entry and an empty one are the same state (List may return an error or an empty map)", "porcupine timeout (10 s per case) = inconclusive"}}
	vrun.Loop(t, meta, 0, func(c *vrun.Case) vrun.Result {
		r := c.Rng
		kind := []string{"payload", "no-payload"}[r.Intn(2)]
		var st iscp.VerifSentStorage
		if kind == "payload" {
			st = iscp.VerifNewInmemSentStorage()
		} else {
			st = iscp.VerifNewInmemSentStorageNoPayload()
		}
		G := 2 + r.Intn(7)
		S := 2 + r.Intn(2)
		total := 20 + r.Intn(41)
		ids := make([]uuid.UUID, S)
		for i := range ids {
			ids[i] = broker.StreamIDFor("c07", fmt.Sprint(c.Index), i)
		}
		var clock atomic.Int64
		var mu sync.Mutex
		var ops []porcupine.Operation
		var tagN atomic.Int64
		seeds := make([]int64, G)
		for i := range seeds {
			seeds[i] = r.Int63()
		}
		var wg sync.WaitGroup
		clears := atomic.Int64{}
		for g := 0; g < G; g++ {
			wg.Add(1)
			go func(g int) {
				defer wg.Done()
				rr := rand.New(rand.NewSource(seeds[g]))
				ctx := context.Background()
				for k := 0; k < total/G+1; k++ {
					in := sop{Stream: rr.Intn(S), Seq: uint32(1 + rr.Intn(4))}
					var out sout
					switch x := rr.Intn(10); {
					case x < 4:
						in.Op = "store"
						n := tagN.Add(1)
						in.Tag = fmt.Sprint(n)
						dps := iscp.DataPointGroups{{DataID: &message.DataID{Name: "d", Type: "t"}, DataPoints: iscp.DataPoints{{ElapsedTime: time.Duration(n), Payload: []byte("p")}}}}
						call := clock.Add(1)
						err := st.Store(ctx, ids[in.Stream], in.Seq, dps)
						ret := clock.Add(1)
						out.Err = err != nil
						mu.Lock()
						ops = append(ops, porcupine.Operation{ClientId: g, Input: in, Call: call, Output: out, Return: ret})
						mu.Unlock()
					case x < 6:
						in.Op = "remove"
						call := clock.Add(1)
						got, err := st.Remove(ctx, ids[in.Stream], in.Seq)
						ret := clock.Add(1)
						out.Err = err != nil
						if err == nil && len(got) > 0 && len(got[0].DataPoints) > 0 {
							out.Tag = fmt.Sprint(int64(got[0].DataPoints[0].ElapsedTime))
						}
						mu.Lock()
						ops = append(ops, porcupine.Operation{ClientId: g, Input: in, Call: call, Output: out, Return: ret})
						mu.Unlock()
					case x < 9:
						in.Op = "list"
						call := clock.Add(1)
						got, err := st.List(ctx, ids[in.Stream])
						ret := clock.Add(1)
						out.Err = err != nil
						out.List = map[uint32]string{}
						for sq, g := range got {
							tag := ""
							if len(g) > 0 && len(g[0].DataPoints) > 0 {
								tag = fmt.Sprint(int64(g[0].DataPoints[0].ElapsedTime))
							}
							out.List[sq] = tag
						}
						mu.Lock()
						ops = append(ops, porcupine.Operation{ClientId: g, Input: in, Call: call, Output: out, Return: ret})
						mu.Unlock()
					default:
						in.Op = "clear"
						clears.Add(1)
						call := clock.Add(1)
						err := st.Clear(ctx, ids[in.Stream])
						ret := clock.Add(1)
						out.Err = err != nil
						mu.Lock()
						ops = append(ops, porcupine.Operation{ClientId: g, Input: in, Call: call, Output: out, Return: ret})
						mu.Unlock()
					}
				}
			}(g)
		}
		wg.Wait()
		res, info := porcupine.CheckOperationsVerbose(storeModel, ops, 10*time.Second)
		desc := map[string]any{"storage": kind, "goroutines": G, "streams": S, "operations": len(ops)}
		switch res {
		case porcupine.Unknown:
			x := vrun.Inconcl("porcupine timed out")
			x.Desc = desc
			return x
		case porcupine.Illegal:
			_ = info
			var hist []string
			sort.Slice(ops, func(i, j int) bool { return ops[i].Call < ops[j].Call })
			for _, o := range ops {
				hist = append(hist, fmt.Sprintf("[%d,%d] g%d %+v -> %+v", o.Call, o.Return, o.ClientId, o.Input, o.Output))
			}
			x := vrun.Violation("a stream's store history cannot be explained by that stream's operations alone (per-stream partition not linearizable)", "storage-isolation:"+kind, map[string]any{"history": hist})
			x.Desc = desc
			return x
		}
		h := uint64(1469598103934665603)
		for _, o := range ops {
			in := o.Input.(sop)
			h = (h ^ uint64(len(in.Op))<<8 ^ uint64(in.Stream)<<4 ^ uint64(in.Seq)) * 1099511628211
		}
		x := vrun.Hold(fmt.Sprintf("%s|%d|%d|%x", kind, G, S, h), clears.Load() > 0)
		x.Desc = desc
		x.Stat("storage_operations", int64(len(ops)))
		x.Stat("clears", clears.Load())
		return x
	})
}

// ---------- live connection, no faults: per-stream ledgers on a busy shared connection

func TestC07LiveIsolation(t *testing.T) {
	e := vrun.LoadEnv()
	meta := vrun.Meta{Property: "C07", Workload: "TestC07LiveIsolation", Total: e.Pick(120, 10000),
		Rule: "real time: one connection, 2-4 upstreams of mixed QoS and flush policies writing concurrently, 1-3 downstreams each fed chunks and metadata tagged with its own index, plus a churn goroutine that keeps opening, writing and closing further streams and issuing opens the broker refuses (in half of the cases the broker hands out stream alias 0 to the first upstream); acks batched per stream. Oracle per stream, from that stream's own ledger only: the C01 conservation/hook oracle for every upstream (an ack result of another stream showing up in a stream's hook is a 'phantom'), every downstream reads exactly the chunks addressed to it, in order. non-trivial = >= 2 upstreams and >= 1 downstream with >= 10 chunks each way and >= 3 churn cycles; distinct = (stream mix, churn cycles)",
	}
	vrun.Loop(t, meta, 0, func(c *vrun.Case) vrun.Result {
		var res vrun.Result
		ok, dump := vrun.Watchdog(120*time.Second, func() { res = runLive(c) })
		if !ok {
			res = vrun.WatchdogVerdict("the case never finished")
			if res.Verdict == vrun.Inconclusive {
				res.Witness = map[string]any{"dump_head": dump[:min(len(dump), 3000)]}
			}
		}
		return res
	})
}

func runLive(c *vrun.Case) vrun.Result {
	r := c.Rng
	nu, nd := 2+r.Intn(3), 1+r.Intn(3)
	w := world.New()
	defer w.Close()
	w.B.P.Ack = broker.AckBatch
	w.B.P.AckBatchK = 1 + r.Intn(3)
	w.B.P.Alias = broker.AliasAfterNth
	w.B.P.AliasN = 2
	// stream alias 0 is a legal value: in half of the cases the first upstream of the connection gets it
	w.B.P.UpAliasFromZero = r.Intn(2) == 0
	// a broker may hand the alias of a closed stream to the next one at once (two churn goroutines: one stream's close
	// and the next stream's open overlap)
	w.B.P.RecycleUpAlias = r.Intn(2) == 0
	// opens of the churn goroutine whose session id starts with "refused" are refused by the broker
	w.B.OnMsg = func(lc *broker.LinkCtx, m message.Message, unrel bool) bool {
		if t, ok := m.(*message.UpstreamOpenRequest); ok && strings.HasPrefix(t.SessionID, "refused") {
			lc.Send(&message.UpstreamOpenResponse{RequestID: t.RequestID, ResultCode: message.ResultCodeProcessFailed, ResultString: "refused"})
			return true
		}
		return false
	}
	w.Start()
	conn, err := w.Connect(iscp.WithConnPingInterval(time.Hour))
	if err != nil {
		return vrun.Inconcl("connect: " + err.Error())
	}
	defer conn.Close(context.Background())
	ctx := context.Background()
	stopFlush := make(chan struct{})
	var fwg sync.WaitGroup
	fwg.Add(1)
	go func() {
		defer fwg.Done()
		for {
			select {
			case <-stopFlush:
				return
			case <-time.After(2 * time.Millisecond):
				if lc := w.B.CurrentLink(); lc != nil {
					lc.FlushAcks()
				}
			}
		}
	}()
	defer func() { close(stopFlush); fwg.Wait() }()
	type upS struct {
		up  *iscp.Upstream
		rec *uplib.Recorder
		qos string
	}
	var ups []*upS
	desc := map[string]any{}
	var mix []string
	for i := 0; i < nu; i++ {
		q := []string{"reliable", "unreliable", "partial"}[r.Intn(3)]
		rec := uplib.NewRecorder(w.Clock)
		opts := append(rec.Options(), iscp.WithUpstreamQoS(map[string]message.QoS{"reliable": message.QoSReliable, "unreliable": message.QoSUnreliable, "partial": message.QoSPartial}[q]), iscp.WithUpstreamCloseTimeout(60*time.Second))
		if r.Intn(2) == 0 {
			opts = append(opts, iscp.WithUpstreamFlushPolicyImmediately())
			q += "/immediate"
		} else {
			opts = append(opts, iscp.WithUpstreamFlushPolicyBufferSizeOnly(64))
			q += "/size64"
		}
		octx, ocancel := context.WithTimeout(ctx, 30*time.Second) // released right after the open
		up, err := conn.OpenUpstream(octx, fmt.Sprintf("live-%d", i), opts...)
		ocancel()
		if err != nil {
			return vrun.Inconcl("open upstream: " + err.Error())
		}
		ups = append(ups, &upS{up, rec, q})
		mix = append(mix, q)
	}
	type downS struct {
		d     *iscp.Downstream
		alias uint32
		got   []string
		want  []string
	}
	var downs []*downS
	for i := 0; i < nd; i++ {
		dctx, dcancel := context.WithTimeout(ctx, 30*time.Second) // released right after the open
		d, err := conn.OpenDownstream(dctx, []*message.DownstreamFilter{{SourceNodeID: fmt.Sprintf("src%d", i), DataFilters: []*message.DataFilter{{Name: "#", Type: "#"}}}}, iscp.WithDownstreamQoS(message.QoSReliable), iscp.WithDownstreamAckFlushInterval(5*time.Millisecond))
		dcancel()
		if err != nil {
			return vrun.Inconcl("open downstream: " + err.Error())
		}
		downs = append(downs, &downS{d: d})
	}
	for i, ds := range w.B.Downs() {
		if i < len(downs) {
			downs[i].alias = ds.Alias
		}
	}
	desc["upstreams"], desc["downstreams"] = mix, nd
	var wg sync.WaitGroup
	nwrites := 15 + r.Intn(30)
	for i, u := range ups {
		wg.Add(1)
		go func(i int, u *upS) {
			defer wg.Done()
			for k := 1; k <= nwrites; k++ {
				u.rec.Write(ctx, u.up, i+1, message.DataID{Name: fmt.Sprintf("id%d", k%3), Type: "t"}, []int{k}, []int{30 + i})
				if k%7 == 0 {
					u.up.Flush(ctx)
				}
			}
		}(i, u)
	}
	lc := w.B.CurrentLink()
	nchunks := 15 + r.Intn(30)
	for i, d := range downs {
		wg.Add(2)
		go func(i int, d *downS) {
			defer wg.Done()
			for k := 1; k <= nchunks; k++ {
				tag := fmt.Sprintf("down%d-%d", i, k)
				d.want = append(d.want, tag)
				lc.Send(&message.DownstreamChunk{StreamIDAlias: d.alias, UpstreamOrAlias: &message.UpstreamInfo{SessionID: fmt.Sprintf("s%d", i), SourceNodeID: fmt.Sprintf("src%d", i), StreamID: broker.StreamIDFor("liveup", "x", i)},
					StreamChunk: &message.StreamChunk{SequenceNumber: uint32(k), DataPointGroups: []*message.DataPointGroup{{DataIDOrAlias: &message.DataID{Name: "d", Type: "t"}, DataPoints: []*message.DataPoint{{ElapsedTime: time.Duration(k), Payload: []byte(tag)}}}}}})
				if k%5 == 0 {
					time.Sleep(200 * time.Microsecond)
				}
			}
		}(i, d)
		go func(i int, d *downS) {
			defer wg.Done()
			for k := 0; k < nchunks; k++ {
				rctx, cancel := context.WithTimeout(ctx, 30*time.Second)
				ch, err := d.d.ReadDataPoints(rctx)
				cancel()
				if err != nil {
					d.got = append(d.got, "ERR:"+err.Error())
					return
				}
				for _, g := range ch.DataPointGroups {
					for _, p := range g.DataPoints {
						d.got = append(d.got, string(p.Payload))
					}
				}
			}
		}(i, d)
	}
	// churn
	churn := 0
	var cwg sync.WaitGroup
	stopChurn := make(chan struct{})
	// second churn goroutine: short-lived upstreams that ARE judged (three chunks, every ack must reach the stream's own
	// hook before Close returns); its opens and closes overlap those of the first churn goroutine
	var churn2Viol *vrun.Result
	churn2 := 0
	cwg.Add(1)
	go func() {
		defer cwg.Done()
		for churn2Viol == nil {
			select {
			case <-stopChurn:
				return
			default:
			}
			rec := uplib.NewRecorder(w.Clock)
			up, err := conn.OpenUpstream(ctx, fmt.Sprintf("short-%d", churn2), append(rec.Options(), iscp.WithUpstreamQoS(message.QoSReliable), iscp.WithUpstreamFlushPolicyImmediately(), iscp.WithUpstreamCloseTimeout(5*time.Second))...)
			if err != nil {
				continue
			}
			id := message.DataID{Name: "short", Type: "t"}
			for k := 1; k <= 3; k++ {
				rec.Write(ctx, up, 1, id, []int{k}, []int{8})
			}
			t0 := time.Now()
			cerr := up.Close(ctx)
			took := time.Since(t0)
			select {
			case <-rec.ClosedCh:
			case <-time.After(10 * time.Second):
			}
			_, _, acks, _ := rec.Snapshot()
			if cerr == nil && len(acks) != 3 {
				v := vrun.Violation("a short-lived upstream did not get the acknowledgements of its three chunks while other streams of the connection were opened and closed", "live-isolation:short-stream-acks-lost",
					map[string]any{"stream": churn2, "ack_hook_calls": len(acks), "close_took": took.String(), "alias_recycling": w.B.P.RecycleUpAlias, "alias_from_zero": w.B.P.UpAliasFromZero})
				churn2Viol = &v
				return
			}
			churn2++
		}
	}()
	cwg.Add(1)
	go func() {
		defer cwg.Done()
		for {
			select {
			case <-stopChurn:
				return
			default:
			}
			up, err := conn.OpenUpstream(ctx, fmt.Sprintf("churn-%d", churn), iscp.WithUpstreamFlushPolicyImmediately(), iscp.WithUpstreamCloseTimeout(30*time.Second))
			if err == nil {
				up.WriteDataPoints(ctx, &message.DataID{Name: "churn", Type: "t"}, &message.DataPoint{ElapsedTime: 1, Payload: []byte("c")})
				if churn%3 == 0 {
					// an option of THIS close: it must not show up in any other stream's close request
					up.Close(ctx, iscp.WithUpstreamCloseEnableCloseSession())
				} else {
					up.Close(ctx)
				}
			}
			if churn%4 == 2 {
				// metadata from a source node nobody subscribed to, addressed to a live downstream: dropped, nothing else
				if lc := w.B.CurrentLink(); lc != nil {
					if dss := w.B.Downs(); len(dss) > 0 {
						lc.Send(&message.DownstreamMetadata{RequestID: message.RequestID(900000 + churn), StreamIDAlias: dss[0].Alias, SourceNodeID: "node-nobody-subscribed", Metadata: &message.BaseTime{Name: "stray", BaseTime: time.Unix(1, 0).UTC()}})
					}
				}
			}
			d, err := conn.OpenDownstream(ctx, []*message.DownstreamFilter{{SourceNodeID: "churn", DataFilters: []*message.DataFilter{{Name: "#", Type: "#"}}}})
			if err == nil {
				d.Close(ctx)
			}
			if churn%2 == 1 {
				// an open the broker refuses: must not touch any other stream's registrations
				if up2, err := conn.OpenUpstream(ctx, fmt.Sprintf("refused-%d", churn), iscp.WithUpstreamFlushPolicyImmediately()); err == nil {
					up2.Close(ctx)
				}
			}
			churn++
		}
	}()
	wg.Wait()
	close(stopChurn)
	cwg.Wait()
	if churn2Viol != nil {
		return *churn2Viol
	}
	for _, u := range ups {
		if err := u.up.Close(ctx); err != nil {
			return vrun.Inconcl("close upstream: " + err.Error())
		}
	}
	for _, u := range ups {
		select {
		case <-u.rec.ClosedCh:
		case <-time.After(30 * time.Second):
			return vrun.Inconcl("closed notification missing")
		}
	}
	for _, d := range downs {
		d.d.Close(ctx)
	}
	time.Sleep(2 * time.Millisecond)
	ledger := w.B.Ledger()
	bups := w.B.Ups()
	for _, us := range bups {
		// only churn streams with a cycle number divisible by 3 were closed with the close-session option
		w.B.Lock()
		cr := us.CloseReq
		sess := us.SessionID
		w.B.Unlock()
		if cr == nil || cr.ExtensionFields == nil || !cr.ExtensionFields.CloseSession {
			continue
		}
		var n int
		if _, err := fmt.Sscanf(sess, "churn-%d", &n); err != nil || n%3 != 0 {
			return vrun.Violation("the close request of a stream carries an option that was given to the Close of ANOTHER stream", "live-isolation:close-option-leaked", map[string]any{"session": sess})
		}
	}
	byID := map[uuid.UUID]*broker.UpState{}
	for _, us := range bups {
		byID[us.ID] = us
	}
	for i, u := range ups {
		us := byID[u.up.ID]
		if us == nil {
			return vrun.Inconcl("broker does not know the stream")
		}
		w.B.Lock()
		cp := *us
		cp.Chunks = append([]broker.ChunkRec(nil), us.Chunks...)
		cp.AcksSent = append([]broker.AckRec(nil), us.AcksSent...)
		w.B.Unlock()
		writes, send, acks, _ := u.rec.Snapshot()
		if f := uplib.CheckConservation(writes, &cp, uplib.Opts{RequireAll: true, CheckClose: true}); f != nil {
			x := vrun.Violation(fmt.Sprintf("upstream %d (%s) on a shared connection: %s", i, u.qos, f.Clause), "live-isolation:"+f.Key, map[string]any{"detail": f.Detail})
			x.Desc = desc
			return x
		}
		if f := uplib.ChunkAfterClose(ledger, &cp); f != nil {
			x := vrun.Violation(fmt.Sprintf("upstream %d: %s", i, f.Clause), "live-isolation:"+f.Key, map[string]any{"detail": f.Detail})
			x.Desc = desc
			return x
		}
		if f := uplib.CheckHooks(&cp, send, acks); f != nil {
			x := vrun.Violation(fmt.Sprintf("upstream %d (%s) on a shared connection: %s", i, u.qos, f.Clause), "live-isolation:"+f.Key, map[string]any{"detail": f.Detail})
			x.Desc = desc
			return x
		}
	}
	for i, d := range downs {
		if fmt.Sprint(d.got) != fmt.Sprint(d.want) {
			x := vrun.Violation(fmt.Sprintf("downstream %d did not read exactly the chunks addressed to its alias, in order", i), "live-isolation:downstream-foreign-or-missing-chunk", map[string]any{"got": d.got, "want_n": len(d.want)})
			x.Desc = desc
			return x
		}
	}
	desc["churn_cycles"] = churn
	x := vrun.Hold(fmt.Sprintf("%v|%d|%d", mix, nd, churn), nu >= 2 && nd >= 1 && nwrites >= 10 && churn >= 3)
	x.Desc = desc
	x.Stat("streams_judged", int64(nu+nd))
	x.Stat("churn_cycles", int64(churn))
	x.Stat("short_streams_judged", int64(churn2))
	x.Stat("upstream_writes", int64(nu*nwrites))
	x.Stat("downstream_chunks", int64(nd*nchunks))
	return x
}

// ---------- resume side by side (virtual time)

func TestC07ResumeSideBySide(t *testing.T) {
	e := vrun.LoadEnv()
	meta := vrun.Meta{Property: "C07", Workload: "TestC07ResumeSideBySide", Total: e.Pick(200, 20000),
		Rule: "virtual time (the C05 scenario engine): at least one reliable and one non-reliable upstream plus 0-2 downstreams on one connection, 1-2 transport failures so that the streams resume side by side, acks partly withheld; in a third of the cases the application's logger blocks 0.3-10 s at one step of the reconnect / resume procedure. Oracle: every reliable stream must satisfy the C02 no-loss oracle from its own ledger (so a neighbour's resume must not cost it a stored chunk), no stream's ack hook may report a result the broker did not send for that stream, and the recorded history of the connection's shared sent storage (recording wrapper around the real storage) must be linearizable per stream id against the per-stream map model. non-trivial = a fault fired and both a reliable and a non-reliable stream resumed; distinct = (QoS mix, fault positions)",
	}
	vrun.Loop(t, meta, 0, func(c *vrun.Case) vrun.Result {
		r := c.Rng
		s := reconlib.Scenario{PingMs: 200, WritesB: 3, DuringWrites: 2, AckHoldMod: []int{2, 3}[r.Intn(2)], Storage: "payload"}
		s.Ups = []reconlib.UpSpec{{QoS: "reliable", Flush: "immediate", Writes: 8}, {QoS: []string{"unreliable", "partial"}[r.Intn(2)], Flush: "immediate", Writes: 8}}
		for i := r.Intn(3); i > 0; i-- {
			s.Ups = append(s.Ups, reconlib.UpSpec{QoS: []string{"reliable", "unreliable", "partial"}[r.Intn(3)], Flush: []string{"immediate", "size64"}[r.Intn(2)], Writes: 6})
		}
		for i := r.Intn(3); i > 0; i-- {
			s.Downs = append(s.Downs, reconlib.DownSpec{QoS: "reliable"})
		}
		for i := 1 + r.Intn(2); i > 0; i-- {
			cls := [][2]any{{memnet.C2S, "UpstreamChunk"}, {memnet.S2C, "UpstreamChunkAck"}, {memnet.C2S, "Ping"}}[r.Intn(3)]
			s.Faults = append(s.Faults, reconlib.Fault{Trigger: memnet.Trigger{Dir: cls[0].(memnet.Dir), Class: cls[1].(string), Ordinal: 2 + r.Intn(6), After: r.Intn(2) == 0,
				Mode: []memnet.Mode{memnet.Sever, memnet.WFail, memnet.REOF, memnet.Blackhole}[r.Intn(4)]}, DialDelayMs: []int{0, 1, 500}[r.Intn(3)]})
		}
		if r.Intn(3) == 0 {
			// the application's logger blocks at one step of the reconnect / resume procedure; half of these also let
			// the retry's link die the moment the first stream has resumed on it
			s.SlowLog = reconlib.SlowLogSites[r.Intn(len(reconlib.SlowLogSites))]
			s.SlowLogMs = []int{300, 3000, 10000}[r.Intn(3)]
			if r.Intn(2) == 0 {
				s.Faults[0].NextLink = []memnet.Trigger{{Dir: memnet.S2C, Class: "UpstreamResumeResponse", Ordinal: 1, After: true, Mode: []memnet.Mode{memnet.Sever, memnet.REOF}[r.Intn(2)]}}
			}
		}
		var res vrun.Result
		ok, dump := vrun.Watchdog(120*time.Second, func() {
			func() {
				defer func() {
					if rr := recover(); rr != nil {
						if res.Verdict == "" {
							res = vrun.Inconcl(fmt.Sprint("bubble aborted: ", rr))
						} else if res.Note == "" {
							res.Note = fmt.Sprint("bubble end: ", rr)
						}
					}
				}()
				synctest.Test(c.T, func(t *testing.T) { res = judgeSide(reconlib.Run(s)) })
			}()
		})
		if !ok {
			res = vrun.WatchdogVerdict("the case never finished")
			if res.Verdict == vrun.Inconclusive {
				res.Witness = map[string]any{"dump_head": dump[:min(len(dump), 3000)]}
			}
		}
		res.Desc = s
		return res
	})
}

func judgeSide(o *reconlib.Outcome) vrun.Result {
	s := o.S
	if len(o.Ups) != len(s.Ups) {
		return vrun.Inconcl("streams could not be opened")
	}
	if o.FaultsFired == 0 || !o.Recovered {
		x := vrun.Hold("nofault", false)
		x.Note = "no fault fired or no recovery (C05's subject)"
		return x
	}
	relResumed, otherResumed := false, false
	for i, u := range o.Ups {
		writes, _, acks, closed := u.Rec.Snapshot()
		reported := u.WriteStreamClosed
		for _, c := range closed {
			if c.Err != "" {
				reported = true
			}
		}
		if u.Resumed > 0 {
			if u.Spec.QoS == "reliable" {
				relResumed = true
			} else {
				otherResumed = true
			}
		}
		st := u.State
		// an ack hook of this stream must only report what the broker sent for this stream
		sent := map[uint32]bool{}
		for _, a := range st.AcksSent {
			for _, rr := range a.Results {
				sent[rr.SequenceNumber] = true
			}
		}
		for _, a := range acks {
			if !sent[a.SequenceNumber] {
				return vrun.Violation("a stream's ack hook reported a result the broker never sent for that stream (ack of another stream?)", "side-by-side:foreign-ack", map[string]any{"upstream": i, "seq": a.SequenceNumber})
			}
		}
		if u.Spec.QoS != "reliable" || reported {
			// non-reliable streams may lose data across an outage; still nothing foreign may appear in their ledger
			if f := uplib.CheckConservation(writes, &st, uplib.Opts{AllowRetransmit: true}); f != nil {
				return vrun.Violation(fmt.Sprintf("upstream %d (%s): %s", i, u.Spec.QoS, f.Clause), "side-by-side:"+f.Key, map[string]any{"detail": f.Detail})
			}
			continue
		}
		if f := uplib.CheckConservation(writes, &st, uplib.Opts{AllowRetransmit: true, RequireAll: true, CheckClose: u.CloseErr == ""}); f != nil {
			return vrun.Violation(fmt.Sprintf("reliable upstream %d sharing the connection with resuming neighbours: %s", i, f.Clause), "side-by-side:"+f.Key, map[string]any{"detail": f.Detail, "resumes": u.State.Resumes})
		}
	}
	// shared storage history, per stream
	idx := map[uuid.UUID]int{}
	var ops []porcupine.Operation
	for _, h := range o.StorageHist {
		if _, ok := idx[h.Stream]; !ok {
			idx[h.Stream] = len(idx)
		}
		in := sop{Op: h.Op, Stream: idx[h.Stream], Seq: h.Seq}
		out := sout{Err: h.Err != ""}
		if h.Op == "list" {
			out.List = map[uint32]string{}
			for _, sq := range h.Seqs {
				out.List[sq] = ""
			}
		}
		ops = append(ops, porcupine.Operation{Input: in, Call: h.Call, Output: out, Return: h.T})
	}
	if len(ops) > 0 {
		res, _ := porcupine.CheckOperationsVerbose(storeModel, ops, 20*time.Second)
		if res == porcupine.Illegal {
			var hist []string
			for _, h := range o.StorageHist {
				hist = append(hist, fmt.Sprintf("[%d,%d] %s stream%d seq=%d list=%v err=%q", h.Call, h.T, h.Op, idx[h.Stream], h.Seq, h.Seqs, h.Err))
			}
			return vrun.Violation("the shared sent storage's history on a live connection is not explainable per stream", "storage-isolation:live", map[string]any{"history": hist})
		}
		if res == porcupine.Unknown {
			return vrun.Inconcl("porcupine timed out on the live storage history")
		}
	}
	var qs []string
	for _, u := range s.Ups {
		qs = append(qs, u.QoS)
	}
	sig := fmt.Sprint(qs, len(s.Downs))
	for _, f := range s.Faults {
		sig += fmt.Sprintf("|%s-%s#%d-%v-%s", f.Trigger.Dir, f.Trigger.Class, f.Trigger.Ordinal, f.Trigger.After, f.Trigger.Mode)
	}
	x := vrun.Hold(sig, relResumed && otherResumed)
	x.Stat("storage_operations_checked", int64(len(ops)))
	x.Stat("streams_judged", int64(len(o.Ups)))
	x.Stat("faults_fired", int64(o.FaultsFired))
	return x
}

// TestC07SlowConsumer: a stream whose application does not read (or an upstream whose acks nobody waits for) must not
// hold up the other streams of the connection: the per-stream inboxes drop on overflow by design, the dispatchers of
// the connection never wait for one consumer.
func TestC07SlowConsumer(t *testing.T) {
	e := vrun.LoadEnv()
	meta := vrun.Meta{Property: "C07", Workload: "TestC07SlowConsumer", Total: e.Pick(12, 400),
		Rule:        "one connection, 1-2 downstreams that are never read (in half of the cases the first of them was closed by the application but the broker never answered the close request and keeps sending) and 1-2 that are read, plus one upstream; the broker sends 1100-2600 chunks (and, in half of the cases, as many metadata messages) to each unread stream - more than its inbox holds - and then 50-200 chunks to every read stream while the upstream writes and closes. Oracle: every read stream returns all of its chunks, in order, within 20 s, the upstream's Close succeeds and its points arrive; the unread streams are only required not to affect the others. non-trivial = at least one unread stream was sent more than 1024 chunks; distinct = scenario tuple",
		Assumptions: []string{"chunks for a stream whose inbox is full may be dropped (documented buffering); that stream itself is not judged"}}
	vrun.Loop(t, meta, 4, func(c *vrun.Case) vrun.Result {
		var res vrun.Result
		ok, dump := vrun.Watchdog(120*time.Second, func() { res = runSlowConsumer(c) })
		if !ok {
			res = vrun.WatchdogVerdict("the case never finished")
			if res.Verdict == vrun.Inconclusive {
				res.Witness = map[string]any{"dump_head": dump[:min(len(dump), 3000)]}
			}
		}
		return res
	})
}

func runSlowConsumer(c *vrun.Case) vrun.Result {
	r := c.Rng
	nUnread, nRead := 1+r.Intn(2), 1+r.Intn(2)
	flood := 1100 + r.Intn(1500)
	perRead := 50 + r.Intn(150)
	withMeta := r.Intn(2) == 0
	// the first unread stream is a zombie: its application closed it, but the broker never answered the close request
	// (the client's call ended with its context) and keeps sending chunks for that alias
	zombie := r.Intn(2) == 0
	desc := map[string]any{"unread_downstreams": nUnread, "read_downstreams": nRead, "chunks_to_each_unread_stream": flood, "chunks_to_each_read_stream": perRead, "metadata_flood": withMeta, "first_unread_stream_closed_without_close_response": zombie}
	fail := func(v vrun.Result) vrun.Result { v.Desc = desc; return v }
	w := world.New()
	defer w.Close()
	var withholdClose atomic.Bool
	w.B.OnMsg = func(lc *broker.LinkCtx, m message.Message, unrel bool) bool {
		if _, ok := m.(*message.DownstreamCloseRequest); ok && withholdClose.Load() {
			return true
		}
		return false
	}
	w.Start()
	conn, err := w.Connect(iscp.WithConnPingInterval(time.Hour))
	if err != nil {
		return fail(vrun.Inconcl("connect: " + err.Error()))
	}
	defer conn.Close(context.Background())
	ctx, cancel := context.WithTimeout(context.Background(), 60*time.Second)
	defer cancel()
	filters := func(src string) []*message.DownstreamFilter {
		return []*message.DownstreamFilter{{SourceNodeID: src, DataFilters: []*message.DataFilter{{Name: "#", Type: "#"}}}}
	}
	var downs []*iscp.Downstream
	for i := 0; i < nUnread+nRead; i++ {
		d, err := conn.OpenDownstream(ctx, filters(fmt.Sprintf("src-%d", i)), iscp.WithDownstreamQoS(message.QoSUnreliable))
		if err != nil {
			return fail(vrun.Inconcl("open downstream: " + err.Error()))
		}
		downs = append(downs, d)
	}
	rec := uplib.NewRecorder(w.Clock)
	up, err := conn.OpenUpstream(ctx, "s", append(rec.Options(), iscp.WithUpstreamQoS(message.QoSReliable), iscp.WithUpstreamFlushPolicyImmediately(), iscp.WithUpstreamCloseTimeout(20*time.Second))...)
	if err != nil {
		return fail(vrun.Inconcl("open upstream: " + err.Error()))
	}
	dss := w.B.Downs()
	if len(dss) != len(downs) {
		return fail(vrun.Inconcl("broker did not register every downstream"))
	}
	if zombie {
		withholdClose.Store(true)
		zctx, zc := context.WithTimeout(ctx, 30*time.Millisecond)
		_ = downs[0].Close(zctx)
		zc()
		withholdClose.Store(false)
	}
	lc := w.B.CurrentLink()
	id := &message.DataID{Name: "d", Type: "t"}
	chunk := func(alias uint32, src string, seq int) *message.DownstreamChunk {
		return &message.DownstreamChunk{StreamIDAlias: alias, UpstreamOrAlias: &message.UpstreamInfo{SessionID: "u", SourceNodeID: src, StreamID: broker.StreamIDFor("x", src, 0)},
			StreamChunk: &message.StreamChunk{SequenceNumber: uint32(seq), DataPointGroups: []*message.DataPointGroup{{DataIDOrAlias: id, DataPoints: []*message.DataPoint{{ElapsedTime: time.Duration(seq), Payload: []byte("p")}}}}}}
	}
	// flood the unread streams first
	for k := 1; k <= flood; k++ {
		for i := 0; i < nUnread; i++ {
			lc.Send(chunk(dss[i].Alias, fmt.Sprintf("src-%d", i), k))
			if withMeta {
				lc.Send(&message.DownstreamMetadata{RequestID: message.RequestID(100000 + k*4 + i), StreamIDAlias: dss[i].Alias, SourceNodeID: fmt.Sprintf("src-%d", i), Metadata: &message.BaseTime{Name: "m", BaseTime: time.Unix(1, 0).UTC()}})
			}
		}
	}
	// then the streams that are read, while the upstream works
	var wg sync.WaitGroup
	type rres struct {
		got  []uint32
		err  string
		slow bool
	}
	results := make([]rres, nRead)
	for j := 0; j < nRead; j++ {
		i := nUnread + j
		for k := 1; k <= perRead; k++ {
			lc.Send(chunk(dss[i].Alias, fmt.Sprintf("src-%d", i), k))
		}
		wg.Add(1)
		go func(j int, d *iscp.Downstream) {
			defer wg.Done()
			for k := 0; k < perRead; k++ {
				rctx, rc := context.WithTimeout(ctx, 20*time.Second)
				ch, err := d.ReadDataPoints(rctx)
				rc()
				if err != nil {
					results[j].err = err.Error()
					results[j].slow = rctx.Err() != nil
					return
				}
				results[j].got = append(results[j].got, ch.SequenceNumber)
			}
		}(j, downs[i])
	}
	for k := 1; k <= 20; k++ {
		rec.Write(ctx, up, 1, *id, []int{k}, []int{10})
	}
	cctx, cc := context.WithTimeout(ctx, 25*time.Second)
	closeErr := up.Close(cctx)
	cc()
	wg.Wait()
	for j, rr := range results {
		if rr.err != "" {
			return fail(vrun.Violation("a downstream that is being read did not receive its chunks while another stream of the connection was not consumed", "slow-consumer-blocks-other-stream:downstream", map[string]any{"read_stream": j, "received": len(rr.got), "expected": perRead, "error": rr.err, "timed_out": rr.slow}))
		}
		for k, s := range rr.got {
			if s != uint32(k+1) {
				return fail(vrun.Violation("chunks of a read stream arrived out of order / incomplete next to an unconsumed stream", "slow-consumer-disturbs-other-stream:order", map[string]any{"read_stream": j, "position": k, "got": s}))
			}
		}
	}
	if closeErr != nil {
		return fail(vrun.Violation("an upstream could not be closed while a downstream of the same connection was not consumed", "slow-consumer-blocks-other-stream:upstream-close", map[string]any{"error": closeErr.Error()}))
	}
	ups := w.B.Ups()
	pts := 0
	if len(ups) == 1 {
		w.B.Lock()
		for _, ch := range ups[0].Chunks {
			for _, g := range ch.Groups {
				pts += len(g)
			}
		}
		w.B.Unlock()
	}
	if pts != 20 {
		return fail(vrun.Violation("an upstream's points did not all arrive while a downstream of the same connection was not consumed", "slow-consumer-blocks-other-stream:upstream-points", map[string]any{"arrived": pts, "written": 20}))
	}
	res := vrun.Hold(fmt.Sprintf("%d|%d|%d|%d|%v|%v", nUnread, nRead, flood, perRead, withMeta, zombie), flood > 1024)
	res.Desc = desc
	res.Stat("chunks_sent_to_unread_streams", int64(flood*nUnread))
	res.Stat("chunks_read_next_to_them", int64(perRead*nRead))
	return res
}
