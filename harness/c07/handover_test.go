package c07

import (
	"context"
	"fmt"
	"sync"
	"testing"
	"time"

	"github.com/aptpod/iscp-go/iscp"
	"github.com/aptpod/iscp-go/message"

	"verif/harness/broker"
	"verif/harness/uplib"
	"verif/harness/vrun"
	"verif/harness/world"
)

// TestC07AliasHandover: on an otherwise quiet connection stream A receives the most recent ack and is closed while
// stream B is opened; the broker releases A's alias when it receives the close request, gives it to B at once, and
// answers B's open before A's close (or never answers A's close: the call ends with its context). From then on every
// ack for that alias belongs to B - and no traffic of any other stream refreshes whatever the client remembers about
// the alias.
func TestC07AliasHandover(t *testing.T) {
	e := vrun.LoadEnv()
	meta := vrun.Meta{Property: "C07", Workload: "TestC07AliasHandover", Total: e.Pick(60, 2000),
		Rule: "real time: a quiet connection (no other traffic); upstream A writes 1-3 chunks which are acknowledged; then A.Close and OpenUpstream(B) are issued together; the broker recycles A's alias for B and delays A's close response by 5-50 ms (or withholds it: A's Close ends with its 100 ms context); B then writes 2-6 chunks (acknowledged at once) and closes. 1-3 such handovers per connection. " +
			"Oracle: B's ack hook sees one result per chunk of B and nothing else, B's Close returns well inside its close timeout (2 s), the C01 conservation oracle holds for B. non-trivial = B was given A's alias; distinct = scenario tuple",
		Assumptions: []string{"a broker may hand out the alias of a stream whose close request it has received"}}
	vrun.Loop(t, meta, 4, func(c *vrun.Case) vrun.Result {
		var res vrun.Result
		ok, dump := vrun.Watchdog(120*time.Second, func() { res = runHandover(c) })
		if !ok {
			res = vrun.WatchdogVerdict("the case never finished")
			if res.Verdict == vrun.Inconclusive {
				res.Witness = map[string]any{"dump_head": dump[:min(len(dump), 3000)]}
			}
		}
		return res
	})
}

func runHandover(c *vrun.Case) vrun.Result {
	r := c.Rng
	handovers := 1 + r.Intn(3)
	withhold := r.Intn(3) == 0
	delay := time.Duration(5+r.Intn(46)) * time.Millisecond
	fromZero := r.Intn(2) == 0
	desc := map[string]any{"handovers": handovers, "close_response_withheld": withhold, "close_response_delay_ms": delay.Milliseconds(), "aliases_from_zero": fromZero}
	fail := func(v vrun.Result) vrun.Result { v.Desc = desc; return v }
	w := world.New()
	defer w.Close()
	w.B.P.RecycleUpAlias = true
	w.B.P.UpAliasFromZero = fromZero
	w.B.OnMsg = func(lc *broker.LinkCtx, m message.Message, unrel bool) bool {
		if t, ok := m.(*message.UpstreamCloseRequest); ok {
			resp := lc.CloseUpstream(t) // releases the alias now
			if withhold {
				return true
			}
			go func() { time.Sleep(delay); lc.Send(resp) }()
			return true
		}
		return false
	}
	w.Start()
	conn, err := w.Connect(iscp.WithConnPingInterval(time.Hour))
	if err != nil {
		return fail(vrun.Inconcl("connect: " + err.Error()))
	}
	defer conn.Close(context.Background())
	ctx, cancel := context.WithTimeout(context.Background(), 60*time.Second)
	defer cancel()
	open := func(name string) (*iscp.Upstream, *uplib.Recorder, error) {
		rec := uplib.NewRecorder(w.Clock)
		up, err := conn.OpenUpstream(ctx, name, append(rec.Options(), iscp.WithUpstreamQoS(message.QoSReliable), iscp.WithUpstreamFlushPolicyImmediately(), iscp.WithUpstreamCloseTimeout(2*time.Second))...)
		return up, rec, err
	}
	id := message.DataID{Name: "d", Type: "t"}
	writeAcked := func(up *iscp.Upstream, rec *uplib.Recorder, n int) bool {
		for k := 0; k < n; k++ {
			if err := rec.Write(ctx, up, 1, id, []int{k + 1}, []int{16}); err != nil {
				return false
			}
		}
		for i := 0; i < 2000; i++ {
			if _, _, acks, _ := rec.Snapshot(); len(acks) >= n {
				return true
			}
			time.Sleep(time.Millisecond)
		}
		return false
	}
	a, recA, err := open("A-0")
	if err != nil {
		return fail(vrun.Inconcl("open A: " + err.Error()))
	}
	reused := 0
	for h := 0; h < handovers; h++ {
		nA := 1 + r.Intn(3)
		if !writeAcked(a, recA, nA) {
			_, _, acks, _ := recA.Snapshot()
			return fail(vrun.Violation("a stream on a quiet connection did not receive the acknowledgements of its own chunks within 2 s", "acks-missing-before-handover",
				map[string]any{"handover": h, "chunks": nA, "ack_results_seen": len(acks)}))
		}
		aliasA := uint32(0)
		for _, us := range w.B.Ups() {
			if us.ID == a.ID {
				w.B.Lock()
				aliasA = us.LinkAlias[1]
				w.B.Unlock()
			}
		}
		var b *iscp.Upstream
		var recB *uplib.Recorder
		var openErr error
		var wg sync.WaitGroup
		wg.Add(2)
		go func() {
			defer wg.Done()
			cctx, cc := context.WithTimeout(ctx, 100*time.Millisecond)
			if !withhold {
				cctx, cc = context.WithTimeout(ctx, 10*time.Second)
			}
			a.Close(cctx)
			cc()
		}()
		go func() {
			defer wg.Done()
			time.Sleep(time.Duration(r.Intn(3)) * time.Millisecond) // the close request first, as a rule
			b, recB, openErr = open(fmt.Sprintf("B-%d", h))
		}()
		wg.Wait()
		if openErr != nil {
			return fail(vrun.Inconcl("open B: " + openErr.Error()))
		}
		aliasB := uint32(0)
		for _, us := range w.B.Ups() {
			if us.ID == b.ID {
				w.B.Lock()
				aliasB = us.LinkAlias[1]
				w.B.Unlock()
			}
		}
		if aliasA == aliasB {
			reused++
		}
		nB := 2 + r.Intn(5)
		if !writeAcked(b, recB, nB) {
			_, _, acks, _ := recB.Snapshot()
			return fail(vrun.Violation("after an alias handover the new stream does not receive the acknowledgements of its own chunks (2 s, quiet connection, broker acknowledges at once)",
				"acks-lost-after-alias-handover", map[string]any{"handover": h, "alias": aliasB, "alias_of_the_closed_stream": aliasA, "chunks": nB, "ack_results_seen": len(acks)}))
		}
		a, recA = b, recB // B is the next handover's A
	}
	t0 := time.Now()
	fctx, fcancel := ctx, context.CancelFunc(func() {})
	if withhold {
		fctx, fcancel = context.WithTimeout(ctx, 200*time.Millisecond) // this broker never answers a close request
	}
	cerr := a.Close(fctx)
	fcancel()
	took := time.Since(t0)
	if cerr != nil && !withhold {
		return fail(vrun.Inconcl("final close: " + cerr.Error()))
	}
	if !withhold && took > time.Second {
		return fail(vrun.Violation("the Close of the stream that inherited an alias ran into its close timeout although every chunk had been acknowledged", "close-waits-after-alias-handover", map[string]any{"took": took.String()}))
	}
	res := vrun.Hold(fmt.Sprintf("handover|%d|%v|%v", handovers, withhold, fromZero), reused > 0)
	res.Stat("handovers_with_the_same_alias", int64(reused))
	return fail(res)
}
