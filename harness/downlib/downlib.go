// Package downlib is the downstream scenario shared by C03 (delivery/resolution) and C04 (acks/aliases).
package downlib

import (
	"context"
	"errors"
	"fmt"
	"math/rand"
	"sort"
	"strings"
	"sync"
	"sync/atomic"
	"time"

	"github.com/aptpod/iscp-go/iscp"
	"github.com/aptpod/iscp-go/message"
	"github.com/google/uuid"

	"verif/harness/broker"
	"verif/harness/memnet"
	"verif/harness/uplib"
	"verif/harness/vrun"
	"verif/harness/world"
)

type Scenario struct {
	QoS        string `json:"qos"`
	Datagram   bool   `json:"datagram_side_channel"`
	Encoding   string `json:"encoding"`
	Upstreams  int    `json:"upstreams"`
	DataIDs    int    `json:"data_ids"`
	PreReg     int    `json:"preregistered_ids"`
	PreRegDup  bool   `json:"preregistered_list_repeats_an_id,omitempty"`
	DupFilter  bool   `json:"two_filters_name_the_same_source_node,omitempty"`
	ExpiredCtx bool   `json:"some_reads_use_an_expired_context,omitempty"`
	Chunks     int    `json:"chunks"`
	AliasPct   int    `json:"alias_form_pct"`
	PoisonPct  int    `json:"poison_pct"`
	Sources    int    `json:"metadata_sources"`
	Metadata   int    `json:"metadata_items"`
	Pacing     string `json:"reader_pacing"`
	Burst      int    `json:"burst,omitempty"`
	AckFlushUs int    `json:"ack_flush_interval_us"`
	CloseAfter int    `json:"close_after_reads"` // <0: read everything
	Seed       int64  `json:"seed"`
	// SharedSession: upstreams come in pairs that share source node id and session id and differ in their stream id
	// only (two upstreams of one session - distinct upstreams all the same)
	SharedSession bool `json:"upstream_pairs_share_node_and_session,omitempty"`
	// CloseBudgetMs: Close gets a context of its own with this timeout (0: the run's context)
	CloseBudgetMs int `json:"close_context_ms,omitempty"`
	// Closers: Close is called by this many goroutines at once (0/1: one caller)
	Closers int `json:"concurrent_close_callers,omitempty"`
	// CallFlood: before the chunks the broker sends this many e2e request calls and as many reply calls that the
	// application never asks for (more than the connection's inboxes hold): the stream's consumer keeps up all the same
	CallFlood int `json:"unread_e2e_calls_and_replies,omitempty"`
}

func Gen(r *rand.Rand, quickChunks int) Scenario {
	s := Scenario{}
	s.QoS = []string{"reliable", "unreliable", "partial"}[r.Intn(3)]
	s.Datagram = r.Intn(2) == 0
	s.Encoding = []string{"proto", "json"}[r.Intn(2)]
	s.Upstreams = 1 + r.Intn(6)
	s.DataIDs = 1 + r.Intn(8)
	s.PreReg = r.Intn(s.DataIDs + 1)
	if r.Intn(2) == 0 {
		s.PreReg = 0
	}
	s.PreRegDup = s.PreReg > 0 && r.Intn(4) == 0
	s.DupFilter = r.Intn(3) == 0
	s.ExpiredCtx = r.Intn(3) == 0
	s.Chunks = 20 + r.Intn(quickChunks)
	s.AliasPct = []int{0, 50, 70, 100}[r.Intn(4)]
	s.PoisonPct = []int{0, 0, 2, 5}[r.Intn(4)]
	s.Sources = 1 + r.Intn(3)
	s.Metadata = r.Intn(30)
	s.Pacing = []string{"eager", "bursty"}[r.Intn(2)]
	if s.Pacing == "bursty" {
		s.Burst = []int{8, 64, 200}[r.Intn(3)]
	}
	s.AckFlushUs = []int{1000, 5000, 20000, 100000, 1000000}[r.Intn(5)]
	s.CloseAfter = -1
	if r.Intn(4) == 0 {
		s.CloseAfter = r.Intn(s.Chunks)
	}
	s.Seed = r.Int63()
	s.SharedSession = r.Intn(3) == 0
	if r.Intn(5) == 0 {
		s.CallFlood = 1100 + r.Intn(600)
	}
	if r.Intn(6) == 0 {
		// the periodic flush never comes: whatever is acknowledged is acknowledged by Close
		s.AckFlushUs = 3600 * 1000000
	}
	return s
}

type Group struct {
	ID      message.DataID
	Points  []uplib.PKey
	AsAlias bool
}

type SentChunk struct {
	Idx       int
	Info      message.UpstreamInfo
	Seq       uint32
	Groups    []Group
	Poison    string // "", "upstream-alias", "data-id-alias"
	UpAlias   bool
	Delivered bool // put on a live link
}

type ReadRec struct {
	T      int64
	Err    string
	Seq    uint32
	Info   message.UpstreamInfo
	Groups []Group
}

type MetaSent struct {
	ReqID  uint32
	Source string
	Name   string
}

type Outcome struct {
	S        Scenario
	Sent     []SentChunk
	Reads    []ReadRec
	MetaSent []MetaSent
	MetaRead []MetaSent // ReqID unknown on the read side: 0
	// reads issued with an already cancelled context: how many got the context's error / how many were served an item
	ExpiredReads, ExpiredReadsServed int
	ReadStalled                      string
	Ledger                           []broker.Entry
	Down                             broker.DownState
	FinalState                       *iscp.DownstreamState
	CloseErr                         error
	ClosedEvents                     int
	Notes                            []string
	DownID                           uuid.UUID
	PreRegIDs                        map[uint32]message.DataID
}

func qos(s string) message.QoS {
	switch s {
	case "reliable":
		return message.QoSReliable
	case "partial":
		return message.QoSPartial
	}
	return message.QoSUnreliable
}

func infoFor(i int, shared bool) message.UpstreamInfo {
	if shared {
		return message.UpstreamInfo{SessionID: fmt.Sprintf("sess-%d", i/2), SourceNodeID: fmt.Sprintf("node-%d", (i/2)%3), StreamID: broker.StreamIDFor("src-up", "x", i)}
	}
	return message.UpstreamInfo{SessionID: fmt.Sprintf("sess-%d", i), SourceNodeID: fmt.Sprintf("node-%d", i%3), StreamID: broker.StreamIDFor("src-up", "x", i)}
}

// Run executes the scenario in real time (or virtual time when called inside a bubble).
func Run(s Scenario) (*Outcome, string) {
	r := rand.New(rand.NewSource(s.Seed))
	w := world.New()
	defer w.Close()
	w.Net.WithUnreliable = s.Datagram
	w.Start()
	enc := iscp.EncodingNameProtobuf
	if s.Encoding == "json" {
		enc = iscp.EncodingNameJSON
	}
	conn, err := w.Connect(iscp.WithConnEncoding(enc), iscp.WithConnPingInterval(time.Hour))
	if err != nil {
		return nil, "connect: " + err.Error()
	}
	defer conn.Close(context.Background())
	ids := make([]message.DataID, s.DataIDs)
	for i := range ids {
		ids[i] = message.DataID{Name: fmt.Sprintf("data-%d", i), Type: []string{"f64", "str", "bin"}[i%3]}
	}
	var filters []*message.DownstreamFilter
	var sources []string
	for i := 0; i < s.Sources; i++ {
		src := fmt.Sprintf("node-%d", i)
		sources = append(sources, src)
		filters = append(filters, &message.DownstreamFilter{SourceNodeID: src, DataFilters: []*message.DataFilter{{Name: "#", Type: "#"}}})
	}
	if s.DupFilter {
		// a second filter for the first source node (other data filter): still one metadata stream per node, in order
		filters = append(filters, &message.DownstreamFilter{SourceNodeID: sources[0], DataFilters: []*message.DataFilter{{Name: "extra/#", Type: "#"}}})
	}
	out := &Outcome{S: s, PreRegIDs: map[uint32]message.DataID{}}
	var closedEvents atomic.Int64
	opts := []iscp.DownstreamOption{iscp.WithDownstreamQoS(qos(s.QoS)), iscp.WithDownstreamAckFlushInterval(time.Duration(s.AckFlushUs) * time.Microsecond),
		iscp.WithDownstreamClosedEventHandler(iscp.DownstreamClosedEventHandlerFunc(func(ev *iscp.DownstreamClosedEvent) { closedEvents.Add(1) }))}
	if s.PreReg > 0 {
		var pre []*message.DataID
		for i := 0; i < s.PreReg; i++ {
			id := ids[i]
			pre = append(pre, &id)
			if s.PreRegDup && i == 0 {
				// the application's list names the same data id twice
				dup := ids[0]
				pre = append(pre, &dup)
			}
		}
		opts = append(opts, iscp.WithDownstreamDataIDs(pre))
	}
	ctx := context.Background()
	// the usual open helper: a context that only covers the open request and is released straight afterwards
	octx, ocancel := context.WithTimeout(ctx, 30*time.Second)
	down, err := conn.OpenDownstream(octx, filters, opts...)
	ocancel()
	if err != nil {
		return nil, "open downstream: " + err.Error()
	}
	out.DownID = down.ID
	dss := w.B.Downs()
	if len(dss) != 1 {
		return nil, "broker saw no downstream"
	}
	ds := dss[0]
	lc := w.B.CurrentLink()
	w.B.Lock()
	for a, id := range ds.DataIDs {
		out.PreRegIDs[a] = id
	}
	w.B.Unlock()
	useUnrel := s.QoS == "unreliable" && s.Datagram

	var consumed atomic.Int64 // chunks + errors returned by ReadDataPoints
	var metaConsumed atomic.Int64
	total := s.Chunks
	stopSend := make(chan struct{})
	var sendWG sync.WaitGroup
	var sentMu sync.Mutex
	seqs := map[int]uint32{}
	counter := 0
	metaReq := uint32(1000)
	sendWG.Add(1)
	go func() {
		defer sendWG.Done()
		metaLeft := s.Metadata
		sentChunks := 0
		for k := 0; k < s.CallFlood; k++ {
			lc.Send(&message.DownstreamCall{CallID: fmt.Sprintf("flood-%d", k), SourceNodeID: "peer", Name: "n", Type: "t", Payload: []byte("c")})
			lc.Send(&message.DownstreamCall{CallID: fmt.Sprintf("flood-r-%d", k), RequestCallID: fmt.Sprintf("nobody-%d", k), SourceNodeID: "peer", Name: "n", Type: "t", Payload: []byte("c")})
		}
		for i := 0; i < total; i++ {
			// keep fewer than 256 unconsumed items in flight (documented 1024-item buffering)
			for int64(sentChunks)-consumed.Load() >= 250 {
				select {
				case <-stopSend:
					return
				case <-time.After(200 * time.Microsecond):
				}
			}
			select {
			case <-stopSend:
				return
			default:
			}
			ui := r.Intn(s.Upstreams)
			info := infoFor(ui, s.SharedSession)
			seqs[ui]++
			sc := SentChunk{Idx: i, Info: info, Seq: seqs[ui]}
			// what has the client announced so far?
			w.B.Lock()
			upAlias, upKnown := uint32(0), false
			for a, in := range ds.Upstreams {
				if in == info {
					upAlias, upKnown = a, true
					break
				}
			}
			known := map[message.DataID]uint32{}
			for a, id := range ds.DataIDs {
				known[id] = a
			}
			w.B.Unlock()
			msg := &message.DownstreamChunk{StreamIDAlias: ds.Alias, StreamChunk: &message.StreamChunk{SequenceNumber: sc.Seq}}
			poison := ""
			if s.PoisonPct > 0 && r.Intn(100) < s.PoisonPct {
				poison = []string{"upstream-alias", "data-id-alias"}[r.Intn(2)]
			}
			sc.Poison = poison
			if poison == "upstream-alias" {
				msg.UpstreamOrAlias = message.UpstreamAlias(900000 + uint32(i))
			} else if upKnown && r.Intn(100) < s.AliasPct {
				msg.UpstreamOrAlias = message.UpstreamAlias(upAlias)
				sc.UpAlias = true
			} else {
				cp := info
				msg.UpstreamOrAlias = &cp
			}
			ng := 1 + r.Intn(3)
			for g := 0; g < ng; g++ {
				id := ids[r.Intn(len(ids))]
				grp := Group{ID: id}
				mg := &message.DataPointGroup{}
				if poison == "data-id-alias" && g == 0 {
					mg.DataIDOrAlias = message.DataIDAlias(800000 + uint32(i))
				} else if a, ok := known[id]; ok && r.Intn(100) < s.AliasPct {
					mg.DataIDOrAlias = message.DataIDAlias(a)
					grp.AsAlias = true
				} else {
					cp := id
					mg.DataIDOrAlias = &cp
				}
				np := r.Intn(4)
				for p := 0; p < np; p++ {
					counter++
					size := []int{0, 1, 50, 300}[r.Intn(4)]
					pl := uplib.Payload(7, counter, size)
					el := uplib.Elapsed(7, counter)
					mg.DataPoints = append(mg.DataPoints, &message.DataPoint{ElapsedTime: el, Payload: pl})
					grp.Points = append(grp.Points, uplib.PKey{ID: id, Elapsed: el, Sum: uplib.Sum(pl), Len: len(pl)})
				}
				msg.StreamChunk.DataPointGroups = append(msg.StreamChunk.DataPointGroups, mg)
				sc.Groups = append(sc.Groups, grp)
			}
			if useUnrel {
				sc.Delivered = lc.SendUnreliable(msg)
			} else {
				sc.Delivered = lc.Send(msg)
			}
			sentChunks++
			sentMu.Lock()
			out.Sent = append(out.Sent, sc)
			sentMu.Unlock()
			// metadata interleaved
			if metaLeft > 0 && r.Intn(3) == 0 && int64(len(out.MetaSent))-metaConsumed.Load() < 250 {
				metaLeft--
				metaReq += 1
				src := sources[r.Intn(len(sources))]
				name := fmt.Sprintf("bt-%d", metaReq)
				lc.Send(&message.DownstreamMetadata{RequestID: message.RequestID(metaReq), StreamIDAlias: ds.Alias, SourceNodeID: src,
					Metadata: &message.BaseTime{SessionID: "s", Name: name, Priority: 1, ElapsedTime: time.Second, BaseTime: time.Unix(1700000000, 0).UTC()}})
				sentMu.Lock()
				out.MetaSent = append(out.MetaSent, MetaSent{ReqID: metaReq, Source: src, Name: name})
				sentMu.Unlock()
			}
			if r.Intn(20) == 0 {
				time.Sleep(time.Duration(r.Intn(2000)) * time.Microsecond)
			}
		}
	}()

	// metadata reader
	var metaWG sync.WaitGroup
	metaCtx, metaCancel := context.WithCancel(ctx)
	var metaMu sync.Mutex
	metaWG.Add(1)
	go func() {
		defer metaWG.Done()
		for {
			m, err := down.ReadMetadata(metaCtx)
			if err != nil {
				return
			}
			name := ""
			if bt, ok := m.Metadata.(*message.BaseTime); ok {
				name = bt.Name
			}
			metaMu.Lock()
			out.MetaRead = append(out.MetaRead, MetaSent{Source: m.SourceNodeID, Name: name})
			metaMu.Unlock()
			metaConsumed.Add(1)
		}
	}()

	// chunk reader
	limit := total
	if s.CloseAfter >= 0 && s.CloseAfter < total {
		limit = s.CloseAfter
	}
	pr := rand.New(rand.NewSource(s.Seed ^ 0x5bd1))
	stalled := false
	for n := 0; n < limit; n++ {
		if s.Pacing == "bursty" && pr.Intn(s.Burst) == 0 {
			time.Sleep(time.Duration(pr.Intn(3000)) * time.Microsecond)
		}
		if s.ExpiredCtx && pr.Intn(4) == 0 {
			// a polling consumer whose deadline has already passed: it gets either its context's error or a chunk,
			// and a chunk it does not get stays in the stream
			ectx, ecancel := context.WithCancel(ctx)
			ecancel()
			ech, eerr := down.ReadDataPoints(ectx)
			if eerr != nil && errors.Is(eerr, context.Canceled) {
				out.ExpiredReads++
				n--
				continue
			}
			out.ExpiredReadsServed++
			rr := ReadRec{T: w.Clock.Tick()}
			if eerr != nil {
				rr.Err = eerr.Error()
			} else {
				fillRead(&rr, ech)
			}
			out.Reads = append(out.Reads, rr)
			consumed.Add(1)
			continue
		}
		rctx, cancel := context.WithTimeout(ctx, 30*time.Second)
		ch, err := down.ReadDataPoints(rctx)
		timedOut := rctx.Err() != nil
		cancel()
		rr := ReadRec{T: w.Clock.Tick()}
		if err != nil {
			if timedOut {
				close(stopSend)
				sendWG.Wait()
				metaCancel()
				metaWG.Wait()
				// a goroutine dump tells a leaked lock (library goroutines parked on a mutex for the whole 30 s) from mere slowness
				dump := vrun.AllStacks()
				for _, g := range vrun.ParseStacks(dump) {
					if strings.Contains(g.Text, vrun.LibPrefix) && (strings.Contains(g.Header, "sync.Mutex.Lock") || strings.Contains(g.Header, "sync.RWMutex")) {
						return nil, "LOCKLEAK:" + g.InnermostLib() + "\n" + g.Text
					}
				}
				// the sender has finished and nothing is parked on a lock: an item the broker delivered never came
				// out of ReadDataPoints - the oracle judges what was read (loss, order)
				out.ReadStalled = fmt.Sprintf("ReadDataPoints did not return an item within 30 s (read %d of %d)", n, limit)
				stalled = true
				break
			}
			rr.Err = err.Error()
		} else {
			fillRead(&rr, ch)
		}
		out.Reads = append(out.Reads, rr)
		consumed.Add(1)
	}
	if limit < total && !stalled {
		close(stopSend)
	}
	sendWG.Wait()
	// let metadata drain (only when everything was read)
	if limit == total {
		deadline := time.Now().Add(10 * time.Second)
		for metaConsumed.Load() < int64(len(out.MetaSent)) && time.Now().Before(deadline) {
			time.Sleep(200 * time.Microsecond)
		}
	}
	if stalled {
		// the verdict is in (an item never came out); do not spend the case's time budget on a Close that may hang as well
		cctx, ccancel := context.WithTimeout(ctx, 2*time.Second)
		out.CloseErr = down.Close(cctx)
		ccancel()
	} else if s.Closers > 1 {
		// several parts of the application close the stream at the same time; the call that does the closing counts
		errs := make([]error, s.Closers)
		var cwg sync.WaitGroup
		start := make(chan struct{})
		for k := range errs {
			cwg.Add(1)
			go func() {
				defer cwg.Done()
				<-start
				errs[k] = down.Close(ctx)
			}()
		}
		close(start)
		cwg.Wait()
		out.CloseErr = errs[0]
		for _, e := range errs {
			if e == nil {
				out.CloseErr = nil
			}
		}
	} else if s.CloseBudgetMs > 0 {
		cctx, ccancel := context.WithTimeout(ctx, time.Duration(s.CloseBudgetMs)*time.Millisecond)
		out.CloseErr = down.Close(cctx)
		ccancel()
	} else {
		out.CloseErr = down.Close(ctx)
	}
	metaCancel()
	metaWG.Wait()
	out.FinalState = down.State()
	// give the closed notification and the broker a moment
	for i := 0; i < 200 && closedEvents.Load() == 0 && out.CloseErr == nil; i++ {
		time.Sleep(100 * time.Microsecond)
	}
	out.ClosedEvents = int(closedEvents.Load())
	time.Sleep(time.Millisecond)
	out.Ledger = w.B.Ledger()
	w.B.Lock()
	out.Down = *ds
	out.Down.Acks = append([]broker.DownAckRec(nil), ds.Acks...)
	out.Down.DataIDs = map[uint32]message.DataID{}
	for a, id := range ds.DataIDs {
		out.Down.DataIDs[a] = id
	}
	out.Down.Upstreams = map[uint32]message.UpstreamInfo{}
	for a, in := range ds.Upstreams {
		out.Down.Upstreams[a] = in
	}
	out.Notes = append(out.Notes, w.B.Errors...)
	w.B.Unlock()
	return out, ""
}

func groupsEqual(a, b []Group) bool {
	if len(a) != len(b) {
		return false
	}
	for i := range a {
		if a[i].ID != b[i].ID || len(a[i].Points) != len(b[i].Points) {
			return false
		}
		for j := range a[i].Points {
			if a[i].Points[j] != b[i].Points[j] {
				return false
			}
		}
	}
	return true
}

func fillRead(rr *ReadRec, ch *iscp.DownstreamChunk) {
	rr.Seq = ch.SequenceNumber
	rr.Info = *ch.UpstreamInfo
	for _, g := range ch.DataPointGroups {
		grp := Group{ID: *g.DataID}
		for _, p := range g.DataPoints {
			grp.Points = append(grp.Points, uplib.PKey{ID: *g.DataID, Elapsed: p.ElapsedTime, Sum: uplib.Sum(p.Payload), Len: len(p.Payload)})
		}
		rr.Groups = append(rr.Groups, grp)
	}
}

// CheckC03: each delivered item once, in order, correctly resolved; poisoned chunks give an error.
func CheckC03(o *Outcome) *uplib.Finding {
	// expected sequence of read outcomes = sent chunks (that were put on the link) in order
	var exp []SentChunk
	for _, sc := range o.Sent {
		if sc.Delivered {
			exp = append(exp, sc)
		}
	}
	for i, rr := range o.Reads {
		if i >= len(exp) {
			return &uplib.Finding{Clause: "ReadDataPoints returned more items than the broker sent", Key: "read-invented", Detail: map[string]any{"reads": len(o.Reads), "sent": len(exp)}}
		}
		sc := exp[i]
		if sc.Poison != "" {
			if rr.Err == "" {
				return &uplib.Finding{Clause: "a chunk using an alias the client never announced was delivered instead of being reported as an error", Key: "poisoned-chunk-delivered:" + sc.Poison,
					Detail: map[string]any{"index": i, "poison": sc.Poison, "delivered_as": fmt.Sprint(rr.Info, rr.Groups)}}
			}
			continue
		}
		if rr.Err != "" {
			return &uplib.Finding{Clause: "ReadDataPoints failed for a well-formed chunk", Key: "read-error-on-valid-chunk", Detail: map[string]any{"index": i, "err": rr.Err, "upstream_alias_form": sc.UpAlias}}
		}
		if rr.Info != sc.Info {
			return &uplib.Finding{Clause: "a chunk was attributed to another upstream than the one the client announced for that alias", Key: "upstream-misresolved",
				Detail: map[string]any{"index": i, "want": fmt.Sprint(sc.Info), "got": fmt.Sprint(rr.Info), "alias_form": sc.UpAlias}}
		}
		if rr.Seq != sc.Seq {
			return &uplib.Finding{Clause: "chunks returned out of the broker's order, duplicated, lost or with a changed sequence number", Key: "order-or-seq",
				Detail: map[string]any{"index": i, "want_seq": sc.Seq, "got_seq": rr.Seq, "upstream": sc.Info.SessionID}}
		}
		if !groupsEqual(rr.Groups, sc.Groups) {
			return &uplib.Finding{Clause: "data ids, elapsed times or payloads of a returned chunk differ from what the broker sent", Key: "content-or-data-id-misresolved",
				Detail: map[string]any{"index": i, "want": fmt.Sprint(sc.Groups), "got": fmt.Sprint(rr.Groups)}}
		}
	}
	if o.ReadStalled != "" {
		return &uplib.Finding{Clause: "an item the broker delivered never came out of ReadDataPoints (the reader waited 30 s after the sender had finished)", Key: "read-lost:reader-stalled", Detail: map[string]any{"reads": len(o.Reads), "sent": len(exp), "note": o.ReadStalled, "expired_context_reads": o.ExpiredReads}}
	}
	if o.S.CloseAfter < 0 && len(o.Reads) != len(exp) {
		return &uplib.Finding{Clause: "fewer items returned than sent", Key: "read-lost", Detail: map[string]any{"reads": len(o.Reads), "sent": len(exp)}}
	}
	// metadata: per source order, exactly once; ack with the same request id per read
	if o.S.CloseAfter < 0 {
		per := map[string][]string{}
		for _, m := range o.MetaSent {
			per[m.Source] = append(per[m.Source], m.Name)
		}
		got := map[string][]string{}
		for _, m := range o.MetaRead {
			got[m.Source] = append(got[m.Source], m.Name)
		}
		for src, want := range per {
			if fmt.Sprint(want) != fmt.Sprint(got[src]) {
				return &uplib.Finding{Clause: "metadata of one source node not returned exactly once in the broker's order", Key: "metadata-order-or-loss", Detail: map[string]any{"source": src, "want": want, "got": got[src]}}
			}
		}
		for src := range got {
			if _, ok := per[src]; !ok {
				return &uplib.Finding{Clause: "metadata returned for a source the broker never sent", Key: "metadata-invented", Detail: map[string]any{"source": src}}
			}
		}
		acks := map[uint32]int{}
		for _, e := range o.Ledger {
			if a, ok := e.Msg.(*message.DownstreamMetadataAck); ok && e.Dir == memnet.C2S {
				acks[uint32(a.RequestID)]++
			}
		}
		for _, m := range o.MetaSent {
			if acks[m.ReqID] != 1 {
				return &uplib.Finding{Clause: "a consumed metadata item was not acknowledged exactly once with its request id", Key: "metadata-ack-count", Detail: map[string]any{"request_id": m.ReqID, "acks": acks[m.ReqID]}}
			}
		}
	}
	return nil
}

// CheckC04: acknowledgements and alias announcements.
func CheckC04(o *Outcome) *uplib.Finding {
	type rk struct {
		id  uuid.UUID
		seq uint32
	}
	consumed := map[rk]int{}
	for _, rr := range o.Reads {
		if rr.Err == "" {
			consumed[rk{rr.Info.StreamID, rr.Seq}]++
		}
	}
	acked := map[rk]int{}
	lastAckID := uint32(0)
	upAliasOf := map[message.UpstreamInfo][]uint32{}
	aliasUp := map[uint32]message.UpstreamInfo{}
	idAliasOf := map[message.DataID][]uint32{}
	aliasID := map[uint32]message.DataID{}
	for a, id := range o.PreRegIDs {
		idAliasOf[id] = append(idAliasOf[id], a)
		aliasID[a] = id
	}
	closeIdx, lastAckIdx := -1, -1
	ledgerIdx := 0
	for i, e := range o.Ledger {
		if e.Dir != memnet.C2S {
			continue
		}
		switch m := e.Msg.(type) {
		case *message.DownstreamCloseRequest:
			if m.StreamID == o.DownID {
				closeIdx = i
			}
		case *message.DownstreamChunkAck:
			if m.StreamIDAlias != o.Down.Alias {
				continue
			}
			lastAckIdx = i
			ledgerIdx++
			if ledgerIdx == 1 && m.AckID != 1 {
				return &uplib.Finding{Clause: "ack ids do not start at 1", Key: "ack-id-start", Detail: map[string]any{"first": m.AckID}}
			}
			if m.AckID <= lastAckID {
				return &uplib.Finding{Clause: "ack ids do not increase strictly", Key: "ack-id-not-increasing", Detail: map[string]any{"previous": lastAckID, "got": m.AckID}}
			}
			lastAckID = m.AckID
			for _, r := range m.Results {
				acked[rk{r.StreamIDOfUpstream, r.SequenceNumberInUpstream}]++
			}
			for a, in := range m.UpstreamAliases {
				if prev, ok := aliasUp[a]; ok {
					return &uplib.Finding{Clause: "an upstream alias was announced twice / given to two upstreams", Key: "upstream-alias-reused", Detail: map[string]any{"alias": a, "first": fmt.Sprint(prev), "second": fmt.Sprint(*in)}}
				}
				aliasUp[a] = *in
				upAliasOf[*in] = append(upAliasOf[*in], a)
			}
			for a, id := range m.DataIDAliases {
				if prev, ok := aliasID[a]; ok {
					return &uplib.Finding{Clause: "a data id alias was announced twice / given to two data ids", Key: "data-id-alias-reused", Detail: map[string]any{"alias": a, "first": prev.String(), "second": id.String()}}
				}
				aliasID[a] = *id
				idAliasOf[*id] = append(idAliasOf[*id], a)
			}
		}
	}
	for in, as := range upAliasOf {
		if len(as) > 1 {
			sort.Slice(as, func(i, j int) bool { return as[i] < as[j] })
			return &uplib.Finding{Clause: "one upstream received two aliases (announced more than once)", Key: "upstream-two-aliases", Detail: map[string]any{"upstream": fmt.Sprint(in), "aliases": as}}
		}
	}
	for id, as := range idAliasOf {
		if len(as) > 1 {
			return &uplib.Finding{Clause: "one data id received two aliases", Key: "data-id-two-aliases", Detail: map[string]any{"data_id": id.String(), "aliases": as}}
		}
	}
	for k, n := range acked {
		if consumed[k] == 0 {
			return &uplib.Finding{Clause: "an acknowledgement result names a chunk that was never returned by ReadDataPoints (wrong upstream id or sequence number)", Key: "ack-for-unconsumed", Detail: map[string]any{"upstream": k.id.String(), "seq": k.seq}}
		}
		if n > consumed[k] {
			return &uplib.Finding{Clause: "a consumed chunk was acknowledged more than once", Key: "chunk-acked-twice", Detail: map[string]any{"upstream": k.id.String(), "seq": k.seq, "acks": n}}
		}
	}
	if o.CloseErr == nil {
		for k, n := range consumed {
			if acked[k] != n {
				return &uplib.Finding{Clause: "a chunk returned by ReadDataPoints was not acknowledged although Close succeeded", Key: "chunk-never-acked", Detail: map[string]any{"upstream": k.id.String(), "seq": k.seq, "consumed": n, "acked": acked[k]}}
			}
		}
		if closeIdx >= 0 && lastAckIdx > closeIdx {
			return &uplib.Finding{Clause: "an acknowledgement was sent after the close request", Key: "ack-after-close-request", Detail: nil}
		}
		// every upstream / data id seen in full form by a successful or failed read must have been announced
		seenUp := map[message.UpstreamInfo]bool{}
		seenID := map[message.DataID]bool{}
		var exp []SentChunk
		for _, sc := range o.Sent {
			if sc.Delivered {
				exp = append(exp, sc)
			}
		}
		for i := range o.Reads {
			if i >= len(exp) {
				break
			}
			sc := exp[i]
			if !sc.UpAlias && sc.Poison != "upstream-alias" {
				seenUp[sc.Info] = true
			}
			for gi, g := range sc.Groups {
				if !g.AsAlias && !(sc.Poison == "data-id-alias" && gi == 0) {
					seenID[g.ID] = true
				}
			}
		}
		for in := range seenUp {
			if len(upAliasOf[in]) != 1 {
				return &uplib.Finding{Clause: "an upstream first seen in full form was not announced exactly once", Key: "upstream-not-announced", Detail: map[string]any{"upstream": fmt.Sprint(in), "aliases": upAliasOf[in]}}
			}
		}
		for id := range seenID {
			if len(idAliasOf[id]) != 1 {
				return &uplib.Finding{Clause: "a data id first seen in full form was not announced exactly once", Key: "data-id-not-announced", Detail: map[string]any{"data_id": id.String(), "aliases": idAliasOf[id]}}
			}
		}
		// final State() agrees with what was announced
		if o.FinalState != nil {
			for a, in := range o.FinalState.UpstreamInfos {
				if got, ok := aliasUp[a]; !ok || got != *in {
					return &uplib.Finding{Clause: "State() lists an upstream alias that was not announced that way", Key: "state-upstream-alias-mismatch", Detail: map[string]any{"alias": a, "state": fmt.Sprint(*in), "announced": fmt.Sprint(got)}}
				}
			}
			for a, id := range o.FinalState.DataIDAliases {
				if got, ok := aliasID[a]; !ok || got != *id {
					return &uplib.Finding{Clause: "State() lists a data id alias that was not announced that way", Key: "state-data-id-alias-mismatch", Detail: map[string]any{"alias": a, "state": id.String(), "announced": got.String()}}
				}
			}
			if o.FinalState.LastIssuedChunkAckID != lastAckID {
				return &uplib.Finding{Clause: "State() last issued ack id differs from the last ack id on the wire", Key: "state-ack-id-mismatch", Detail: map[string]any{"state": o.FinalState.LastIssuedChunkAckID, "wire": lastAckID}}
			}
		}
	}
	return nil
}
