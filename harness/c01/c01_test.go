// C01 - upstream delivers every accepted data point exactly once, intact and accounted (connection stays up).
package c01

import (
	"context"
	"fmt"
	"os"
	"runtime"
	"sync"
	"testing"
	"time"

	"github.com/aptpod/iscp-go/iscp"
	"github.com/aptpod/iscp-go/message"

	"verif/harness/broker"
	"verif/harness/uplib"
	"verif/harness/vrun"
	"verif/harness/world"
)

type scenario struct {
	Flush      string `json:"flush"`
	FlushMs    int    `json:"flush_ms,omitempty"`
	FlushSize  uint32 `json:"flush_size,omitempty"`
	QoS        string `json:"qos"`
	Unreliable bool   `json:"datagram_side_channel"`
	Encoding   string `json:"encoding"`
	Ack        string `json:"ack"`
	AckK       int    `json:"ack_k,omitempty"`
	AckDup     bool   `json:"ack_dup,omitempty"`
	AckReverse bool   `json:"ack_reverse,omitempty"`
	AckCodes   []int  `json:"ack_codes,omitempty"`
	Alias      string `json:"alias"`
	AliasN     int    `json:"alias_n,omitempty"`
	Writers    int    `json:"writers"`
	IDPool     int    `json:"id_pool"`
	Ops        int    `json:"ops_per_writer"`
	Overlap    bool   `json:"close_overlaps_writers"`
	Tight      bool   `json:"tight_writers,omitempty"`
	Reuse      bool   `json:"caller_reuses_its_slice,omitempty"`
	SlowStore  int    `json:"slow_sent_storage_us,omitempty"`
	CloseUs    int    `json:"close_after_us,omitempty"`
	Procs      int    `json:"gomaxprocs"`
}

func gen(c *vrun.Case) scenario {
	r := c.Rng
	s := scenario{}
	switch r.Intn(5) {
	case 0:
		s.Flush = "none"
	case 1:
		s.Flush = "interval"
		s.FlushMs = 2 + r.Intn(49)
	case 2:
		s.Flush = "size"
		s.FlushSize = []uint32{0, 1, 64, 1000, 10000}[r.Intn(5)]
	case 3:
		s.Flush = "interval-or-size"
		s.FlushMs = 2 + r.Intn(49)
		s.FlushSize = []uint32{0, 1, 64, 1000, 10000}[r.Intn(5)]
	case 4:
		s.Flush = "immediate"
	}
	s.QoS = []string{"unreliable", "reliable", "partial"}[r.Intn(3)]
	s.Unreliable = r.Intn(2) == 0
	s.Encoding = []string{"proto", "json"}[r.Intn(2)]
	switch r.Intn(4) {
	case 0, 1:
		s.Ack = "immediate"
	case 2:
		s.Ack = "batch"
		s.AckK = 2 + r.Intn(4)
	case 3:
		s.Ack = "batch"
		s.AckK = 2 + r.Intn(4)
		s.AckReverse = true
	}
	s.AckDup = r.Intn(5) == 0
	if r.Intn(3) == 0 {
		s.AckCodes = []int{int(message.ResultCodeSucceeded), int(message.ResultCodeInvalidPayload), int(message.ResultCodeSucceeded), int(message.ResultCodeProcessFailed)}
	}
	switch r.Intn(3) {
	case 0:
		s.Alias = "never"
	case 1:
		s.Alias = "at-open"
	case 2:
		s.Alias = "after-nth"
		s.AliasN = 1 + r.Intn(3)
	}
	s.Writers = 1 + r.Intn(4)
	s.IDPool = 1 + r.Intn(6)
	s.Ops = 5 + r.Intn(40)
	s.Overlap = r.Intn(6) == 0
	s.Procs = []int{1, 2, 4, 16}[r.Intn(4)]
	s.Reuse = r.Intn(3) == 0 && os.Getenv("VERIF_NO_SLICE_REUSE") == ""
	if r.Intn(4) == 0 {
		s.SlowStore = []int{50, 300, 1500}[r.Intn(3)]
	}
	return s
}

func qos(s string) message.QoS {
	switch s {
	case "reliable":
		return message.QoSReliable
	case "partial":
		return message.QoSPartial
	}
	return message.QoSUnreliable
}

var procsMu sync.RWMutex // GOMAXPROCS is process global: cases that change it run exclusively

func TestC01Conservation(t *testing.T) {
	e := vrun.LoadEnv()
	meta := vrun.Meta{Property: "C01", Workload: "TestC01Conservation", Total: e.Pick(300, 40000),
		Rule: "each case draws (flush policy and parameter, QoS, datagram side channel, encoding, ack mode immediate/batched/reversed/duplicated, result codes, alias policy never/at-open/after-nth, 1-4 writer goroutines, id pool 1-6 plus fresh ids, 5-44 operations per writer mixing Write of 0-8 points with payload sizes 0/1/100/64KiB, Flush and yields); writers are joined and the stream is closed (1 in 6 cases lets Close overlap the writers; 1 in 3 cases the caller refills its argument slice with poison points as soon as WriteDataPoints returned). Oracle: broker-side ledger decoded through the alias table the broker issued vs. the recorded writes (multiset, per-writer per-id order, sequence numbers 1..N, close totals, nothing after the close request) + hook multisets at the closed notification. non-trivial = >=2 chunks and (>=2 writers or alias switch-over observed or batched/reordered acks); distinct = scenario tuple x chunk-boundary signature",
		Assumptions: []string{"hook completeness is evaluated when the closed notification has been delivered (hooks are dispatched asynchronously in FIFO order before it)",
			"the broker keeps fewer than 1024 acks outstanding (the documented buffering) - at most ~200 chunks per case",
			"per-data-id order is judged along (sequence number, position in chunk), not arrival order"}}
	vrun.Loop(t, meta, 0, func(c *vrun.Case) vrun.Result {
		s := gen(c)
		var res vrun.Result
		ok, dump := vrun.Watchdog(120*time.Second, func() { res = runCase(c, s) })
		if !ok {
			r := vrun.WatchdogVerdict("the case never finished")
			r.Desc = s
			if r.Verdict == vrun.Inconclusive {
				r.Witness = map[string]any{"dump_head": head(dump, 6000)}
			}
			return r
		}
		res.Desc = s
		return res
	})
}

// spinFor waits without parking the goroutine (a sleep of a few microseconds rounds up to the timer granularity).
func spinFor(d time.Duration) {
	t0 := time.Now()
	for time.Since(t0) < d {
		runtime.Gosched()
	}
}

func TestC01CloseRace(t *testing.T) {
	e := vrun.LoadEnv()
	meta := vrun.Meta{Property: "C01", Workload: "TestC01CloseRace", Total: e.Pick(300, 20000),
		Rule:        "Close races 2-8 writer goroutines that write in a tight loop (no sleeps, no flushes); Close is called 0-3000 microseconds after the writers start. Every write that returned nil - before or while Close ran - is judged for full conservation when Close returned nil (multiset, order, sequence numbers, close totals, nothing after the close request). non-trivial = at least one write returned nil after Close was called or failed because of the drain; distinct = scenario tuple x number of writes accepted during Close",
		Assumptions: []string{"Close succeeded (cases where Close reports an error are inconclusive: the statement conditions on a successful Close)"}}
	vrun.Loop(t, meta, 0, func(c *vrun.Case) vrun.Result {
		s := gen(c)
		s.Overlap, s.Tight = true, true
		s.Writers = 2 + c.Rng.Intn(7)
		s.Ops = 50 + c.Rng.Intn(300)
		s.CloseUs = c.Rng.Intn(3000)
		if c.Rng.Intn(3) == 0 {
			s.CloseUs = c.Rng.Intn(200)
		}
		var res vrun.Result
		ok, dump := vrun.Watchdog(120*time.Second, func() { res = runCase(c, s) })
		if !ok {
			r := vrun.WatchdogVerdict("the case never finished")
			r.Desc = s
			if r.Verdict == vrun.Inconclusive {
				r.Witness = map[string]any{"dump_head": head(dump, 6000)}
			}
			return r
		}
		res.Desc = s
		return res
	})
}

func closeTimeout(s scenario) time.Duration {
	if s.Tight {
		return 3 * time.Second
	}
	return 60 * time.Second
}

func head(s string, n int) string {
	if len(s) > n {
		return s[:n]
	}
	return s
}

func runCase(c *vrun.Case, s scenario) vrun.Result {
	if s.Procs != 16 {
		procsMu.Lock()
		old := runtime.GOMAXPROCS(s.Procs)
		defer func() { runtime.GOMAXPROCS(old); procsMu.Unlock() }()
	} else {
		procsMu.RLock()
		defer procsMu.RUnlock()
	}
	w := world.New()
	defer w.Close()
	w.Net.WithUnreliable = s.Unreliable
	p := &w.B.P
	switch s.Ack {
	case "batch":
		p.Ack = broker.AckBatch
		p.AckBatchK = s.AckK
	}
	p.AckDup, p.AckReverse = s.AckDup, s.AckReverse
	for _, cd := range s.AckCodes {
		p.AckCodes = append(p.AckCodes, message.ResultCode(cd))
	}
	switch s.Alias {
	case "at-open":
		p.Alias = broker.AliasAtOpen
	case "after-nth":
		p.Alias = broker.AliasAfterNth
		p.AliasN = s.AliasN
	}
	w.Start()
	enc := iscp.EncodingNameProtobuf
	if s.Encoding == "json" {
		enc = iscp.EncodingNameJSON
	}
	copts := []iscp.ConnOption{iscp.WithConnEncoding(enc), iscp.WithConnPingInterval(time.Hour)}
	if s.SlowStore > 0 {
		d := time.Duration(s.SlowStore) * time.Microsecond
		copts = append(copts, iscp.VerifWithSentStorage(uplib.NewSlowStorage(d, d, d)))
	}
	conn, err := w.Connect(copts...)
	if err != nil {
		return vrun.Inconcl("connect failed: " + err.Error())
	}
	defer conn.Close(context.Background())

	// batched acks: flush the remainder periodically so that every chunk is eventually acknowledged
	stopFlush := make(chan struct{})
	var fwg sync.WaitGroup
	if s.Ack == "batch" {
		fwg.Add(1)
		go func() {
			defer fwg.Done()
			for {
				select {
				case <-stopFlush:
					return
				case <-time.After(3 * time.Millisecond):
					if lc := w.B.CurrentLink(); lc != nil {
						lc.FlushAcks()
					}
				}
			}
		}()
	}
	defer func() { close(stopFlush); fwg.Wait() }()

	pool := make([]message.DataID, s.IDPool)
	for i := range pool {
		pool[i] = message.DataID{Name: fmt.Sprintf("id%d", i), Type: []string{"float64", "bytes", "string"}[i%3]}
	}
	rec := uplib.NewRecorder(w.Clock)
	rec.ReuseSlice = s.Reuse
	opts := rec.Options()
	opts = append(opts, iscp.WithUpstreamQoS(qos(s.QoS)), iscp.WithUpstreamCloseTimeout(closeTimeout(s)))
	switch s.Flush {
	case "none":
		opts = append(opts, iscp.WithUpstreamFlushPolicyNone())
	case "interval":
		opts = append(opts, iscp.WithUpstreamFlushPolicyIntervalOnly(time.Duration(s.FlushMs)*time.Millisecond))
	case "size":
		opts = append(opts, iscp.WithUpstreamFlushPolicyBufferSizeOnly(s.FlushSize))
	case "interval-or-size":
		opts = append(opts, iscp.WithUpstreamFlushPolicyIntervalOrBufferSize(time.Duration(s.FlushMs)*time.Millisecond, s.FlushSize))
	case "immediate":
		opts = append(opts, iscp.WithUpstreamFlushPolicyImmediately())
	}
	if s.Alias == "at-open" {
		var ids []*message.DataID
		for i := range pool {
			if i%2 == 0 {
				id := pool[i]
				ids = append(ids, &id)
			}
		}
		opts = append(opts, iscp.WithUpstreamDataIDs(ids))
	}
	ctx := context.Background()
	octx, ocancel := context.WithTimeout(ctx, 30*time.Second) // released right after the open
	up, err := conn.OpenUpstream(octx, "sess", opts...)
	ocancel()
	if err != nil {
		return vrun.Inconcl("open upstream failed: " + err.Error())
	}

	// writers
	type plan struct {
		ops [][3]int // kind, a, b
	}
	plans := make([]plan, s.Writers)
	seeds := make([]int64, s.Writers)
	for i := range plans {
		seeds[i] = c.Rng.Int63()
	}
	var wg sync.WaitGroup
	var flushErrs sync.Map
	start := make(chan struct{})
	for wi := 0; wi < s.Writers; wi++ {
		wg.Add(1)
		go func(wi int) {
			defer wg.Done()
			r := newRng(seeds[wi])
			counter := 0
			fresh := 0
			<-start
			for op := 0; op < s.Ops; op++ {
				k := r.Intn(10)
				if s.Tight && k >= 7 {
					k = 0
				}
				switch {
				case k < 7:
					n := []int{0, 1, 1, 1, 2, 3, 5, 8}[r.Intn(8)]
					var id message.DataID
					if r.Intn(8) == 0 {
						fresh++
						id = message.DataID{Name: fmt.Sprintf("fresh-w%d-%d", wi, fresh), Type: "t"}
					} else {
						id = pool[r.Intn(len(pool))]
					}
					var cs, sz []int
					for j := 0; j < n; j++ {
						counter++
						cs = append(cs, counter)
						size := []int{0, 1, 100, 100, 37}[r.Intn(5)]
						if r.Intn(60) == 0 {
							size = 64 << 10
						}
						sz = append(sz, size)
					}
					rec.Write(ctx, up, wi+1, id, cs, sz)
				case k < 9:
					if err := up.Flush(ctx); err != nil {
						flushErrs.Store(err.Error(), true)
					}
				default:
					if r.Intn(2) == 0 {
						runtime.Gosched()
					} else {
						time.Sleep(time.Duration(r.Intn(3)) * time.Millisecond)
					}
				}
			}
		}(wi)
	}
	_ = plans
	close(start)
	var closeErr error
	closeCalledAt := int64(1) << 62
	if s.Overlap {
		if s.Tight {
			spinFor(time.Duration(s.CloseUs) * time.Microsecond)
		} else {
			time.Sleep(time.Duration(c.Rng.Intn(5)) * time.Millisecond)
		}
		closeCalledAt = w.Clock.Tick()
		closeErr = up.Close(ctx)
		wg.Wait()
	} else {
		wg.Wait()
		closeErr = up.Close(ctx)
	}
	if closeErr != nil {
		// the statement conditions on a successful Close
		return vrun.Inconcl("Close returned an error on a healthy connection: " + closeErr.Error())
	}
	hooksAtCloseReturn := 0
	{
		_, sh, ah, _ := rec.Snapshot()
		hooksAtCloseReturn = len(sh) + len(ah)
	}
	noClosedEvent := false
	func() {
		// Close returns nil only after the broker's close response, so the broker has the close request by now. If it
		// has not (2 s later), there is no point in waiting 30 s for the notification: the conservation oracle below
		// reports the missing close request.
		deadline := time.After(30 * time.Second)
		tick := time.NewTicker(100 * time.Millisecond)
		defer tick.Stop()
		t0 := time.Now()
		for {
			select {
			case <-rec.ClosedCh:
				return
			case <-deadline:
				noClosedEvent = true
				return
			case <-tick.C:
				if time.Since(t0) > 2*time.Second {
					if ups := w.B.Ups(); len(ups) == 1 {
						w.B.Lock()
						missing := ups[0].CloseReq == nil
						w.B.Unlock()
						if missing {
							noClosedEvent = true
							return
						}
					}
				}
			}
		}
	}()
	// let the broker drain anything still queued on the link
	time.Sleep(2 * time.Millisecond)
	writes, send, acks, closed := rec.Snapshot()
	ups := w.B.Ups()
	if len(ups) != 1 {
		return vrun.Inconcl(fmt.Sprintf("broker saw %d upstreams", len(ups)))
	}
	w.B.Lock()
	us := *ups[0]
	us.Chunks = append([]broker.ChunkRec(nil), ups[0].Chunks...)
	us.AcksSent = append([]broker.AckRec(nil), ups[0].AcksSent...)
	w.B.Unlock()
	ledger := w.B.Ledger()

	mk := func(f *uplib.Finding) vrun.Result {
		return vrun.Violation(f.Clause, f.Key, map[string]any{"detail": f.Detail, "writes": len(writes), "chunks": len(us.Chunks), "broker_notes": w.B.Errors})
	}
	// Every write that returned nil counts, whether it returned before Close was called or while Close ran
	// ("for all interleavings of Write/Flush/Close from one or more goroutines").
	suffix := ""
	if s.Tight {
		suffix = ":close-racing-writers"
	} else if s.Overlap {
		suffix = ":close-overlapping-writers"
	}
	if f := uplib.CheckConservation(writes, &us, uplib.Opts{RequireAll: true, CheckClose: true}); f != nil {
		f.Key += suffix
		return mk(f)
	}
	if f := uplib.ChunkAfterClose(ledger, &us); f != nil {
		f.Key += suffix
		return mk(f)
	}
	if noClosedEvent {
		return vrun.Inconcl("closed notification not delivered within 30 s after a successful Close")
	}
	if len(closed) != 1 {
		return vrun.Violation("closed notification delivered a number of times other than once", "closed-event-count", map[string]any{"times": len(closed)})
	}
	if !s.Overlap {
		if f := uplib.CheckHooks(&us, send, acks); f != nil {
			return mk(f)
		}
	}
	// reach
	aliasSwitch := false
	for _, ch := range us.Chunks {
		for _, g := range ch.Raw.StreamChunk.DataPointGroups {
			if _, ok := g.DataIDOrAlias.(message.DataIDAlias); ok {
				aliasSwitch = true
			}
		}
	}
	npoints := 0
	boundary := uint64(1469598103934665603)
	for _, ch := range us.Chunks {
		n := 0
		for _, g := range ch.Groups {
			n += len(g)
		}
		npoints += n
		boundary = (boundary ^ uint64(n+1)) * 1099511628211
	}
	nontrivial := len(us.Chunks) >= 2 && (s.Writers >= 2 || aliasSwitch || s.Ack == "batch")
	duringClose, refused := 0, 0
	if s.Tight {
		for _, wr := range writes {
			if wr.Err == "" && wr.Return > closeCalledAt {
				duringClose++
			}
			if wr.Err != "" {
				refused++
			}
		}
		nontrivial = duringClose > 0 || refused > 0
	}
	sig := fmt.Sprintf("%s/%d/%d|%s|%v|%s|%s/%v/%v|%s/%d|w%d|ov%v|%x", s.Flush, s.FlushMs, s.FlushSize, s.QoS, s.Unreliable, s.Encoding, s.Ack, s.AckDup, s.AckReverse, s.Alias, s.AliasN, s.Writers, s.Overlap, boundary)
	if s.Tight {
		sig += fmt.Sprintf("|dc%d", duringClose)
	}
	r := vrun.Hold(sig, nontrivial)
	if s.Tight {
		r.Stat("writes_returned_nil_while_close_ran", int64(duringClose))
		r.Stat("writes_refused_by_the_drain", int64(refused))
	}
	r.Stat("writes", int64(len(writes)))
	r.Stat("points_received", int64(npoints))
	r.Stat("chunks", int64(len(us.Chunks)))
	r.Stat("acks_sent", int64(len(us.AcksSent)))
	r.Stat("ack_hook_calls", int64(len(acks)))
	r.Stat("send_hook_calls", int64(len(send)))
	r.Stat("hooks_pending_at_close_return", int64(len(send)+len(acks)-hooksAtCloseReturn))
	if aliasSwitch {
		r.Stat("cases_with_alias_form_chunks", 1)
	}
	if s.Overlap {
		r.Stat("cases_close_overlapping_writers", 1)
	}
	r.AddSet("policy_tuples", fmt.Sprintf("%s|%s|%s|%s", s.Flush, s.QoS, s.Ack, s.Alias))
	return r
}
