package c01

import "math/rand"

func newRng(seed int64) *rand.Rand { return rand.New(rand.NewSource(seed)) }
