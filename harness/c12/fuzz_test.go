package c12

import (
	"os"
	"strings"
	"testing"
)

// Native fuzz targets. They are only run by TestC12Fuzz (thorough tier), which builds an instrumented copy of this test
// binary and drives it with an iteration budget. A finding fails the target with a line "C12FINDING key=<key> clause=<clause>";
// keys listed in C12_FUZZ_IGNORE_KEYS (already reported by the driving case) are skipped so that exploration goes on.
func fuzzTarget(f *testing.F, encName string) {
	e := encByName(encName)
	seeds, _ := buildSeeds()
	for _, s := range seeds {
		if s.Enc == encName {
			f.Add(s.Bytes)
		}
	}
	ignore := map[string]bool{}
	for _, k := range strings.Split(os.Getenv("C12_FUZZ_IGNORE_KEYS"), ",") {
		if k != "" {
			ignore[k] = true
		}
	}
	f.Fuzz(func(t *testing.T, b []byte) {
		if len(b) > maxInput {
			return
		}
		_, fd := judge(e, "fuzz", b)
		if fd != nil && !ignore[fd.Key] {
			t.Fatalf("C12FINDING key=%s clause=%s why=%v", fd.Key, fd.Clause, fd.Witness["why"])
		}
	})
}

func FuzzC12Proto(f *testing.F) { fuzzTarget(f, "protobuf") }
func FuzzC12JSON(f *testing.F)  { fuzzTarget(f, "json") }
