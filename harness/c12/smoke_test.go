package c12

import (
	"fmt"
	"testing"
)

func TestSmoke(t *testing.T) {
	seeds, failed := buildSeeds()
	fmt.Println("seeds", len(seeds), "failed", failed)
	types := map[string]bool{}
	for _, s := range seeds {
		types[msgType(s.Msg)] = true
		out, f := judge(encByName(s.Enc), "seed", s.Bytes)
		if f != nil {
			fmt.Println("FINDING", s.Enc, s.Name, f.Key, f.Witness["why"])
			continue
		}
		if out.Kind != "message" {
			fmt.Println("seed rejected", s.Enc, s.Name, out.Err)
		}
		if s.Enc == "json" && (s.Name == "DownstreamChunkAck/rich" || s.Name == "UpstreamChunk/typ" || s.Name == "UpstreamOpenResponse/rich"|| s.Name == "ConnectRequest/rich") {
			fmt.Println(string(s.Bytes))
		}
	}
	fmt.Println("types", len(types), len(allMessageTypes))
}
