package c12

import (
	"bytes"
	"encoding/json"
	"fmt"
	"io"
)

// An order-preserving JSON tree whose scalars are kept as raw text, so that the corruptor can inject text that is
// not valid JSON (raw invalid UTF-8, leading zeros, ...) at a chosen place of an otherwise valid document.

type jnode struct {
	Kind byte     // 'o' object, 'a' array, 'r' raw scalar text (number, string with quotes, true/false/null, or garbage)
	Keys []string // raw key text WITH quotes (so keys can be corrupted too)
	Vals []*jnode // object values / array elements
	Raw  string
}

func jraw(s string) *jnode { return &jnode{Kind: 'r', Raw: s} }

func jstr(s string) *jnode {
	b, _ := json.Marshal(s)
	return jraw(string(b))
}

func parseJSONTree(b []byte) (*jnode, error) {
	dec := json.NewDecoder(bytes.NewReader(b))
	dec.UseNumber()
	n, err := parseJNode(dec)
	if err != nil {
		return nil, err
	}
	if _, err := dec.Token(); err != io.EOF {
		return nil, fmt.Errorf("trailing data")
	}
	return n, nil
}

func scalarNode(tok json.Token) *jnode {
	switch v := tok.(type) {
	case json.Number:
		return jraw(v.String())
	case string:
		return jstr(v)
	case bool:
		if v {
			return jraw("true")
		}
		return jraw("false")
	case nil:
		return jraw("null")
	}
	return jraw("null")
}

func parseJNode(dec *json.Decoder) (*jnode, error) {
	tok, err := dec.Token()
	if err != nil {
		return nil, err
	}
	d, isDelim := tok.(json.Delim)
	if !isDelim {
		return scalarNode(tok), nil
	}
	switch d {
	case '{':
		n := &jnode{Kind: 'o'}
		for dec.More() {
			kt, err := dec.Token()
			if err != nil {
				return nil, err
			}
			ks, _ := kt.(string)
			kb, _ := json.Marshal(ks)
			v, err := parseJNode(dec)
			if err != nil {
				return nil, err
			}
			n.Keys = append(n.Keys, string(kb))
			n.Vals = append(n.Vals, v)
		}
		_, err := dec.Token()
		return n, err
	case '[':
		n := &jnode{Kind: 'a'}
		for dec.More() {
			v, err := parseJNode(dec)
			if err != nil {
				return nil, err
			}
			n.Vals = append(n.Vals, v)
		}
		_, err := dec.Token()
		return n, err
	}
	return nil, fmt.Errorf("unexpected delimiter %v", d)
}

func (n *jnode) write(w *bytes.Buffer) {
	switch n.Kind {
	case 'o':
		w.WriteByte('{')
		for i := range n.Vals {
			if i > 0 {
				w.WriteByte(',')
			}
			w.WriteString(n.Keys[i])
			w.WriteByte(':')
			n.Vals[i].write(w)
		}
		w.WriteByte('}')
	case 'a':
		w.WriteByte('[')
		for i := range n.Vals {
			if i > 0 {
				w.WriteByte(',')
			}
			n.Vals[i].write(w)
		}
		w.WriteByte(']')
	default:
		w.WriteString(n.Raw)
	}
}

func (n *jnode) bytes() []byte {
	var w bytes.Buffer
	n.write(&w)
	return w.Bytes()
}

func (n *jnode) clone() *jnode {
	c := &jnode{Kind: n.Kind, Raw: n.Raw, Keys: append([]string(nil), n.Keys...)}
	for _, v := range n.Vals {
		c.Vals = append(c.Vals, v.clone())
	}
	return c
}

// jsite addresses one value of the tree: the k-th child of a container (or the root when Parent == nil).
type jsite struct {
	Parent *jnode
	Index  int
	Depth  int
}

func (n *jnode) sites() []jsite {
	res := []jsite{{nil, 0, 0}}
	var rec func(p *jnode, d int)
	rec = func(p *jnode, d int) {
		for i, v := range p.Vals {
			res = append(res, jsite{p, i, d})
			if v.Kind != 'r' {
				rec(v, d+1)
			}
		}
	}
	if n.Kind != 'r' {
		rec(n, 1)
	}
	return res
}

// mutateJ clones the tree, lets fn edit the k-th site of the clone, and serializes. fn gets the root holder so that it
// can replace the root too.
func mutateJ(root *jnode, k int, fn func(get func() *jnode, set func(*jnode), s jsite)) []byte {
	c := root.clone()
	holder := &jnode{Kind: 'a', Vals: []*jnode{c}}
	sites := c.sites()
	if k >= len(sites) {
		return nil
	}
	s := sites[k]
	if s.Parent == nil {
		s.Parent, s.Index = holder, 0
	}
	fn(func() *jnode { return s.Parent.Vals[s.Index] }, func(n *jnode) { s.Parent.Vals[s.Index] = n }, s)
	return holder.Vals[0].bytes()
}
