package c12

import (
	"bytes"
	"encoding/hex"
	"fmt"
	"os"
	"os/exec"
	"path/filepath"
	"regexp"
	"runtime"
	"sort"
	"strconv"
	"strings"
	"sync"
	"testing"
	"time"

	"verif/harness/vrun"
)

func harnessDir() string {
	_, file, _, _ := runtime.Caller(0)
	return filepath.Dir(filepath.Dir(file))
}

var (
	fuzzBuildOnce sync.Once
	fuzzBin       string
	fuzzBuildErr  string
)

// buildFuzzBinary builds this package's test binary once more with coverage instrumentation for the fuzzing engine
// (`go test -c -fuzz`); the runner's own build has none.
func buildFuzzBinary(outDir string) (string, string) {
	fuzzBuildOnce.Do(func() {
		bin := filepath.Join(outDir, "c12-fuzz.test")
		args := []string{"test", "-c", "-fuzz=FuzzC12", "-vet=off", "-tags", "verif", "-o", bin}
		if alt := os.Getenv("VERIF_REPO_DIR"); alt != "" {
			abs, _ := filepath.Abs(alt)
			mod, err := os.ReadFile(filepath.Join(harnessDir(), "go.mod"))
			if err == nil {
				sum, _ := os.ReadFile(filepath.Join(harnessDir(), "go.sum"))
				_ = os.WriteFile(filepath.Join(outDir, "fuzz-alt.mod"), bytes.ReplaceAll(mod, []byte("=> /repo"), []byte("=> "+abs)), 0o644)
				_ = os.WriteFile(filepath.Join(outDir, "fuzz-alt.sum"), sum, 0o644)
				args = append(args, "-modfile="+filepath.Join(outDir, "fuzz-alt.mod"))
			}
		}
		args = append(args, "./c12")
		cmd := exec.Command("go1.26", args...)
		cmd.Dir = harnessDir()
		cmd.Env = append(os.Environ(), "GOFLAGS=-mod=mod", "GOPROXY=off", "GOTOOLCHAIN=local")
		out, err := cmd.CombinedOutput()
		if err != nil {
			fuzzBuildErr = fmt.Sprintf("%v: %s", err, clip(string(out), 2000))
			return
		}
		fuzzBin = bin
	})
	return fuzzBin, fuzzBuildErr
}

var (
	reExecs    = regexp.MustCompile(`execs: (\d+)`)
	reNew      = regexp.MustCompile(`new interesting: (\d+) \(total: (\d+)\)`)
	reFinding  = regexp.MustCompile(`C12FINDING key=(\S+) clause=(.*)`)
	reWritten  = regexp.MustCompile(`Failing input written to (\S+)`)
	reFuzzByte = regexp.MustCompile(`(?s)\[\]byte\((.*)\)\s*$`)
)

// readCrasher parses a "go test fuzz v1" corpus file holding one []byte.
func readCrasher(path string) []byte {
	raw, err := os.ReadFile(path)
	if err != nil {
		return nil
	}
	lines := strings.SplitN(string(raw), "\n", 2)
	if len(lines) < 2 {
		return nil
	}
	m := reFuzzByte.FindStringSubmatch(strings.TrimSpace(lines[1]))
	if m == nil {
		return nil
	}
	s, err := strconv.Unquote(m[1])
	if err != nil {
		return nil
	}
	return []byte(s)
}

func TestC12Fuzz(t *testing.T) {
	env := vrun.LoadEnv()
	mustSeeds(t)
	targets := []struct {
		Name, Enc string
		Budget    int
	}{
		{"FuzzC12Proto", "protobuf", env.Pick(300_000, 10_000_000)},
		{"FuzzC12JSON", "json", env.Pick(100_000, 2_000_000)},
	}
	meta := vrun.Meta{Property: "C12", Workload: "TestC12Fuzz", Total: len(targets),
		Rule:        fmt.Sprintf("one case per decoder: the Go fuzzing engine (coverage-guided, instrumented build of this package and the library) mutates from the corpus of valid encodings of every message type for an iteration budget (protobuf %d executions, JSON %d; -fuzztime=Nx, no time budget) with the same decode/round-trip oracle as the other workloads; a failing input is read back from the engine's crasher file and reported as a violation, its key is then ignored and the remaining budget is spent (up to 6 rounds). Non-trivial: the engine executed at least 90%% of the budget and reported new coverage; distinct: target.", targets[0].Budget, targets[1].Budget),
		Assumptions: decodeAssumptions}
	vrun.Loop(t, meta, 2, func(c *vrun.Case) vrun.Result {
		tg := targets[c.Index]
		desc := map[string]any{"target": tg.Name, "budget_execs": tg.Budget}
		bin, berr := buildFuzzBinary(env.OutDir)
		if bin == "" {
			r := vrun.Inconcl("could not build the instrumented fuzz binary: " + berr)
			r.Desc = desc
			return r
		}
		work := filepath.Join(env.OutDir, "fuzz-"+tg.Name)
		_ = os.MkdirAll(work, 0o755)
		remaining := tg.Budget
		var ignore []string
		var execs, newInteresting int64
		found := map[string]map[string]any{}
		for round := 0; round < 6 && remaining > 1000; round++ {
			cmd := exec.Command(bin, "-test.run=^$", "-test.fuzz=^"+tg.Name+"$", fmt.Sprintf("-test.fuzztime=%dx", remaining),
				"-test.fuzzminimizetime=2000x", "-test.fuzzcachedir="+filepath.Join(work, "cache"), "-test.parallel=8", "-test.timeout=0")
			cmd.Dir = work
			cmd.Env = append(os.Environ(), "C12_FUZZ_IGNORE_KEYS="+strings.Join(ignore, ","))
			var out bytes.Buffer
			cmd.Stdout, cmd.Stderr = &out, &out
			if err := cmd.Start(); err != nil {
				r := vrun.Inconcl("could not start the fuzz binary: " + err.Error())
				r.Desc = desc
				return r
			}
			waitErr := make(chan error, 1)
			go func() { waitErr <- cmd.Wait() }()
			var err error
			select {
			case err = <-waitErr:
			case <-time.After(2 * time.Hour):
				_ = cmd.Process.Kill()
				r := vrun.Inconcl("the fuzzing engine did not finish its iteration budget within 2 h")
				r.Desc = desc
				return r
			}
			txt := out.String()
			roundExecs := 0
			if ms := reExecs.FindAllStringSubmatch(txt, -1); len(ms) > 0 {
				roundExecs, _ = strconv.Atoi(ms[len(ms)-1][1])
			}
			if ms := reNew.FindAllStringSubmatch(txt, -1); len(ms) > 0 {
				n, _ := strconv.Atoi(ms[len(ms)-1][1])
				newInteresting += int64(n)
			}
			execs += int64(roundExecs)
			remaining -= roundExecs
			if err == nil {
				break
			}
			// a failure: finding reported by the target, or a worker that died (panic escaping / fatal error)
			key, clause := "", ""
			if m := reFinding.FindStringSubmatch(txt); m != nil {
				key, clause = m[1], strings.TrimSpace(m[2])
			} else {
				site := "unknown"
				for _, ln := range strings.Split(txt, "\n") {
					ln = strings.TrimSpace(ln)
					if strings.HasPrefix(ln, vrun.LibPrefix) {
						if i := strings.LastIndex(ln, "("); i > 0 {
							ln = ln[:i]
						}
						site = strings.TrimPrefix(ln, vrun.LibPrefix)
						break
					}
				}
				key, clause = "fuzz-crash:"+tg.Enc+":"+site, "the fuzz worker died or the target failed outside the oracle (panic escaping the decoder, fatal error, hang)"
				if !strings.Contains(txt, "panic") && !strings.Contains(txt, "fatal error") && !strings.Contains(txt, "terminated unexpectedly") && !strings.Contains(txt, "Failing input written") {
					r := vrun.Inconcl("the fuzz binary failed without a failing input: " + clip(txt, 1500))
					r.Desc = desc
					return r
				}
			}
			w := map[string]any{"target": tg.Name, "clause": clause, "engine_output_tail": clip(tail(txt, 3000), 3000)}
			if m := reWritten.FindStringSubmatch(txt); m != nil {
				p := m[1]
				if !filepath.IsAbs(p) {
					p = filepath.Join(work, p)
				}
				if in := readCrasher(p); in != nil {
					w["input_len"] = len(in)
					w["input_hex"] = clip(hex.EncodeToString(in), 8192)
					if tg.Enc == "json" {
						w["input_text"] = clip(string(in), 4096)
					}
				}
				_ = os.Remove(p) // the engine would replay it first on the next round
			}
			if _, dup := found[key]; dup {
				break // the same key again although ignored: a crash class the target cannot skip; stop here
			}
			found[key] = w
			ignore = append(ignore, key)
		}
		desc["execs"] = execs
		if len(found) > 0 {
			keys := make([]string, 0, len(found))
			for k := range found {
				keys = append(keys, k)
			}
			sort.Strings(keys)
			k := keys[0]
			w := found[k]
			w["all_finding_keys_of_this_case"] = keys
			w["execs"] = execs
			r := vrun.Violation(fmt.Sprint(w["clause"]), k, w)
			r.Desc = desc
			return r
		}
		r := vrun.Hold("fuzz|"+tg.Name, execs >= int64(tg.Budget)*9/10 && newInteresting > 0)
		r.Desc = desc
		r.Stat("fuzz_execs_"+tg.Enc, execs)
		r.Stat("fuzz_new_interesting_inputs_"+tg.Enc, newInteresting)
		return r
	})
}

func tail(s string, n int) string {
	if len(s) <= n {
		return s
	}
	return s[len(s)-n:]
}
