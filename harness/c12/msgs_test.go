package c12

import (
	"bytes"
	"fmt"
	"reflect"
	"strings"
	"time"

	"github.com/aptpod/iscp-go/encoding"
	ejson "github.com/aptpod/iscp-go/encoding/json"
	eproto "github.com/aptpod/iscp-go/encoding/protobuf"
	"github.com/aptpod/iscp-go/message"
	"github.com/google/uuid"
)

// ---- the two decoders under test

type enc struct {
	name string
	e    encoding.Encoding
}

var encs = []enc{
	{"protobuf", eproto.NewEncoding()},
	{"json", ejson.NewEncoding()},
}

func encByName(n string) enc {
	for _, e := range encs {
		if e.name == n {
			return e
		}
	}
	panic("no encoding " + n)
}

// ---- valid messages of every type the converter handles (encoding/convert/proto_to_wire.go: 29 oneof cases)

type seedMsg struct {
	Name string // <type>/<variant>
	Msg  message.Message
}

func u(s string) uuid.UUID { return uuid.MustParse(s) }

var (
	uA = u("11111111-2222-3333-4444-555555555555")
	uB = u("a0a1a2a3-b0b1-c0c1-d0d1-e0e1e2e3e4e5")
	uZ = uuid.UUID{}
	uF = u("ffffffff-ffff-ffff-ffff-ffffffffffff")
)

func tm(ns int64) time.Time { return time.Unix(0, ns).UTC() }

func dataIDs(n int) []*message.DataID {
	res := make([]*message.DataID, 0, n)
	for i := 0; i < n; i++ {
		res = append(res, &message.DataID{Name: fmt.Sprintf("name/%d", i), Type: fmt.Sprintf("type%d", i)})
	}
	return res
}

func aliasMap(n int) map[uint32]*message.DataID {
	res := map[uint32]*message.DataID{}
	for i := 0; i < n; i++ {
		res[uint32(i*7+1)] = &message.DataID{Name: fmt.Sprintf("n%d", i), Type: "t"}
	}
	return res
}

func filters() []*message.DownstreamFilter {
	return []*message.DownstreamFilter{
		{SourceNodeID: "src-1", DataFilters: []*message.DataFilter{{Name: "#", Type: "#"}, {Name: "a/b", Type: "string"}}},
		{SourceNodeID: "", DataFilters: []*message.DataFilter{}},
	}
}

func chunk(seq uint32, groups, points, payload int) *message.StreamChunk {
	sc := &message.StreamChunk{SequenceNumber: seq, DataPointGroups: []*message.DataPointGroup{}}
	for g := 0; g < groups; g++ {
		dpg := &message.DataPointGroup{DataPoints: []*message.DataPoint{}}
		if g%2 == 0 {
			dpg.DataIDOrAlias = &message.DataID{Name: fmt.Sprintf("g%d", g), Type: "bytes"}
		} else {
			dpg.DataIDOrAlias = message.DataIDAlias(uint32(g) * 1000003)
		}
		for p := 0; p < points; p++ {
			pl := bytes.Repeat([]byte{byte(0x80 + g + p)}, payload)
			dpg.DataPoints = append(dpg.DataPoints, &message.DataPoint{ElapsedTime: time.Duration(int64(p)*1_000_000_007 - 5), Payload: pl})
		}
		sc.DataPointGroups = append(sc.DataPointGroups, dpg)
	}
	return sc
}

const (
	maxI64 = int64(^uint64(0) >> 1)
	minI64 = -maxI64 - 1
)

// seedMessages returns the valid corpus: for every message type a minimal variant (zero-ish values, absent
// extension fields), a typical one and a rich one (every field set, extreme numbers, non-ASCII strings, maps with
// several entries, nested repeated fields).
func seedMessages() []seedMsg {
	var s []seedMsg
	add := func(n string, m message.Message) { s = append(s, seedMsg{n, m}) }
	long := strings.Repeat("長い文字列-", 40)

	add("ConnectRequest/min", &message.ConnectRequest{})
	add("ConnectRequest/typ", &message.ConnectRequest{RequestID: 0, ProtocolVersion: "2.0.0", NodeID: "node-1",
		PingInterval: 10 * time.Second, PingTimeout: time.Second,
		ExtensionFields: &message.ConnectRequestExtensionFields{AccessToken: "tok"}})
	add("ConnectRequest/rich", &message.ConnectRequest{RequestID: 0xfffffffe, ProtocolVersion: long, NodeID: uA.String(),
		PingInterval: 4294967295 * time.Second, PingTimeout: 65536 * time.Second,
		ExtensionFields: &message.ConnectRequestExtensionFields{AccessToken: long, Intdash: &message.IntdashExtensionFields{ProjectUUID: uB}}})

	add("ConnectResponse/min", &message.ConnectResponse{ResultCode: message.ResultCodeSucceeded})
	add("ConnectResponse/typ", &message.ConnectResponse{RequestID: 2, ProtocolVersion: "2.0.0", ResultCode: message.ResultCodeSucceeded, ResultString: "OK"})
	add("ConnectResponse/rich", &message.ConnectResponse{RequestID: 0xffffffff, ProtocolVersion: long, ResultCode: message.ResultCodeAuthFailed,
		ResultString: "認証 failed \u0000 ", ExtensionFields: &message.ConnectResponseExtensionFields{}})

	add("Disconnect/min", &message.Disconnect{ResultCode: message.ResultCodeSucceeded})
	add("Disconnect/rich", &message.Disconnect{ResultCode: message.ResultCodeSessionCannotClosed, ResultString: long, ExtensionFields: &message.DisconnectExtensionFields{}})

	add("UpstreamOpenRequest/min", &message.UpstreamOpenRequest{})
	add("UpstreamOpenRequest/typ", &message.UpstreamOpenRequest{RequestID: 4, SessionID: "sess", AckInterval: 100 * time.Millisecond,
		ExpiryInterval: 60 * time.Second, DataIDs: dataIDs(2), QoS: message.QoSReliable})
	add("UpstreamOpenRequest/rich", &message.UpstreamOpenRequest{RequestID: 0x80000000, SessionID: long, AckInterval: 4294967295 * time.Millisecond,
		ExpiryInterval: 4294967295 * time.Second, DataIDs: dataIDs(9), QoS: message.QoSPartial,
		ExtensionFields: &message.UpstreamOpenRequestExtensionFields{Persist: true}})

	add("UpstreamOpenResponse/min", &message.UpstreamOpenResponse{ResultCode: message.ResultCodeSucceeded, ServerTime: tm(0)})
	add("UpstreamOpenResponse/typ", &message.UpstreamOpenResponse{RequestID: 4, AssignedStreamID: uA, AssignedStreamIDAlias: 1,
		ResultCode: message.ResultCodeSucceeded, ResultString: "OK", ServerTime: tm(1_700_000_000_123_456_789), DataIDAliases: aliasMap(1)})
	add("UpstreamOpenResponse/rich", &message.UpstreamOpenResponse{RequestID: 6, AssignedStreamID: uF, AssignedStreamIDAlias: 0xffffffff,
		ResultCode: message.ResultCodeTooManyStreams, ResultString: long, ServerTime: tm(minI64), DataIDAliases: aliasMap(5),
		ExtensionFields: &message.UpstreamOpenResponseExtensionFields{}})

	add("UpstreamResumeRequest/min", &message.UpstreamResumeRequest{})
	add("UpstreamResumeRequest/rich", &message.UpstreamResumeRequest{RequestID: 8, StreamID: uB, ExtensionFields: &message.UpstreamResumeRequestExtensionFields{}})

	add("UpstreamResumeResponse/min", &message.UpstreamResumeResponse{ResultCode: message.ResultCodeSucceeded})
	add("UpstreamResumeResponse/rich", &message.UpstreamResumeResponse{RequestID: 8, AssignedStreamIDAlias: 77, ResultCode: message.ResultCodeStreamNotFound,
		ResultString: "nf", ExtensionFields: &message.UpstreamResumeResponseExtensionFields{}})

	add("UpstreamCloseRequest/min", &message.UpstreamCloseRequest{})
	add("UpstreamCloseRequest/rich", &message.UpstreamCloseRequest{RequestID: 10, StreamID: uA, TotalDataPoints: ^uint64(0), FinalSequenceNumber: 0xffffffff,
		ExtensionFields: &message.UpstreamCloseRequestExtensionFields{CloseSession: true}})

	add("UpstreamCloseResponse/min", &message.UpstreamCloseResponse{ResultCode: message.ResultCodeSucceeded})
	add("UpstreamCloseResponse/rich", &message.UpstreamCloseResponse{RequestID: 10, ResultCode: message.ResultCodeSessionAlreadyClosed, ResultString: "x",
		ExtensionFields: &message.UpstreamCloseResponseExtensionFields{}})

	add("DownstreamOpenRequest/min", &message.DownstreamOpenRequest{})
	add("DownstreamOpenRequest/typ", &message.DownstreamOpenRequest{RequestID: 12, DesiredStreamIDAlias: 3, DownstreamFilters: filters(),
		ExpiryInterval: 10 * time.Second, DataIDAliases: aliasMap(2), QoS: message.QoSUnreliable})
	add("DownstreamOpenRequest/rich", &message.DownstreamOpenRequest{RequestID: 14, DesiredStreamIDAlias: 0xffffffff, DownstreamFilters: filters(),
		ExpiryInterval: 4294967295 * time.Second, DataIDAliases: aliasMap(6), QoS: message.QoSPartial, OmitEmptyChunk: true,
		ExtensionFields: &message.DownstreamOpenRequestExtensionFields{}})

	add("DownstreamOpenResponse/min", &message.DownstreamOpenResponse{ResultCode: message.ResultCodeSucceeded, ServerTime: tm(0)})
	add("DownstreamOpenResponse/rich", &message.DownstreamOpenResponse{RequestID: 12, AssignedStreamID: uB, ResultCode: message.ResultCodeInvalidDataFilter,
		ResultString: "bad", ServerTime: tm(maxI64), ExtensionFields: &message.DownstreamOpenResponseExtensionFields{}})

	add("DownstreamResumeRequest/min", &message.DownstreamResumeRequest{})
	add("DownstreamResumeRequest/rich", &message.DownstreamResumeRequest{RequestID: 16, StreamID: uA, DesiredStreamIDAlias: 9,
		ExtensionFields: &message.DownstreamResumeRequestExtensionFields{}})

	add("DownstreamResumeResponse/min", &message.DownstreamResumeResponse{ResultCode: message.ResultCodeSucceeded})
	add("DownstreamResumeResponse/rich", &message.DownstreamResumeResponse{RequestID: 16, ResultCode: message.ResultCodeResumeRequestConflict, ResultString: "c",
		ExtensionFields: &message.DownstreamResumeResponseExtensionFields{}})

	add("DownstreamCloseRequest/min", &message.DownstreamCloseRequest{})
	add("DownstreamCloseRequest/rich", &message.DownstreamCloseRequest{RequestID: 18, StreamID: uF, ExtensionFields: &message.DownstreamCloseRequestExtensionFields{}})

	add("DownstreamCloseResponse/min", &message.DownstreamCloseResponse{ResultCode: message.ResultCodeSucceeded})
	add("DownstreamCloseResponse/rich", &message.DownstreamCloseResponse{RequestID: 18, ResultCode: message.ResultCodeProcessFailed, ResultString: "pf",
		ExtensionFields: &message.DownstreamCloseResponseExtensionFields{}})

	add("UpstreamCall/min", &message.UpstreamCall{})
	add("UpstreamCall/rich", &message.UpstreamCall{CallID: "c-1", RequestCallID: "r-1", DestinationNodeID: "dst", Name: "nm", Type: "ty",
		Payload: bytes.Repeat([]byte{0, 0xff, 0x7f}, 50), ExtensionFields: &message.UpstreamCallExtensionFields{}})

	add("UpstreamCallAck/min", &message.UpstreamCallAck{ResultCode: message.ResultCodeSucceeded})
	add("UpstreamCallAck/rich", &message.UpstreamCallAck{CallID: "c-1", ResultCode: message.ResultCodeRateLimitReached, ResultString: "rl",
		ExtensionFields: &message.UpstreamCallAckExtensionFields{}})

	add("DownstreamCall/min", &message.DownstreamCall{})
	add("DownstreamCall/rich", &message.DownstreamCall{CallID: "c-2", RequestCallID: "r-2", SourceNodeID: "src", Name: "nm", Type: "ty",
		Payload: []byte("payload"), ExtensionFields: &message.DownstreamCallExtensionFields{}})

	add("Ping/min", &message.Ping{})
	add("Ping/rich", &message.Ping{RequestID: 1, ExtensionFields: &message.PingExtensionFields{}})
	add("Pong/min", &message.Pong{})
	add("Pong/rich", &message.Pong{RequestID: 0xfffffffe, ExtensionFields: &message.PongExtensionFields{}})

	add("UpstreamChunk/min", &message.UpstreamChunk{StreamChunk: &message.StreamChunk{}})
	add("UpstreamChunk/typ", &message.UpstreamChunk{StreamIDAlias: 1, StreamChunk: chunk(1, 2, 2, 8)})
	add("UpstreamChunk/rich", &message.UpstreamChunk{StreamIDAlias: 0xffffffff, DataIDs: dataIDs(3), StreamChunk: chunk(0xffffffff, 4, 3, 33),
		ExtensionFields: &message.UpstreamChunkExtensionFields{}})

	add("UpstreamChunkAck/min", &message.UpstreamChunkAck{})
	add("UpstreamChunkAck/rich", &message.UpstreamChunkAck{StreamIDAlias: 5,
		Results: []*message.UpstreamChunkResult{
			{SequenceNumber: 1, ResultCode: message.ResultCodeSucceeded, ResultString: "OK"},
			{SequenceNumber: 0xffffffff, ResultCode: message.ResultCodeInvalidPayload, ResultString: "np", ExtensionFields: &message.UpstreamChunkResultExtensionFields{}},
		},
		DataIDAliases: aliasMap(4), ExtensionFields: &message.UpstreamChunkAckExtensionFields{}})

	add("DownstreamChunk/alias", &message.DownstreamChunk{StreamIDAlias: 2, UpstreamOrAlias: message.UpstreamAlias(9), StreamChunk: chunk(3, 1, 1, 4)})
	add("DownstreamChunk/info", &message.DownstreamChunk{StreamIDAlias: 2,
		UpstreamOrAlias: &message.UpstreamInfo{SessionID: "s", SourceNodeID: "n", StreamID: uA}, StreamChunk: chunk(4, 3, 2, 16),
		ExtensionFields: &message.DownstreamChunkExtensionFields{}})
	add("DownstreamChunk/min", &message.DownstreamChunk{UpstreamOrAlias: message.UpstreamAlias(0), StreamChunk: &message.StreamChunk{}})

	add("DownstreamChunkAck/min", &message.DownstreamChunkAck{})
	add("DownstreamChunkAck/rich", &message.DownstreamChunkAck{StreamIDAlias: 2, AckID: 0xffffffff,
		Results: []*message.DownstreamChunkResult{
			{StreamIDOfUpstream: uA, SequenceNumberInUpstream: 7, ResultCode: message.ResultCodeSucceeded, ResultString: "OK"},
			{StreamIDOfUpstream: uZ, SequenceNumberInUpstream: 0xffffffff, ResultCode: message.ResultCodeInvalidDataID, ResultString: "x",
				ExtensionFields: &message.DownstreamChunkResultExtensionFields{}},
		},
		UpstreamAliases: map[uint32]*message.UpstreamInfo{1: {SessionID: "s1", SourceNodeID: "n1", StreamID: uA}, 0xffffffff: {SessionID: "", SourceNodeID: "", StreamID: uB}},
		DataIDAliases:   aliasMap(3), ExtensionFields: &message.DownstreamChunkAckExtensionFields{}})

	add("DownstreamChunkAckComplete/min", &message.DownstreamChunkAckComplete{ResultCode: message.ResultCodeSucceeded})
	add("DownstreamChunkAckComplete/rich", &message.DownstreamChunkAckComplete{StreamIDAlias: 2, AckID: 3, ResultCode: message.ResultCodeAckTimeout, ResultString: "t",
		ExtensionFields: &message.DownstreamChunkAckCompleteExtensionFields{}})

	add("UpstreamMetadata/basetime", &message.UpstreamMetadata{RequestID: 20,
		Metadata:        &message.BaseTime{SessionID: "s", Name: "ntp", Priority: 255, ElapsedTime: time.Duration(maxI64), BaseTime: tm(1_600_000_000_000_000_001)},
		ExtensionFields: &message.UpstreamMetadataExtensionFields{Persist: true}})
	add("UpstreamMetadata/min", &message.UpstreamMetadata{Metadata: &message.BaseTime{BaseTime: tm(0)}})

	add("UpstreamMetadataAck/min", &message.UpstreamMetadataAck{ResultCode: message.ResultCodeSucceeded})
	add("UpstreamMetadataAck/rich", &message.UpstreamMetadataAck{RequestID: 20, ResultCode: message.ResultCodeNodeIDMismatch, ResultString: "mm",
		ExtensionFields: &message.UpstreamMetadataAckExtensionFields{}})

	metas := []struct {
		n string
		m message.Metadata
	}{
		{"basetime", &message.BaseTime{SessionID: "s", Name: "edge_rtc", Priority: 20, ElapsedTime: 5 * time.Second, BaseTime: tm(-1)}},
		{"upstream_open", &message.UpstreamOpen{StreamID: uA, SessionID: "s", QoS: message.QoSReliable}},
		{"upstream_abnormal_close", &message.UpstreamAbnormalClose{StreamID: uA, SessionID: "s"}},
		{"upstream_resume", &message.UpstreamResume{StreamID: uB, SessionID: "s", QoS: message.QoSPartial}},
		{"upstream_normal_close", &message.UpstreamNormalClose{StreamID: uA, SessionID: "s", TotalDataPoints: 1 << 63, FinalSequenceNumber: 99}},
		{"downstream_open", &message.DownstreamOpen{StreamID: uB, DownstreamFilters: filters(), QoS: message.QoSUnreliable}},
		{"downstream_abnormal_close", &message.DownstreamAbnormalClose{StreamID: uB}},
		{"downstream_resume", &message.DownstreamResume{StreamID: uF, DownstreamFilters: filters(), QoS: message.QoSReliable}},
		{"downstream_normal_close", &message.DownstreamNormalClose{StreamID: uZ}},
	}
	for i, mt := range metas {
		dm := &message.DownstreamMetadata{RequestID: message.RequestID(i), StreamIDAlias: uint32(i + 1), SourceNodeID: "src", Metadata: mt.m}
		if i%2 == 1 {
			dm.ExtensionFields = &message.DownstreamMetadataExtensionFields{}
		}
		add("DownstreamMetadata/"+mt.n, dm)
	}

	add("DownstreamMetadataAck/min", &message.DownstreamMetadataAck{ResultCode: message.ResultCodeSucceeded})
	add("DownstreamMetadataAck/rich", &message.DownstreamMetadataAck{RequestID: 3, ResultCode: message.ResultCodeMalformedMessage, ResultString: "mf",
		ExtensionFields: &message.DownstreamMetadataAckExtensionFields{}})
	return s
}

// msgType is the short Go type name of a message ("UpstreamOpenResponse").
func msgType(m message.Message) string {
	if m == nil {
		return "nil"
	}
	t := reflect.TypeOf(m)
	for t.Kind() == reflect.Pointer {
		t = t.Elem()
	}
	return t.Name()
}

// allMessageTypes is the list of message types the converter has a case for.
var allMessageTypes = []string{
	"ConnectRequest", "ConnectResponse", "Disconnect",
	"UpstreamOpenRequest", "UpstreamOpenResponse", "UpstreamResumeRequest", "UpstreamResumeResponse", "UpstreamCloseRequest", "UpstreamCloseResponse",
	"UpstreamChunk", "UpstreamChunkAck", "UpstreamMetadata", "UpstreamMetadataAck",
	"DownstreamOpenRequest", "DownstreamOpenResponse", "DownstreamResumeRequest", "DownstreamResumeResponse", "DownstreamCloseRequest", "DownstreamCloseResponse",
	"DownstreamChunk", "DownstreamChunkAck", "DownstreamChunkAckComplete", "DownstreamMetadata", "DownstreamMetadataAck",
	"Ping", "Pong", "UpstreamCall", "UpstreamCallAck", "DownstreamCall",
}

// seedEncoding is one valid encoding of one seed message.
type seedEncoding struct {
	Name  string
	Enc   string
	Bytes []byte
	Msg   message.Message
}

// buildSeeds encodes every seed message in both encodings with the library's own encoders. A seed that does not
// encode is returned in failed (the harness then refuses to run: the corpus would have a hole).
func buildSeeds() (seeds []seedEncoding, failed []string) {
	for _, sm := range seedMessages() {
		for _, e := range encs {
			var buf bytes.Buffer
			if _, err := e.e.EncodeTo(&buf, sm.Msg); err != nil {
				failed = append(failed, fmt.Sprintf("%s/%s: %v", e.name, sm.Name, err))
				continue
			}
			seeds = append(seeds, seedEncoding{Name: sm.Name, Enc: e.name, Bytes: append([]byte(nil), buf.Bytes()...), Msg: sm.Msg})
		}
	}
	return
}
