package c12

import (
	"bytes"
	"encoding/hex"
	"fmt"
	"reflect"
	"runtime/debug"
	"strings"
	"time"

	"github.com/aptpod/iscp-go/message"
)

// ---- equality of messages: "decodes back to itself"
//
// Weaker reading (written into the assumptions): a nil slice/map and an empty one are the same value (the converter
// builds `make([]T, 0, n)`, so absent repeated fields come back empty, not nil), time.Time values are compared with
// Equal. Everything else - dynamic types behind interfaces, nil-ness of pointers (an absent extension-field block is not
// an empty one), every scalar, every byte - must be identical.

func eqMsg(a, b any) (bool, string) {
	return eqVal(reflect.ValueOf(a), reflect.ValueOf(b), "")
}

var timeType = reflect.TypeOf(time.Time{})

func eqVal(a, b reflect.Value, path string) (bool, string) {
	if !a.IsValid() || !b.IsValid() {
		if a.IsValid() == b.IsValid() {
			return true, ""
		}
		return false, path + ": one side absent"
	}
	if a.Type() != b.Type() {
		return false, fmt.Sprintf("%s: type %s vs %s", path, a.Type(), b.Type())
	}
	if a.Type() == timeType {
		ta, tb := a.Interface().(time.Time), b.Interface().(time.Time)
		if !ta.Equal(tb) {
			return false, fmt.Sprintf("%s: time %v vs %v", path, ta, tb)
		}
		return true, ""
	}
	switch a.Kind() {
	case reflect.Pointer:
		if a.IsNil() || b.IsNil() {
			if a.IsNil() == b.IsNil() {
				return true, ""
			}
			return false, fmt.Sprintf("%s: nil pointer vs value (%v vs %v)", path, a.IsNil(), b.IsNil())
		}
		return eqVal(a.Elem(), b.Elem(), path)
	case reflect.Interface:
		if a.IsNil() || b.IsNil() {
			if a.IsNil() == b.IsNil() {
				return true, ""
			}
			return false, fmt.Sprintf("%s: nil interface vs value", path)
		}
		return eqVal(a.Elem(), b.Elem(), path)
	case reflect.Struct:
		for i := 0; i < a.NumField(); i++ {
			if ok, why := eqVal(a.Field(i), b.Field(i), path+"."+a.Type().Field(i).Name); !ok {
				return false, why
			}
		}
		return true, ""
	case reflect.Slice:
		if a.Len() != b.Len() {
			return false, fmt.Sprintf("%s: len %d vs %d", path, a.Len(), b.Len())
		}
		if a.Type().Elem().Kind() == reflect.Uint8 {
			if !bytes.Equal(a.Bytes(), b.Bytes()) {
				return false, path + ": bytes differ"
			}
			return true, ""
		}
		for i := 0; i < a.Len(); i++ {
			if ok, why := eqVal(a.Index(i), b.Index(i), fmt.Sprintf("%s[%d]", path, i)); !ok {
				return false, why
			}
		}
		return true, ""
	case reflect.Array:
		for i := 0; i < a.Len(); i++ {
			if ok, why := eqVal(a.Index(i), b.Index(i), fmt.Sprintf("%s[%d]", path, i)); !ok {
				return false, why
			}
		}
		return true, ""
	case reflect.Map:
		if a.Len() != b.Len() {
			return false, fmt.Sprintf("%s: map len %d vs %d", path, a.Len(), b.Len())
		}
		it := a.MapRange()
		for it.Next() {
			bv := b.MapIndex(it.Key())
			if !bv.IsValid() {
				return false, fmt.Sprintf("%s: key %v missing", path, it.Key())
			}
			if ok, why := eqVal(it.Value(), bv, fmt.Sprintf("%s[%v]", path, it.Key())); !ok {
				return false, why
			}
		}
		return true, ""
	case reflect.Bool:
		if a.Bool() != b.Bool() {
			return false, path + ": bool differs"
		}
	case reflect.Int, reflect.Int8, reflect.Int16, reflect.Int32, reflect.Int64:
		if a.Int() != b.Int() {
			return false, fmt.Sprintf("%s: %d vs %d", path, a.Int(), b.Int())
		}
	case reflect.Uint, reflect.Uint8, reflect.Uint16, reflect.Uint32, reflect.Uint64:
		if a.Uint() != b.Uint() {
			return false, fmt.Sprintf("%s: %d vs %d", path, a.Uint(), b.Uint())
		}
	case reflect.String:
		if a.String() != b.String() {
			return false, fmt.Sprintf("%s: %q vs %q", path, clip(a.String(), 60), clip(b.String(), 60))
		}
	case reflect.Float32, reflect.Float64:
		if a.Float() != b.Float() {
			return false, path + ": float differs"
		}
	default:
		return false, fmt.Sprintf("%s: kind %s not comparable by the harness", path, a.Kind())
	}
	return true, ""
}

// pathClass strips indices from a field path so that it can be part of a seed-independent finding key.
func pathClass(why string) string {
	out := make([]byte, 0, len(why))
	depth := 0
	for i := 0; i < len(why); i++ {
		c := why[i]
		if c == ':' {
			break
		}
		switch {
		case c == '[':
			depth++
			if depth == 1 {
				out = append(out, '[', ']')
			}
		case c == ']':
			depth--
		case depth == 0:
			out = append(out, c)
		}
	}
	return string(out)
}

func clip(s string, n int) string {
	if len(s) <= n {
		return s
	}
	return s[:n] + "..."
}

// maxMapLen returns the size of the largest map inside the message (the protobuf encoder iterates Go maps, so the
// byte order of map entries is not a function of the message when a map has two or more entries).
func maxMapLen(v reflect.Value) int {
	if !v.IsValid() {
		return 0
	}
	switch v.Kind() {
	case reflect.Pointer, reflect.Interface:
		if v.IsNil() {
			return 0
		}
		return maxMapLen(v.Elem())
	case reflect.Struct:
		if v.Type() == timeType {
			return 0
		}
		m := 0
		for i := 0; i < v.NumField(); i++ {
			if n := maxMapLen(v.Field(i)); n > m {
				m = n
			}
		}
		return m
	case reflect.Slice:
		if v.Type().Elem().Kind() == reflect.Uint8 {
			return 0
		}
		m := 0
		for i := 0; i < v.Len(); i++ {
			if n := maxMapLen(v.Index(i)); n > m {
				m = n
			}
		}
		return m
	case reflect.Map:
		m := v.Len()
		it := v.MapRange()
		for it.Next() {
			if n := maxMapLen(it.Value()); n > m {
				m = n
			}
		}
		return m
	}
	return 0
}

// ---- the decode oracle

type finding struct {
	Clause  string
	Key     string
	Witness map[string]any
}

type outcome struct {
	Kind  string // "error" | "message"
	Type  string // message type when Kind == "message"
	Shape string // which fields are set, size classes of repeated fields, dynamic types (feedback signal and reach statistics)
	Err   string
}

func isNilMsg(m message.Message) bool {
	if m == nil {
		return true
	}
	v := reflect.ValueOf(m)
	return v.Kind() == reflect.Pointer && v.IsNil()
}

// decode calls DecodeFrom and reports a panic that escaped it.
func decode(e enc, b []byte) (n int, m message.Message, err error, panicked any, stack string) {
	defer func() {
		if r := recover(); r != nil {
			panicked = r
			stack = shortStack()
		}
	}()
	n, m, err = e.e.DecodeFrom(bytes.NewReader(b))
	return
}

func encode(e enc, m message.Message) (out []byte, err error, panicked any, stack string) {
	defer func() {
		if r := recover(); r != nil {
			panicked = r
			stack = shortStack()
		}
	}()
	var buf bytes.Buffer
	_, err = e.e.EncodeTo(&buf, m)
	out = buf.Bytes()
	return
}

func inputWitness(e enc, class string, b []byte) map[string]any {
	w := map[string]any{"encoding": e.name, "input_class": class, "input_len": len(b)}
	if len(b) <= 4096 {
		w["input_hex"] = hex.EncodeToString(b)
		if e.name == "json" {
			w["input_text"] = string(b)
		}
	} else {
		w["input_hex_head"] = hex.EncodeToString(b[:2048])
	}
	return w
}

// judge applies the property's decoder clauses to one input: the result is an error or a message (nothing escapes);
// a produced message encodes again, the encoding decodes to an equal message, and encoding that once more gives the
// same bytes (protobuf, unless a map with >= 2 entries is involved) / decodes to an equal message (JSON).
func judge(e enc, class string, b []byte) (outcome, *finding) {
	_, m, err, pv, st := decode(e, b)
	if pv != nil {
		w := inputWitness(e, class, b)
		w["panic"] = fmt.Sprint(pv)
		w["stack"] = st
		return outcome{}, &finding{"a panic escaped DecodeFrom", "panic-escaped:decode:" + e.name, w}
	}
	if err != nil {
		if !isNilMsg(m) {
			w := inputWitness(e, class, b)
			w["error"] = err.Error()
			w["message"] = fmt.Sprintf("%+v", m)
			return outcome{}, &finding{"DecodeFrom returned both a message and an error", "message-and-error:" + e.name, w}
		}
		return outcome{Kind: "error", Err: err.Error()}, nil
	}
	if isNilMsg(m) {
		return outcome{}, &finding{"DecodeFrom returned neither a message nor an error", "neither-message-nor-error:" + e.name, inputWitness(e, class, b)}
	}
	typ := msgType(m)
	out := outcome{Kind: "message", Type: typ, Shape: shapeOf(reflect.ValueOf(m), 0)}
	fail := func(clause, key, why string, extra map[string]any) (outcome, *finding) {
		w := inputWitness(e, class, b)
		w["decoded"] = clip(fmt.Sprintf("%+v", m), 1500)
		w["why"] = why
		for k, v := range extra {
			w[k] = v
		}
		return out, &finding{clause, key, w}
	}
	b2, err, pv, st := encode(e, m)
	if pv != nil {
		return fail("a panic escaped EncodeTo for a message the decoder produced", "panic-escaped:encode:"+e.name+":"+typ, fmt.Sprint(pv), map[string]any{"stack": st})
	}
	if err != nil {
		return fail("a message the decoder produced cannot be encoded again", "reencode-failed:"+e.name+":"+typ+":"+reasonSlug(err), err.Error(), nil)
	}
	_, m2, err, pv, st := decode(e, b2)
	if pv != nil {
		return fail("a panic escaped DecodeFrom on the re-encoding", "panic-escaped:redecode:"+e.name+":"+typ, fmt.Sprint(pv), map[string]any{"stack": st})
	}
	if err != nil || isNilMsg(m2) {
		return fail("the re-encoding of a decoded message does not decode", "redecode-failed:"+e.name+":"+typ+":"+reasonSlug(err), fmt.Sprint(err), map[string]any{"reencoded_hex": clip(hex.EncodeToString(b2), 4096)})
	}
	if ok, why := eqMsg(m, m2); !ok {
		return fail("the re-encoding of a decoded message decodes to a different message", "roundtrip-differs:"+e.name+":"+typ+":"+pathClass(why), why,
			map[string]any{"redecoded": clip(fmt.Sprintf("%+v", m2), 1500)})
	}
	b3, err, pv, _ := encode(e, m2)
	if pv != nil || err != nil {
		return fail("the re-decoded message cannot be encoded", "reencode-failed:second:"+e.name+":"+typ, fmt.Sprint(pv, err), nil)
	}
	if e.name == "protobuf" {
		if maxMapLen(reflect.ValueOf(m)) < 2 && !bytes.Equal(b2, b3) {
			return fail("encoding the same message twice gives different bytes", "reencode-unstable:"+e.name+":"+typ, "bytes differ",
				map[string]any{"first_hex": clip(hex.EncodeToString(b2), 4096), "second_hex": clip(hex.EncodeToString(b3), 4096)})
		}
	}
	if e.name != "protobuf" || maxMapLen(reflect.ValueOf(m)) >= 2 {
		_, m3, err, pv, _ := decode(e, b3)
		if pv != nil || err != nil || isNilMsg(m3) {
			return fail("the second re-encoding does not decode", "redecode-failed:second:"+e.name+":"+typ, fmt.Sprint(pv, err), nil)
		}
		if ok, why := eqMsg(m2, m3); !ok {
			return fail("the second re-encoding decodes to a different message", "roundtrip-differs:second:"+e.name+":"+typ+":"+pathClass(why), why, nil)
		}
	}
	return out, nil
}

func shortStack() string {
	s := string(debug.Stack())
	if len(s) > 3000 {
		s = s[:3000]
	}
	return s
}

// reasonSlug is the letters-only skeleton of an error text without its "failed to protobuf <type>:" prefix (seed independent).
func reasonSlug(err error) string {
	if err == nil {
		return "nil-message"
	}
	s := err.Error()
	if strings.HasPrefix(s, "failed to protobuf ") {
		if i := strings.Index(s, ": "); i >= 0 && i+2 < len(s) {
			s = s[i+2:]
		}
	}
	return errClass(s)
}

// shapeOf is a compact structural fingerprint of a decoded message: field presence, length classes, dynamic types.
func shapeOf(v reflect.Value, depth int) string {
	if !v.IsValid() || depth > 6 {
		return "_"
	}
	switch v.Kind() {
	case reflect.Pointer, reflect.Interface:
		if v.IsNil() {
			return "n"
		}
		if v.Kind() == reflect.Interface {
			return v.Elem().Type().String() + shapeOf(v.Elem(), depth+1)
		}
		return "&" + shapeOf(v.Elem(), depth+1)
	case reflect.Struct:
		if v.Type() == timeType {
			if v.Interface().(time.Time).UnixNano() == 0 {
				return "t0"
			}
			return "t"
		}
		s := "{"
		for i := 0; i < v.NumField(); i++ {
			s += shapeOf(v.Field(i), depth+1)
		}
		return s + "}"
	case reflect.Slice:
		if v.Type().Elem().Kind() == reflect.Uint8 {
			return fmt.Sprintf("b%d", sizeClass(v.Len()))
		}
		s := fmt.Sprintf("[%d", sizeClass(v.Len()))
		if v.Len() > 0 {
			s += shapeOf(v.Index(0), depth+1)
		}
		return s + "]"
	case reflect.Map:
		return fmt.Sprintf("m%d", sizeClass(v.Len()))
	case reflect.String:
		return fmt.Sprintf("s%d", sizeClass(v.Len()))
	case reflect.Array:
		if v.IsZero() {
			return "a0"
		}
		return "a"
	case reflect.Bool:
		if v.Bool() {
			return "T"
		}
		return "F"
	case reflect.Int, reflect.Int8, reflect.Int16, reflect.Int32, reflect.Int64:
		switch x := v.Int(); {
		case x == 0:
			return "0"
		case x < 0:
			return "-"
		}
		return "+"
	case reflect.Uint, reflect.Uint8, reflect.Uint16, reflect.Uint32, reflect.Uint64:
		if v.Uint() == 0 {
			return "0"
		}
		return "+"
	}
	return "?"
}
