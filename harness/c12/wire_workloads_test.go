package c12

import (
	"bytes"
	"context"
	"fmt"
	"math/rand"
	"os"
	"os/exec"
	"reflect"
	"regexp"
	"strings"
	"testing"
	"time"

	"github.com/aptpod/iscp-go/message"

	"verif/harness/vrun"
)

const (
	wirePingInterval = 150 * time.Millisecond
	wirePingTimeout  = 1500 * time.Millisecond
	callTimeout      = 45 * time.Second
)

var wireAssumptions = []string{
	"'the wire connection's read path' is driven through wire.Connect over an in-memory byte transport with the library's encoding.Transport and decoders in between; the peer is scripted by the harness (answers ConnectRequest, Ping and the seven request types cooperatively unless the scenario says otherwise)",
	"after an injected frame the connection must answer a fixed sequence of cooperative calls or return errors (a closed connection is an acceptable outcome: an undecodable frame ends the read loop and the keepalive then closes the connection)",
	"a call that does not return is a violation only when the goroutine dump is decisive: the call waits for one of the connection's mutexes while every goroutine executing wire code is parked at a channel operation, select, sleep or the same lock (the critical sections of wire/client_conn.go contain no blocking operation, so none of them can be the holder); any other watchdog firing is inconclusive",
	"ping interval 150 ms / ping timeout 1.5 s are harness choices; a keepalive timeout caused by machine load only turns the outcome of a case into 'closed', which is acceptable",
}

type wireScenario struct {
	Kind  string // collision | unsolicited | malformed | routed | connect | disconnect-no-reply | storm
	Call  int    // index into wireCalls
	Type  string // injected frame type
	IDSel string // stale | odd | huge | zero
	Param int
}

func (s wireScenario) String() string {
	switch s.Kind {
	case "collision", "disconnect-no-reply":
		return fmt.Sprintf("%s:%s:%s", s.Kind, wireCalls[s.Call].Name, s.Type)
	case "unsolicited":
		return fmt.Sprintf("%s:%s:%s", s.Kind, s.Type, s.IDSel)
	case "routed":
		return fmt.Sprintf("%s:%s:%d", s.Kind, s.Type, s.Param)
	}
	return fmt.Sprintf("%s:%s:%d", s.Kind, s.Type, s.Param)
}

var routedTypes = []string{"UpstreamChunkAck", "DownstreamChunk", "DownstreamChunkAckComplete", "DownstreamMetadata", "DownstreamCall", "UpstreamCallAck"}

func wireGrid(thorough bool) []wireScenario {
	var g []wireScenario
	for ci := range wireCalls {
		for _, t := range allMessageTypes {
			g = append(g, wireScenario{Kind: "collision", Call: ci, Type: t})
		}
		g = append(g, wireScenario{Kind: "disconnect-no-reply", Call: ci, Type: "Disconnect"})
	}
	for _, t := range allMessageTypes {
		for _, id := range []string{"stale", "odd", "huge", "zero"} {
			g = append(g, wireScenario{Kind: "unsolicited", Type: t, IDSel: id})
		}
	}
	for _, t := range routedTypes {
		for p := 0; p < 6; p++ {
			g = append(g, wireScenario{Kind: "routed", Type: t, Param: p})
		}
	}
	for i, sm := range seedMessages() {
		g = append(g, wireScenario{Kind: "variant", Type: sm.Name, Param: i})
	}
	for _, t := range allMessageTypes {
		g = append(g, wireScenario{Kind: "connect", Type: t})
	}
	n := 8
	if thorough {
		n = 30
	}
	for p := 0; p < n; p++ {
		g = append(g, wireScenario{Kind: "connect", Type: "malformed", Param: p})
	}
	n = 48
	if thorough {
		n = 200
	}
	for p := 0; p < n; p++ {
		g = append(g, wireScenario{Kind: "malformed", Type: "malformed", Param: p})
	}
	n = 60
	if thorough {
		n = 700
	}
	for p := 0; p < n; p++ {
		g = append(g, wireScenario{Kind: "storm", Type: "mixed", Param: p})
	}
	return g
}

// requestTypeOf maps an application call to the request message the broker sees.
func requestTypeOf(call string) string {
	switch call {
	case "SendUpstreamMetadata":
		return "UpstreamMetadata"
	}
	return strings.TrimPrefix(call, "Send")
}

// hostileFrame draws a malformed frame from valid encodings.
func hostileFrame(rng *rand.Rand, seeds []seedEncoding, isJSON bool) []byte {
	s := seeds[rng.Intn(len(seeds))].Bytes
	switch rng.Intn(5) {
	case 0:
		if len(s) > 1 {
			return s[:1+rng.Intn(len(s)-1)]
		}
	case 1:
		b := make([]byte, rng.Intn(64))
		rng.Read(b)
		return b
	case 2:
		return nil
	}
	out := s
	for i := 0; i < 1+rng.Intn(4); i++ {
		out = mutateOnce(rng, out, seeds[rng.Intn(len(seeds))].Bytes, isJSON)
	}
	return out
}

func TestC12WireFrames(t *testing.T) {
	env := vrun.LoadEnv()
	seeds := mustSeeds(t)
	byEnc := map[string][]seedEncoding{"protobuf": seedsOf(seeds, "protobuf"), "json": seedsOf(seeds, "json")}
	grid := wireGrid(env.Thorough())
	meta := vrun.Meta{Property: "C12", Workload: "TestC12WireFrames", Total: len(grid),
		Rule:        "grid over a live wire.ClientConn (case i uses protobuf when i is even, JSON when odd; cases with i mod 4 >= 2 attach a second, unreliable transport that receives the unsolicited/variant/malformed frames too): (collision) for each of the 7 request calls x each of the 29 message types, the peer answers the in-flight request with a well-formed frame of that type carrying the request's id, followed by the proper reply; (disconnect-no-reply) a Disconnect instead of the reply; (unsolicited) every message type with a stale, odd, huge or zero request id while nothing is in flight; (routed) stream-routed frames to subscribed/unsubscribed aliases and known/unknown source nodes, floods of call frames; (variant) every variant of the valid corpus (all nine metadata kinds, alias/info chunks, ...) routed to live subscriptions; (connect) every type and malformed bytes as the first frame wire.Connect reads; (malformed) corrupted encodings on an established connection; (storm) a request in flight while the peer sends 5-40 drawn frames of any non-colliding kind (in 3 of 10 storms also undecodable ones) before the reply. After each injection the fixed cooperative call sequence must return. Non-trivial: the injected frames were written and the connection answered or reported an error for every cooperative call; distinct: scenario string.",
		Assumptions: wireAssumptions}
	vrun.Loop(t, meta, 0, func(c *vrun.Case) vrun.Result {
		sc := grid[c.Index]
		encName := "protobuf"
		if c.Index%2 == 1 {
			encName = "json"
		}
		return runWireScenario(c, sc, encByName(encName), byEnc[encName])
	})
}

func wireViolation(f *finding, desc map[string]any) vrun.Result {
	r := vrun.Violation(f.Clause, f.Key, f.Witness)
	r.Desc = desc
	return r
}

func runWireScenario(c *vrun.Case, sc wireScenario, e enc, seeds []seedEncoding) vrun.Result {
	desc := map[string]any{"scenario": sc.String(), "encoding": e.name}
	rng := c.Rng
	injected := 0

	// ---- scenarios about the first frame Connect reads
	if sc.Kind == "connect" {
		var first []byte
		w, err := dial(e, wirePingInterval, wirePingTimeout, func(m message.Message) ([][]byte, bool) {
			if _, ok := m.(*message.ConnectRequest); !ok {
				return nil, false
			}
			if sc.Type == "malformed" {
				first = hostileFrameNoKill(rng, seeds, e)
			} else {
				fm, _ := frameOf(sc.Type, 0)
				var buf strings.Builder
				_, _ = e.e.EncodeTo(&buf, fm)
				first = []byte(buf.String())
			}
			injected++
			return [][]byte{first}, true
		})
		if err == errConnectStuck {
			r := vrun.Inconcl("wire.Connect did not return within 60 s after the first frame " + sc.Type)
			r.Desc = desc
			return r
		}
		defer w.close()
		outcome := "connected"
		if err != nil {
			outcome = "error:" + errClass(err.Error())
		}
		desc["connect_outcome"] = outcome
		r := vrun.Hold("connect|"+sc.String()+"|"+outcome, injected > 0)
		r.Desc = desc
		r.Stat("wire_frames_injected", int64(injected))
		r.Stat("wire_connect_stage_cases", 1)
		r.AddSet("wire_scenarios", "connect:"+sc.Type)
		r.AddSet("wire_connect_outcomes", sc.Type+"=>"+outcome)
		return r
	}

	unreliable := c.Index%4 >= 2 // half of the cases attach a second (unreliable) transport, fed with the same frames
	desc["unreliable_transport"] = unreliable
	w, err := dialU(e, wirePingInterval, wirePingTimeout, nil, unreliable)
	if err != nil {
		r := vrun.Inconcl("could not establish the connection: " + err.Error())
		r.Desc = desc
		return r
	}
	defer w.close()
	ctx, cancel := context.WithTimeout(context.Background(), callTimeout-5*time.Second)
	defer cancel()

	// a first round trip: the connection works and there is a stale (answered) request id
	warm := guarded(callTimeout, wireCalls[0].Name, func() (any, error) { return wireCalls[0].Do(ctx, w.conn) })
	if !warm.Returned || warm.Panic != nil || warm.Err != nil {
		r := vrun.Inconcl(fmt.Sprintf("warm-up round trip failed: returned=%v panic=%v err=%v", warm.Returned, warm.Panic, warm.Err))
		r.Desc = desc
		return r
	}
	staleID, okID := w.br.lastRequestID("UpstreamMetadata") // the id of a request that has been answered: never outstanding again
	if !okID {
		r := vrun.Inconcl("the broker did not record the warm-up request")
		r.Desc = desc
		return r
	}

	callOutcome := ""
	switch sc.Kind {
	case "collision", "disconnect-no-reply":
		call := wireCalls[sc.Call]
		reqType := requestTypeOf(call.Name)
		done := false
		w.br.setIntercept(func(m message.Message) ([][]byte, bool) {
			if done || msgType(m) != reqType {
				return nil, false
			}
			done = true
			id := m.(message.Request).GetRequestID()
			fm, _ := frameOf(sc.Type, id)
			frames := [][]byte{w.br.encode(fm)}
			injected++
			if sc.Kind == "collision" {
				frames = append(frames, w.br.encode(w.br.reply(m)))
			}
			return frames, true
		})
		res := guarded(callTimeout, call.Name, func() (any, error) { return call.Do(ctx, w.conn) })
		w.br.setIntercept(nil)
		switch {
		case !res.Returned:
			if at, hint := res.StuckAt, res.Hint; res.Decisive {
				return wireViolation(&finding{"a request call never returns after its reply slot received a frame: it waits for a connection lock nobody holds", "hang:wire:" + sc.Kind + ":" + call.Name,
					map[string]any{"scenario": sc.String(), "stuck_at": at, "other_waiters": hint, "goroutines": clip(res.Dump, 12000)}}, desc)
			}
			r := vrun.Inconcl(fmt.Sprintf("%s did not return within %s (dump not decisive)", call.Name, callTimeout))
			r.Desc = desc
			return r
		case res.Panic != nil:
			key := "panic:wire:reply-of-another-type:" + call.Name
			if sc.Type == call.ReplyType {
				key = "panic:wire:proper-reply:" + call.Name
			}
			return wireViolation(&finding{"a well-formed frame of another message type carrying the id of an outstanding request makes the request call panic in the application's goroutine",
				key, map[string]any{"scenario": sc.String(), "call": call.Name, "expected_reply": call.ReplyType, "injected_frame_type": sc.Type, "panic": fmt.Sprint(res.Panic), "stack": res.Stack,
					"broker": w.br.snapshot()}}, desc)
		case res.Err != nil:
			callOutcome = "error:" + errClass(res.Err.Error())
		default:
			callOutcome = "value:" + fmt.Sprintf("%T", res.Val)
		}

	case "unsolicited":
		var id uint32
		switch sc.IDSel {
		case "stale":
			id = staleID
		case "odd":
			id = 1 + 2*uint32(rng.Intn(1000))
		case "huge":
			id = 0xfffffffe - 2*uint32(rng.Intn(4)) // far from anything the connection will use in this case
		case "zero":
			id = 0
		}
		fm, _ := frameOf(sc.Type, id)
		w.inject(w.br.encode(fm))
		injected++

	case "malformed":
		n := 1 + rng.Intn(4)
		for i := 0; i < n; i++ {
			w.inject(hostileFrameNoKill(rng, seeds, e))
			injected++
		}

	case "routed":
		f := runRouted(c, sc, w, ctx, &injected)
		if f != nil {
			return wireViolation(f, desc)
		}

	case "variant":
		// every variant of the valid corpus (all metadata kinds, alias/info chunks, rich/minimal forms), routed to live
		// subscriptions where the message has a stream alias, with a request id that cannot be outstanding
		const alias = 5
		_, _ = w.conn.SubscribeDownstreamMeta(ctx, alias, "src-known")
		_, _ = w.conn.SubscribeDownstreamChunk(ctx, alias, message.QoSReliable)
		_, _ = w.conn.SubscribeDownstreamChunkAckComplete(ctx, alias)
		if unreliable {
			_, _ = w.conn.SubscribeDownstreamChunk(ctx, alias, message.QoSUnreliable)
		}
		fm := variantFrame(sc.Param, alias, "src-known", 1+2*uint32(rng.Intn(1000)))
		for i := 0; i < 3; i++ {
			w.inject(w.br.encode(fm))
			injected++
		}

	case "storm":
		call := wireCalls[rng.Intn(len(wireCalls))]
		reqType := requestTypeOf(call.Name)
		done := false
		w.br.setIntercept(func(m message.Message) ([][]byte, bool) {
			if done || msgType(m) != reqType {
				return nil, false
			}
			done = true
			id := m.(message.Request).GetRequestID()
			var frames [][]byte
			n := 5 + rng.Intn(36)
			withMalformed := rng.Intn(10) < 3 // an undecodable frame ends the read loop: most storms stay decodable
			for i := 0; i < n; i++ {
				kind := 1 + rng.Intn(5)
				if withMalformed && rng.Intn(n) == 0 {
					kind = 0
				}
				switch kind {
				case 0:
					frames = append(frames, hostileFrameNoKill(rng, seeds, e))
				case 1: // a non-request frame, or the proper reply type, with the in-flight id
					ty := allMessageTypes[rng.Intn(len(allMessageTypes))]
					if isRequest(ty) && ty != call.ReplyType {
						ty = "DownstreamChunk"
					}
					if ty == call.ReplyType && rng.Intn(3) > 0 {
						ty = "UpstreamChunkAck"
					}
					fm, _ := frameOf(ty, id)
					frames = append(frames, w.br.encode(fm))
				default: // any type with an id that cannot be outstanding
					ty := allMessageTypes[rng.Intn(len(allMessageTypes))]
					if ty == "Disconnect" && rng.Intn(4) > 0 {
						ty = "Pong"
					}
					fm, _ := frameOf(ty, []uint32{staleID, 1 + 2*uint32(rng.Intn(500)), 0, 0xfffffff0}[rng.Intn(4)])
					frames = append(frames, w.br.encode(fm))
				}
			}
			injected += len(frames)
			frames = append(frames, w.br.encode(w.br.reply(m)))
			return frames, true
		})
		res := guarded(callTimeout, call.Name, func() (any, error) { return call.Do(ctx, w.conn) })
		w.br.setIntercept(nil)
		desc["storm_call"] = call.Name
		switch {
		case !res.Returned:
			if at, hint := res.StuckAt, res.Hint; res.Decisive {
				return wireViolation(&finding{"a request call never returns during a frame storm: it waits for a connection lock nobody holds", "hang:wire:storm:" + call.Name,
					map[string]any{"scenario": sc.String(), "stuck_at": at, "other_waiters": hint, "goroutines": clip(res.Dump, 12000)}}, desc)
			}
			r := vrun.Inconcl(fmt.Sprintf("%s did not return within %s during the storm (dump not decisive)", call.Name, callTimeout))
			r.Desc = desc
			return r
		case res.Panic != nil:
			return wireViolation(&finding{"a request call panicked during a storm of frames none of which is a reply of another type to an outstanding request",
				"panic:wire:storm:" + call.Name + ":" + vrun.PanicSite(res.Stack), map[string]any{"scenario": sc.String(), "panic": fmt.Sprint(res.Panic), "stack": res.Stack, "broker": w.br.snapshot()}}, desc)
		case res.Err != nil:
			callOutcome = "error:" + errClass(res.Err.Error())
		default:
			callOutcome = "value"
		}
	}

	co := runCooperative(w, sc.Kind+":"+sc.Type, uint32(c.Index))
	desc["call_outcome"] = callOutcome
	desc["cooperative"] = co.Steps
	if co.Finding != nil {
		co.Finding.Witness["scenario_detail"] = sc.String()
		return wireViolation(co.Finding, desc)
	}
	if co.Inconcl != "" {
		r := vrun.Inconcl(co.Inconcl)
		r.Desc = desc
		return r
	}
	r := vrun.Hold("wire|"+sc.String(), injected > 0 && co.Answered+co.Errored == len(coopSteps))
	r.Desc = desc
	r.Stat("wire_frames_injected", int64(injected))
	r.Stat("wire_cooperative_calls_answered", int64(co.Answered))
	r.Stat("wire_cooperative_calls_errored", int64(co.Errored))
	if co.Errored == 0 {
		r.Stat("wire_cases_connection_survived", 1)
	} else {
		r.Stat("wire_cases_connection_reported_error_or_closed", 1)
	}
	r.AddSet("wire_scenarios", sc.Kind+":"+sc.Type)
	if unreliable {
		r.Stat("wire_cases_with_unreliable_transport", 1)
	}
	if callOutcome != "" {
		r.AddSet("wire_call_outcomes", sc.Kind+":"+callOutcome)
	}
	return r
}

// hostileFrameNoKill is hostileFrame restricted to bytes the decoder rejects: an accidentally well-formed frame could be a
// reply of another type for an outstanding request or keepalive id (that input class has its own scenarios/workload).
func hostileFrameNoKill(rng *rand.Rand, seeds []seedEncoding, e enc) []byte {
	for i := 0; i < 8; i++ {
		f := hostileFrame(rng, seeds, e.name == "json")
		if _, m, err, _, _ := decode(e, f); err != nil || isNilMsg(m) {
			return f
		}
	}
	return []byte{0xff, 0xff, 0xff}
}

// runRouted: subscriptions exist, then frames are routed to subscribed/unsubscribed aliases.
func runRouted(c *vrun.Case, sc wireScenario, w *wireEnv, ctx context.Context, injected *int) *finding {
	const alias = 5
	metaCh, _ := w.conn.SubscribeDownstreamMeta(ctx, alias, "src-known")
	chunkCh, _ := w.conn.SubscribeDownstreamChunk(ctx, alias, message.QoSReliable)
	ackcCh, _ := w.conn.SubscribeDownstreamChunkAckComplete(ctx, alias)
	up := guarded(callTimeout, wireCalls[1].Name, func() (any, error) { return wireCalls[1].Do(ctx, w.conn) })
	var upAlias uint32 = 1
	if up.Returned && up.Err == nil && up.Panic == nil {
		upAlias = up.Val.(*message.UpstreamOpenResponse).AssignedStreamIDAlias
	}
	ackCh, _ := w.conn.SubscribeUpstreamChunkAck(ctx, upAlias)

	subscribed := sc.Param%2 == 0
	knownSrc := sc.Param%4 < 2
	count := []int{1, 1, 1, 1, 9, 3000}[sc.Param]
	a := uint32(alias)
	if !subscribed {
		a = 77
	}
	mk := func(subscribedAlias uint32, src string) message.Message {
		fm, _ := frameOf(sc.Type, 1)
		switch m := fm.(type) {
		case *message.UpstreamChunkAck:
			m.StreamIDAlias = subscribedAlias
			if subscribedAlias == alias {
				m.StreamIDAlias = upAlias
			}
		case *message.DownstreamChunk:
			m.StreamIDAlias = subscribedAlias
		case *message.DownstreamChunkAckComplete:
			m.StreamIDAlias = subscribedAlias
		case *message.DownstreamMetadata:
			m.StreamIDAlias = subscribedAlias
			m.SourceNodeID = src
		}
		return fm
	}
	src := "src-known"
	if !knownSrc {
		src = "src-unknown"
	}
	for i := 0; i < count; i++ {
		w.br.sendMsg(mk(a, src))
		*injected++
	}
	// a marker of the same type to the subscribed (alias, source): when it arrives the frames before it were processed
	w.br.sendMsg(mk(alias, "src-known"))
	*injected++
	timer := time.NewTimer(3 * time.Second) // only bounds the wait for the marker; the verdict comes from the cooperative calls
	defer timer.Stop()
	switch sc.Type {
	case "DownstreamMetadata":
		select {
		case <-metaCh:
		case <-timer.C:
		}
	case "DownstreamChunk":
		select {
		case <-chunkCh:
		case <-timer.C:
		}
	case "DownstreamChunkAckComplete":
		select {
		case <-ackcCh:
		case <-timer.C:
		}
	case "UpstreamChunkAck":
		if ackCh != nil {
			select {
			case <-ackCh:
			case <-timer.C:
			}
		}
	case "DownstreamCall":
		if subscribed {
			rc := guarded(callTimeout, "ReceiveDownstreamCall", func() (any, error) { return w.conn.ReceiveDownstreamCall(ctx) })
			if rc.Returned && rc.Panic != nil {
				return &finding{"ReceiveDownstreamCall panicked", "panic:wire:ReceiveDownstreamCall", map[string]any{"panic": fmt.Sprint(rc.Panic), "stack": rc.Stack}}
			}
		}
	case "UpstreamCallAck":
		if subscribed {
			rc := guarded(callTimeout, "ReceiveUpstreamCallAck", func() (any, error) { return w.conn.ReceiveUpstreamCallAck(ctx) })
			if rc.Returned && rc.Panic != nil {
				return &finding{"ReceiveUpstreamCallAck panicked", "panic:wire:ReceiveUpstreamCallAck", map[string]any{"panic": fmt.Sprint(rc.Panic), "stack": rc.Stack}}
			}
		}
	}
	return nil
}

// ---- frames colliding with the keepalive ping: a failure kills the process, hence a workload of its own whose cases each
// run the scenario in a child process (this test binary re-executed with TestC12KeepaliveChild) and observe whether it dies.

var keepaliveTypes = func() []string {
	res := []string{"Pong"} // control
	for _, t := range allMessageTypes {
		if isRequest(t) && t != "Pong" {
			res = append(res, t)
		}
	}
	return res
}()

// keepaliveScenario: on an established connection the peer answers the third keepalive Ping with a frame of type ty
// carrying the ping's id, then with the proper Pong. Returns the outcome or "" + note when nothing could be observed.
func keepaliveScenario(ty string, e enc) (outcome, note string) {
	w, err := dial(e, 50*time.Millisecond, 5*time.Second, nil)
	if err != nil {
		return "", "could not establish the connection: " + err.Error()
	}
	defer w.close()
	collided := make(chan uint32, 1)
	seen := 0
	w.br.setIntercept(func(m message.Message) ([][]byte, bool) {
		p, ok := m.(*message.Ping)
		if !ok {
			return nil, false
		}
		seen++
		if seen != 3 {
			return nil, false
		}
		fm, _ := frameOf(ty, uint32(p.RequestID))
		collided <- uint32(p.RequestID)
		return [][]byte{w.br.encode(fm), w.br.encode(&message.Pong{RequestID: p.RequestID})}, true
	})
	var id uint32
	select {
	case id = <-collided:
	case <-time.After(60 * time.Second):
		return "", "the third keepalive ping did not arrive within 60 s"
	}
	// a process death happens here when the keepalive goroutine type-asserts the frame
	after := 0
	deadline := time.After(60 * time.Second)
	for after < 3 {
		select {
		case pid := <-w.br.pingSeen:
			if pid > id {
				after++
			}
		case <-w.conn.Closed():
			return "closed", ""
		case <-deadline:
			return "", "neither further pings nor a close within 60 s after the colliding frame"
		}
	}
	return "kept-pinging", ""
}

// TestC12KeepaliveChild is the child side; it does nothing unless the parent case set C12_KEEPALIVE_TYPE.
func TestC12KeepaliveChild(t *testing.T) {
	ty := os.Getenv("C12_KEEPALIVE_TYPE")
	if ty == "" {
		t.Skip("child of TestC12WireKeepalive")
	}
	outcome, note := keepaliveScenario(ty, encByName(os.Getenv("C12_KEEPALIVE_ENC")))
	fmt.Printf("C12CHILD outcome=%q note=%q\n", outcome, note)
}

var reChild = regexp.MustCompile(`C12CHILD outcome="([^"]*)" note="([^"]*)"`)

func TestC12WireKeepalive(t *testing.T) {
	mustSeeds(t)
	total := 2 * len(keepaliveTypes)
	meta := vrun.Meta{Property: "C12", Workload: "TestC12WireKeepalive", Total: total, Exhaustive: true,
		Rule:        fmt.Sprintf("every request-routed message type (%d, Pong being the control) x both encodings: in a child process, on an established connection the peer answers the third keepalive Ping with a well-formed frame of that type carrying the ping's request id, then with the proper Pong. The connection must go on pinging or close; the case observes whether the child process survives (a panic in the library's keepalive goroutine kills it; the child's stderr is the witness). Non-trivial: the colliding frame was written while the ping was outstanding and the child reported further pings or the close; distinct: (type, encoding). Exhaustive over the finite set of message types, not over frame contents.", len(keepaliveTypes)),
		Assumptions: wireAssumptions}
	vrun.Loop(t, meta, 0, func(c *vrun.Case) vrun.Result {
		ty := keepaliveTypes[c.Index/2]
		e := encs[c.Index%2]
		desc := map[string]any{"frame_type": ty, "encoding": e.name}
		cmd := exec.Command(os.Args[0], "-test.run=^TestC12KeepaliveChild$", "-test.timeout=0", "-test.v")
		cmd.Env = append(os.Environ(), "C12_KEEPALIVE_TYPE="+ty, "C12_KEEPALIVE_ENC="+e.name)
		var out bytes.Buffer
		cmd.Stdout, cmd.Stderr = &out, &out
		if err := cmd.Start(); err != nil {
			r := vrun.Inconcl("could not start the child: " + err.Error())
			r.Desc = desc
			return r
		}
		waitErr := make(chan error, 1)
		go func() { waitErr <- cmd.Wait() }()
		var err error
		select {
		case err = <-waitErr:
		case <-time.After(5 * time.Minute):
			_ = cmd.Process.Kill()
			r := vrun.Inconcl("the child did not finish within 5 min")
			r.Desc = desc
			return r
		}
		txt := out.String()
		if m := reChild.FindStringSubmatch(txt); m != nil && err == nil {
			if m[1] == "" {
				r := vrun.Inconcl(m[2])
				r.Desc = desc
				return r
			}
			desc["outcome"] = m[1]
			r := vrun.Hold("keepalive|"+ty+"|"+e.name, true)
			r.Desc = desc
			r.Stat("wire_keepalive_collisions_survived", 1)
			r.AddSet("wire_keepalive_frame_types", ty+"=>"+m[1])
			return r
		}
		// the child died
		kind := ""
		for _, ln := range strings.Split(txt, "\n") {
			if strings.HasPrefix(ln, "panic: ") || strings.HasPrefix(ln, "fatal error: ") {
				kind = ln
				break
			}
		}
		site := vrun.PanicSite(txt)
		if kind == "" || site == "unknown" {
			r := vrun.Inconcl(fmt.Sprintf("the child ended abnormally (%v) without a library frame in a panic trace: %s", err, clip(txt, 1500)))
			r.Desc = desc
			return r
		}
		r := vrun.Violation("a well-formed frame of another message type carrying the id of the outstanding keepalive Ping panics in the library's keepalive goroutine and kills the process",
			"crash:wire:keepalive-reply-of-another-type:"+site,
			map[string]any{"frame_type": ty, "encoding": e.name, "child_exit": fmt.Sprint(err), "crash": kind, "child_output": clip(txt, 4000)})
		r.Desc = desc
		return r
	})
}

// variantFrame copies the k-th message of the valid corpus and points it at the subscribed alias / source node.
func variantFrame(k int, alias uint32, src string, id uint32) message.Message {
	orig := reflect.ValueOf(seedMessages()[k].Msg).Elem()
	cp := reflect.New(orig.Type())
	cp.Elem().Set(orig)
	if f := cp.Elem().FieldByName("StreamIDAlias"); f.IsValid() {
		f.SetUint(uint64(alias))
	}
	if f := cp.Elem().FieldByName("SourceNodeID"); f.IsValid() {
		f.SetString(src)
	}
	if f := cp.Elem().FieldByName("RequestID"); f.IsValid() {
		f.SetUint(uint64(id))
	}
	return cp.Interface().(message.Message)
}
