package c12

import (
	"bytes"
	"context"
	"fmt"
	"reflect"
	"strings"
	"sync"
	"sync/atomic"
	"time"

	"github.com/aptpod/iscp-go/encoding"
	"github.com/aptpod/iscp-go/message"
	"github.com/aptpod/iscp-go/transport"
	"github.com/aptpod/iscp-go/wire"
	"github.com/google/uuid"

	"verif/harness/vrun"
)

// ---- an asynchronous in-memory byte transport (transport.Pipe is synchronous: a writer blocks until the reader took the frame)

type pipeEnd struct {
	in, out    chan []byte
	closed     chan struct{} // this end closed
	peerClosed chan struct{}
	once       sync.Once
	rx, tx     atomic.Uint64
}

func newPipe() (*pipeEnd, *pipeEnd) {
	ab, ba := make(chan []byte, 4096), make(chan []byte, 4096)
	ca, cb := make(chan struct{}), make(chan struct{})
	return &pipeEnd{in: ba, out: ab, closed: ca, peerClosed: cb}, &pipeEnd{in: ab, out: ba, closed: cb, peerClosed: ca}
}

func (p *pipeEnd) Read() ([]byte, error) {
	select {
	case <-p.closed:
		return nil, transport.ErrAlreadyClosed
	default:
	}
	select {
	case b := <-p.in:
		p.rx.Add(uint64(len(b)))
		return b, nil
	case <-p.closed:
		return nil, transport.ErrAlreadyClosed
	case <-p.peerClosed:
		// drain what the peer wrote before closing
		select {
		case b := <-p.in:
			p.rx.Add(uint64(len(b)))
			return b, nil
		default:
		}
		return nil, transport.EOF
	}
}

func (p *pipeEnd) Write(b []byte) error {
	select {
	case <-p.closed:
		return transport.ErrAlreadyClosed
	case <-p.peerClosed:
		return transport.ErrAlreadyClosed
	default:
	}
	select {
	case p.out <- append([]byte(nil), b...):
		p.tx.Add(uint64(len(b)))
		return nil
	case <-p.closed:
		return transport.ErrAlreadyClosed
	case <-p.peerClosed:
		return transport.ErrAlreadyClosed
	}
}

func (p *pipeEnd) Close() error {
	p.once.Do(func() { close(p.closed) })
	return nil
}
func (p *pipeEnd) RxBytesCounterValue() uint64 { return p.rx.Load() }
func (p *pipeEnd) TxBytesCounterValue() uint64 { return p.tx.Load() }

// ---- the scripted peer ("broker")

type broker struct {
	rw *pipeEnd
	e  enc

	mu        sync.Mutex
	intercept func(m message.Message) (frames [][]byte, handled bool) // called with mu NOT held
	pings     int
	pingIDs   []uint32
	requests  []string // type names of requests seen
	events    []string
	nextAlias uint32
	pingSeen  chan uint32 // every ping id (buffered, dropped when full)
	done      chan struct{}
}

func (b *broker) logf(f string, a ...any) {
	b.mu.Lock()
	if len(b.events) < 200 {
		b.events = append(b.events, fmt.Sprintf(f, a...))
	}
	b.mu.Unlock()
}

func (b *broker) encode(m message.Message) []byte {
	var buf bytes.Buffer
	if _, err := b.e.e.EncodeTo(&buf, m); err != nil {
		panic(fmt.Sprintf("c12 harness: the broker cannot encode %T: %v", m, err))
	}
	return buf.Bytes()
}

func (b *broker) send(frames ...[]byte) {
	for _, f := range frames {
		_ = b.rw.Write(f)
	}
}

func (b *broker) sendMsg(ms ...message.Message) {
	for _, m := range ms {
		b.send(b.encode(m))
	}
}

// reply is the cooperative answer to a request.
func (b *broker) reply(m message.Message) message.Message {
	switch r := m.(type) {
	case *message.ConnectRequest:
		return &message.ConnectResponse{RequestID: r.RequestID, ProtocolVersion: "2.0.0", ResultCode: message.ResultCodeSucceeded, ResultString: "OK"}
	case *message.Ping:
		return &message.Pong{RequestID: r.RequestID}
	case *message.UpstreamMetadata:
		return &message.UpstreamMetadataAck{RequestID: r.RequestID, ResultCode: message.ResultCodeSucceeded, ResultString: "OK"}
	case *message.UpstreamOpenRequest:
		b.mu.Lock()
		b.nextAlias++
		a := b.nextAlias
		b.mu.Unlock()
		return &message.UpstreamOpenResponse{RequestID: r.RequestID, AssignedStreamID: uuid.NewSHA1(uuid.Nil, []byte(fmt.Sprint("up", a))), AssignedStreamIDAlias: a,
			ResultCode: message.ResultCodeSucceeded, ResultString: "OK", ServerTime: tm(1_700_000_000_000_000_000)}
	case *message.UpstreamResumeRequest:
		b.mu.Lock()
		b.nextAlias++
		a := b.nextAlias
		b.mu.Unlock()
		return &message.UpstreamResumeResponse{RequestID: r.RequestID, AssignedStreamIDAlias: a, ResultCode: message.ResultCodeSucceeded, ResultString: "OK"}
	case *message.UpstreamCloseRequest:
		return &message.UpstreamCloseResponse{RequestID: r.RequestID, ResultCode: message.ResultCodeSucceeded, ResultString: "OK"}
	case *message.DownstreamOpenRequest:
		return &message.DownstreamOpenResponse{RequestID: r.RequestID, AssignedStreamID: uuid.NewSHA1(uuid.Nil, []byte(fmt.Sprint("down", r.DesiredStreamIDAlias))),
			ResultCode: message.ResultCodeSucceeded, ResultString: "OK", ServerTime: tm(1_700_000_000_000_000_000)}
	case *message.DownstreamResumeRequest:
		return &message.DownstreamResumeResponse{RequestID: r.RequestID, ResultCode: message.ResultCodeSucceeded, ResultString: "OK"}
	case *message.DownstreamCloseRequest:
		return &message.DownstreamCloseResponse{RequestID: r.RequestID, ResultCode: message.ResultCodeSucceeded, ResultString: "OK"}
	}
	return nil
}

func (b *broker) run() {
	defer close(b.done)
	for {
		raw, err := b.rw.Read()
		if err != nil {
			return
		}
		_, m, err := b.e.e.DecodeFrom(bytes.NewReader(raw))
		if err != nil {
			b.logf("broker: undecodable frame from the client: %v", err)
			continue
		}
		b.mu.Lock()
		if p, ok := m.(*message.Ping); ok {
			b.pings++
			b.pingIDs = append(b.pingIDs, uint32(p.RequestID))
			select {
			case b.pingSeen <- uint32(p.RequestID):
			default:
			}
		} else if len(b.requests) < 200 {
			b.requests = append(b.requests, msgType(m))
		}
		ic := b.intercept
		b.mu.Unlock()
		if ic != nil {
			if frames, handled := ic(m); handled {
				b.send(frames...)
				continue
			}
		}
		if r := b.reply(m); r != nil {
			b.sendMsg(r)
		}
	}
}

func (b *broker) setIntercept(f func(m message.Message) ([][]byte, bool)) {
	b.mu.Lock()
	b.intercept = f
	b.mu.Unlock()
}

type wireEnv struct {
	conn *wire.ClientConn
	br   *broker
	cli  *pipeEnd
}

// dial connects a real wire.ClientConn (real encoding.Transport, real decoder) to a fresh broker.
func dial(e enc, pingInterval, pingTimeout time.Duration, connectIntercept func(m message.Message) ([][]byte, bool)) (*wireEnv, error) {
	cli, srv := newPipe()
	br := &broker{rw: srv, e: e, pingSeen: make(chan uint32, 1024), done: make(chan struct{}), intercept: connectIntercept}
	go br.run()
	var conn *wire.ClientConn
	var err error
	ok, _ := vrun.Watchdog(60*time.Second, func() {
		conn, err = wire.Connect(&wire.ClientConnConfig{
			Transport:       encoding.NewTransport(&encoding.TransportConfig{Transport: cli, Encoding: e.e}),
			ProtocolVersion: "2.0.0",
			NodeID:          "c12-node",
			PingInterval:    pingInterval,
			PingTimeout:     pingTimeout,
		})
	})
	if !ok {
		cli.Close()
		srv.Close()
		return nil, errConnectStuck
	}
	if err != nil {
		cli.Close()
		srv.Close()
		return &wireEnv{br: br, cli: cli}, err
	}
	return &wireEnv{conn: conn, br: br, cli: cli}, nil
}

var errConnectStuck = fmt.Errorf("wire.Connect did not return within 60 s")

func (w *wireEnv) close() {
	if w.conn != nil {
		w.conn.Close()
	}
	w.cli.Close()
	w.br.rw.Close()
}

// ---- frames of a given type carrying a given request id

var typSeeds = func() map[string]message.Message {
	res := map[string]message.Message{}
	for _, s := range seedMessages() {
		t := msgType(s.Msg)
		if _, ok := res[t]; !ok || strings.HasSuffix(s.Name, "/typ") || strings.HasSuffix(s.Name, "/rich") {
			res[t] = s.Msg
		}
	}
	return res
}()

// frameOf returns a fresh valid message of the named type; when the type has a request id it is set to id.
func frameOf(typ string, id uint32) (m message.Message, hasID bool) {
	src := reflect.ValueOf(typSeeds[typ]).Elem()
	cp := reflect.New(src.Type())
	cp.Elem().Set(src)
	if f := cp.Elem().FieldByName("RequestID"); f.IsValid() {
		f.SetUint(uint64(id))
		hasID = true
	}
	return cp.Interface().(message.Message), hasID
}

// isRequest reports whether the type is routed by request id on the client (message.Request and not Ping).
func isRequest(typ string) bool {
	m, _ := frameOf(typ, 0)
	_, ok := m.(message.Request)
	return ok && typ != "Ping"
}

// ---- application calls that wait for a reply

type wireCall struct {
	Name      string
	ReplyType string
	Do        func(ctx context.Context, c *wire.ClientConn) (any, error)
}

var wireCalls = []wireCall{
	{"SendUpstreamMetadata", "UpstreamMetadataAck", func(ctx context.Context, c *wire.ClientConn) (any, error) {
		return c.SendUpstreamMetadata(ctx, &message.UpstreamMetadata{Metadata: &message.BaseTime{Name: "c12", BaseTime: tm(1)}})
	}},
	{"SendUpstreamOpenRequest", "UpstreamOpenResponse", func(ctx context.Context, c *wire.ClientConn) (any, error) {
		return c.SendUpstreamOpenRequest(ctx, &message.UpstreamOpenRequest{SessionID: "s", QoS: message.QoSReliable, AckInterval: 10 * time.Millisecond})
	}},
	{"SendUpstreamResumeRequest", "UpstreamResumeResponse", func(ctx context.Context, c *wire.ClientConn) (any, error) {
		return c.SendUpstreamResumeRequest(ctx, &message.UpstreamResumeRequest{StreamID: uA}, message.QoSReliable)
	}},
	{"SendUpstreamCloseRequest", "UpstreamCloseResponse", func(ctx context.Context, c *wire.ClientConn) (any, error) {
		return c.SendUpstreamCloseRequest(ctx, &message.UpstreamCloseRequest{StreamID: uA})
	}},
	{"SendDownstreamOpenRequest", "DownstreamOpenResponse", func(ctx context.Context, c *wire.ClientConn) (any, error) {
		return c.SendDownstreamOpenRequest(ctx, &message.DownstreamOpenRequest{DesiredStreamIDAlias: 900, QoS: message.QoSReliable})
	}},
	{"SendDownstreamResumeRequest", "DownstreamResumeResponse", func(ctx context.Context, c *wire.ClientConn) (any, error) {
		return c.SendDownstreamResumeRequest(ctx, &message.DownstreamResumeRequest{StreamID: uB, DesiredStreamIDAlias: 901})
	}},
	{"SendDownstreamCloseRequest", "DownstreamCloseResponse", func(ctx context.Context, c *wire.ClientConn) (any, error) {
		return c.SendDownstreamCloseRequest(ctx, &message.DownstreamCloseRequest{StreamID: uB})
	}},
}

// guarded runs f in its own goroutine with a recover; ok is false when it did not return within d (dump holds all
// goroutine stacks then).
type guardedResult struct {
	Returned bool
	Panic    any
	Stack    string
	Dump     string
	Val      any
	Err      error
}

func guarded(d time.Duration, f func() (any, error)) guardedResult {
	var r guardedResult
	var mu sync.Mutex
	ok, dump := vrun.Watchdog(d, func() {
		var v any
		var err error
		var pv any
		var st string
		func() {
			defer func() {
				if x := recover(); x != nil {
					pv, st = x, shortStack()
				}
			}()
			v, err = f()
		}()
		mu.Lock()
		r.Val, r.Err, r.Panic, r.Stack = v, err, pv, st
		mu.Unlock()
	})
	mu.Lock()
	defer mu.Unlock()
	if !ok {
		return guardedResult{Returned: false, Dump: dump}
	}
	r.Returned = true
	return r
}

// wedgeVerdict inspects the dump taken when a cooperative call did not return. It is decisive - independent of the
// clock - when the stuck call waits for a library mutex while every goroutine that runs wire code is parked at a
// blocking point that cannot be inside the (non-blocking) critical sections: then no goroutine holds the lock
// legitimately, it was leaked, and the call can never return.
func wedgeVerdict(dump string, call string) (decisive bool, stuckAt string, holderHint string) {
	var stuck *vrun.Goroutine
	gs := vrun.ParseStacks(dump)
	for i := range gs {
		g := &gs[i]
		inCall, lockIdx := false, -1
		for j, f := range g.Frames {
			if strings.Contains(f, "wire.(*ClientConn)."+call) {
				inCall = true
			}
			if lockIdx < 0 && (strings.HasPrefix(f, "sync.(*RWMutex).Lock") || strings.HasPrefix(f, "sync.(*RWMutex).RLock") || strings.HasPrefix(f, "sync.(*Mutex).Lock")) {
				lockIdx = j
			}
		}
		if inCall && lockIdx >= 0 {
			stuck = g
			stuckAt = g.InnermostLib()
			break
		}
	}
	if stuck == nil {
		return false, "", ""
	}
	for _, g := range gs {
		if g.Header == stuck.Header {
			continue
		}
		wireFrame := ""
		for _, f := range g.Frames {
			if strings.Contains(f, "iscp-go/wire.") {
				wireFrame = f
				break
			}
		}
		if wireFrame == "" {
			continue
		}
		h := g.Header
		parked := strings.Contains(h, "[chan receive") || strings.Contains(h, "[select") || strings.Contains(h, "[chan send") ||
			strings.Contains(h, "[sync.RWMutex.RLock") || strings.Contains(h, "[sync.RWMutex.Lock") || strings.Contains(h, "[sync.Mutex.Lock") || strings.Contains(h, "[semacquire") ||
			strings.Contains(h, "[sync.WaitGroup.Wait") || strings.Contains(h, "[sleep")
		if !parked {
			return false, stuckAt, "goroutine still running wire code: " + h + " " + wireFrame
		}
		if strings.Contains(h, "Mutex") || strings.Contains(h, "semacquire") {
			holderHint += "also waiting for a lock: " + g.InnermostLib() + "; "
		}
	}
	return true, stuckAt, holderHint
}

// cooperative is the fixed sequence of calls a healthy connection answers (each takes one of the connection's locks or
// needs the read path to route a reply). Every call must return a value or an error.
type coopStep struct {
	Name string
	Do   func(ctx context.Context, c *wire.ClientConn, k uint32) (any, error)
}

var coopSteps = []coopStep{
	{"SendUpstreamMetadata", func(ctx context.Context, c *wire.ClientConn, _ uint32) (any, error) { return wireCalls[0].Do(ctx, c) }},
	{"SubscribeDownstreamMeta", func(ctx context.Context, c *wire.ClientConn, k uint32) (any, error) {
		return c.SubscribeDownstreamMeta(ctx, 5000+k, "coop")
	}},
	{"SubscribeDownstreamChunk", func(ctx context.Context, c *wire.ClientConn, k uint32) (any, error) {
		return c.SubscribeDownstreamChunk(ctx, 5000+k, message.QoSReliable)
	}},
	{"SubscribeDownstreamChunkAckComplete", func(ctx context.Context, c *wire.ClientConn, k uint32) (any, error) {
		return c.SubscribeDownstreamChunkAckComplete(ctx, 5000+k)
	}},
	{"SendUpstreamOpenRequest", func(ctx context.Context, c *wire.ClientConn, _ uint32) (any, error) { return wireCalls[1].Do(ctx, c) }},
	{"SendDownstreamOpenRequest", func(ctx context.Context, c *wire.ClientConn, _ uint32) (any, error) { return wireCalls[4].Do(ctx, c) }},
	{"SendDownstreamCloseRequest", func(ctx context.Context, c *wire.ClientConn, _ uint32) (any, error) { return wireCalls[6].Do(ctx, c) }},
	{"SendUpstreamMetadata", func(ctx context.Context, c *wire.ClientConn, _ uint32) (any, error) { return wireCalls[0].Do(ctx, c) }},
}

type coopOutcome struct {
	Answered, Errored int
	Finding           *finding
	Inconcl           string
	Steps             []string
}

const coopTimeout = 45 * time.Second

func runCooperative(w *wireEnv, scenario string, k uint32) coopOutcome {
	var out coopOutcome
	for _, st := range coopSteps {
		ctx, cancel := context.WithTimeout(context.Background(), coopTimeout-5*time.Second)
		r := guarded(coopTimeout, func() (any, error) { return st.Do(ctx, w.conn, k) })
		cancel()
		switch {
		case !r.Returned:
			dec, at, hint := wedgeVerdict(r.Dump, st.Name)
			if dec {
				out.Finding = &finding{"after the injected frame a cooperative call never returns: it waits for a connection lock that no running goroutine holds",
					"hang:wire:" + scenario + ":" + st.Name,
					map[string]any{"scenario": scenario, "stuck_call": st.Name, "stuck_at": at, "other_waiters": hint, "goroutines": clip(r.Dump, 12000), "broker_events": w.br.snapshot()}}
				return out
			}
			out.Inconcl = fmt.Sprintf("cooperative call %s did not return within %s and the dump is not decisive (%s)", st.Name, coopTimeout, hint)
			return out
		case r.Panic != nil:
			out.Finding = &finding{"a cooperative call panicked after the injected frame", "panic:wire:cooperative:" + st.Name + ":" + scenario,
				map[string]any{"scenario": scenario, "panic": fmt.Sprint(r.Panic), "stack": r.Stack}}
			return out
		case r.Err != nil:
			out.Errored++
			out.Steps = append(out.Steps, st.Name+"=error:"+errClass(r.Err.Error()))
			if ctx.Err() == context.DeadlineExceeded && !isClosed(w.conn) {
				out.Inconcl = fmt.Sprintf("cooperative call %s ran into its %s context deadline while the connection does not report closed", st.Name, coopTimeout-5*time.Second)
				return out
			}
		default:
			out.Answered++
			out.Steps = append(out.Steps, st.Name+"=ok")
		}
	}
	return out
}

func isClosed(c *wire.ClientConn) bool {
	select {
	case <-c.Closed():
		return true
	default:
		return false
	}
}

func (b *broker) snapshot() map[string]any {
	b.mu.Lock()
	defer b.mu.Unlock()
	return map[string]any{"pings": b.pings, "requests": append([]string(nil), b.requests...), "events": append([]string(nil), b.events...)}
}
