package c12

import (
	"bytes"
	"context"
	"fmt"
	"reflect"
	"strings"
	"sync"
	"sync/atomic"
	"time"

	"github.com/aptpod/iscp-go/encoding"
	"github.com/aptpod/iscp-go/message"
	"github.com/aptpod/iscp-go/transport"
	"github.com/aptpod/iscp-go/wire"
	"github.com/google/uuid"

	"verif/harness/vrun"
)

// ---- an asynchronous in-memory byte transport (transport.Pipe is synchronous: a writer blocks until the reader took the frame)

type pipeEnd struct {
	in, out    chan []byte
	closed     chan struct{} // this end closed
	peerClosed chan struct{}
	once       sync.Once
	rx, tx     atomic.Uint64
}

func newPipe() (*pipeEnd, *pipeEnd) {
	ab, ba := make(chan []byte, 4096), make(chan []byte, 4096)
	ca, cb := make(chan struct{}), make(chan struct{})
	return &pipeEnd{in: ba, out: ab, closed: ca, peerClosed: cb}, &pipeEnd{in: ab, out: ba, closed: cb, peerClosed: ca}
}

func (p *pipeEnd) Read() ([]byte, error) {
	select {
	case <-p.closed:
		return nil, transport.ErrAlreadyClosed
	default:
	}
	select {
	case b := <-p.in:
		p.rx.Add(uint64(len(b)))
		return b, nil
	case <-p.closed:
		return nil, transport.ErrAlreadyClosed
	case <-p.peerClosed:
		// drain what the peer wrote before closing
		select {
		case b := <-p.in:
			p.rx.Add(uint64(len(b)))
			return b, nil
		default:
		}
		return nil, transport.EOF
	}
}

func (p *pipeEnd) Write(b []byte) error {
	select {
	case <-p.closed:
		return transport.ErrAlreadyClosed
	case <-p.peerClosed:
		return transport.ErrAlreadyClosed
	default:
	}
	select {
	case p.out <- append([]byte(nil), b...):
		p.tx.Add(uint64(len(b)))
		return nil
	case <-p.closed:
		return transport.ErrAlreadyClosed
	case <-p.peerClosed:
		return transport.ErrAlreadyClosed
	}
}

func (p *pipeEnd) Close() error {
	p.once.Do(func() { close(p.closed) })
	return nil
}
func (p *pipeEnd) RxBytesCounterValue() uint64 { return p.rx.Load() }
func (p *pipeEnd) TxBytesCounterValue() uint64 { return p.tx.Load() }

// ---- the scripted peer ("broker")

type broker struct {
	rw *pipeEnd
	e  enc

	mu        sync.Mutex
	intercept func(m message.Message) (frames [][]byte, handled bool) // called with mu NOT held
	pings     int
	pingIDs   []uint32
	requests  []string          // type names of requests seen
	reqIDs    map[string]uint32 // last request id seen per request type
	events    []string
	nextAlias uint32
	pingSeen  chan uint32 // every ping id (buffered, dropped when full)
	done      chan struct{}
}

func (b *broker) logf(f string, a ...any) {
	b.mu.Lock()
	if len(b.events) < 200 {
		b.events = append(b.events, fmt.Sprintf(f, a...))
	}
	b.mu.Unlock()
}

func (b *broker) encode(m message.Message) []byte {
	var buf bytes.Buffer
	if _, err := b.e.e.EncodeTo(&buf, m); err != nil {
		panic(fmt.Sprintf("c12 harness: the broker cannot encode %T: %v", m, err))
	}
	return buf.Bytes()
}

func (b *broker) send(frames ...[]byte) {
	for _, f := range frames {
		_ = b.rw.Write(f)
	}
}

func (b *broker) sendMsg(ms ...message.Message) {
	for _, m := range ms {
		b.send(b.encode(m))
	}
}

// reply is the cooperative answer to a request.
func (b *broker) reply(m message.Message) message.Message {
	switch r := m.(type) {
	case *message.ConnectRequest:
		return &message.ConnectResponse{RequestID: r.RequestID, ProtocolVersion: "2.0.0", ResultCode: message.ResultCodeSucceeded, ResultString: "OK"}
	case *message.Ping:
		return &message.Pong{RequestID: r.RequestID}
	case *message.UpstreamMetadata:
		return &message.UpstreamMetadataAck{RequestID: r.RequestID, ResultCode: message.ResultCodeSucceeded, ResultString: "OK"}
	case *message.UpstreamOpenRequest:
		b.mu.Lock()
		b.nextAlias++
		a := b.nextAlias
		b.mu.Unlock()
		return &message.UpstreamOpenResponse{RequestID: r.RequestID, AssignedStreamID: uuid.NewSHA1(uuid.Nil, []byte(fmt.Sprint("up", a))), AssignedStreamIDAlias: a,
			ResultCode: message.ResultCodeSucceeded, ResultString: "OK", ServerTime: tm(1_700_000_000_000_000_000)}
	case *message.UpstreamResumeRequest:
		b.mu.Lock()
		b.nextAlias++
		a := b.nextAlias
		b.mu.Unlock()
		return &message.UpstreamResumeResponse{RequestID: r.RequestID, AssignedStreamIDAlias: a, ResultCode: message.ResultCodeSucceeded, ResultString: "OK"}
	case *message.UpstreamCloseRequest:
		return &message.UpstreamCloseResponse{RequestID: r.RequestID, ResultCode: message.ResultCodeSucceeded, ResultString: "OK"}
	case *message.DownstreamOpenRequest:
		return &message.DownstreamOpenResponse{RequestID: r.RequestID, AssignedStreamID: uuid.NewSHA1(uuid.Nil, []byte(fmt.Sprint("down", r.DesiredStreamIDAlias))),
			ResultCode: message.ResultCodeSucceeded, ResultString: "OK", ServerTime: tm(1_700_000_000_000_000_000)}
	case *message.DownstreamResumeRequest:
		return &message.DownstreamResumeResponse{RequestID: r.RequestID, ResultCode: message.ResultCodeSucceeded, ResultString: "OK"}
	case *message.DownstreamCloseRequest:
		return &message.DownstreamCloseResponse{RequestID: r.RequestID, ResultCode: message.ResultCodeSucceeded, ResultString: "OK"}
	}
	return nil
}

func (b *broker) run() {
	defer close(b.done)
	for {
		raw, err := b.rw.Read()
		if err != nil {
			return
		}
		_, m, err := b.e.e.DecodeFrom(bytes.NewReader(raw))
		if err != nil {
			b.logf("broker: undecodable frame from the client: %v", err)
			continue
		}
		b.mu.Lock()
		if p, ok := m.(*message.Ping); ok {
			b.pings++
			b.pingIDs = append(b.pingIDs, uint32(p.RequestID))
			select {
			case b.pingSeen <- uint32(p.RequestID):
			default:
			}
		} else {
			if len(b.requests) < 200 {
				b.requests = append(b.requests, msgType(m))
			}
			if rq, ok := m.(message.Request); ok {
				if b.reqIDs == nil {
					b.reqIDs = map[string]uint32{}
				}
				b.reqIDs[msgType(m)] = rq.GetRequestID()
			}
		}
		ic := b.intercept
		b.mu.Unlock()
		if ic != nil {
			if frames, handled := ic(m); handled {
				b.send(frames...)
				continue
			}
		}
		if r := b.reply(m); r != nil {
			b.sendMsg(r)
		}
	}
}

func (b *broker) setIntercept(f func(m message.Message) ([][]byte, bool)) {
	b.mu.Lock()
	b.intercept = f
	b.mu.Unlock()
}

type wireEnv struct {
	conn       *wire.ClientConn
	br         *broker
	cli        *pipeEnd
	ucli, usrv *pipeEnd // the unreliable transport's two ends (nil when not attached)
}

// dial connects a real wire.ClientConn (real encoding.Transport, real decoder) to a fresh broker.
func dial(e enc, pingInterval, pingTimeout time.Duration, connectIntercept func(m message.Message) ([][]byte, bool)) (*wireEnv, error) {
	return dialU(e, pingInterval, pingTimeout, connectIntercept, false)
}

// dialU optionally attaches a second, "unreliable" transport (its read loop only routes DownstreamChunk frames).
func dialU(e enc, pingInterval, pingTimeout time.Duration, connectIntercept func(m message.Message) ([][]byte, bool), unreliable bool) (*wireEnv, error) {
	cli, srv := newPipe()
	br := &broker{rw: srv, e: e, pingSeen: make(chan uint32, 1024), done: make(chan struct{}), intercept: connectIntercept}
	cfg := &wire.ClientConnConfig{
		Transport:       encoding.NewTransport(&encoding.TransportConfig{Transport: cli, Encoding: e.e}),
		ProtocolVersion: "2.0.0",
		NodeID:          "c12-node",
		PingInterval:    pingInterval,
		PingTimeout:     pingTimeout,
	}
	w := &wireEnv{br: br, cli: cli}
	if unreliable {
		w.ucli, w.usrv = newPipe()
		cfg.UnreliableTransport = encoding.NewTransport(&encoding.TransportConfig{Transport: w.ucli, Encoding: e.e})
	}
	go br.run()
	var conn *wire.ClientConn
	var err error
	ok, _ := vrun.Watchdog(60*time.Second, func() { conn, err = wire.Connect(cfg) })
	if !ok {
		w.close()
		return nil, errConnectStuck
	}
	if err != nil {
		w.close()
		return w, err
	}
	w.conn = conn
	return w, nil
}

// inject writes frames to the reliable transport and, when there is one, to the unreliable transport as well.
func (w *wireEnv) inject(frames ...[]byte) {
	w.br.send(frames...)
	if w.usrv != nil {
		for _, f := range frames {
			_ = w.usrv.Write(f)
		}
	}
}

var errConnectStuck = fmt.Errorf("wire.Connect did not return within 60 s")

func (w *wireEnv) close() {
	if w.conn != nil {
		w.conn.Close()
	}
	w.cli.Close()
	w.br.rw.Close()
	if w.ucli != nil {
		w.ucli.Close()
		w.usrv.Close()
	}
}

// ---- frames of a given type carrying a given request id

var typSeeds = func() map[string]message.Message {
	res := map[string]message.Message{}
	for _, s := range seedMessages() {
		t := msgType(s.Msg)
		if _, ok := res[t]; !ok || strings.HasSuffix(s.Name, "/typ") || strings.HasSuffix(s.Name, "/rich") {
			res[t] = s.Msg
		}
	}
	return res
}()

// frameOf returns a fresh valid message of the named type; when the type has a request id it is set to id.
func frameOf(typ string, id uint32) (m message.Message, hasID bool) {
	src := reflect.ValueOf(typSeeds[typ]).Elem()
	cp := reflect.New(src.Type())
	cp.Elem().Set(src)
	if f := cp.Elem().FieldByName("RequestID"); f.IsValid() {
		f.SetUint(uint64(id))
		hasID = true
	}
	return cp.Interface().(message.Message), hasID
}

// isRequest reports whether the type is routed by request id on the client (message.Request and not Ping).
func isRequest(typ string) bool {
	m, _ := frameOf(typ, 0)
	_, ok := m.(message.Request)
	return ok && typ != "Ping"
}

// ---- application calls that wait for a reply

type wireCall struct {
	Name      string
	ReplyType string
	Do        func(ctx context.Context, c *wire.ClientConn) (any, error)
}

var wireCalls = []wireCall{
	{"SendUpstreamMetadata", "UpstreamMetadataAck", func(ctx context.Context, c *wire.ClientConn) (any, error) {
		return c.SendUpstreamMetadata(ctx, &message.UpstreamMetadata{Metadata: &message.BaseTime{Name: "c12", BaseTime: tm(1)}})
	}},
	{"SendUpstreamOpenRequest", "UpstreamOpenResponse", func(ctx context.Context, c *wire.ClientConn) (any, error) {
		return c.SendUpstreamOpenRequest(ctx, &message.UpstreamOpenRequest{SessionID: "s", QoS: message.QoSReliable, AckInterval: 10 * time.Millisecond})
	}},
	{"SendUpstreamResumeRequest", "UpstreamResumeResponse", func(ctx context.Context, c *wire.ClientConn) (any, error) {
		return c.SendUpstreamResumeRequest(ctx, &message.UpstreamResumeRequest{StreamID: uA}, message.QoSReliable)
	}},
	{"SendUpstreamCloseRequest", "UpstreamCloseResponse", func(ctx context.Context, c *wire.ClientConn) (any, error) {
		return c.SendUpstreamCloseRequest(ctx, &message.UpstreamCloseRequest{StreamID: uA})
	}},
	{"SendDownstreamOpenRequest", "DownstreamOpenResponse", func(ctx context.Context, c *wire.ClientConn) (any, error) {
		return c.SendDownstreamOpenRequest(ctx, &message.DownstreamOpenRequest{DesiredStreamIDAlias: 900, QoS: message.QoSReliable})
	}},
	{"SendDownstreamResumeRequest", "DownstreamResumeResponse", func(ctx context.Context, c *wire.ClientConn) (any, error) {
		return c.SendDownstreamResumeRequest(ctx, &message.DownstreamResumeRequest{StreamID: uB, DesiredStreamIDAlias: 901})
	}},
	{"SendDownstreamCloseRequest", "DownstreamCloseResponse", func(ctx context.Context, c *wire.ClientConn) (any, error) {
		return c.SendDownstreamCloseRequest(ctx, &message.DownstreamCloseRequest{StreamID: uB})
	}},
}

// guarded runs f in its own goroutine with a recover. When f has not returned, the goroutine dumps are examined every
// two seconds (see leakVerdict): a decisive dump ends the wait early with Decisive set; after d without a decisive dump the
// call is given up (Returned false, Decisive false => inconclusive).
type guardedResult struct {
	Returned bool
	Panic    any
	Stack    string
	Val      any
	Err      error

	Decisive bool // not returned, and the dumps show that it never can
	StuckAt  string
	Hint     string
	Dump     string
}

func guarded(d time.Duration, call string, f func() (any, error)) guardedResult {
	var r guardedResult
	var mu sync.Mutex
	done := make(chan struct{})
	go func() {
		defer close(done)
		var v any
		var err error
		var pv any
		var st string
		func() {
			defer func() {
				if x := recover(); x != nil {
					pv, st = x, shortStack()
				}
			}()
			v, err = f()
		}()
		mu.Lock()
		r.Val, r.Err, r.Panic, r.Stack = v, err, pv, st
		mu.Unlock()
	}()
	start := time.Now()
	for {
		select {
		case <-done:
			mu.Lock()
			defer mu.Unlock()
			r.Returned = true
			return r
		case <-time.After(2 * time.Second):
		}
		dec, at, hint, dump := leakVerdict(call)
		if dec {
			return guardedResult{Decisive: true, StuckAt: at, Hint: hint, Dump: dump}
		}
		if time.Since(start) > d {
			return guardedResult{Hint: hint, Dump: dump}
		}
	}
}

func gid(header string) string {
	f := strings.Fields(header)
	if len(f) >= 2 {
		return f[1]
	}
	return header
}

// leakVerdict decides, from goroutine dumps alone, whether a call that has not returned never can: the call's goroutine
// waits for a sync mutex inside wire.(*ClientConn).<call>, and every other goroutine that executes wire code has been
// seen parked at a channel operation, select, sleep or WaitGroup in at least one of the dumps taken while the call was
// stuck. A holder of the lock would have to stay inside a critical section for that whole period, and the critical
// sections of wire/client_conn.go contain no such blocking operation - so nobody holds the lock: it was leaked.
func leakVerdict(call string) (decisive bool, stuckAt, hint, lastDump string) {
	cleared := map[string]bool{}
	seen := map[string]string{}
	stuckID := ""
	for round := 0; round < 12; round++ {
		if round > 0 {
			time.Sleep(40 * time.Millisecond) // sampling distance, not a deadline: more samples can only clear more goroutines
		}
		lastDump = vrun.AllStacks()
		found := false
		for _, g := range vrun.ParseStacks(lastDump) {
			inCall, onLock, wireFrame := false, false, ""
			for _, f := range g.Frames {
				if strings.Contains(f, "wire.(*ClientConn)."+call) {
					inCall = true
				}
				if strings.HasPrefix(f, "sync.(*RWMutex).Lock") || strings.HasPrefix(f, "sync.(*RWMutex).RLock") || strings.HasPrefix(f, "sync.(*Mutex).Lock") {
					onLock = true
				}
				if wireFrame == "" && strings.Contains(f, "iscp-go/wire.") {
					wireFrame = f
				}
			}
			id := gid(g.Header)
			if inCall && onLock && (stuckID == "" || stuckID == id) {
				stuckID, stuckAt, found = id, g.InnermostLib(), true
				continue
			}
			if wireFrame == "" {
				continue
			}
			seen[id] = g.Header + " " + wireFrame
			h := g.Header
			if strings.Contains(h, "[chan receive") || strings.Contains(h, "[select") || strings.Contains(h, "[chan send") || strings.Contains(h, "[sleep") ||
				strings.Contains(h, "[sync.WaitGroup.Wait") || strings.Contains(h, "[IO wait") {
				cleared[id] = true
			}
		}
		if !found {
			return false, "", "the call is not waiting for a lock", lastDump
		}
		all := true
		for id := range seen {
			if !cleared[id] {
				all = false
			}
		}
		if all && round >= 2 {
			return true, stuckAt, fmt.Sprintf("%d goroutines executing wire code, each seen parked outside any critical section while the call was waiting", len(seen)), lastDump
		}
	}
	for id, h := range seen {
		if !cleared[id] {
			hint += "never seen parked: " + h + "; "
		}
	}
	return false, stuckAt, hint, lastDump
}

// cooperative is the fixed sequence of calls a healthy connection answers (each takes one of the connection's locks or
// needs the read path to route a reply). Every call must return a value or an error.
type coopStep struct {
	Name string
	Do   func(ctx context.Context, c *wire.ClientConn, k uint32) (any, error)
}

var coopSteps = []coopStep{
	{"SendUpstreamMetadata", func(ctx context.Context, c *wire.ClientConn, _ uint32) (any, error) { return wireCalls[0].Do(ctx, c) }},
	{"SubscribeDownstreamMeta", func(ctx context.Context, c *wire.ClientConn, k uint32) (any, error) {
		return c.SubscribeDownstreamMeta(ctx, 5000+k, "coop")
	}},
	{"SubscribeDownstreamChunk", func(ctx context.Context, c *wire.ClientConn, k uint32) (any, error) {
		return c.SubscribeDownstreamChunk(ctx, 5000+k, message.QoSReliable)
	}},
	{"SubscribeDownstreamChunkAckComplete", func(ctx context.Context, c *wire.ClientConn, k uint32) (any, error) {
		return c.SubscribeDownstreamChunkAckComplete(ctx, 5000+k)
	}},
	{"SendUpstreamOpenRequest", func(ctx context.Context, c *wire.ClientConn, _ uint32) (any, error) { return wireCalls[1].Do(ctx, c) }},
	{"SendDownstreamOpenRequest", func(ctx context.Context, c *wire.ClientConn, _ uint32) (any, error) { return wireCalls[4].Do(ctx, c) }},
	{"SendDownstreamCloseRequest", func(ctx context.Context, c *wire.ClientConn, _ uint32) (any, error) { return wireCalls[6].Do(ctx, c) }},
	{"SendUpstreamMetadata", func(ctx context.Context, c *wire.ClientConn, _ uint32) (any, error) { return wireCalls[0].Do(ctx, c) }},
}

type coopOutcome struct {
	Answered, Errored int
	Finding           *finding
	Inconcl           string
	Steps             []string
}

const coopTimeout = 45 * time.Second

func runCooperative(w *wireEnv, scenario string, k uint32) coopOutcome {
	var out coopOutcome
	for _, st := range coopSteps {
		ctx, cancel := context.WithTimeout(context.Background(), coopTimeout-5*time.Second)
		r := guarded(coopTimeout, st.Name, func() (any, error) { return st.Do(ctx, w.conn, k) })
		cancel()
		switch {
		case !r.Returned:
			at, hint := r.StuckAt, r.Hint
			if r.Decisive {
				out.Finding = &finding{"after the injected frame a cooperative call never returns: it waits for a connection lock that no running goroutine holds",
					"hang:wire:" + scenario + ":" + st.Name,
					map[string]any{"scenario": scenario, "stuck_call": st.Name, "stuck_at": at, "other_waiters": hint, "goroutines": clip(r.Dump, 12000), "broker_events": w.br.snapshot()}}
				return out
			}
			out.Inconcl = fmt.Sprintf("cooperative call %s did not return within %s and the dump is not decisive (%s)", st.Name, coopTimeout, hint)
			return out
		case r.Panic != nil:
			out.Finding = &finding{"a cooperative call panicked after the injected frame", "panic:wire:cooperative:" + st.Name + ":" + scenario,
				map[string]any{"scenario": scenario, "panic": fmt.Sprint(r.Panic), "stack": r.Stack}}
			return out
		case r.Err != nil:
			out.Errored++
			out.Steps = append(out.Steps, st.Name+"=error:"+errClass(r.Err.Error()))
			if ctx.Err() == context.DeadlineExceeded && !isClosed(w.conn) {
				out.Inconcl = fmt.Sprintf("cooperative call %s ran into its %s context deadline while the connection does not report closed", st.Name, coopTimeout-5*time.Second)
				return out
			}
		default:
			out.Answered++
			out.Steps = append(out.Steps, st.Name+"=ok")
		}
	}
	return out
}

func isClosed(c *wire.ClientConn) bool {
	select {
	case <-c.Closed():
		return true
	default:
		return false
	}
}

func (b *broker) snapshot() map[string]any {
	b.mu.Lock()
	defer b.mu.Unlock()
	return map[string]any{"pings": b.pings, "requests": append([]string(nil), b.requests...), "events": append([]string(nil), b.events...)}
}

func (b *broker) lastRequestID(typ string) (uint32, bool) {
	b.mu.Lock()
	defer b.mu.Unlock()
	id, ok := b.reqIDs[typ]
	return id, ok
}
