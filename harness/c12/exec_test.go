package c12

import (
	"bytes"
	"crypto/sha1"
	"encoding/binary"
	"encoding/hex"
	"fmt"
	"hash"
	"os"
	"path/filepath"
	"runtime"
	"runtime/debug"
	"runtime/metrics"
	"sort"
	"strings"
	"sync"
	"testing"
	"time"

	"verif/harness/vrun"
)

// ---- process level guards

const (
	softMemLimit  = 3 << 30  // debug.SetMemoryLimit: the collector works harder above this
	hardMemLimit  = 10 << 30 // the guard aborts the child above this (sandbox protection; reported as a broken run, never as a verdict)
	batchWatchdog = 120 * time.Second
	soloWatchdog  = 60 * time.Second
)

var guardOnce sync.Once

// startGuards limits memory. Go cannot recover() from "fatal error: out of memory" or a stack overflow: those kill the
// child and the runner reports the crash; the in-flight file (see batch.flush) then names the inputs.
func startGuards() {
	guardOnce.Do(func() {
		debug.SetMemoryLimit(softMemLimit)
		go func() {
			s := []metrics.Sample{{Name: "/memory/classes/total:bytes"}, {Name: "/memory/classes/heap/released:bytes"}}
			for {
				time.Sleep(100 * time.Millisecond)
				metrics.Read(s)
				if s[0].Value.Uint64()-s[1].Value.Uint64() > hardMemLimit {
					fmt.Fprintf(os.Stderr, "c12 memory guard: process uses more than %d bytes, aborting the child (see %s/inflight-* for the inputs in flight)\n", hardMemLimit, inflightDir())
					os.Exit(3)
				}
			}
		}()
	})
}

// inflightDir is where the batch in flight is parked: /dev/shm/verif-C12-inflight when a memory file system exists
// (the files are rewritten for every batch: tens of GB per thorough run), else /verif/replays/C12 (derived from this source
// file's location; not under version control). Neither is removed by the runner, so the file of a dead child survives.
func inflightDir() string {
	if st, err := os.Stat("/dev/shm"); err == nil && st.IsDir() {
		return "/dev/shm/verif-C12-inflight"
	}
	_, file, _, _ := runtime.Caller(0)
	return filepath.Join(filepath.Dir(file), "..", "..", "replays", "C12")
}

// ---- batches

type input struct {
	Class string
	B     []byte
	Aux   int64 // workload specific (TestC12Sized: the drawn MaxMessageSize)
}

type batch struct {
	c        *vrun.Case
	workload string
	e        enc
	judgeFn  func(e enc, in input) (outcome, *finding)

	pend      []input
	pendBytes int
	ordinal   int // inputs handed to the judge so far
	nbatches  int
	hash      hash.Hash

	finding   *finding            // the finding the case reports
	findings  map[string]*finding // first finding per key (exploration continues after a finding, up to maxKeysPerCase keys)
	nfindings int64
	inconcl   string
	classes   map[string]int64
	accepted  map[string]int64 // by message type
	errors    int64
	messages  int64
	bytesIn   int64
	maxLen    int
}

func newBatch(c *vrun.Case, workload string, e enc) *batch {
	startGuards()
	return &batch{c: c, workload: workload, e: e, hash: sha1.New(), classes: map[string]int64{}, accepted: map[string]int64{},
		judgeFn: func(e enc, in input) (outcome, *finding) { return judge(e, in.Class, in.B) }}
}

const maxKeysPerCase = 6

func (b *batch) stopped() bool {
	return b.finding != nil || b.inconcl != "" || len(b.findings) >= maxKeysPerCase
}

func (b *batch) add(class string, in []byte) { b.addAux(class, in, 0) }

func (b *batch) addAux(class string, in []byte, aux int64) {
	if b.stopped() || len(in) > maxInput {
		return
	}
	b.pend = append(b.pend, input{class, in, aux})
	b.pendBytes += len(in)
	if len(b.pend) >= 512 || b.pendBytes >= 2<<20 {
		b.flush()
	}
}

func (b *batch) inflightPath() string {
	return filepath.Join(inflightDir(), fmt.Sprintf("inflight-%d-%s-%s-case%d.bin", b.c.Env.Seed, b.c.Env.Tier, b.workload, b.c.Index))
}

// writeInflight stores the batch (encoding name, then per input: class, length, bytes) before it is decoded, so that a
// dead process leaves the inputs it was working on behind. The file is removed when the batch has been judged.
func (b *batch) writeInflight() string {
	p := b.inflightPath()
	_ = os.MkdirAll(filepath.Dir(p), 0o755)
	buf := make([]byte, 0, b.pendBytes+len(b.pend)*40+64)
	buf = append(buf, fmt.Sprintf("C12 inflight encoding=%s workload=%s case=%d first_input=%d count=%d\n", b.e.name, b.workload, b.c.Index, b.ordinal, len(b.pend))...)
	for _, in := range b.pend {
		buf = binary.AppendUvarint(buf, uint64(len(in.Class)))
		buf = append(buf, in.Class...)
		buf = binary.AppendUvarint(buf, uint64(len(in.B)))
		buf = append(buf, in.B...)
	}
	if err := os.WriteFile(p, buf, 0o644); err != nil {
		return ""
	}
	return p
}

func (b *batch) flush() {
	if b.stopped() || len(b.pend) == 0 {
		b.pend, b.pendBytes = nil, 0
		return
	}
	p := b.writeInflight()
	pend := b.pend
	b.pend, b.pendBytes = nil, 0
	b.nbatches++

	type one struct {
		out outcome
		f   *finding
	}
	results := make([]one, len(pend))
	var progress int64
	var mu sync.Mutex
	ok, _ := vrun.Watchdog(batchWatchdog, func() {
		for i, in := range pend {
			o, f := b.judgeFn(b.e, in)
			mu.Lock()
			results[i] = one{o, f}
			progress = int64(i + 1)
			mu.Unlock()
		}
	})
	if !ok {
		// The batch did not finish. Decide per input, alone: an input whose decode again does not finish within a generous
		// bound is reported as a hang; otherwise the stall is the machine's and the case is inconclusive.
		mu.Lock()
		from := int(progress)
		mu.Unlock()
		for i := from; i < len(pend) && i < from+3; i++ {
			in := pend[i]
			done, dump := vrun.Watchdog(soloWatchdog, func() { b.judgeFn(b.e, in) })
			if !done {
				w := inputWitness(b.e, in.Class, in.B)
				w["goroutines"] = clip(dump, 6000)
				w["note"] = fmt.Sprintf("did not finish in a batch (%s) nor alone (%s); inputs of this size normally take microseconds", batchWatchdog, soloWatchdog)
				b.finding = &finding{"decoding one input does not terminate", "hang:" + b.e.name, w}
				keepInflight(p)
				return
			}
		}
		b.inconcl = fmt.Sprintf("batch %d (inputs %d..%d) hit the %s wall-clock watchdog but no single input reproduced it", b.nbatches, b.ordinal, b.ordinal+len(pend), batchWatchdog)
		if p != "" {
			_ = os.Remove(p)
		}
		return
	}
	for i, in := range pend {
		r := results[i]
		if r.f != nil {
			b.nfindings++
			if b.findings == nil {
				b.findings = map[string]*finding{}
			}
			if b.findings[r.f.Key] == nil {
				r.f.Witness["input_ordinal"] = b.ordinal + i
				b.findings[r.f.Key] = r.f
			}
			continue
		}
		b.hash.Write([]byte{byte(len(in.B)), byte(len(in.B) >> 8)})
		b.hash.Write(in.B)
		b.classes[in.Class]++
		b.bytesIn += int64(len(in.B))
		if len(in.B) > b.maxLen {
			b.maxLen = len(in.B)
		}
		if r.out.Kind == "message" {
			b.messages++
			b.accepted[r.out.Type]++
		} else {
			b.errors++
		}
	}
	b.ordinal += len(pend)
	if p != "" {
		_ = os.Remove(p)
	}
}

func keepInflight(p string) {
	if p != "" {
		_ = os.Rename(p, p+".hang")
	}
}

// finish turns the batch state into the case result. desc describes the generated scenario.
func (b *batch) finish(desc map[string]any) vrun.Result {
	b.flush()
	if b.finding == nil && len(b.findings) > 0 {
		// Several defects can show in one case but a case carries one finding key: pick one as a function of the case index
		// so that over the cases every key surfaces; the others are listed in the witness.
		keys := make([]string, 0, len(b.findings))
		for k := range b.findings {
			keys = append(keys, k)
		}
		sort.Strings(keys)
		b.finding = b.findings[keys[b.c.Index%len(keys)]]
		b.finding.Witness["all_finding_keys_of_this_case"] = keys
		b.finding.Witness["inputs_with_a_finding_in_this_case"] = b.nfindings
	}
	if b.finding != nil {
		r := vrun.Violation(b.finding.Clause, b.finding.Key, b.finding.Witness)
		r.Desc = desc
		return r
	}
	if b.inconcl != "" {
		r := vrun.Inconcl(b.inconcl)
		r.Desc = desc
		return r
	}
	n := b.errors + b.messages
	sig := hex.EncodeToString(b.hash.Sum(nil))[:16]
	r := vrun.Hold(b.workload+"|"+sig, n > 0)
	desc["inputs"] = n
	desc["rejected_with_error"] = b.errors
	desc["accepted_as_message"] = b.messages
	desc["largest_input"] = b.maxLen
	r.Desc = desc
	r.Stat("inputs", n)
	r.Stat("inputs_"+b.e.name, n)
	r.Stat("input_bytes", b.bytesIn)
	r.Stat("rejected_with_error_"+b.e.name, b.errors)
	r.Stat("accepted_and_round_tripped_"+b.e.name, b.messages)
	cl := make([]string, 0, len(b.classes))
	for k := range b.classes {
		cl = append(cl, k)
	}
	sort.Strings(cl)
	r.AddSet("input_classes", cl...)
	for t := range b.accepted {
		r.AddSet("accepted_message_types_"+b.e.name, t)
	}
	return r
}

// TestC12ReplayInflight re-runs the inputs of a batch file left behind by a dead child, one at a time, announcing each
// input on stderr before it is decoded (C12_INFLIGHT=<file> go test -run TestC12ReplayInflight). Not a workload.
func TestC12ReplayInflight(t *testing.T) {
	p := os.Getenv("C12_INFLIGHT")
	if p == "" {
		t.Skip("set C12_INFLIGHT to a batch file")
	}
	raw, err := os.ReadFile(p)
	if err != nil {
		t.Fatal(err)
	}
	nl := bytes.IndexByte(raw, '\n')
	if nl < 0 {
		t.Fatal("not a batch file")
	}
	header := string(raw[:nl])
	e := encs[0]
	if strings.Contains(header, "encoding=json") {
		e = encs[1]
	}
	rest := raw[nl+1:]
	for i := 0; len(rest) > 0; i++ {
		cl, n := binary.Uvarint(rest)
		class := string(rest[n : n+int(cl)])
		rest = rest[n+int(cl):]
		il, n := binary.Uvarint(rest)
		in := rest[n : n+int(il)]
		rest = rest[n+int(il):]
		fmt.Fprintf(os.Stderr, "input %d class=%s len=%d sha1=%x\n", i, class, len(in), sha1.Sum(in))
		if _, f := judge(e, class, in); f != nil {
			t.Errorf("input %d: %s (%s)", i, f.Key, f.Clause)
		}
	}
}
