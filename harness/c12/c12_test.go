// C12 - decoders never crash on hostile bytes and accept only self-consistent messages.
//
// Workloads (each is one vrun.Loop):
//
//	TestC12Corrupt        structure-aware corruption of valid encodings of every message type (deterministic grid)
//	TestC12Mutate         random stacked mutations with a small accepted-input feedback pool (seed driven)
//	TestC12Sized          the same kinds of bytes through encoding.Transport with a drawn MaxMessageSize
//	TestC12Fuzz           (thorough) native coverage-guided fuzzing with an iteration budget, crashers become violations
//	TestC12WireFrames     frames injected into a live wire.ClientConn: requests in flight in the application's goroutine
//	TestC12WireKeepalive  frames colliding with the keepalive ping (a failure here kills the process: own workload)
package c12

import (
	"fmt"
	"strings"
	"testing"

	"verif/harness/vrun"
)

var decodeAssumptions = []string{
	"'decodes back to itself' is judged modulo nil-versus-empty slices and maps (the converter always builds empty, never nil, repeated fields); nil-ness of pointers, dynamic types behind interfaces and every scalar and byte must be identical",
	"byte equality of two successive protobuf encodings is judged only when no map of the message has two or more entries: the generated marshaller iterates Go maps, whose order is not a function of the message; such messages are instead decoded once more and compared as messages (as for JSON)",
	"inputs are capped at 1 MiB; 'never hangs' is observed with a 120 s wall-clock watchdog per batch of <=512 inputs whose firing is inconclusive unless the single input again fails to finish alone within 60 s",
	"'kills the process' covers what recover() cannot stop (fatal error: out of memory / stack overflow): the child then dies, the runner reports the crash and the in-flight batch file names the inputs",
}

type corruptCase struct {
	Seed int // index into seeds
	Cor  int // index into corruptors
}

func corruptGrid(seeds []seedEncoding) []corruptCase {
	var g []corruptCase
	for si, s := range seeds {
		for ci, c := range corruptors {
			if c.Enc == "" || c.Enc == s.Enc {
				g = append(g, corruptCase{si, ci})
			}
		}
	}
	return g
}

func seedsOf(seeds []seedEncoding, encName string) []seedEncoding {
	var out []seedEncoding
	for _, s := range seeds {
		if s.Enc == encName {
			out = append(out, s)
		}
	}
	return out
}

func mustSeeds(t *testing.T) []seedEncoding {
	seeds, failed := buildSeeds()
	if len(failed) > 0 {
		t.Fatalf("the valid corpus has holes, refusing to run: %s", strings.Join(failed, "; "))
	}
	have := map[string]bool{}
	for _, s := range seeds {
		have[msgType(s.Msg)] = true
	}
	for _, ty := range allMessageTypes {
		if !have[ty] {
			t.Fatalf("no valid seed for message type %s", ty)
		}
	}
	return seeds
}

func TestC12Corrupt(t *testing.T) {
	env := vrun.LoadEnv()
	seeds := mustSeeds(t)
	grid := corruptGrid(seeds)
	byEnc := map[string][]seedEncoding{"protobuf": seedsOf(seeds, "protobuf"), "json": seedsOf(seeds, "json")}
	meta := vrun.Meta{Property: "C12", Workload: "TestC12Corrupt", Total: len(grid),
		Rule:        fmt.Sprintf("grid of %d valid encodings (every one of the 29 message types of encoding/convert, 2-9 variants each, protobuf and JSON) x the corruptor families that apply to the encoding (%d families: truncate at every byte, bit flips, splices of two encodings, wrong-length uuids, hostile varint/enum values, deleted/emptied/duplicated/repeated fields, hostile length prefixes, wire-type and field-number changes, groups; JSON: delete/null/type swap of every node, hostile strings (base64 lengths, invalid UTF-8, surrogates), hostile numbers, key corruption and oneof abuse, deep nesting and repetition). Every generated input is decoded and, when accepted, re-encoded, re-decoded, compared and encoded again. A case is non-trivial when it judged at least one input; two cases are distinct when the multiset of bytes they fed differs (signature = hash of all inputs).", len(seeds), len(corruptors)),
		Assumptions: decodeAssumptions}
	vrun.Loop(t, meta, 0, func(c *vrun.Case) vrun.Result {
		gc := grid[c.Index]
		s := seeds[gc.Seed]
		cor := corruptors[gc.Cor]
		e := encByName(s.Enc)
		b := newBatch(c, meta.Workload, e)
		b.add("seed", s.Bytes)
		cor.Run(s, byEnc[s.Enc], env.Thorough(), b.add)
		r := b.finish(map[string]any{"encoding": s.Enc, "seed_message": s.Name, "corruptor": cor.Name, "seed_len": len(s.Bytes)})
		if r.Verdict == vrun.Held {
			r.AddSet("seed_message_types", msgType(s.Msg))
			r.AddSet("corruptors", cor.Name)
			r.AddSet("seed_variants", s.Enc+"/"+s.Name)
		}
		return r
	})
}

// ---- random stacked mutations with feedback

func TestC12Mutate(t *testing.T) {
	env := vrun.LoadEnv()
	seeds := mustSeeds(t)
	byEnc := map[string][]seedEncoding{"protobuf": seedsOf(seeds, "protobuf"), "json": seedsOf(seeds, "json")}
	perCase := 4000
	meta := vrun.Meta{Property: "C12", Workload: "TestC12Mutate", Total: env.Pick(400, 3000),
		Rule:        fmt.Sprintf("case i works on one encoding (even i protobuf, odd i JSON): starting from a pool holding the valid encodings of all message types it draws %d inputs, each by applying 1-6 (mostly 1-2) stacked random operations (bit/byte edits, deletions, insertions, duplications, truncation, interesting varints and integers, crossover with another pool member, chunk repetition; JSON also number/string/snippet replacement) to a pool member; an input that is accepted with a message shape (type, set fields, length classes) not seen before in the case joins the pool, as do the first 48 inputs rejected with a new class of error text (feedback on observable behaviour). Every input goes through the decode/round-trip oracle. Non-trivial: at least one input judged; distinct: different input multiset.", perCase),
		Assumptions: decodeAssumptions}
	vrun.Loop(t, meta, 0, func(c *vrun.Case) vrun.Result {
		encName := "protobuf"
		if c.Index%2 == 1 {
			encName = "json"
		}
		e := encByName(encName)
		pool := make([][]byte, 0, 1024)
		for _, s := range byEnc[encName] {
			pool = append(pool, s.Bytes)
		}
		novel := map[string]bool{}
		added, rejectedInPool := 0, 0
		b := newBatch(c, meta.Workload, e)
		b.judgeFn = func(e enc, in input) (outcome, *finding) {
			o, f := judge(e, in.Class, in.B)
			if f != nil || len(in.B) > 64<<10 || len(pool) >= 1024 {
				return o, f
			}
			// feedback on observable behaviour only: a new message shape, or (rarely kept) a new class of error text
			key := o.Type + ":" + o.Shape
			if o.Kind == "error" {
				key = "E:" + errClass(o.Err)
			}
			if !novel[key] {
				novel[key] = true
				if o.Kind == "message" || rejectedInPool < 48 {
					pool = append(pool, in.B) // read by the generator only between batches (flush is synchronous)
					added++
					if o.Kind == "error" {
						rejectedInPool++
					}
				}
			}
			return o, f
		}
		for i := 0; i < perCase && !b.stopped(); i++ {
			in := pool[c.Rng.Intn(len(pool))]
			depth := 1
			switch r := c.Rng.Intn(8); {
			case r >= 6:
				depth = 3 + c.Rng.Intn(4)
			case r >= 4:
				depth = 2
			}
			for d := 0; d < depth; d++ {
				in = mutateOnce(c.Rng, in, pool[c.Rng.Intn(len(pool))], encName == "json")
			}
			b.add(fmt.Sprintf("mutate-depth-%d", depth), in)
		}
		r := b.finish(map[string]any{"encoding": encName, "pool_start": len(byEnc[encName]), "pool_added_by_feedback": added})
		if r.Verdict == vrun.Held {
			r.Stat("feedback_pool_additions", int64(added))
			r.Stat("behaviour_classes_summed_over_cases", int64(len(novel)))
		}
		return r
	})
}

func sizeClass(n int) int {
	c := 0
	for n > 0 {
		n >>= 2
		c++
	}
	return c
}

// errClass reduces an error text to its letters-only skeleton (no values), for novelty detection and finding keys.
func errClass(s string) string {
	if s == "" {
		return ""
	}
	var out []byte
	words := 0
	inWord := false
	for i := 0; i < len(s) && words < 8; i++ {
		ch := s[i]
		if (ch >= 'a' && ch <= 'z') || (ch >= 'A' && ch <= 'Z') || ch == '_' {
			if !inWord && len(out) > 0 {
				out = append(out, '-')
			}
			inWord = true
			out = append(out, ch)
		} else if inWord {
			inWord = false
			words++
		}
	}
	return string(out)
}
