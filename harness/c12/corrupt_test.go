package c12

import (
	"bytes"
	"encoding/base64"
	"fmt"
	"strings"
)

const maxInput = 1 << 20 // inputs are capped at 1 MiB

type emitFn func(class string, b []byte)

// corruptor is one structure-aware family. It is a pure function of the seed encoding, the list of all seeds of the
// same encoding and the tier - no randomness.
type corruptor struct {
	Name string
	Enc  string // "protobuf", "json" or "" (both)
	Run  func(s seedEncoding, all []seedEncoding, thorough bool, emit emitFn)
}

var corruptors = []corruptor{
	{"truncate", "", corTruncate},
	{"bitflip", "", corBitflip},
	{"splice", "", corSplice},
	{"pb-uuid-length", "protobuf", corPBUUID},
	{"pb-varint-values", "protobuf", corPBVarint},
	{"pb-delete-empty-dup", "protobuf", corPBDelete},
	{"pb-length-prefix", "protobuf", corPBLength},
	{"pb-wiretype", "protobuf", corPBWireType},
	{"pb-fieldnum", "protobuf", corPBFieldNum},
	{"json-delete-null-type", "json", corJType},
	{"json-strings", "json", corJStrings},
	{"json-numbers", "json", corJNumbers},
	{"json-keys", "json", corJKeys},
	{"json-nesting", "json", corJNesting},
}

// ---- encoding independent

func corTruncate(s seedEncoding, _ []seedEncoding, _ bool, emit emitFn) {
	b := s.Bytes
	for i := 0; i < len(b); i++ {
		emit("truncate-prefix", b[:i])
	}
	for i := 1; i < len(b); i++ {
		emit("truncate-suffix", b[i:])
	}
	// a hole in the middle
	for i := 1; i+1 < len(b); i += 1 + len(b)/64 {
		emit("truncate-hole", append(append([]byte(nil), b[:i]...), b[i+1:]...))
	}
}

func corBitflip(s seedEncoding, _ []seedEncoding, thorough bool, emit emitFn) {
	b := s.Bytes
	bits := len(b) * 8
	stride := 1
	if !thorough && bits > 4096 {
		stride = (bits + 4095) / 4096
	}
	for i := 0; i < bits; i += stride {
		c := append([]byte(nil), b...)
		c[i/8] ^= 1 << (i % 8)
		emit("bitflip", c)
	}
	bstride := 1
	if !thorough && len(b) > 512 {
		bstride = (len(b) + 511) / 512
	}
	for i := 0; i < len(b); i += bstride {
		for _, v := range []byte{0x00, 0xff, 0x80, 0x7f, '"', '{', '[', '\\'} {
			if b[i] == v {
				continue
			}
			c := append([]byte(nil), b...)
			c[i] = v
			emit("byteset", c)
		}
	}
}

func cutPoints(n int) []int {
	c := []int{0, 1, 2, 3, n / 4, n / 2, 3 * n / 4, n - 2, n - 1, n}
	var out []int
	seen := map[int]bool{}
	for _, v := range c {
		if v >= 0 && v <= n && !seen[v] {
			seen[v] = true
			out = append(out, v)
		}
	}
	return out
}

func corSplice(s seedEncoding, all []seedEncoding, thorough bool, emit emitFn) {
	a := s.Bytes
	for k, o := range all {
		if !thorough && k%3 != 0 && msgType(o.Msg) != msgType(s.Msg) {
			continue
		}
		b := o.Bytes
		emit("splice-concat", append(append([]byte(nil), a...), b...))
		for _, i := range cutPoints(len(a)) {
			for _, j := range cutPoints(len(b)) {
				if (i == 0 && j == 0) || (i == len(a) && j == len(b)) {
					continue
				}
				emit("splice", append(append([]byte(nil), a[:i]...), b[j:]...))
			}
		}
	}
}

// ---- protobuf

var topLevelNums = []uint64{1, 2, 3, 64, 65, 66, 67, 68, 69, 70, 71, 72, 73, 128, 129, 130, 131, 132, 133, 134, 135, 136, 137, 138, 192, 193, 256, 257, 258}

func pbTree(s seedEncoding) []*pbField {
	t, ok := parsePB(s.Bytes, 8)
	if !ok {
		return nil
	}
	return t
}

func isLeafBytes(f *pbField) bool { return f.WT == 2 && f.Sub == nil }

func corPBUUID(s seedEncoding, _ []seedEncoding, _ bool, emit emitFn) {
	root := pbTree(s)
	n := len(sitesPB(&root))
	for k := 0; k < n; k++ {
		for _, l := range []int{0, 1, 15, 17, 32, 36} {
			applicable := false
			out := mutatePB(root, k, func(_ pbSite, f *pbField) {
				if f.WT != 2 || (len(f.Bytes) != 16 && len(f.Bytes) != 36) || l == len(f.Bytes) {
					return
				}
				applicable = true
				nb := make([]byte, l)
				for i := range nb {
					nb[i] = f.Bytes[i%len(f.Bytes)]
				}
				f.Bytes, f.Sub = nb, nil
			})
			if applicable {
				emit(fmt.Sprintf("pb-uuid-len-%d", l), out)
			}
		}
		// 36-byte textual uuids: non-hex characters, braces, urn form
		for i, repl := range []string{"zzzzzzzz-zzzz-zzzz-zzzz-zzzzzzzzzzzz", "{a0a1a2a3-b0b1-c0c1-d0d1-e0e1e2e3e4e5}", "urn:uuid:a0a1a2a3-b0b1-c0c1-d0d1-e0e1e2e3e4e5",
			"a0a1a2a3b0b1c0c1d0d1e0e1e2e3e4e5", "a0a1a2a3-b0b1-c0c1-d0d1-e0e1e2e3e4e", "\xff\xfe\xfd", ""} {
			applicable := false
			out := mutatePB(root, k, func(_ pbSite, f *pbField) {
				if f.WT == 2 && len(f.Bytes) == 36 {
					applicable = true
					f.Bytes, f.Sub = []byte(repl), nil
				}
			})
			if applicable {
				emit(fmt.Sprintf("pb-uuid-text-%d", i), out)
			}
		}
	}
}

var hostileVarints = []uint64{0, 1, 2, 3, 36, 37, 38, 127, 128, 255, 256, 65535, 1<<31 - 1, 1 << 31, 1<<32 - 1, 1 << 32, 1<<63 - 1, 1 << 63, ^uint64(0)}

func corPBVarint(s seedEncoding, _ []seedEncoding, _ bool, emit emitFn) {
	root := pbTree(s)
	n := len(sitesPB(&root))
	for k := 0; k < n; k++ {
		isVar := false
		mutatePB(root, k, func(_ pbSite, f *pbField) { isVar = f.WT == 0 })
		if !isVar {
			continue
		}
		for _, v := range hostileVarints {
			emit("pb-varint-value", mutatePB(root, k, func(_ pbSite, f *pbField) { f.Var = v }))
		}
		// the same field appended a second time with another value (last one wins / repeated)
		emit("pb-varint-dup", mutatePB(root, k, func(st pbSite, f *pbField) {
			c := *f
			c.Var = 37
			*st.Parent = append(*st.Parent, &c)
		}))
	}
	// every enum-like/absent field: add small-numbered varint fields that the seed does not carry, at every message
	// level (proto3 omits zero values, so enum fields at their zero value are not in the tree)
	for k := 0; k < n; k++ {
		isMsg := false
		mutatePB(root, k, func(_ pbSite, f *pbField) { isMsg = f.WT == 2 && (f.Sub != nil || len(f.Bytes) == 0) })
		if !isMsg {
			continue
		}
		for num := uint64(1); num <= 9; num++ {
			for _, v := range []uint64{1, 3, 37, 255, 1 << 31, ^uint64(0)} {
				emit("pb-varint-added", mutatePB(root, k, func(_ pbSite, f *pbField) {
					f.Sub = append(f.Sub, &pbField{Num: num, WT: 0, Var: v})
				}))
			}
		}
	}
	// non canonical varints: over-long encodings of small values in tag, length and value position
	b := s.Bytes
	if tag, n0 := readVarint(b); n0 > 0 {
		for _, l := range []int{n0 + 1, 5, 10, 11, 12} {
			emit("pb-overlong-tag", append(overlongVarint(tag, l), b[n0:]...))
		}
		if l, n1 := readVarint(b[n0:]); n1 > 0 {
			for _, ol := range []int{n1 + 1, 5, 10, 11} {
				out := append([]byte(nil), b[:n0]...)
				out = append(out, overlongVarint(l, ol)...)
				emit("pb-overlong-len", append(out, b[n0+n1:]...))
			}
		}
	}
}

func corPBDelete(s seedEncoding, _ []seedEncoding, thorough bool, emit emitFn) {
	root := pbTree(s)
	n := len(sitesPB(&root))
	for k := 0; k < n; k++ {
		emit("pb-delete-field", mutatePB(root, k, func(st pbSite, _ *pbField) {
			*st.Parent = append(append([]*pbField(nil), (*st.Parent)[:st.Index]...), (*st.Parent)[st.Index+1:]...)
		}))
		emit("pb-empty-field", mutatePB(root, k, func(_ pbSite, f *pbField) {
			if f.WT == 2 {
				f.Bytes, f.Sub = nil, nil
			} else {
				f.Var, f.Fix = 0, make([]byte, len(f.Fix))
			}
		}))
		emit("pb-keep-only-field", mutatePB(root, k, func(st pbSite, f *pbField) { *st.Parent = []*pbField{f} }))
		emit("pb-dup-field", mutatePB(root, k, func(st pbSite, f *pbField) { *st.Parent = append(*st.Parent, f) }))
		emit("pb-swap-first", mutatePB(root, k, func(st pbSite, f *pbField) {
			p := *st.Parent
			p[0], p[st.Index] = p[st.Index], p[0]
		}))
		// huge counts: the field repeated until the input reaches the cap
		reps := []int{1000}
		if thorough {
			reps = append(reps, 50000)
		}
		for _, r := range reps {
			out := mutatePB(root, k, func(st pbSite, f *pbField) {
				one := len(appendField(nil, f))
				if one == 0 {
					one = 1
				}
				cnt := r
				if cnt*one > maxInput/2 {
					cnt = maxInput / 2 / one
				}
				for i := 0; i < cnt; i++ {
					*st.Parent = append(*st.Parent, f)
				}
			})
			if len(out) <= maxInput {
				emit("pb-repeat-field", out)
			}
		}
	}
	emit("pb-empty-input", nil)
}

var hostileLens = []uint64{0, 1, 127, 128, 1<<31 - 1, 1 << 31, 1<<32 - 1, 1 << 32, 1<<63 - 1, 1 << 63, ^uint64(0), ^uint64(0) - 8}

func corPBLength(s seedEncoding, _ []seedEncoding, _ bool, emit emitFn) {
	root := pbTree(s)
	n := len(sitesPB(&root))
	for k := 0; k < n; k++ {
		isLen := false
		var clen uint64
		mutatePB(root, k, func(_ pbSite, f *pbField) {
			isLen = f.WT == 2
			if isLen {
				c := f.Bytes
				if f.Sub != nil {
					c = serializePB(f.Sub)
				}
				clen = uint64(len(c))
			}
		})
		if !isLen {
			continue
		}
		ls := append([]uint64{clen - 1, clen + 1, clen + 2, clen * 2}, hostileLens...)
		for _, l := range ls {
			l := l
			emit("pb-length-prefix", mutatePB(root, k, func(_ pbSite, f *pbField) { f.RawLen = &l }))
			// the same with nothing at all after the length
			emit("pb-length-prefix-cut", cutAfterField(root, k, l))
		}
	}
}

// cutAfterField serializes the tree up to and including the (overridden) length prefix of site k and stops there.
func cutAfterField(root []*pbField, k int, l uint64) []byte {
	marker := []byte{0xde, 0xad, 0xbe, 0xef, 0xfe, 0xed, 0xfa, 0xce}
	out := mutatePB(root, k, func(_ pbSite, f *pbField) {
		f.RawLen = &l
		f.Sub = nil
		f.Bytes = marker
	})
	if i := bytes.Index(out, marker); i >= 0 {
		return out[:i]
	}
	return out
}

func corPBWireType(s seedEncoding, _ []seedEncoding, _ bool, emit emitFn) {
	root := pbTree(s)
	n := len(sitesPB(&root))
	for k := 0; k < n; k++ {
		for wt := 0; wt < 8; wt++ {
			wt := wt
			same := false
			out := mutatePB(root, k, func(_ pbSite, f *pbField) {
				if f.WT == wt {
					same = true
					return
				}
				// keep the payload bytes as they are, only the declared type changes
				payload := appendField(nil, f)
				_, tn := readVarint(payload)
				f.RawTag = append(appendVarint(nil, f.Num<<3|uint64(wt)), payload[tn:]...)
				f.WT = 7 // writes RawTag only
			})
			if !same {
				emit(fmt.Sprintf("pb-wiretype-%d", wt), out)
			}
		}
	}
	// groups: deep start-group nesting, unbalanced end-group, group around the message
	for _, d := range []int{1, 2, 100, 10000, 200000} {
		emit("pb-group-deep", bytes.Repeat([]byte{0x0b}, d))
		emit("pb-group-deep-balanced", append(bytes.Repeat([]byte{0x0b}, d), bytes.Repeat([]byte{0x0c}, d)...))
		emit("pb-group-in-message", append(append([]byte(nil), s.Bytes...), append(bytes.Repeat([]byte{0x0b}, d), bytes.Repeat([]byte{0x0c}, d)...)...))
	}
	emit("pb-endgroup-first", append([]byte{0x0c}, s.Bytes...))
	emit("pb-endgroup-mismatch", append(append([]byte{0x0b}, s.Bytes...), 0x14))
}

func corPBFieldNum(s seedEncoding, _ []seedEncoding, _ bool, emit emitFn) {
	root := pbTree(s)
	n := len(sitesPB(&root))
	for k := 0; k < n; k++ {
		depth := 0
		mutatePB(root, k, func(st pbSite, _ *pbField) { depth = st.Depth })
		nums := []uint64{1, 2, 3, 4, 5, 6, 7, 8, 9, 10, 15, 16, 1<<29 - 1}
		if depth == 0 {
			nums = append(nums, topLevelNums...)
		}
		for _, num := range nums {
			num := num
			emit("pb-fieldnum", mutatePB(root, k, func(_ pbSite, f *pbField) { f.Num = num }))
		}
		// illegal tags: field number 0, number beyond 2^29, tag varint that overflows 64 bits
		for _, raw := range [][]byte{{0x00}, {0x02}, appendVarint(nil, (1<<29)<<3|2), appendVarint(nil, ^uint64(0)), overlongVarint(^uint64(0), 11)} {
			raw := raw
			emit("pb-fieldnum-illegal", mutatePB(root, k, func(_ pbSite, f *pbField) {
				payload := appendField(nil, f)
				_, tn := readVarint(payload)
				f.RawTag = append(append([]byte(nil), raw...), payload[tn:]...)
				f.WT = 7
			}))
		}
	}
	// two members of the top-level oneof in one message: this body followed by an empty member of every other type
	for _, num := range topLevelNums {
		emit("pb-oneof-twice", append(append([]byte(nil), s.Bytes...), append(appendVarint(nil, num<<3|2), 0)...))
		emit("pb-oneof-empty-member", append(appendVarint(nil, num<<3|2), 0))
		emit("pb-oneof-tag-only", appendVarint(nil, num<<3|2))
	}
}

// ---- JSON

func jTree(s seedEncoding) *jnode {
	t, err := parseJSONTree(s.Bytes)
	if err != nil {
		return nil
	}
	return t
}

var jReplacements = []string{"null", "true", "false", "0", "-1", "1", "1.5", "1e400", "-0", `""`, `"x"`, "[]", "{}", "[null]", `{"a":1}`, "[[]]", "[{}]",
	"4294967296", "18446744073709551616", `"4294967296"`, `"-1"`, `"NaN"`, "NaN", "Infinity", "undefined", ""}

func corJType(s seedEncoding, _ []seedEncoding, _ bool, emit emitFn) {
	root := jTree(s)
	n := len(root.sites())
	for k := 0; k < n; k++ {
		if k > 0 {
			emit("json-delete", mutateJ(root, k, func(_ func() *jnode, _ func(*jnode), st jsite) {
				p := st.Parent
				p.Vals = append(append([]*jnode(nil), p.Vals[:st.Index]...), p.Vals[st.Index+1:]...)
				if p.Kind == 'o' {
					p.Keys = append(append([]string(nil), p.Keys[:st.Index]...), p.Keys[st.Index+1:]...)
				}
			}))
		}
		for _, r := range jReplacements {
			emit("json-replace-value", mutateJ(root, k, func(_ func() *jnode, set func(*jnode), _ jsite) { set(jraw(r)) }))
		}
		// wrap / unwrap
		emit("json-wrap-array", mutateJ(root, k, func(get func() *jnode, set func(*jnode), _ jsite) { set(&jnode{Kind: 'a', Vals: []*jnode{get()}}) }))
		emit("json-wrap-object", mutateJ(root, k, func(get func() *jnode, set func(*jnode), _ jsite) {
			set(&jnode{Kind: 'o', Keys: []string{`"value"`}, Vals: []*jnode{get()}})
		}))
		emit("json-array-null-element", mutateJ(root, k, func(get func() *jnode, _ func(*jnode), _ jsite) {
			if g := get(); g.Kind == 'a' {
				g.Vals = append(g.Vals, jraw("null"))
			} else if g.Kind == 'o' {
				g.Keys = append(g.Keys, `"0"`)
				g.Vals = append(g.Vals, jraw("null"))
			}
		}))
	}
}

func b64(n int) string {
	b := make([]byte, n)
	for i := range b {
		b[i] = byte(i*17 + 3)
	}
	return base64.StdEncoding.EncodeToString(b)
}

var jStringRepl = []string{
	`"!!!!"`, `"===="`, `"A"`, `"AA"`, `"AAA"`, `"A==="`, // invalid / short base64
	`"` + b64(0) + `"`, `"` + b64(1) + `"`, `"` + b64(15) + `"`, `"` + b64(17) + `"`, `"` + b64(32) + `"`,
	`"ERERESIiMzNERFVVVVVVVQ"`,   // unpadded base64 of 16 bytes
	`"ERERESIiMzNERFVVVVVVVQ=="`, // a valid 16-byte value (where a string was expected)
	`"EREREiIzM0RFVVVVVVU-_w=="`, // url-safe alphabet
	`"NOPE"`, `"SUCCEEDED"`, `"RELIABLE"`, `"succeeded"`, `"37"`, `"0"`,
	`"a0a1a2a3-b0b1-c0c1-d0d1-e0e1e2e3e4e"`, `"{a0a1a2a3-b0b1-c0c1-d0d1-e0e1e2e3e4e5}"`, `"urn:uuid:a0a1a2a3-b0b1-c0c1-d0d1-e0e1e2e3e4e5"`, `"a0a1a2a3b0b1c0c1d0d1e0e1e2e3e4e5"`, `"zzzzzzzz-zzzz-zzzz-zzzz-zzzzzzzzzzzz"`,
	"\"\xff\xfe\xfd\"", "\"a\xc0\xafb\"", "\"\xed\xa0\x80\"", // raw invalid UTF-8, overlong, encoded surrogate
	`"\ud800"`, `"\udc00\ud800"`, `"\u0000"`, `"\uZZZZ"`, `"\x41"`, `"unterminated`, `'single'`, "\"line\nbreak\"", `"tab	tab"`,
	`"9223372036854775808"`, `"-9223372036854775809"`, `"1e3"`, `"1.0"`, `" 1"`, `"1 "`, `"0x10"`, `"+1"`,
}

func corJStrings(s seedEncoding, _ []seedEncoding, thorough bool, emit emitFn) {
	root := jTree(s)
	n := len(root.sites())
	for k := 0; k < n; k++ {
		isStr := false
		mutateJ(root, k, func(get func() *jnode, _ func(*jnode), _ jsite) {
			g := get()
			isStr = g.Kind == 'r' && strings.HasPrefix(g.Raw, `"`)
		})
		if !isStr {
			continue
		}
		for _, r := range jStringRepl {
			emit("json-string-value", mutateJ(root, k, func(_ func() *jnode, set func(*jnode), _ jsite) { set(jraw(r)) }))
		}
		ln := 100_000
		if thorough {
			ln = 900_000
		}
		emit("json-string-long", mutateJ(root, k, func(_ func() *jnode, set func(*jnode), _ jsite) { set(jraw(`"` + strings.Repeat("A", ln) + `"`)) }))
		emit("json-string-long-escapes", mutateJ(root, k, func(_ func() *jnode, set func(*jnode), _ jsite) { set(jraw(`"` + strings.Repeat(`é`, ln/6) + `"`)) }))
	}
}

var jNumberRepl = []string{"37", "38", "255", "256", "-1", "-0", "2147483647", "2147483648", "4294967295", "4294967296", "9007199254740993",
	"9223372036854775807", "9223372036854775808", "-9223372036854775808", "-9223372036854775809", "18446744073709551615", "18446744073709551616",
	"1e3", "1E3", "1e+3", "1.0", "1.000", "0.5", "1e-3", "1e400", "-1e400", "1e", "1.", ".5", "01", "00", "+1", "0x10", "1_000", "１",
	"1" + strings.Repeat("0", 400), "0." + strings.Repeat("0", 400) + "1", strings.Repeat("9", 5000)}

func corJNumbers(s seedEncoding, _ []seedEncoding, _ bool, emit emitFn) {
	root := jTree(s)
	n := len(root.sites())
	for k := 0; k < n; k++ {
		kind := 0 // 1 bare number, 2 numeric string
		mutateJ(root, k, func(get func() *jnode, _ func(*jnode), _ jsite) {
			g := get()
			if g.Kind != 'r' || g.Raw == "" {
				return
			}
			c := g.Raw[0]
			if c == '-' || (c >= '0' && c <= '9') {
				kind = 1
			} else if len(g.Raw) > 2 && c == '"' && (g.Raw[1] == '-' || (g.Raw[1] >= '0' && g.Raw[1] <= '9')) && !strings.ContainsAny(g.Raw[1:len(g.Raw)-1], "abcdefABCDEFnt/=+") {
				kind = 2
			}
		})
		if kind == 0 {
			continue
		}
		for _, r := range jNumberRepl {
			emit("json-number-value", mutateJ(root, k, func(_ func() *jnode, set func(*jnode), _ jsite) { set(jraw(r)) }))
			emit("json-number-as-string", mutateJ(root, k, func(_ func() *jnode, set func(*jnode), _ jsite) { set(jraw(`"` + r + `"`)) }))
		}
	}
	// numeric map keys
	for k := 0; k < n; k++ {
		for _, r := range []string{`"-1"`, `"4294967296"`, `"1.5"`, `"x"`, `""`, `"1e1"`, `"01"`, `" 1"`, `1`} {
			applicable := false
			out := mutateJ(root, k, func(get func() *jnode, _ func(*jnode), _ jsite) {
				g := get()
				if g.Kind == 'o' && len(g.Keys) > 0 && len(g.Keys[0]) > 2 && g.Keys[0][1] >= '0' && g.Keys[0][1] <= '9' {
					g.Keys[0] = r
					applicable = true
				}
			})
			if applicable {
				emit("json-map-key", out)
			}
		}
	}
}

var topLevelKeys = []string{"connect_request", "connect_response", "disconnect", "upstream_open_request", "upstream_open_response", "upstream_resume_request",
	"upstream_resume_response", "upstream_close_request", "upstream_close_response", "upstream_chunk", "upstream_chunk_ack", "upstream_metadata", "upstream_metadata_ack",
	"downstream_open_request", "downstream_open_response", "downstream_resume_request", "downstream_resume_response", "downstream_close_request", "downstream_close_response",
	"downstream_chunk", "downstream_chunk_ack", "downstream_chunk_ack_complete", "downstream_metadata", "downstream_metadata_ack", "ping", "pong",
	"upstream_call", "upstream_call_ack", "downstream_call"}

func camel(k string) string {
	parts := strings.Split(strings.Trim(k, `"`), "_")
	for i := 1; i < len(parts); i++ {
		if parts[i] != "" {
			parts[i] = strings.ToUpper(parts[i][:1]) + parts[i][1:]
		}
	}
	return `"` + strings.Join(parts, "") + `"`
}

func corJKeys(s seedEncoding, _ []seedEncoding, _ bool, emit emitFn) {
	root := jTree(s)
	n := len(root.sites())
	for k := 0; k < n; k++ {
		isObj, nk := false, 0
		mutateJ(root, k, func(get func() *jnode, _ func(*jnode), _ jsite) { g := get(); isObj = g.Kind == 'o'; nk = len(g.Keys) })
		if !isObj {
			continue
		}
		emit("json-unknown-key", mutateJ(root, k, func(get func() *jnode, _ func(*jnode), _ jsite) {
			g := get()
			g.Keys = append(g.Keys, `"no_such_field"`)
			g.Vals = append(g.Vals, jraw("1"))
		}))
		emit("json-empty-key", mutateJ(root, k, func(get func() *jnode, _ func(*jnode), _ jsite) {
			g := get()
			g.Keys = append(g.Keys, `""`)
			g.Vals = append(g.Vals, jraw("null"))
		}))
		for i := 0; i < nk; i++ {
			i := i
			emit("json-camel-key", mutateJ(root, k, func(get func() *jnode, _ func(*jnode), _ jsite) { g := get(); g.Keys[i] = camel(g.Keys[i]) }))
			emit("json-upper-key", mutateJ(root, k, func(get func() *jnode, _ func(*jnode), _ jsite) { g := get(); g.Keys[i] = strings.ToUpper(g.Keys[i]) }))
			emit("json-renamed-key", mutateJ(root, k, func(get func() *jnode, _ func(*jnode), _ jsite) { g := get(); g.Keys[i] = `"x` + g.Keys[i][1:] }))
			emit("json-unquoted-key", mutateJ(root, k, func(get func() *jnode, _ func(*jnode), _ jsite) { g := get(); g.Keys[i] = strings.Trim(g.Keys[i], `"`) }))
			emit("json-duplicate-key", mutateJ(root, k, func(get func() *jnode, _ func(*jnode), _ jsite) {
				g := get()
				g.Keys = append(g.Keys, g.Keys[i])
				g.Vals = append(g.Vals, g.Vals[i].clone())
			}))
			emit("json-duplicate-key-null", mutateJ(root, k, func(get func() *jnode, _ func(*jnode), _ jsite) {
				g := get()
				g.Keys = append(g.Keys, g.Keys[i])
				g.Vals = append(g.Vals, jraw("null"))
			}))
			emit("json-duplicate-camel-key", mutateJ(root, k, func(get func() *jnode, _ func(*jnode), _ jsite) {
				g := get()
				g.Keys = append(g.Keys, camel(g.Keys[i]))
				g.Vals = append(g.Vals, g.Vals[i].clone())
			}))
		}
	}
	// the top-level oneof: this body under the key of every message type; two members at once; member set to null/{}
	if root.Kind == 'o' && len(root.Keys) == 1 {
		for _, tk := range topLevelKeys {
			c := root.clone()
			c.Keys[0] = `"` + tk + `"`
			emit("json-oneof-other-member", c.bytes())
			c = root.clone()
			c.Keys = append(c.Keys, `"`+tk+`"`)
			c.Vals = append(c.Vals, &jnode{Kind: 'o'})
			emit("json-oneof-twice", c.bytes())
			emit("json-oneof-null-member", []byte(`{"`+tk+`":null}`))
			emit("json-oneof-empty-member", []byte(`{"`+tk+`":{}}`))
			emit("json-oneof-camel-member", []byte(`{`+camel(tk)+`:{}}`))
		}
	}
}

func corJNesting(s seedEncoding, _ []seedEncoding, thorough bool, emit emitFn) {
	root := jTree(s)
	n := len(root.sites())
	depths := []int{10, 1000, 9999, 10001}
	if thorough {
		depths = append(depths, 100000, 400000)
	}
	for k := 0; k < n; k++ {
		if k > 24 && !thorough {
			break
		}
		for _, d := range depths {
			d := d
			emit("json-deep-array", mutateJ(root, k, func(_ func() *jnode, set func(*jnode), _ jsite) {
				set(jraw(strings.Repeat("[", d) + strings.Repeat("]", d)))
			}))
			emit("json-deep-object", mutateJ(root, k, func(_ func() *jnode, set func(*jnode), _ jsite) {
				set(jraw(strings.Repeat(`{"a":`, d) + "1" + strings.Repeat("}", d)))
			}))
			emit("json-deep-unclosed", mutateJ(root, k, func(_ func() *jnode, set func(*jnode), _ jsite) { set(jraw(strings.Repeat("[", d))) }))
		}
		// huge counts: the first element / first member repeated
		cnts := []int{1000}
		if thorough {
			cnts = append(cnts, 100000)
		}
		for _, cnt := range cnts {
			cnt := cnt
			applicable := false
			out := mutateJ(root, k, func(get func() *jnode, _ func(*jnode), _ jsite) {
				g := get()
				if g.Kind == 'r' || len(g.Vals) == 0 {
					return
				}
				applicable = true
				one := len(g.Vals[0].bytes()) + 16
				c := cnt
				if c*one > maxInput/2 {
					c = maxInput / 2 / one
				}
				for i := 0; i < c; i++ {
					if g.Kind == 'o' {
						g.Keys = append(g.Keys, fmt.Sprintf(`"%d"`, 1000+i))
					}
					g.Vals = append(g.Vals, g.Vals[0])
				}
			})
			if applicable && len(out) <= maxInput {
				emit("json-repeat-element", out)
			}
		}
	}
	b := s.Bytes
	emit("json-bom", append([]byte{0xef, 0xbb, 0xbf}, b...))
	emit("json-leading-space", append(bytes.Repeat([]byte(" \n\t\r"), 5000), b...))
	emit("json-trailing-garbage", append(append([]byte(nil), b...), []byte("garbage")...))
	emit("json-trailing-value", append(append([]byte(nil), b...), b...))
	emit("json-trailing-space", append(append([]byte(nil), b...), bytes.Repeat([]byte(" "), 5000)...))
	emit("json-in-array", append(append([]byte("["), b...), ']'))
	emit("json-as-string", []byte(fmt.Sprintf("%q", string(b))))
	for _, v := range []string{"", "null", "true", "0", `""`, "[]", "{}", "{", "}", "[", `{"`, `{"a"`, `{"a":`, "\x00", "\xff", "{}{}", "nul", "// c\n{}", "/* c */{}"} {
		emit("json-toplevel", []byte(v))
	}
}
