package c12

import (
	"encoding/binary"
	"math/rand"
	"regexp"
	"strconv"
	"strings"
)

var interestingU64 = []uint64{0, 1, 2, 3, 16, 36, 37, 38, 127, 128, 255, 256, 32767, 32768, 65535, 65536, 1<<31 - 1, 1 << 31, 1<<32 - 1, 1 << 32, 1<<53 + 1, 1<<63 - 1, 1 << 63, ^uint64(0)}

var jsonSnippets = []string{"null", "{}", "[]", "[null]", `""`, "0", "-1", "1e400", "true", `"\ud800"`, "\"\xff\"", `{"a":`, "]", "}", ",", ":", `"`, `\`, `\u0000`,
	"18446744073709551616", "4294967296", `"NOPE"`, `"AAAAAAAAAAAAAAAAAAAAAA=="`, `"AAAAAAAAAAAAAAAAAAAAAAA="`, "[[[[[[[[[[", `{"ping":{}}`, `"extension_fields":{}`}

var (
	reNumber = regexp.MustCompile(`-?[0-9]+`)
	reString = regexp.MustCompile(`"[^"\\]*"`)
)

// mutateOnce applies one random byte-level (or, for JSON, token-level) operation.
func mutateOnce(rng *rand.Rand, b []byte, other []byte, isJSON bool) []byte {
	b = append([]byte(nil), b...)
	pos := func() int {
		if len(b) == 0 {
			return 0
		}
		return rng.Intn(len(b))
	}
	nops := 13
	if isJSON {
		nops = 17
	}
	switch rng.Intn(nops) {
	case 0: // flip a bit
		if len(b) > 0 {
			b[pos()] ^= 1 << rng.Intn(8)
		}
	case 1: // set a byte
		if len(b) > 0 {
			vals := []byte{0, 0xff, 0x80, 0x7f, 0x0a, 0x12, 0x08, 0x0b, 0x0c, byte(rng.Intn(256))}
			b[pos()] = vals[rng.Intn(len(vals))]
		}
	case 2: // delete a range
		if len(b) > 0 {
			i := pos()
			n := 1 + rng.Intn(1+min(len(b)-i-1, 32))
			if i+n > len(b) {
				n = len(b) - i
			}
			b = append(b[:i], b[i+n:]...)
		}
	case 3: // insert random bytes
		i := pos()
		n := 1 + rng.Intn(16)
		ins := make([]byte, n)
		rng.Read(ins)
		b = append(b[:i], append(ins, b[i:]...)...)
	case 4: // duplicate a range in place
		if len(b) > 0 {
			i := pos()
			n := 1 + rng.Intn(1+min(len(b)-i-1, 64))
			b = append(b[:i+n], append(append([]byte(nil), b[i:i+n]...), b[i+n:]...)...)
		}
	case 5: // truncate
		if len(b) > 0 {
			b = b[:pos()]
		}
	case 6: // varint of an interesting value, inserted or overwriting
		v := binary.AppendUvarint(nil, interestingU64[rng.Intn(len(interestingU64))])
		i := pos()
		if rng.Intn(2) == 0 || i+len(v) > len(b) {
			b = append(b[:i], append(v, b[i:]...)...)
		} else {
			copy(b[i:], v)
		}
	case 7: // fixed-width interesting integer
		var w [8]byte
		v := interestingU64[rng.Intn(len(interestingU64))]
		if rng.Intn(2) == 0 {
			binary.LittleEndian.PutUint64(w[:], v)
		} else {
			binary.BigEndian.PutUint64(w[:], v)
		}
		n := []int{1, 2, 4, 8}[rng.Intn(4)]
		i := pos()
		if i+n <= len(b) {
			copy(b[i:], w[:n])
		}
	case 8: // crossover with another input
		if len(other) > 0 {
			i, j := pos(), rng.Intn(len(other))
			b = append(b[:i], other[j:]...)
		}
	case 9: // insert a slice of another input
		if len(other) > 0 {
			j := rng.Intn(len(other))
			n := 1 + rng.Intn(1+min(len(other)-j-1, 64))
			i := pos()
			b = append(b[:i], append(append([]byte(nil), other[j:j+n]...), b[i:]...)...)
		}
	case 10: // repeat a chunk many times
		if len(b) > 0 {
			i := pos()
			n := 1 + rng.Intn(1+min(len(b)-i-1, 24))
			reps := 2 + rng.Intn(2000)
			if reps*n > 256<<10 {
				reps = (256 << 10) / n
			}
			chunk := append([]byte(nil), b[i:i+n]...)
			var ins []byte
			for r := 0; r < reps; r++ {
				ins = append(ins, chunk...)
			}
			b = append(b[:i], append(ins, b[i:]...)...)
		}
	case 11: // swap two bytes
		if len(b) > 1 {
			i, j := pos(), pos()
			b[i], b[j] = b[j], b[i]
		}
	case 12: // patch a length/tag-looking byte: add or subtract a little
		if len(b) > 0 {
			i := pos()
			b[i] += byte(rng.Intn(9) - 4)
		}
	case 13: // JSON: replace a number
		if locs := reNumber.FindAllIndex(b, -1); len(locs) > 0 {
			l := locs[rng.Intn(len(locs))]
			var repl string
			if rng.Intn(3) == 0 {
				repl = jNumberRepl[rng.Intn(len(jNumberRepl))]
			} else {
				repl = strconv.FormatUint(interestingU64[rng.Intn(len(interestingU64))], 10)
				if rng.Intn(4) == 0 {
					repl = "-" + repl
				}
			}
			b = append(b[:l[0]], append([]byte(repl), b[l[1]:]...)...)
		}
	case 14: // JSON: replace a string
		if locs := reString.FindAllIndex(b, -1); len(locs) > 0 {
			l := locs[rng.Intn(len(locs))]
			repl := jStringRepl[rng.Intn(len(jStringRepl))]
			b = append(b[:l[0]], append([]byte(repl), b[l[1]:]...)...)
		}
	case 15: // JSON: insert a snippet
		i := pos()
		sn := jsonSnippets[rng.Intn(len(jsonSnippets))]
		b = append(b[:i], append([]byte(sn), b[i:]...)...)
	case 16: // JSON: replace the value after some colon by a snippet
		p := pos()
		if i := strings.IndexByte(string(b[p:]), ':'); i >= 0 {
			i += p
			sn := jsonSnippets[rng.Intn(len(jsonSnippets))]
			end := i + 1
			for end < len(b) && b[end] != ',' && b[end] != '}' {
				end++
			}
			b = append(b[:i+1], append([]byte(sn), b[end:]...)...)
		}
	}
	if len(b) > maxInput {
		b = b[:maxInput]
	}
	return b
}
