package c12

import (
	"fmt"
	"sync"
	"testing"

	"github.com/aptpod/iscp-go/encoding"
	ierrors "github.com/aptpod/iscp-go/errors"
	"github.com/aptpod/iscp-go/message"
	"github.com/aptpod/iscp-go/transport"

	"verif/harness/vrun"
)

// memRW is a byte transport whose Read hands out queued frames.
type memRW struct {
	mu     sync.Mutex
	frames [][]byte
	rx, tx uint64
}

func (m *memRW) Read() ([]byte, error) {
	m.mu.Lock()
	defer m.mu.Unlock()
	if len(m.frames) == 0 {
		return nil, transport.EOF
	}
	f := m.frames[0]
	m.frames = m.frames[1:]
	m.rx += uint64(len(f))
	return f, nil
}
func (m *memRW) Write(b []byte) error        { m.mu.Lock(); m.tx += uint64(len(b)); m.mu.Unlock(); return nil }
func (m *memRW) Close() error                { return nil }
func (m *memRW) RxBytesCounterValue() uint64 { m.mu.Lock(); defer m.mu.Unlock(); return m.rx }
func (m *memRW) TxBytesCounterValue() uint64 { m.mu.Lock(); defer m.mu.Unlock(); return m.tx }

// readSized pushes b through encoding.Transport with the given limit.
func readSized(e enc, b []byte, max int64) (m message.Message, err error, panicked any, stack string) {
	defer func() {
		if r := recover(); r != nil {
			panicked = r
			stack = shortStack()
		}
	}()
	tr := encoding.NewTransport(&encoding.TransportConfig{Transport: &memRW{frames: [][]byte{b}}, Encoding: e.e, MaxMessageSize: encoding.Size(max)})
	m, err = tr.Read()
	return
}

// judgeSized: inputs longer than the limit are rejected with an error that Is ErrMessageTooLarge; inputs within the limit
// (or any input when the limit is 0 = "no limit", the value the library itself configures) are never rejected with it and
// give an error or a message.
func judgeSized(e enc, class string, b []byte, max int64) (string, *finding) {
	m, err, pv, st := readSized(e, b, max)
	w := func() map[string]any {
		x := inputWitness(e, class, b)
		x["max_message_size"] = max
		if err != nil {
			x["error"] = err.Error()
		}
		return x
	}
	if pv != nil {
		x := w()
		x["panic"], x["stack"] = fmt.Sprint(pv), st
		return "", &finding{"a panic escaped encoding.Transport.Read", "panic-escaped:transport-read:" + e.name, x}
	}
	over := max > 0 && int64(len(b)) > max
	tooLarge := err != nil && ierrors.Is(err, ierrors.ErrMessageTooLarge)
	switch {
	case over && err == nil:
		return "", &finding{"a frame above MaxMessageSize was accepted", "oversize-accepted:" + e.name, w()}
	case over && !tooLarge:
		return "", &finding{"a frame above MaxMessageSize was rejected, but not with ErrMessageTooLarge", "oversize-wrong-error:" + e.name, w()}
	case over && !isNilMsg(m):
		return "", &finding{"a frame above MaxMessageSize produced a message together with the error", "oversize-message-and-error:" + e.name, w()}
	case over:
		return "too-large", nil
	case tooLarge:
		k := "within-limit-rejected-too-large:"
		if max == 0 {
			k = "no-limit-rejected-too-large:"
		}
		return "", &finding{"a frame within MaxMessageSize was rejected with ErrMessageTooLarge", k + e.name, w()}
	case err != nil && !isNilMsg(m):
		return "", &finding{"Transport.Read returned both a message and an error", "message-and-error:transport-read:" + e.name, w()}
	case err == nil && isNilMsg(m):
		return "", &finding{"Transport.Read returned neither a message nor an error", "neither-message-nor-error:transport-read:" + e.name, w()}
	case err != nil:
		return "error", nil
	}
	return "message", nil
}

// padTo returns a still-valid encoding of exactly n bytes when that is possible (JSON: trailing spaces inside the
// object; protobuf: an unknown length-delimited field number 15000 appended), else nil.
func padTo(s seedEncoding, n int) []byte {
	b := s.Bytes
	if n <= len(b) {
		return nil
	}
	if s.Enc == "json" {
		out := append([]byte(nil), b[:len(b)-1]...)
		for len(out) < n-1 {
			out = append(out, ' ')
		}
		return append(out, '}')
	}
	// tag(15000<<3|2) is 3 bytes; length varint 1..3 bytes
	for lenBytes := 1; lenBytes <= 3; lenBytes++ {
		payload := n - len(b) - 3 - lenBytes
		if payload < 0 {
			continue
		}
		lv := appendVarint(nil, uint64(payload))
		if len(lv) != lenBytes {
			continue
		}
		out := append([]byte(nil), b...)
		out = appendVarint(out, 15000<<3|2)
		out = append(out, lv...)
		return append(out, make([]byte, payload)...)
	}
	return nil
}

func TestC12Sized(t *testing.T) {
	env := vrun.LoadEnv()
	seeds := mustSeeds(t)
	byEnc := map[string][]seedEncoding{"protobuf": seedsOf(seeds, "protobuf"), "json": seedsOf(seeds, "json")}
	perCase := 600
	meta := vrun.Meta{Property: "C12", Workload: "TestC12Sized", Total: env.Pick(200, 1000),
		Rule:        fmt.Sprintf("case i works on one encoding (even i protobuf, odd i JSON) and pushes %d (frame, MaxMessageSize) pairs through encoding.Transport.Read over an in-memory byte transport. Frames: valid encodings of every message type, valid encodings padded to an exact size, random mutants of them, raw random bytes; sizes are drawn around the limit (limit-1, limit, limit+1), around 1000/1024 and their multiples, and up to 1 MiB. Limits: 0 (no limit), 1, len-1, len, len+1, 1000, 1024 and random values. Oracle: len > limit > 0 => error with errors.Is(err, ErrMessageTooLarge) and no message; otherwise never that error, and exactly one of message/error; accepted frames also go through the round-trip oracle. Non-trivial: the case saw all of too-large, within-limit message and within-limit error outcomes; distinct: different (frame,limit) multiset.", perCase),
		Assumptions: append([]string{"MaxMessageSize 0 is read as 'no limit' (encoding/main.go:147 and the only value iscp.Connect ever configures): no frame may be rejected as too large then", "the limit counts the bytes of the frame handed over by the byte transport (what encoding.Transport.Read compares)"}, decodeAssumptions...)}
	vrun.Loop(t, meta, 0, func(c *vrun.Case) vrun.Result {
		encName := "protobuf"
		if c.Index%2 == 1 {
			encName = "json"
		}
		e := encByName(encName)
		pool := byEnc[encName]
		rng := c.Rng
		limits := map[int64]int64{}
		outcomes := map[string]int64{}
		b := newBatch(c, meta.Workload, e)
		b.judgeFn = func(e enc, in input) (outcome, *finding) {
			max := in.Aux
			kind, f := judgeSized(e, in.Class, in.B, max)
			if f != nil {
				return outcome{}, f
			}
			outcomes[kind]++
			switch {
			case max == 0:
				limits[0]++
			case int64(len(in.B)) == max:
				limits[1]++ // exactly at the limit
			case int64(len(in.B)) == max+1:
				limits[2]++ // one byte over
			}
			if kind == "message" {
				return judge(e, in.Class, in.B)
			}
			return outcome{Kind: "error"}, nil
		}
		for i := 0; i < perCase && !b.stopped(); i++ {
			s := pool[rng.Intn(len(pool))]
			var frame []byte
			class := ""
			target := func() int {
				base := []int{0, 1, 2, 999, 1000, 1001, 1023, 1024, 1025, 4095, 4096, 65535, 65536, 99999, 100000, 1 << 20}[rng.Intn(16)]
				if rng.Intn(3) == 0 {
					base = rng.Intn(3000)
				}
				return base
			}
			switch rng.Intn(5) {
			case 0:
				frame, class = s.Bytes, "sized-valid"
			case 1:
				n := target()
				if n <= len(s.Bytes) {
					n = len(s.Bytes) + 4 + rng.Intn(2000)
				}
				frame, class = padTo(s, n), "sized-valid-padded"
				if frame == nil {
					frame, class = s.Bytes, "sized-valid"
				}
			case 2:
				frame, class = mutateOnce(rng, s.Bytes, pool[rng.Intn(len(pool))].Bytes, encName == "json"), "sized-mutant"
			case 3:
				n := target()
				frame, class = make([]byte, n), "sized-random-bytes"
				rng.Read(frame)
			case 4:
				n := target()
				if n < len(s.Bytes) {
					frame, class = s.Bytes[:n], "sized-truncated"
				} else {
					frame, class = append(append([]byte(nil), s.Bytes...), make([]byte, n-len(s.Bytes))...), "sized-zero-extended"
				}
			}
			if len(frame) > maxInput {
				frame = frame[:maxInput]
			}
			l := int64(len(frame))
			var max int64
			switch rng.Intn(10) {
			case 0:
				max = 0
			case 1:
				max = 1
			case 2:
				max = l - 1
			case 3, 4:
				max = l
			case 5:
				max = l + 1
			case 6:
				max = 1000
			case 7:
				max = 1024
			case 8:
				max = int64(rng.Intn(5000))
			case 9:
				max = int64(1) << uint(rng.Intn(40))
			}
			if max < 0 {
				max = 0
			}
			b.addAux(class, frame, max)
		}
		r := b.finish(map[string]any{"encoding": encName, "pairs": perCase})
		if r.Verdict == vrun.Held {
			r.NonTrivial = outcomes["too-large"] > 0 && outcomes["message"] > 0 && outcomes["error"] > 0
			r.Stat("sized_rejected_too_large", outcomes["too-large"])
			r.Stat("sized_within_limit_message", outcomes["message"])
			r.Stat("sized_within_limit_error", outcomes["error"])
			r.Stat("sized_no_limit_frames", limits[0])
			r.Stat("sized_frames_exactly_at_limit", limits[1])
			r.Stat("sized_frames_one_byte_over", limits[2])
		}
		return r
	})
}
