package c12

import (
	"encoding/binary"
)

// A minimal, schema-less reader/writer of the protobuf wire format, written for the corruptor (the library's own
// generated code is the thing under test, so it is not used to build hostile inputs).

type pbField struct {
	Num   uint64
	WT    int        // wire type 0,1,2,5 (groups are not produced by the seeds)
	Var   uint64     // WT 0
	Fix   []byte     // WT 1 (8 bytes) / WT 5 (4 bytes)
	Bytes []byte     // WT 2 raw content
	Sub   []*pbField // WT 2 parsed as a message when it parses cleanly (nil otherwise)
	// overrides used by corruptors
	RawLen *uint64 // when set, this length is written instead of len(content)
	RawTag []byte  // when set, written instead of the tag varint
}

func appendVarint(b []byte, v uint64) []byte {
	return binary.AppendUvarint(b, v)
}

// overlongVarint encodes v in exactly n bytes (n up to 12: more than ten bytes is illegal on purpose).
func overlongVarint(v uint64, n int) []byte {
	out := make([]byte, 0, n)
	for i := 0; i < n-1; i++ {
		out = append(out, byte(v&0x7f)|0x80)
		v >>= 7
	}
	return append(out, byte(v&0x7f))
}

func readVarint(b []byte) (uint64, int) {
	v, n := binary.Uvarint(b)
	if n <= 0 {
		return 0, 0
	}
	return v, n
}

// parsePB parses b as a sequence of fields; ok is false when b is not a clean message. depth bounds the heuristic
// descent into length-delimited fields.
func parsePB(b []byte, depth int) (fields []*pbField, ok bool) {
	for len(b) > 0 {
		tag, n := readVarint(b)
		if n == 0 {
			return nil, false
		}
		b = b[n:]
		f := &pbField{Num: tag >> 3, WT: int(tag & 7)}
		if f.Num == 0 {
			return nil, false
		}
		switch f.WT {
		case 0:
			v, n := readVarint(b)
			if n == 0 {
				return nil, false
			}
			f.Var = v
			b = b[n:]
		case 1:
			if len(b) < 8 {
				return nil, false
			}
			f.Fix = append([]byte(nil), b[:8]...)
			b = b[8:]
		case 5:
			if len(b) < 4 {
				return nil, false
			}
			f.Fix = append([]byte(nil), b[:4]...)
			b = b[4:]
		case 2:
			l, n := readVarint(b)
			if n == 0 || uint64(len(b)-n) < l {
				return nil, false
			}
			f.Bytes = append([]byte(nil), b[n:n+int(l)]...)
			b = b[n+int(l):]
			if depth > 0 && len(f.Bytes) > 0 {
				if sub, ok := parsePB(f.Bytes, depth-1); ok {
					f.Sub = sub
				}
			}
		default:
			return nil, false
		}
		fields = append(fields, f)
	}
	return fields, true
}

func serializePB(fields []*pbField) []byte {
	var out []byte
	for _, f := range fields {
		out = appendField(out, f)
	}
	return out
}

func appendField(out []byte, f *pbField) []byte {
	if f.RawTag != nil {
		out = append(out, f.RawTag...)
	} else {
		out = appendVarint(out, f.Num<<3|uint64(f.WT))
	}
	switch f.WT {
	case 0:
		out = appendVarint(out, f.Var)
	case 1, 5:
		out = append(out, f.Fix...)
	case 2:
		content := f.Bytes
		if f.Sub != nil {
			content = serializePB(f.Sub)
		}
		if f.RawLen != nil {
			out = appendVarint(out, *f.RawLen)
		} else {
			out = appendVarint(out, uint64(len(content)))
		}
		out = append(out, content...)
	default:
		// wire types 3,4,6,7: tag only (groups / illegal types), the corruptor appends what it wants after
	}
	return out
}

func clonePB(fields []*pbField) []*pbField {
	if fields == nil {
		return nil
	}
	out := make([]*pbField, len(fields))
	for i, f := range fields {
		c := *f
		c.Fix = append([]byte(nil), f.Fix...)
		c.Bytes = append([]byte(nil), f.Bytes...)
		c.Sub = clonePB(f.Sub)
		out[i] = &c
	}
	return out
}

// walkPB enumerates every field of the tree in document order, with its parent slice and index.
type pbSite struct {
	Parent *[]*pbField
	Index  int
	Depth  int
}

func sitesPB(root *[]*pbField) []pbSite {
	var res []pbSite
	var rec func(p *[]*pbField, d int)
	rec = func(p *[]*pbField, d int) {
		for i := range *p {
			res = append(res, pbSite{p, i, d})
			if (*p)[i].Sub != nil {
				rec(&(*p)[i].Sub, d+1)
			}
		}
	}
	rec(root, 0)
	return res
}

// mutatePB clones the tree, applies fn to the k-th site of the clone and serializes it.
func mutatePB(root []*pbField, k int, fn func(s pbSite, f *pbField)) []byte {
	c := clonePB(root)
	sites := sitesPB(&c)
	if k >= len(sites) {
		return nil
	}
	fn(sites[k], (*sites[k].Parent)[sites[k].Index])
	return serializePB(c)
}
