// Package uplib holds what the upstream workloads (C01, C02, C07, C20) share: identifiable data points, the
// record of what the application wrote, hook recorders and the conservation oracle over the broker's ledger.
package uplib

import (
	"context"
	"crypto/sha1"
	"encoding/binary"
	"errors"
	"fmt"
	"sort"
	"sync"
	"time"

	"github.com/aptpod/iscp-go/iscp"
	"github.com/aptpod/iscp-go/message"
	"github.com/google/uuid"

	"verif/harness/broker"
	"verif/harness/memnet"
)

// Elapsed encodes (writer, counter) into the elapsed time of a point so that every point is identifiable
// even with an empty payload.
func Elapsed(writer, counter int) time.Duration {
	return time.Duration(int64(writer)<<32 | int64(counter))
}

func SplitElapsed(d time.Duration) (writer, counter int) {
	return int(int64(d) >> 32), int(int64(d) & 0xffffffff)
}

// Payload is a deterministic payload for a point.
func Payload(writer, counter, size int) []byte {
	if size == 0 {
		return []byte{}
	}
	b := make([]byte, size)
	var seed [16]byte
	binary.BigEndian.PutUint64(seed[:8], uint64(writer))
	binary.BigEndian.PutUint64(seed[8:], uint64(counter))
	h := sha1.Sum(seed[:])
	for i := range b {
		b[i] = h[i%20] ^ byte(i>>3)
	}
	return b
}

func Sum(b []byte) string {
	h := sha1.Sum(b)
	return fmt.Sprintf("%x", h[:6])
}

// PKey identifies a point with its content.
type PKey struct {
	ID      message.DataID
	Elapsed time.Duration
	Sum     string
	Len     int
}

func (k PKey) String() string {
	w, c := SplitElapsed(k.Elapsed)
	return fmt.Sprintf("%s:%s w%d#%d len=%d sha=%s", k.ID.Name, k.ID.Type, w, c, k.Len, k.Sum)
}

// WriteRec is one WriteDataPoints call as seen by the application.
type WriteRec struct {
	Writer   int
	ID       message.DataID
	Points   []PKey
	Call     int64 // logical time before the call
	Return   int64 // logical time after the call (0 = still open)
	Err      string
	CallVT   time.Time
	ReturnVT time.Time
}

// Recorder collects application-side events of one upstream.
type Recorder struct {
	Clock    *memnet.Clock
	mu       sync.Mutex
	Writes   []*WriteRec
	SendHook []HookChunk
	AckHook  []iscp.UpstreamChunkResult
	Closed   []ClosedRec
	Resumed  int
	ClosedCh chan struct{}
	once     sync.Once
	// ReuseSlice makes Write behave like a caller that refills its argument slice as soon as the call returned.
	ReuseSlice bool
}

type HookChunk struct {
	T      int64
	Seq    uint32
	Points []PKey // in group order
}

type ClosedRec struct {
	T                   int64
	Err                 string
	HooksSend, HooksAck int
}

func NewRecorder(clk *memnet.Clock) *Recorder {
	return &Recorder{Clock: clk, ClosedCh: make(chan struct{})}
}

// Options returns the upstream options that install the recorder's hooks and handlers.
func (r *Recorder) Options() []iscp.UpstreamOption {
	return []iscp.UpstreamOption{
		iscp.WithUpstreamSendDataPointsHooker(iscp.SendDataPointsHookerFunc(func(id uuid.UUID, ch iscp.UpstreamChunk) {
			hc := HookChunk{T: r.Clock.Tick(), Seq: ch.SequenceNumber}
			for _, g := range ch.DataPointGroups {
				for _, p := range g.DataPoints {
					hc.Points = append(hc.Points, PKey{ID: *g.DataID, Elapsed: p.ElapsedTime, Sum: Sum(p.Payload), Len: len(p.Payload)})
				}
			}
			r.mu.Lock()
			r.SendHook = append(r.SendHook, hc)
			r.mu.Unlock()
		})),
		iscp.WithUpstreamReceiveAckHooker(iscp.ReceiveAckHookerFunc(func(id uuid.UUID, res iscp.UpstreamChunkResult) {
			r.mu.Lock()
			r.AckHook = append(r.AckHook, res)
			r.mu.Unlock()
		})),
		iscp.WithUpstreamClosedEventHandler(iscp.UpstreamClosedEventHandlerFunc(func(ev *iscp.UpstreamClosedEvent) {
			r.mu.Lock()
			e := ""
			if ev.Err != nil {
				e = ev.Err.Error()
			}
			r.Closed = append(r.Closed, ClosedRec{T: r.Clock.Tick(), Err: e, HooksSend: len(r.SendHook), HooksAck: len(r.AckHook)})
			r.mu.Unlock()
			r.once.Do(func() { close(r.ClosedCh) })
		})),
		iscp.WithUpstreamResumedEventHandler(iscp.UpstreamResumedEventHandlerFunc(func(ev *iscp.UpstreamResumedEvent) {
			r.mu.Lock()
			r.Resumed++
			r.mu.Unlock()
		})),
	}
}

// Write performs and records one WriteDataPoints call.
func (r *Recorder) Write(ctx context.Context, up *iscp.Upstream, writer int, id message.DataID, counters []int, sizes []int) error {
	rec := &WriteRec{Writer: writer, ID: id, CallVT: time.Now()}
	dps := make([]*message.DataPoint, 0, len(counters))
	for i, c := range counters {
		pl := Payload(writer, c, sizes[i])
		rec.Points = append(rec.Points, PKey{ID: id, Elapsed: Elapsed(writer, c), Sum: Sum(pl), Len: len(pl)})
		dps = append(dps, &message.DataPoint{ElapsedTime: Elapsed(writer, c), Payload: pl})
	}
	rec.Call = r.Clock.Tick()
	r.mu.Lock()
	r.Writes = append(r.Writes, rec)
	r.mu.Unlock()
	idc := id
	if r.ReuseSlice {
		// the caller owns its slice again as soon as the call has returned: pass a slice with spare capacity and
		// overwrite every element (and the spare slot) with a poison point straight afterwards
		scratch := make([]*message.DataPoint, len(dps), len(dps)+1)
		copy(scratch, dps)
		dps = scratch
	}
	err := up.WriteDataPoints(ctx, &idc, dps...)
	if r.ReuseSlice {
		poison := &message.DataPoint{ElapsedTime: -7, Payload: []byte("POISON: written by the caller into its own slice after WriteDataPoints returned")}
		dps = dps[:cap(dps)]
		for i := range dps {
			dps[i] = poison
		}
	}
	r.mu.Lock()
	rec.Return = r.Clock.Tick()
	rec.ReturnVT = time.Now()
	if err != nil {
		rec.Err = err.Error()
	}
	r.mu.Unlock()
	return err
}

// ResumedCount returns the number of resumed notifications so far.
func (r *Recorder) ResumedCount() int {
	r.mu.Lock()
	defer r.mu.Unlock()
	return r.Resumed
}

// Snapshot returns copies of the recorded data.
func (r *Recorder) Snapshot() (writes []WriteRec, send []HookChunk, acks []iscp.UpstreamChunkResult, closed []ClosedRec) {
	r.mu.Lock()
	defer r.mu.Unlock()
	for _, w := range r.Writes {
		writes = append(writes, *w)
	}
	return writes, append([]HookChunk(nil), r.SendHook...), append([]iscp.UpstreamChunkResult(nil), r.AckHook...), append([]ClosedRec(nil), r.Closed...)
}

// Finding is one oracle complaint.
type Finding struct {
	Clause string
	Key    string
	Detail any
}

func (f Finding) Error() string { return f.Clause }

// BrokerPoints flattens the chunks the broker received for a stream: seq -> list of distinct contents.
type SeqContent struct {
	Seq    uint32
	Points []PKey
	Links  []int
	N      int // how many times the chunk arrived
}

func chunkKeys(c broker.ChunkRec) []PKey {
	var res []PKey
	for _, g := range c.Groups {
		for _, p := range g {
			res = append(res, PKey{ID: p.ID, Elapsed: p.Elapsed, Sum: Sum(p.Payload), Len: len(p.Payload)})
		}
	}
	return res
}

func sameKeys(a, b []PKey) bool {
	if len(a) != len(b) {
		return false
	}
	// order of groups inside a chunk is a map iteration order in the library: compare as multisets per data id order
	ma := map[PKey]int{}
	for _, k := range a {
		ma[k]++
	}
	for _, k := range b {
		ma[k]--
	}
	for _, v := range ma {
		if v != 0 {
			return false
		}
	}
	// per data id the order must agree
	oa, ob := map[message.DataID][]time.Duration{}, map[message.DataID][]time.Duration{}
	for _, k := range a {
		oa[k.ID] = append(oa[k.ID], k.Elapsed)
	}
	for _, k := range b {
		ob[k.ID] = append(ob[k.ID], k.Elapsed)
	}
	for id, x := range oa {
		y := ob[id]
		for i := range x {
			if x[i] != y[i] {
				return false
			}
		}
	}
	return true
}

// BySeq groups the received chunks of a stream by sequence number; a sequence number with two different contents
// is reported by the second return value.
func BySeq(chunks []broker.ChunkRec) (map[uint32]*SeqContent, *Finding) {
	res := map[uint32]*SeqContent{}
	for _, c := range chunks {
		keys := chunkKeys(c)
		if sc, ok := res[c.Seq]; ok {
			if !sameKeys(sc.Points, keys) {
				return res, &Finding{"a sequence number was used for two different chunk contents", "seq-reused-different-content",
					map[string]any{"seq": c.Seq, "first": fmt.Sprint(sc.Points), "second": fmt.Sprint(keys), "links": append(sc.Links, c.Link)}}
			}
			sc.N++
			sc.Links = append(sc.Links, c.Link)
			continue
		}
		res[c.Seq] = &SeqContent{Seq: c.Seq, Points: keys, Links: []int{c.Link}, N: 1}
	}
	return res, nil
}

// Opts tunes CheckConservation.
type Opts struct {
	// AllowRetransmit: the same (seq, content) may arrive more than once (C02, across link incarnations).
	AllowRetransmit bool
	// Waived points need not arrive (C02 exemption); they may arrive.
	Waived map[PKey]bool
	// RequireAll: every accepted point must have arrived (false for overlap-with-Close histories).
	RequireAll bool
	// CheckClose: the close request must report N and the point total.
	CheckClose bool
}

// CheckConservation compares what was written (nil-returning writes) with what the broker received.
func CheckConservation(writes []WriteRec, us *broker.UpState, o Opts) *Finding {
	if len(us.Chunks) > 0 {
		for _, c := range us.Chunks {
			if len(c.Unknown) > 0 {
				return &Finding{"a chunk used a data id alias the broker never issued", "unknown-data-id-alias", map[string]any{"seq": c.Seq, "aliases": c.Unknown}}
			}
			if c.Raw.StreamChunk == nil || len(c.Raw.StreamChunk.DataPointGroups) == 0 {
				return &Finding{"a chunk without any data point group was transmitted", "empty-chunk", map[string]any{"seq": c.Seq}}
			}
		}
	}
	bySeq, f := BySeq(us.Chunks)
	if f != nil {
		return f
	}
	if !o.AllowRetransmit {
		for _, sc := range bySeq {
			if sc.N > 1 {
				return &Finding{"a chunk arrived twice on a connection that stayed up", "chunk-duplicated", map[string]any{"seq": sc.Seq, "times": sc.N}}
			}
		}
	}
	// accepted points
	accepted := map[PKey]int{}
	attempted := map[PKey]int{}
	for _, w := range writes {
		for _, p := range w.Points {
			attempted[p]++
			if w.Return != 0 && w.Err == "" {
				accepted[p]++
			}
		}
	}
	// received points: each point must sit under exactly one sequence number
	where := map[PKey][]uint32{}
	var seqs []uint32
	for s := range bySeq {
		seqs = append(seqs, s)
	}
	sort.Slice(seqs, func(i, j int) bool { return seqs[i] < seqs[j] })
	for _, s := range seqs {
		for _, p := range bySeq[s].Points {
			where[p] = append(where[p], s)
		}
	}
	for p, ss := range where {
		if attempted[p] == 0 {
			// altered, invented or attributed to another id?
			return &Finding{"the broker received a point that was never written in that form (altered, invented or attributed to another data id)", "point-altered-or-invented",
				map[string]any{"point": p.String(), "seqs": ss, "same_elapsed_written_as": findElapsed(writes, p.Elapsed)}}
		}
		if len(ss) > 1 {
			return &Finding{"a point was transmitted under more than one sequence number (duplicated)", "point-duplicated", map[string]any{"point": p.String(), "seqs": ss}}
		}
	}
	if o.RequireAll {
		for p := range accepted {
			if len(where[p]) == 0 && !o.Waived[p] {
				return &Finding{"an accepted point never reached the broker", "point-lost", map[string]any{"point": p.String(), "received_seqs": seqs}}
			}
		}
	}
	// per (writer, data id) order along (seq, position)
	type wk struct {
		w  int
		id message.DataID
	}
	last := map[wk]int{}
	for _, s := range seqs {
		for _, p := range bySeq[s].Points {
			w, c := SplitElapsed(p.Elapsed)
			k := wk{w, p.ID}
			if prev, ok := last[k]; ok && c <= prev {
				return &Finding{"per-data-id order of one writer's points is not preserved", "order-inverted", map[string]any{"point": p.String(), "seq": s, "previous_counter": prev}}
			}
			last[k] = c
		}
	}
	// sequence numbers 1..N
	n := uint32(len(seqs))
	for i, s := range seqs {
		if s != uint32(i+1) {
			if o.RequireAll {
				return &Finding{"chunk sequence numbers are not 1..N without gaps", "seq-gap", map[string]any{"seqs": seqs}}
			}
			break
		}
	}
	if o.CheckClose {
		if us.CloseReq == nil {
			return &Finding{"no close request reached the broker although Close succeeded", "close-request-missing", nil}
		}
		total := 0
		for _, s := range seqs {
			total += len(bySeq[s].Points)
		}
		if us.CloseReq.FinalSequenceNumber != n || us.CloseReq.TotalDataPoints != uint64(total) {
			return &Finding{"close request totals differ from what was transmitted", "close-totals-wrong",
				map[string]any{"final_sequence_number": us.CloseReq.FinalSequenceNumber, "total_data_points": us.CloseReq.TotalDataPoints, "chunks": n, "points": total}}
		}
		if o.RequireAll {
			acc := 0
			for _, v := range accepted {
				acc += v
			}
			if uint64(acc) != us.CloseReq.TotalDataPoints {
				return &Finding{"close request point total differs from the points accepted", "close-totals-vs-accepted", map[string]any{"accepted": acc, "reported": us.CloseReq.TotalDataPoints}}
			}
		}
	}
	return nil
}

// CheckSubset: every point of the given (nil-returning) writes reached the broker.
func CheckSubset(writes []WriteRec, us *broker.UpState) *Finding {
	bySeq, _ := BySeq(us.Chunks)
	have := map[PKey]bool{}
	for _, sc := range bySeq {
		for _, p := range sc.Points {
			have[p] = true
		}
	}
	for _, w := range writes {
		if w.Return == 0 || w.Err != "" {
			continue
		}
		for _, p := range w.Points {
			if !have[p] {
				return &Finding{"a point whose write had returned nil before Close was called never reached the broker", "point-lost", map[string]any{"point": p.String()}}
			}
		}
	}
	return nil
}

func findElapsed(writes []WriteRec, e time.Duration) string {
	for _, w := range writes {
		for _, p := range w.Points {
			if p.Elapsed == e {
				return p.String()
			}
		}
	}
	return "never"
}

// ChunkAfterClose scans the ledger: an UpstreamChunk of the stream after its UpstreamCloseRequest.
func ChunkAfterClose(ledger []broker.Entry, us *broker.UpState) *Finding {
	closed := false
	for _, e := range ledger {
		if e.Dir != memnet.C2S {
			continue
		}
		switch m := e.Msg.(type) {
		case *message.UpstreamCloseRequest:
			if m.StreamID == us.ID {
				closed = true
			}
		case *message.UpstreamChunk:
			if closed && us.LinkAlias[e.Link] == m.StreamIDAlias {
				return &Finding{"a chunk reached the broker after the close request", "chunk-after-close", map[string]any{"seq": m.StreamChunk.SequenceNumber, "link": e.Link}}
			}
		}
	}
	return nil
}

// CheckHooks compares the hook records with what was transmitted / what the broker sent.
func CheckHooks(us *broker.UpState, send []HookChunk, acks []iscp.UpstreamChunkResult) *Finding {
	bySeq, _ := BySeq(us.Chunks)
	seen := map[uint32]int{}
	for _, h := range send {
		seen[h.Seq]++
		sc, ok := bySeq[h.Seq]
		if !ok {
			return &Finding{"the send hook announced a chunk that was never transmitted", "sendhook-phantom", map[string]any{"seq": h.Seq}}
		}
		if !sameKeys(sc.Points, h.Points) {
			return &Finding{"the send hook announced other content than was transmitted", "sendhook-content", map[string]any{"seq": h.Seq, "hook": fmt.Sprint(h.Points), "wire": fmt.Sprint(sc.Points)}}
		}
	}
	for s := range bySeq {
		if seen[s] != 1 {
			return &Finding{"a transmitted chunk was announced to the send hook a number of times other than once", "sendhook-count", map[string]any{"seq": s, "times": seen[s]}}
		}
	}
	// Per sequence number: the broker may have sent the result more than once (duplicated acks). The statement asks
	// for each result to be reported once; a duplicate may be reported again or not at all (it may arrive after the
	// drain has finished). Judged: at least one and at most as many reports as results sent, each with a code and
	// string the broker really sent for that sequence number.
	type rv struct {
		code message.ResultCode
		str  string
	}
	sent := map[uint32]int{}
	vals := map[uint32]map[rv]bool{}
	for _, a := range us.AcksSent {
		if !a.OK {
			continue
		}
		for _, r := range a.Results {
			sent[r.SequenceNumber]++
			if vals[r.SequenceNumber] == nil {
				vals[r.SequenceNumber] = map[rv]bool{}
			}
			vals[r.SequenceNumber][rv{r.ResultCode, r.ResultString}] = true
		}
	}
	got := map[uint32]int{}
	for _, r := range acks {
		got[r.SequenceNumber]++
		if !vals[r.SequenceNumber][rv{r.ResultCode, r.ResultString}] {
			return &Finding{"the ack hook reported a result (sequence number, code) the broker never sent", "ackhook-phantom", map[string]any{"seq": r.SequenceNumber, "code": int(r.ResultCode), "string": r.ResultString}}
		}
	}
	for seq, n := range sent {
		if got[seq] < 1 || got[seq] > n {
			return &Finding{"an ack result sent by the broker was reported to the ack hook a wrong number of times", "ackhook-count",
				map[string]any{"seq": seq, "sent": n, "reported": got[seq]}}
		}
	}
	return nil
}

// SlowStorage wraps the library's in-memory sent storage (the one that keeps payloads) and stretches its operations in
// real time. The sent storage is a pluggable component and may be as slow as a disk; slow operations move deadlines and
// acks into the middle of the library's critical sections.
type SlowStorage struct {
	In                     iscp.VerifSentStorage
	StoreD, RemoveD, ListD time.Duration
}

func NewSlowStorage(store, remove, list time.Duration) *SlowStorage {
	return &SlowStorage{In: iscp.VerifNewInmemSentStorage(), StoreD: store, RemoveD: remove, ListD: list}
}

func (s *SlowStorage) Store(ctx context.Context, id uuid.UUID, seq uint32, d iscp.DataPointGroups) error {
	time.Sleep(s.StoreD)
	return s.In.Store(ctx, id, seq, d)
}

func (s *SlowStorage) Remove(ctx context.Context, id uuid.UUID, seq uint32) (iscp.DataPointGroups, error) {
	time.Sleep(s.RemoveD)
	return s.In.Remove(ctx, id, seq)
}

func (s *SlowStorage) List(ctx context.Context, id uuid.UUID) (map[uint32]iscp.DataPointGroups, error) {
	time.Sleep(s.ListD)
	return s.In.List(ctx, id)
}

func (s *SlowStorage) Clear(ctx context.Context, id uuid.UUID) error { return s.In.Clear(ctx, id) }

// FailingStorage wraps the in-memory sent storage; Store fails for the chosen sequence numbers (a persistent storage can
// fail: disk full, I/O error).
type FailingStorage struct {
	In   iscp.VerifSentStorage
	Fail func(seq uint32) bool
}

func NewFailingStorage(fail func(seq uint32) bool) *FailingStorage {
	return &FailingStorage{In: iscp.VerifNewInmemSentStorage(), Fail: fail}
}

func (s *FailingStorage) Store(ctx context.Context, id uuid.UUID, seq uint32, d iscp.DataPointGroups) error {
	if s.Fail(seq) {
		return errors.New("uplib: injected sent-storage failure (Store)")
	}
	return s.In.Store(ctx, id, seq, d)
}

func (s *FailingStorage) Remove(ctx context.Context, id uuid.UUID, seq uint32) (iscp.DataPointGroups, error) {
	return s.In.Remove(ctx, id, seq)
}

func (s *FailingStorage) List(ctx context.Context, id uuid.UUID) (map[uint32]iscp.DataPointGroups, error) {
	return s.In.List(ctx, id)
}

func (s *FailingStorage) Clear(ctx context.Context, id uuid.UUID) error { return s.In.Clear(ctx, id) }
