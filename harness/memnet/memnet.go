// Package memnet is an in-memory, fault-injecting transport.Transport for the iscp-go client library.
//
// One Net per scenario. Every Dial creates a numbered Link (incarnation) with two unbounded queues, so the
// transport itself never back-pressures the library. All blocking is done on channels, which keeps the package
// usable inside testing/synctest bubbles. Every client Write and every message handed to the client's Read is
// recorded in the link's log together with its outcome: that log is the "transport boundary" the oracles use.
package memnet

import (
	"fmt"
	"io"
	"runtime/debug"
	"sync"
	"sync/atomic"
	"time"

	"github.com/aptpod/iscp-go/encoding"
	ejson "github.com/aptpod/iscp-go/encoding/json"
	"github.com/aptpod/iscp-go/encoding/protobuf"
	"github.com/aptpod/iscp-go/errors"
	"github.com/aptpod/iscp-go/message"
	"github.com/aptpod/iscp-go/transport"

	"bytes"
)

// Clock is the logical clock shared by every recorder of a scenario.
type Clock struct{ n atomic.Int64 }

func (c *Clock) Tick() int64 { return c.n.Add(1) }
func (c *Clock) Now() int64  { return c.n.Load() }

type Dir int

const (
	C2S Dir = iota // client -> broker
	S2C            // broker -> client
)

func (d Dir) String() string {
	if d == C2S {
		return "c2s"
	}
	return "s2c"
}

// Mode is a failure mode of a link.
type Mode int

const (
	Healthy   Mode = iota
	Sever          // reads and writes fail
	WFail          // client writes fail, client reads block
	REOF           // client reads fail, client writes succeed into the void
	Blackhole      // nothing fails, nothing is delivered
)

func (m Mode) String() string {
	return [...]string{"healthy", "sever", "wfail", "reof", "blackhole"}[m]
}

// Trigger kills a link at a message boundary.
type Trigger struct {
	Dir     Dir    `json:"dir"`
	Class   string `json:"class"`   // message type name without package, e.g. "UpstreamChunk"; "" = any
	Ordinal int    `json:"ordinal"` // 1-based count of messages of that class in that direction on the link
	After   bool   `json:"after"`   // false: the message itself is not transferred; true: it is, then the link dies
	Mode    Mode   `json:"mode"`
	Link    int    `json:"link"` // incarnation the trigger applies to (1-based); 0 = whichever link is current when armed
	fired   bool
}

// Record is one entry of a link's transport-boundary log.
type Record struct {
	T       int64           `json:"t"`
	Link    int             `json:"link"`
	Dir     Dir             `json:"dir"`
	Idx     int             `json:"idx"` // per link and direction
	Class   string          `json:"class"`
	Msg     message.Message `json:"-"`
	OK      bool            `json:"ok"`      // c2s: Write returned nil; s2c: Read returned the message
	Reached bool            `json:"reached"` // c2s: the message was put on the broker's queue
	Unrel   bool            `json:"unrel"`
	VT      time.Time       `json:"-"` // time.Now() at the record (virtual inside a bubble)
}

type queue struct {
	mu     sync.Mutex
	items  [][]byte
	signal chan struct{}
}

func newQueue() *queue { return &queue{signal: make(chan struct{}, 1)} }

func (q *queue) push(b []byte) {
	q.mu.Lock()
	q.items = append(q.items, b)
	q.mu.Unlock()
	select {
	case q.signal <- struct{}{}:
	default:
	}
}

func (q *queue) pop() ([]byte, bool) {
	q.mu.Lock()
	defer q.mu.Unlock()
	if len(q.items) == 0 {
		return nil, false
	}
	b := q.items[0]
	q.items = q.items[1:]
	if len(q.items) > 0 {
		select {
		case q.signal <- struct{}{}:
		default:
		}
	}
	return b, true
}

func (q *queue) len() int {
	q.mu.Lock()
	defer q.mu.Unlock()
	return len(q.items)
}

// Net is the network of one scenario.
type Net struct {
	Clock *Clock
	Enc   encoding.Encoding // how to classify/decode frames for the log; chosen per dial from DialConfig if nil
	// WithUnreliable gives every link a second (datagram) pipe returned by AsUnreliable().
	WithUnreliable bool

	mu        sync.Mutex
	links     []*Link
	dialFail  int           // the next n dials fail
	dialDelay time.Duration // every dial sleeps this long first (virtual time inside a bubble)
	dialHook  func(n int, cfg transport.DialConfig) error
	accept    chan *Link
	triggers  []*Trigger
	dials     int
	dialVT    []time.Time
	// WriteDelay, when set before the first dial, stretches client writes: pre is slept before the message is put on
	// the wire (the caller is inside transport.Write and has not written yet), post after it is on the wire and
	// before Write returns. Inside a bubble both are virtual. They widen windows between a sender's checks and its
	// write without creating schedules the transport could not produce (a write may take arbitrarily long).
	WriteDelay func(class string) (pre, post time.Duration)
	// TransientWriteError, when set, is asked for every client write: returning true makes that single Write fail with an
	// error while the link stays healthy (a multi-path or reconnecting transport switching links reports such errors).
	TransientWriteError func(class string, ordinalOfClass int) bool
	// CloseFails makes Close return an error after it has closed the transport: "broken" = on a broken link only,
	// "always" = every time (a silent peer never completes a closing handshake).
	CloseFails string
	// DialStacks holds the stack of every dial attempt when DebugDial is set (development aid).
	DebugDial  bool
	DialStacks []string
	closed     bool
}

func New(clock *Clock) *Net {
	if clock == nil {
		clock = &Clock{}
	}
	return &Net{Clock: clock, accept: make(chan *Link, 1024)}
}

// Accept returns the channel on which new links are announced to the broker.
func (n *Net) Accept() <-chan *Link { return n.accept }

// FailNextDials makes the next k dials return an error.
func (n *Net) FailNextDials(k int) { n.mu.Lock(); n.dialFail = k; n.mu.Unlock() }

// SetDialDelay makes every dial sleep d first.
func (n *Net) SetDialDelay(d time.Duration) { n.mu.Lock(); n.dialDelay = d; n.mu.Unlock() }

// SetDialHook installs a function consulted on every dial (after the failure counter); an error fails the dial.
func (n *Net) SetDialHook(f func(n int, cfg transport.DialConfig) error) {
	n.mu.Lock()
	n.dialHook = f
	n.mu.Unlock()
}

// Arm adds a trigger.
func (n *Net) Arm(t Trigger) {
	n.mu.Lock()
	tt := t
	n.triggers = append(n.triggers, &tt)
	n.mu.Unlock()
}

// DisarmAll marks every trigger that has not fired yet as spent.
func (n *Net) DisarmAll() {
	n.mu.Lock()
	for _, t := range n.triggers {
		t.fired = true
	}
	n.mu.Unlock()
}

// Dials returns the number of dial attempts so far.
func (n *Net) Dials() int { n.mu.Lock(); defer n.mu.Unlock(); return n.dials }

// DialTimes returns time.Now() (virtual inside a bubble) at the start of every dial attempt.
func (n *Net) DialTimes() []time.Time {
	n.mu.Lock()
	defer n.mu.Unlock()
	return append([]time.Time(nil), n.dialVT...)
}

// Links returns all links created so far.
func (n *Net) Links() []*Link {
	n.mu.Lock()
	defer n.mu.Unlock()
	return append([]*Link(nil), n.links...)
}

// Current returns the newest link (nil before the first dial).
func (n *Net) Current() *Link {
	n.mu.Lock()
	defer n.mu.Unlock()
	if len(n.links) == 0 {
		return nil
	}
	return n.links[len(n.links)-1]
}

// Shutdown fails every link and every later dial (end of scenario).
func (n *Net) Shutdown() {
	n.mu.Lock()
	n.closed = true
	ls := append([]*Link(nil), n.links...)
	n.mu.Unlock()
	for _, l := range ls {
		l.Fail(Sever)
	}
}

var ErrDial = fmt.Errorf("memnet: dial refused: %w", errors.ErrConnectionClosed)

// Dialer returns a transport.Dialer for this network.
func (n *Net) Dialer() transport.Dialer {
	return transport.DialerFunc(func(cfg transport.DialConfig) (transport.Transport, error) {
		n.mu.Lock()
		n.dials++
		n.dialVT = append(n.dialVT, time.Now())
		if n.DebugDial {
			n.DialStacks = append(n.DialStacks, string(debug.Stack()))
		}
		dn := n.dials
		delay := n.dialDelay
		hook := n.dialHook
		n.mu.Unlock()
		if delay > 0 {
			time.Sleep(delay)
		}
		n.mu.Lock()
		if n.closed {
			n.mu.Unlock()
			return nil, ErrDial
		}
		if n.dialFail > 0 {
			n.dialFail--
			n.mu.Unlock()
			return nil, ErrDial
		}
		n.mu.Unlock()
		if hook != nil {
			if err := hook(dn, cfg); err != nil {
				return nil, err
			}
		}
		enc := n.Enc
		if enc == nil {
			if cfg.EncodingName == transport.EncodingNameJSON {
				enc = ejson.NewEncoding()
			} else {
				enc = protobuf.NewEncoding()
			}
		}
		n.mu.Lock()
		l := &Link{net: n, ID: len(n.links) + 1, enc: enc, cfg: cfg, c2s: newQueue(), s2c: newQueue(),
			uc2s: newQueue(), us2c: newQueue(), localClosed: make(chan struct{}), failed: make(chan struct{}), DialedAt: n.Clock.Tick()}
		n.links = append(n.links, l)
		n.mu.Unlock()
		n.accept <- l
		return &Conn{l: l}, nil
	})
}

// Link is one incarnation of the connection between client and broker.
type Link struct {
	net *Net
	ID  int
	enc encoding.Encoding
	cfg transport.DialConfig

	c2s, s2c   *queue
	uc2s, us2c *queue // datagram pipe

	mu          sync.Mutex
	mode        Mode
	localClosed chan struct{} // client called Close
	failed      chan struct{} // closed when mode != Healthy
	closeOnce   sync.Once
	failOnce    sync.Once
	log         []Record
	cnt         map[string]int
	wIdx, rIdx  int
	DialedAt    int64
	FailedAt    int64
	FailedVT    time.Time // wall/virtual time of the failure (zero while healthy)
	ClosedAt    int64
	rx, tx      atomic.Uint64
}

func (l *Link) Encoding() encoding.Encoding      { return l.enc }
func (l *Link) DialConfig() transport.DialConfig { return l.cfg }

// Mode returns the link's failure mode.
func (l *Link) Mode() Mode { l.mu.Lock(); defer l.mu.Unlock(); return l.mode }

// Dead reports whether the link has failed or was closed by the client.
func (l *Link) Dead() bool {
	select {
	case <-l.failed:
		return true
	case <-l.localClosed:
		return true
	default:
		return false
	}
}

// FailedCh is closed when the link fails; ClosedCh when the client closes it.
func (l *Link) FailedCh() <-chan struct{} { return l.failed }
func (l *Link) ClosedCh() <-chan struct{} { return l.localClosed }

// Fail puts the link into a failure mode (idempotent: the first mode wins).
func (l *Link) Fail(m Mode) {
	l.failOnce.Do(func() {
		l.mu.Lock()
		l.mode = m
		l.FailedAt = l.net.Clock.Tick()
		l.FailedVT = time.Now()
		l.mu.Unlock()
		close(l.failed)
	})
}

// FailedTime returns the time of the failure (zero while healthy).
func (l *Link) FailedTime() time.Time {
	l.mu.Lock()
	defer l.mu.Unlock()
	return l.FailedVT
}

// Log returns a copy of the transport-boundary log.
func (l *Link) Log() []Record {
	l.mu.Lock()
	defer l.mu.Unlock()
	return append([]Record(nil), l.log...)
}

func className(m message.Message) string {
	s := fmt.Sprintf("%T", m)
	for i := len(s) - 1; i >= 0; i-- {
		if s[i] == '.' {
			return s[i+1:]
		}
	}
	return s
}

func (l *Link) decode(b []byte) (message.Message, string) {
	_, m, err := l.enc.DecodeFrom(bytes.NewReader(b))
	if err != nil || m == nil {
		return nil, "undecodable"
	}
	return m, className(m)
}

// matchTrigger returns the trigger that fires for the ord-th message of class cl in direction d on this link.
func (l *Link) matchTrigger(d Dir, cl string, ord, ordAny int) *Trigger {
	l.net.mu.Lock()
	defer l.net.mu.Unlock()
	for _, t := range l.net.triggers {
		if t.fired || t.Dir != d {
			continue
		}
		if t.Link != 0 && t.Link != l.ID {
			continue
		}
		if t.Class == "" {
			if t.Ordinal != ordAny {
				continue
			}
		} else if t.Class != cl || t.Ordinal != ord {
			continue
		}
		t.fired = true
		if t.Link == 0 {
			t.Link = l.ID
		}
		return t
	}
	return nil
}

func (l *Link) bump(d Dir, cl string) (int, int) {
	if l.cnt == nil {
		l.cnt = map[string]int{}
	}
	k := d.String() + "/" + cl
	l.cnt[k]++
	l.cnt[d.String()+"/*"]++
	return l.cnt[k], l.cnt[d.String()+"/*"]
}

// Inject delivers a broker message to the client (broker side Write). It returns false if the link is dead.
func (l *Link) Inject(b []byte, unrel bool) bool {
	if l.Dead() {
		return false
	}
	if unrel {
		l.us2c.push(b)
	} else {
		l.s2c.push(b)
	}
	return true
}

// Recv blocks until the next client message reaches the broker or the link dies (ok=false).
func (l *Link) Recv() (b []byte, unrel bool, ok bool) {
	for {
		if b, ok := l.c2s.pop(); ok {
			return b, false, true
		}
		if b, ok := l.uc2s.pop(); ok {
			return b, true, true
		}
		select {
		case <-l.failed:
			// drain what was accepted before the failure
			if b, ok := l.c2s.pop(); ok {
				return b, false, true
			}
			if b, ok := l.uc2s.pop(); ok {
				return b, true, true
			}
			return nil, false, false
		case <-l.localClosed:
			if b, ok := l.c2s.pop(); ok {
				return b, false, true
			}
			if b, ok := l.uc2s.pop(); ok {
				return b, true, true
			}
			return nil, false, false
		case <-l.c2s.signal:
		case <-l.uc2s.signal:
		}
	}
}

// Conn is the client end of a link; it implements transport.Transport and transport.Closer.
type Conn struct {
	l *Link
}

var (
	_ transport.Transport = (*Conn)(nil)
	_ transport.Closer    = (*Conn)(nil)
)

func errDown(what string) error {
	return fmt.Errorf("memnet: %s on a broken link: %w", what, errors.ErrConnectionClosed)
}

func (c *Conn) write(b []byte, unrel bool) error {
	l := c.l
	select {
	case <-l.localClosed:
		return transport.ErrAlreadyClosed
	default:
	}
	m, cl := l.decode(b)
	var post time.Duration
	if f := l.net.WriteDelay; f != nil {
		var pre time.Duration
		pre, post = f(cl)
		if pre > 0 {
			time.Sleep(pre)
			select {
			case <-l.localClosed:
				return transport.ErrAlreadyClosed
			default:
			}
		}
	}
	l.mu.Lock()
	mode := l.mode
	ord, ordAny := l.bump(C2S, cl)
	l.wIdx++
	idx := l.wIdx
	l.mu.Unlock()
	rec := Record{Link: l.ID, Dir: C2S, Idx: idx, Class: cl, Msg: m, Unrel: unrel, VT: time.Now()}
	finish := func(ok, reached bool, err error) error {
		rec.OK, rec.Reached = ok, reached
		rec.T = l.net.Clock.Tick()
		l.mu.Lock()
		l.log = append(l.log, rec)
		l.mu.Unlock()
		if post > 0 {
			time.Sleep(post)
		}
		return err
	}
	switch mode {
	case Sever, WFail:
		return finish(false, false, errDown("write"))
	case REOF, Blackhole:
		return finish(true, false, nil)
	}
	if f := l.net.TransientWriteError; f != nil && f(cl, ord) {
		return finish(false, false, fmt.Errorf("memnet: transient write error (the link stays up)"))
	}
	if t := l.matchTrigger(C2S, cl, ord, ordAny); t != nil {
		if !t.After {
			l.Fail(t.Mode)
			switch t.Mode {
			case Sever, WFail:
				return finish(false, false, errDown("write"))
			default:
				return finish(true, false, nil)
			}
		}
		// after: deliver, then fail
		if unrel {
			l.uc2s.push(b)
		} else {
			l.c2s.push(b)
		}
		l.tx.Add(uint64(len(b)))
		err := finish(true, true, nil)
		l.Fail(t.Mode)
		return err
	}
	if unrel {
		l.uc2s.push(b)
	} else {
		l.c2s.push(b)
	}
	l.tx.Add(uint64(len(b)))
	return finish(true, true, nil)
}

func (c *Conn) read(unrel bool) ([]byte, error) {
	l := c.l
	q := l.s2c
	if unrel {
		q = l.us2c
	}
	for {
		select {
		case <-l.localClosed:
			return nil, transport.ErrAlreadyClosed
		default:
		}
		l.mu.Lock()
		mode := l.mode
		l.mu.Unlock()
		switch mode {
		case Sever, REOF:
			if unrel {
				return nil, errDown("read")
			}
			return nil, io.EOF
		case WFail, Blackhole:
			// reads block until the client closes the transport
			<-l.localClosed
			return nil, transport.ErrAlreadyClosed
		}
		if b, ok := q.pop(); ok {
			m, cl := l.decode(b)
			l.mu.Lock()
			ord, ordAny := l.bump(S2C, cl)
			l.rIdx++
			idx := l.rIdx
			l.mu.Unlock()
			rec := Record{Link: l.ID, Dir: S2C, Idx: idx, Class: cl, Msg: m, Unrel: unrel, VT: time.Now()}
			t := l.matchTrigger(S2C, cl, ord, ordAny)
			if t != nil && !t.After {
				rec.T = l.net.Clock.Tick()
				l.mu.Lock()
				l.log = append(l.log, rec)
				l.mu.Unlock()
				l.Fail(t.Mode)
				continue
			}
			rec.OK, rec.Reached = true, true
			rec.T = l.net.Clock.Tick()
			l.mu.Lock()
			l.log = append(l.log, rec)
			l.mu.Unlock()
			l.rx.Add(uint64(len(b)))
			if t != nil {
				l.Fail(t.Mode)
			}
			return b, nil
		}
		select {
		case <-q.signal:
		case <-l.failed:
		case <-l.localClosed:
		}
	}
}

func (c *Conn) Read() ([]byte, error)       { return c.read(false) }
func (c *Conn) Write(b []byte) error        { return c.write(b, false) }
func (c *Conn) RxBytesCounterValue() uint64 { return c.l.rx.Load() }
func (c *Conn) TxBytesCounterValue() uint64 { return c.l.tx.Load() }
func (c *Conn) Name() transport.Name        { return transport.Name("memnet") }

func (c *Conn) Close() error {
	c.l.closeOnce.Do(func() {
		c.l.mu.Lock()
		c.l.ClosedAt = c.l.net.Clock.Tick()
		c.l.mu.Unlock()
		close(c.l.localClosed)
	})
	// CloseFails: the transport is closed, but Close reports an error when the link is already broken - what real
	// transports do for a dead peer (a closing handshake cannot complete, a second Close reports already-closed).
	switch c.l.net.CloseFails {
	case "always":
		return fmt.Errorf("memnet: closing handshake failed")
	case "broken":
		c.l.mu.Lock()
		broken := c.l.mode != Healthy
		c.l.mu.Unlock()
		if broken {
			return fmt.Errorf("memnet: closing handshake failed on a broken link")
		}
	}
	return nil
}

func (c *Conn) CloseWithStatus(transport.CloseStatus) error { return c.Close() }

func (c *Conn) NegotiationParams() transport.NegotiationParams {
	return c.l.cfg.NegotiationParams()
}

func (c *Conn) AsUnreliable() (transport.UnreliableTransport, bool) {
	if !c.l.net.WithUnreliable {
		return nil, false
	}
	return &uconn{c}, true
}

// Link returns the link of a client connection (for tests).
func (c *Conn) Link() *Link { return c.l }

type uconn struct{ c *Conn }

func (u *uconn) Read() ([]byte, error)       { return u.c.read(true) }
func (u *uconn) Write(b []byte) error        { return u.c.write(b, true) }
func (u *uconn) Close() error                { return u.c.Close() }
func (u *uconn) RxBytesCounterValue() uint64 { return 0 }
func (u *uconn) TxBytesCounterValue() uint64 { return 0 }
func (u *uconn) IsUnreliable()               {}
