// C02 - reliable upstream loses no data across disconnect and resume (virtual time, fault enumeration).
package c02

import (
	"fmt"
	"math/rand"
	"testing"
	"testing/synctest"
	"time"

	"verif/harness/memnet"
	"verif/harness/reconlib"
	"verif/harness/uplib"
	"verif/harness/vrun"
)

var positions = []struct {
	dir   memnet.Dir
	class string
}{
	{memnet.C2S, "UpstreamChunk"}, {memnet.S2C, "UpstreamChunkAck"}, {memnet.C2S, "Ping"}, {memnet.S2C, "Pong"},
}

func genFault(r *rand.Rand, first bool) reconlib.Fault {
	p := positions[r.Intn(len(positions))]
	f := reconlib.Fault{Trigger: memnet.Trigger{Dir: p.dir, Class: p.class, Ordinal: 1 + r.Intn(5), After: r.Intn(2) == 0,
		Mode: []memnet.Mode{memnet.Sever, memnet.WFail, memnet.REOF, memnet.Blackhole}[r.Intn(4)]}}
	switch r.Intn(5) {
	case 1:
		f.DialDelayMs = 1
	case 2:
		f.DialDelayMs = 3000
	case 3:
		f.DialErrors = 1 + r.Intn(2)
	}
	switch r.Intn(5) {
	case 0:
		f.ResumeConflicts = 1
	case 1:
		f.ResumeConflicts = 3
	}
	if r.Intn(8) == 0 {
		f.NextLink = []memnet.Trigger{{Dir: memnet.S2C, Class: "UpstreamResumeResponse", Ordinal: 1, After: r.Intn(2) == 0, Mode: memnet.Sever}}
	}
	if r.Intn(8) == 0 {
		f.NextLink = []memnet.Trigger{{Dir: memnet.C2S, Class: "UpstreamChunk", Ordinal: 1 + r.Intn(3), After: r.Intn(2) == 0, Mode: memnet.Sever}}
	}
	return f
}

func gen(r *rand.Rand) reconlib.Scenario {
	s := reconlib.Scenario{PingMs: 200, WritesB: 3, DuringWrites: 3, AckHoldMod: []int{0, 2, 3}[r.Intn(3)]}
	s.Storage = []string{"library-default", "library-default", "payload"}[r.Intn(3)]
	s.Ups = append(s.Ups, reconlib.UpSpec{QoS: "reliable", Flush: []string{"immediate", "size64"}[r.Intn(2)], Writes: 3 + r.Intn(10)})
	for i := r.Intn(3); i > 0; i-- {
		s.Ups = append(s.Ups, reconlib.UpSpec{QoS: []string{"unreliable", "partial", "reliable"}[r.Intn(3)], Flush: "immediate", Writes: 4})
	}
	nf := []int{1, 1, 2, 3}[r.Intn(4)]
	for i := 0; i < nf; i++ {
		s.Faults = append(s.Faults, genFault(r, i == 0))
	}
	return s
}

// decorate adds the logger delays and the directed combination to a generated scenario.
func decorate(r *rand.Rand, index int, s reconlib.Scenario) reconlib.Scenario {
	if r.Intn(3) == 0 {
		// the application's logger blocks for a while at one step of the reconnect / resume procedure
		s.SlowLog = reconlib.SlowLogSites[r.Intn(len(reconlib.SlowLogSites))]
		s.SlowLogMs = []int{300, 3000, 10000}[r.Intn(3)]
	}
	if index%8 == 7 {
		// directed combination: the retry's link dies right after the stream's resume response and the supervisor is
		// held up in its "resumed" log call until the next connection is already there (a complete outage passes
		// between the resume and the restart of the stream's loops)
		f := &s.Faults[0]
		f.NextLink = []memnet.Trigger{{Dir: memnet.S2C, Class: "UpstreamResumeResponse", Ordinal: 1, After: true, Mode: []memnet.Mode{memnet.Sever, memnet.REOF}[r.Intn(2)]}}
		f.CutResumeOf, f.RefuseResumeOf = 0, 0
		s.SlowLog, s.SlowLogMs = "Succeeded in resuming upstream", 10000
	}
	if r.Intn(4) == 0 {
		// an ack timeout is configured (1.5 s, far above the 0.4 s the keepalive needs to notice an outage) and the broker
		// acknowledges promptly: only an outage delays acks, and an outage is not an ack timeout
		s.Ups[0].AckTimeoutMs = 1500
		s.AckHoldMod = 0
		s.Faults[0].DialDelayMs = 3000
	}
	if r.Intn(4) == 0 {
		s.CloseFails = "broken" // closing a transport whose link is already broken reports an error
	}
	plain := len(s.Faults) == 1 && s.SlowLog == ""
	for _, f := range s.Faults {
		if len(f.NextLink) > 0 || f.CutResumeOf > 0 || f.RefuseResumeOf > 0 {
			plain = false // every further silent failure would add a full minute of detection time to the history
		}
	}
	if r.Intn(5) == 0 && plain {
		// slow keepalive: unless the transport reports the failure itself, a request of the application is the first to
		// notice the outage (the stream still has to be resumed on the connection that request brings about)
		s.PingMs = 30000
		s.OutageCalls = []string{"metadata"}
		for i := range s.Ups {
			// an ack timeout is only configured where an outage is noticed well inside it (see above); with a 30 s
			// keepalive a black-holed link delays acks beyond it, and giving up on a chunk after the configured
			// ack timeout is what that option means
			s.Ups[i].AckTimeoutMs = 0
		}
	}
	if r.Intn(3) == 0 {
		s.AliasFromZero = true // stream alias 0 is in use on every connection
	}
	return s
}

func judge(o *reconlib.Outcome) vrun.Result {
	s := o.S
	if len(o.Ups) != len(s.Ups) {
		return vrun.Inconcl("streams could not be opened: " + fmt.Sprint(o.Notes))
	}
	if o.FaultsFired == 0 {
		r := vrun.Hold("nofault", false)
		r.Note = "fault position never reached"
		return r
	}
	if !o.Recovered {
		return vrun.Inconcl("the connection did not recover (C05's subject): " + o.RecoverNote)
	}
	exempt := 0
	retransmitted := 0
	points := 0
	for i, u := range o.Ups {
		if u.Spec.QoS != "reliable" {
			continue
		}
		writes, _, acks, closed := u.Rec.Snapshot()
		reported := u.WriteStreamClosed
		for _, c := range closed {
			if c.Err != "" {
				reported = true
			}
		}
		opts := uplib.Opts{AllowRetransmit: true, RequireAll: true, CheckClose: u.CloseErr == ""}
		if reported {
			// the statement's exemption: points not yet acknowledged when the stream was reported closed are waived
			acked := map[uint32]bool{}
			for _, a := range acks {
				acked[a.SequenceNumber] = true
			}
			opts.RequireAll = false
			opts.CheckClose = false
			exempt++
		}
		st := u.State
		if f := uplib.CheckConservation(writes, &st, opts); f != nil {
			key := f.Key
			return vrun.Violation("reliable upstream: "+f.Clause, key+":storage="+s.Storage, map[string]any{"upstream": i, "detail": f.Detail, "storage": s.Storage, "links": o.Links, "resumes_on_links": u.State.Resumes, "close_err": u.CloseErr})
		}
		if !reported && u.CloseErr != "" {
			return vrun.Violation("reliable upstream: Close failed after the connection had recovered and the broker acknowledged everything", "close-failed-after-recovery", map[string]any{"upstream": i, "err": u.CloseErr})
		}
		bySeq, _ := uplib.BySeq(st.Chunks)
		for _, sc := range bySeq {
			if sc.N > 1 {
				retransmitted++
			}
			points += len(sc.Points)
		}
	}
	sig := fmt.Sprintf("%s|hold%d|ups%d|", s.Storage, s.AckHoldMod, len(s.Ups))
	for _, f := range s.Faults {
		sig += fmt.Sprintf("%s-%s-%s#%d-%v,", f.Trigger.Mode, f.Trigger.Dir, f.Trigger.Class, f.Trigger.Ordinal, f.Trigger.After)
	}
	r := vrun.Hold(sig, exempt == 0)
	r.Stat("faults_fired", int64(o.FaultsFired))
	r.Stat("chunks_received_more_than_once", int64(retransmitted))
	r.Stat("points_checked", int64(points))
	r.Stat("exempt_streams", int64(exempt))
	r.Stat("links", int64(o.Links))
	for _, f := range s.Faults {
		r.AddSet("fault_positions", fmt.Sprintf("%s/%s#%d/%v/%s", f.Trigger.Dir, f.Trigger.Class, f.Trigger.Ordinal, f.Trigger.After, f.Trigger.Mode))
	}
	return r
}

func TestC02NoLoss(t *testing.T) {
	e := vrun.LoadEnv()
	meta := vrun.Meta{Property: "C02", Workload: "TestC02NoLoss", Total: e.Pick(250, 60000),
		Rule: "virtual time: one reliable upstream (immediate or size flush, 3-12 chunks before the first failure, writes continuing during and after every outage) plus 0-2 bystander upstreams of any QoS; the broker withholds the acks of every 2nd/3rd chunk (or none) until recovery, so a chosen subset is unacknowledged at each failure; 1-3 transport failures at message boundaries (before/after the n-th chunk, ack, ping, pong) in 4 failure modes, redial instant/1ms/3s/after dial errors, resume conflicts 0/1/3, optionally a further cut right after the resume response or at the n-th retransmitted chunk; library-default sent storage in 2 of 3 cases; in a quarter of the cases an ack timeout of 1.5 s is configured, acks are prompt and the first redial takes 3 s; in a third of the cases the application's logger blocks 0.3-10 s at one step of the reconnect / resume procedure. Oracle over the union of chunks the broker received on all link incarnations: per sequence number one content, per point one sequence number, every accepted point present with its payload hash (unless the stream was reported closed: exempt, counted separately), close totals = written. non-trivial = a fault fired and the stream was not exempt; distinct = (storage, ack withholding, stream mix, fault positions)",
		Assumptions: []string{"bounded progress: all obligations must be met after a cooperative broker has acknowledged everything and 20 further virtual seconds have passed",
			"'received by the broker' is judged at the broker side of the transport for messages whose transport Write returned nil"}}
	vrun.Loop(t, meta, 0, func(c *vrun.Case) vrun.Result {
		s := gen(c.Rng)
		s = decorate(c.Rng, c.Index, s)
		var res vrun.Result
		ok, dump := vrun.Watchdog(120*time.Second, func() {
			func() {
				defer func() {
					if r := recover(); r != nil {
						if res.Verdict == "" {
							res = vrun.Inconcl(fmt.Sprint("bubble aborted: ", r))
						} else if res.Note == "" {
							res.Note = fmt.Sprint("bubble end: ", r)
						}
					}
				}()
				synctest.Test(c.T, func(t *testing.T) { res = judge(reconlib.Run(s)) })
			}()
		})
		if !ok {
			res = vrun.Inconcl("real-time watchdog fired (bubble stalled)")
			res.Witness = map[string]any{"dump_head": dump[:min(len(dump), 3000)]}
		}
		res.Desc = s
		return res
	})
}

// TestC02Enumerate: the complete single-fault grid of one base scenario (fault enumeration proper).
func TestC02Enumerate(t *testing.T) {
	type pos struct {
		dir   memnet.Dir
		class string
		ord   int
		after bool
		mode  memnet.Mode
		hold  int
		store string
	}
	var grid []pos
	for _, hold := range []int{0, 2} {
		for _, store := range []string{"library-default", "payload"} {
			for _, p := range positions {
				maxOrd := 8
				if p.class == "Ping" || p.class == "Pong" {
					maxOrd = 3
				}
				for ord := 1; ord <= maxOrd; ord++ {
					for _, after := range []bool{false, true} {
						for _, mode := range []memnet.Mode{memnet.Sever, memnet.WFail, memnet.REOF, memnet.Blackhole} {
							grid = append(grid, pos{p.dir, p.class, ord, after, mode, hold, store})
						}
					}
				}
			}
		}
	}
	meta := vrun.Meta{Property: "C02", Workload: "TestC02Enumerate", Total: len(grid), Exhaustive: true,
		Rule:        "complete single-fault grid of one base scenario (one reliable upstream, immediate flush, 8 chunks before the failure, 3 during the outage, 3 after): failure before/after the n-th chunk (1-8), n-th ack (1-8), n-th ping or pong (1-3) x 4 failure modes x acks of every 2nd chunk withheld or not x library-default or payload-keeping storage; same oracle as TestC02NoLoss. non-trivial = the fault fired; all cases distinct",
		Assumptions: []string{"positions the base scenario does not reach (e.g. the 8th ack when acks are withheld) are reported as trivial"}}
	vrun.Loop(t, meta, 0, func(c *vrun.Case) vrun.Result {
		g := grid[c.Index]
		s := reconlib.Scenario{PingMs: 200, WritesB: 3, DuringWrites: 3, AckHoldMod: g.hold, Storage: g.store}
		s.Ups = []reconlib.UpSpec{{QoS: "reliable", Flush: "immediate", Writes: 8}}
		s.Faults = []reconlib.Fault{{Trigger: memnet.Trigger{Dir: g.dir, Class: g.class, Ordinal: g.ord, After: g.after, Mode: g.mode}}}
		var res vrun.Result
		ok, dump := vrun.Watchdog(120*time.Second, func() {
			func() {
				defer func() {
					if r := recover(); r != nil {
						if res.Verdict == "" {
							res = vrun.Inconcl(fmt.Sprint("bubble aborted: ", r))
						} else if res.Note == "" {
							res.Note = fmt.Sprint("bubble end: ", r)
						}
					}
				}()
				synctest.Test(c.T, func(t *testing.T) { res = judge(reconlib.Run(s)) })
			}()
		})
		if !ok {
			res = vrun.Inconcl("real-time watchdog fired (bubble stalled)")
			res.Witness = map[string]any{"dump_head": dump[:min(len(dump), 3000)]}
		}
		res.Desc = s
		return res
	})
}
