package c02

import (
	"fmt"
	"math/rand"
	"os"
	"testing"
	"testing/synctest"

	"github.com/aptpod/iscp-go/message"

	"verif/harness/memnet"
	"verif/harness/reconlib"
	"verif/harness/vrun"
)

// TestDebugTrace replays one generated case of TestC02NoLoss and prints the transport log (development aid;
// needs C02_CASE, optional C02_SEED).
func TestDebugTrace(t *testing.T) {
	if os.Getenv("C02_CASE") == "" {
		t.Skip()
	}
	var seed int64 = 1
	idx := 0
	fmt.Sscan(os.Getenv("C02_SEED"), &seed)
	fmt.Sscan(os.Getenv("C02_CASE"), &idx)
	r := rand.New(rand.NewSource(vrun.CaseSeed(seed, "TestC02NoLoss", idx)))
	s := gen(r)
	s = decorate(r, idx, s)
	for iter := 0; iter < 300; iter++ {
		hit := false
		fmt.Fprintln(os.Stderr, "ITER", iter)
		synctest.Test(t, func(t *testing.T) {
			o := reconlib.Run(s)
			res := judge(o)
			if res.Verdict != vrun.Violated && os.Getenv("C02_ANY") == "" {
				return
			}
			hit = true
			fmt.Println("verdict:", res.Verdict, res.FindingKey, "iteration", iter)
			for _, li := range o.LinkInfos {
				fmt.Printf("link %d mode=%s\n", li.ID, li.Mode)
				for _, rc := range li.Log {
					switch m := rc.Msg.(type) {
					case *message.UpstreamChunk:
						fmt.Printf("  %s chunk alias=%d seq=%d ok=%v reached=%v t=%s\n", rc.Dir, m.StreamIDAlias, m.StreamChunk.SequenceNumber, rc.OK, rc.Reached, rc.VT.Format("04:05.000"))
					case *message.UpstreamChunkAck:
						var seqs []uint32
						for _, x := range m.Results {
							seqs = append(seqs, x.SequenceNumber)
						}
						fmt.Printf("  %s ack alias=%d seqs=%v ok=%v t=%s\n", rc.Dir, m.StreamIDAlias, seqs, rc.OK, rc.VT.Format("04:05.000"))
					case *message.UpstreamResumeRequest:
						fmt.Printf("  %s resume-req stream=%s ok=%v t=%s\n", rc.Dir, m.StreamID.String()[:8], rc.OK, rc.VT.Format("04:05.000"))
					case *message.UpstreamResumeResponse:
						fmt.Printf("  %s resume-resp alias=%d code=%d ok=%v t=%s\n", rc.Dir, m.AssignedStreamIDAlias, m.ResultCode, rc.OK, rc.VT.Format("04:05.000"))
					case *message.ConnectRequest, *message.UpstreamCloseRequest:
						fmt.Printf("  %s %s ok=%v t=%s\n", rc.Dir, rc.Class, rc.OK, rc.VT.Format("04:05.000"))
					}
				}
			}
			_ = memnet.C2S
			if len(o.StorageHist) > 0 {
				for _, op := range o.StorageHist {
					fmt.Printf("storage %+v\n", op)
				}
			}
		})
		if hit {
			return
		}
	}
	fmt.Println("not reproduced in 300 iterations")
}
